// C07 (round 2) — sections that close whole classes the first-round sweep did not enumerate:
//   assign   : copy/move assignment, construction, swap, self-assignment between EVERY ordered pair of object states
//              (non-fresh destinations of equal / different dims, alpha mode, channel width; default-constructed; moved-from)
//   shapes   : histories of <= 3 (T: 4) operations on one object whose shape changes on the way (set_channel_width /
//              set_has_alpha back and forth, assignment into a used object, then drawing on the result)
//   calls    : every ordered pair A;B and triple A;B;A of calls from a boundary set of ~100 calls (all functions, overloads,
//              shapes) - state carried between calls (static caches, scratch buffers); plus every call in four execution contexts
//   text     : complete per-pixel model of draw_text (all five overloads, every string over a 9-character alphabet)
//   lines2   : uint32 / default-alpha overloads of the three line functions on rgb/rgba canvases of every channel width, huge dash lengths
//   bitmap   : BitmapImage (the monochrome canvas): pixel access, clear/invert/to_color/write_row, copies between every pair of sizes
#include <memory>

#include "C07_ops.hh"

namespace {

// ---------------------------------------------------------------------------------------------
// object states
struct Shape {
  int kind;  // 0 default-constructed, 1 constructed with dims, 2 moved-from
  int w, h;
  bool alpha;
  int cw;
};
vector<Shape> all_shapes(int smax) {
  vector<Shape> v;
  v.push_back({0, 0, 0, false, 8});
  for (int w = 0; w <= smax; w++)
    for (int h = 0; h <= smax; h++)
      for (int a = 0; a < 2; a++)
        for (int cw : {8, 16, 32, 64}) v.push_back({1, w, h, a != 0, cw});
  v.push_back({2, 2, 2, true, 16});
  return v;
}
string shape_name(const Shape& s) {
  if (s.kind == 0) return "default-constructed Image()";
  if (s.kind == 2) return "moved-from image";
  return vf::fmt("%dx%d %s %d-bit", s.w, s.h, s.alpha ? "rgba" : "rgb", s.cw);
}
// builds the object and the model of what it holds
std::unique_ptr<Image> build(const Shape& s, int salt, Model& m) {
  if (s.kind == 0) {
    m = Model();
    return std::make_unique<Image>();
  }
  Model pat = pattern(s.w, s.h, s.alpha, s.cw, salt);
  auto p = std::make_unique<Image>(make_image(pat));
  if (s.kind == 2) {
    Image sink(std::move(*p));
    m = model_of(*p);  // unspecified but must be self-consistent (dims describe the buffer)
  } else m = pat;
  return p;
}

// Uses the object the way a caller would and compares with the model; destroys the content.  "" = fine.
string exercise(Image& img, const Model& m) {
  if (!same(img, m)) return "holds " + model_of(img).dump() + ", expected " + m.dump();
  if (img.get_data_size() != m.raw_size()) return "get_data_size() does not match the dims";
  for (ll y = 0; y < m.h; y++)
    for (ll x = 0; x < m.w; x++) {
      uint64_t r = 1, g = 1, b = 1, a = 1;
      img.read_pixel(x, y, &r, &g, &b, &a);
      Px q = m.read(x, y);
      if (!(r == q.c[0] && g == q.c[1] && b == q.c[2] && a == q.c[3])) return vf::fmt("read_pixel(%lld,%lld) differs from the buffer (alpha/max_value %llx, expected %llx)", x, y, (unsigned long long)a, (unsigned long long)q.c[3]);
    }
  for (auto [x, y] : {std::pair<ll, ll>{m.w, 0}, {0, m.h}, {-1, 0}})
    if (vf::outcome([&] { img.read_pixel(x, y); }) != "out_of_range") return vf::fmt("read_pixel(%lld,%lld) outside the canvas does not throw out_of_range", x, y);
  {
    Image c(img);
    c.invert();
    Model want = m_invert(m);
    if (!same(c, want)) return "invert() of a copy gives " + model_of(c).dump() + ", model " + want.dump();
    if (!same(img, m)) return "inverting a copy changed the image";
  }
  {
    Model want = m;
    m_fill_rect(want, -1, -1, (ll)m.w + 2, (ll)m.h + 2, 0x11, 0x22, 0x33, 0xFF);
    string o = vf::outcome([&] { img.fill_rect(-1, -1, (ll)m.w + 2, (ll)m.h + 2, 0x11, 0x22, 0x33, 0xFF); });
    if (o != "ok") return "fill_rect over the whole canvas threw " + o;
    if (!same(img, want)) return "fill_rect over the whole canvas gives " + model_of(img).dump() + ", model " + want.dump();
    int nw = m.cw == 8 ? 16 : 8;
    img.set_channel_width(nw);
    want = m_set_width(want, nw);
    if (!same(img, want)) return vf::fmt("set_channel_width(%d) afterwards gives ", nw) + model_of(img).dump() + ", model " + want.dump();
  }
  return "";
}

}  // namespace

// =============================================================================================
VF_SECTION(assign, 16, 16, 120) {
  probe_invert_convention();
  r.note("copy/move/swap between object states");
  auto shapes = all_shapes(r.thorough() ? 4 : 3);
  const char* bname[6] = {"copy-assign", "move-assign", "swap", "copy-assign-and-back", "copy-assign-twice", "move-assign-and-back"};
  for (int op = 0; op < 6; op++)
    for (size_t di = 0; di < shapes.size(); di++)
      for (size_t si = 0; si < shapes.size(); si++) {
        if (!r.take()) continue;
        const Shape &ds = shapes[di], &ss = shapes[si];
        auto what = [&] { return string(bname[op]) + ": destination " + shape_name(ds) + ", source " + shape_name(ss); };
        if (r.wants_desc()) r.desc(what());
        if ((ds.w && ds.h) || (ss.w && ss.h)) r.nontriv();
        Model dm, sm;
        auto dst = build(ds, 0, dm);
        auto src = build(ss, 1, sm);
        string key = bname[op], bad, kind;
        r.poison_errno();
        string o = vf::outcome([&] {
          switch (op) {
            case 0: case 4: {
              const Image& ret = (*dst = *src);
              if (&ret != dst.get()) { kind = "wrong-return"; bad = "operator= does not return *this"; return; }
              if (op == 4) *dst = *src;
              if (!same(*src, sm)) { kind = "source-modified"; bad = "the source holds " + model_of(*src).dump() + " afterwards"; return; }
              if (!same(*dst, sm)) { kind = "copy-differs"; bad = "the destination holds " + model_of(*dst).dump() + ", source " + sm.dump(); return; }
              if (sm.raw_size() && dst->get_data() == src->get_data()) { kind = "not-deep"; bad = "both images share one buffer"; return; }
              string e = exercise(*dst, sm);  // mutates the copy heavily
              if (!e.empty()) { kind = "result-unusable"; bad = "the assigned image " + e; return; }
              if (!same(*src, sm)) { kind = "not-deep"; bad = "drawing on the copy changed the source: " + model_of(*src).dump(); return; }
              e = exercise(*src, sm);
              if (!e.empty()) { kind = "source-unusable"; bad = "the source " + e; return; }
              break;
            }
            case 1: case 5: {
              Image keep(*dst);
              Image& ret = (*dst = std::move(*src));
              if (&ret != dst.get()) { kind = "wrong-return"; bad = "operator= does not return *this"; return; }
              if (!same(*dst, sm)) { kind = "copy-differs"; bad = "the destination holds " + model_of(*dst).dump() + ", source was " + sm.dump(); return; }
              // the moved-from object: unspecified value, but it must describe its own buffer, be assignable and destructible
              Model left = model_of(*src);
              string e = exercise(*src, left);
              if (!e.empty()) { kind = "moved-from-unusable"; bad = "the moved-from source " + e; return; }
              if (op == 5) {
                *src = std::move(*dst);  // give it back
                *dst = std::move(keep);
                if (!same(*src, sm)) { kind = "copy-differs"; bad = "moved back, the source holds " + model_of(*src).dump() + ", expected " + sm.dump(); return; }
                if (!same(*dst, dm)) { kind = "copy-differs"; bad = "the destination restored from its copy holds " + model_of(*dst).dump() + ", expected " + dm.dump(); return; }
                e = exercise(*src, sm);
                if (!e.empty()) { kind = "result-unusable"; bad = "the image moved there and back " + e; return; }
                e = exercise(*dst, dm);
              } else e = exercise(*dst, sm);
              if (!e.empty()) { kind = "result-unusable"; bad = "the assigned image " + e; return; }
              break;
            }
            case 2: {
              std::swap(*dst, *src);
              if (!same(*dst, sm) || !same(*src, dm)) { kind = "copy-differs"; bad = "after the swap: " + model_of(*dst).dump() + " / " + model_of(*src).dump(); return; }
              string e = exercise(*dst, sm);
              if (e.empty()) e = exercise(*src, dm);
              if (!e.empty()) { kind = "result-unusable"; bad = "a swapped image " + e; return; }
              break;
            }
            case 3: {
              Image keep(*dst);
              *dst = *src;
              if (!same(*dst, sm)) { kind = "copy-differs"; bad = "the destination holds " + model_of(*dst).dump() + ", source " + sm.dump(); return; }
              *dst = keep;
              if (!same(*dst, dm)) { kind = "copy-differs"; bad = "assigned back, the destination holds " + model_of(*dst).dump() + ", expected " + dm.dump(); return; }
              if (!same(*src, sm) || !same(keep, dm)) { kind = "source-modified"; bad = "a source changed"; return; }
              string e = exercise(*dst, dm);
              if (!e.empty()) { kind = "result-unusable"; bad = "the image assigned there and back " + e; return; }
              if (!same(keep, dm) || !same(*src, sm)) { kind = "not-deep"; bad = "drawing on the destination changed one of its sources"; return; }
              break;
            }
          }
        });
        if (o != "ok") r.fail(key + ":throws", [&] { return what() + " threw " + o; });
        else if (!kind.empty()) r.fail(key + ":" + kind, [&] { return what() + ": " + bad; });
        else r.ok(ds.kind == 1 && ss.kind == 1 ? (ds.w == ss.w && ds.h == ss.h ? (ds.cw == ss.cw && ds.alpha == ss.alpha ? "same shape" : "same dims, other format") : "different dims") : "default-constructed / moved-from operand");
      }
  r.note("construction and self-assignment");
  const char* uname[8] = {"copy-construct", "move-construct", "self-copy-assign", "self-move-assign", "construct(w,h,alpha,width)", "copy-construct-then-destroy-original",
      "operator== / != (executed, not compared)", "set_channel_width(invalid width) (executed, not compared)"};
  for (int op = 0; op < 8; op++)
    for (size_t si = 0; si < shapes.size(); si++) {
      if (!r.take()) continue;
      const Shape& ss = shapes[si];
      auto what = [&] { return string(uname[op]) + " of " + shape_name(ss); };
      if (r.wants_desc()) r.desc(what());
      if (ss.w && ss.h) r.nontriv();
      Model sm;
      auto src = build(ss, 1, sm);
      string key = uname[op], bad, kind;
      r.poison_errno();
      string o = vf::outcome([&] {
        switch (op) {
          case 0: {
            Image c(*src);
            if (!same(c, sm)) { kind = "copy-differs"; bad = "the copy holds " + model_of(c).dump() + ", source " + sm.dump(); return; }
            string e = exercise(c, sm);
            if (!e.empty()) { kind = "result-unusable"; bad = "the copy " + e; return; }
            if (!same(*src, sm)) { kind = "not-deep"; bad = "drawing on the copy changed the source"; return; }
            break;
          }
          case 1: {
            Image c(std::move(*src));
            if (!same(c, sm)) { kind = "copy-differs"; bad = "the new image holds " + model_of(c).dump() + ", source was " + sm.dump(); return; }
            Model left = model_of(*src);
            string e = exercise(*src, left);
            if (!e.empty()) { kind = "moved-from-unusable"; bad = "the moved-from source " + e; return; }
            e = exercise(c, sm);
            if (!e.empty()) { kind = "result-unusable"; bad = "the new image " + e; return; }
            break;
          }
          case 2: {
            Image& alias = *src;
            *src = alias;
            if (!same(*src, sm)) { kind = "content-lost"; bad = "after img = img the image holds " + model_of(*src).dump() + ", before " + sm.dump(); return; }
            string e = exercise(*src, sm);
            if (!e.empty()) { kind = "result-unusable"; bad = "the image " + e; return; }
            break;
          }
          case 3: {
            Image& alias = *src;
            *src = std::move(alias);
            Model left = model_of(*src);  // unspecified value; must stay a usable object
            string e = exercise(*src, left);
            if (!e.empty()) { kind = "result-unusable"; bad = "the image " + e; return; }
            *src = make_image(sm);
            if (!same(*src, sm)) { kind = "result-unusable"; bad = "cannot be assigned afterwards"; return; }
            break;
          }
          case 4: {
            if (ss.kind != 1) return;
            Image f(ss.w, ss.h, ss.alpha, ss.cw);
            Model black(ss.w, ss.h, ss.alpha, ss.cw);
            if (!same(f, black)) { kind = "not-black"; bad = "a new image holds " + model_of(f).dump(); return; }
            string e = exercise(f, black);
            if (!e.empty()) { kind = "result-unusable"; bad = "the new image " + e; return; }
            break;
          }
          case 6: {  // equality is not part of the statement: executed for memory safety, results only recorded
            Image c(*src);
            bool eq = c == *src, ne = c != *src;
            Image other(1, 1, !ss.alpha, 8);
            bool eq2 = other == *src;
            r.hist[vf::fmt("copy == original: %d, copy != original: %d, 1x1 image of another format == original: %d", eq, ne, eq2)]++;
            if (!same(*src, sm)) { kind = "compare-modifies"; bad = "comparing changed the image"; return; }
            break;
          }
          case 7: {  // documented to throw runtime_error; only memory safety and "the image stays usable" are looked at
            for (int bad_width : {0, 1, 7, 24, 128}) {
              string o2 = vf::outcome([&] { src->set_channel_width(bad_width); });
              r.hist["set_channel_width(invalid): " + o2]++;
            }
            Model now = model_of(*src);
            string e = exercise(*src, now);
            if (!e.empty()) { kind = "result-unusable"; bad = "after the rejected call the image " + e; return; }
            break;
          }
          case 5: {
            auto c = std::make_unique<Image>(*src);
            src.reset();
            string e = exercise(*c, sm);
            if (!e.empty()) { kind = "not-deep"; bad = "after the original was destroyed the copy " + e; return; }
            break;
          }
        }
      });
      if (o != "ok") r.fail(key + ":throws", [&] { return what() + " threw " + o; });
      else if (!kind.empty()) r.fail(key + ":" + kind, [&] { return what() + ": " + bad; });
      else r.ok("construction/self-assignment");
    }
  r.bound = vf::fmt("%zu object states (default-constructed, every 0..%d x 0..%d x alpha x {8,16,32,64}, moved-from): all ordered (destination, source) pairs x {copy-assign, move-assign, swap, assign-and-back, "
                    "assign-twice, move-and-back}; per state copy/move construction, self copy/move assignment, fresh construction, copy outliving its original; every result read back through read_pixel, "
                    "inverted, filled and re-widthed against the model; operator==/!= and set_channel_width(invalid) executed", shapes.size(), r.thorough() ? 4 : 3, r.thorough() ? 4 : 3);
}

// =============================================================================================
// histories on one object whose shape changes
namespace {

vector<GOp> shape_alphabet() {
  vector<GOp> a;
  a.push_back(op_whole(3, 1));
  a.push_back(op_whole(3, 0));
  for (int cw : {8, 16, 32, 64}) a.push_back(op_whole(4, cw));
  a.push_back(op_whole(0));
  a.push_back(op_whole(1));
  a.push_back(op_whole(2));
  a.push_back(op_fill(-1, 1, 3, 2, 0x11, 0x22, 0x33, 0xFF, 2));
  a.push_back(op_pixel(0, 0, 0));
  a.push_back(op_line(1, 0, 1, 0, 0, 0xE1, 0xE2, 0xE3, 0xC0, 2));
  auto src = std::make_shared<BlitSrc>(pattern(2, 2, true, 8, 1), pattern(2, 2, false, 8, 2));
  a.push_back(op_blit(V_MASK_KEY, src, Call{1, 0, -1, -1, 0, 0}));
  a.push_back(op_assign(0, pattern(2, 1, true, 16, 1)));
  a.push_back(op_assign(1, pattern(1, 3, false, 8, 1)));
  a.push_back(op_whole(7));
  a.push_back(op_whole(9));
  TextArgs t;
  t.x = -2; t.y = -3; t.r = 1; t.g = 2; t.b = 3; t.a = 0xFF; t.br = 0xA0; t.bg = 0xB0; t.bb = 0xC0; t.ba = 0xFF; t.s = "j";
  a.push_back(op_text(3, t));
  a.push_back(op_assign(3, Model()));
  a.push_back(op_assign(4, Model()));
  return a;
}

}  // namespace

VF_SECTION(shapes, 16, 16, 120) {
  probe_invert_convention();
  r.note("shape-histories");
  auto alpha_ = shape_alphabet();
  int depth = r.thorough() ? 4 : 3, n = alpha_.size();
  uint64_t steps = 0;
  for (auto [W, H] : {std::pair<int, int>{0, 0}, {1, 2}, {3, 3}})
    for (int a = 0; a < 2; a++)
      for (int cw : {8, 16, 32, 64}) {
        Model start = pattern(W, H, a, cw, 0);
        for (int len = 1; len <= depth; len++) {
          vector<int> h(len, 0);
          for (;;) {
            if (r.take()) {
              auto hist = [&](size_t upto) { string s = shape_str(start) + " image " + start.dump() + ":"; for (size_t i = 0; i < upto; i++) s += " " + alpha_[h[i]].name + ";"; return s; };
              if (r.wants_desc()) r.desc("history " + hist(len));
              r.nontriv();
              Image img = make_image(start);
              Model m = start;
              string fk, detail;
              int i = 0;
              for (; i < len && fk.empty(); i++) {
                fk = run_step(alpha_[h[i]], img, m, detail);
                steps++;
              }
              if (!fk.empty()) r.fail("history:" + alpha_[h[i - 1]].key + ":" + fk, [&] { return hist(i) + " -> " + detail; });
              else r.ok("history=model");
            }
            int k = len - 1;
            while (k >= 0 && ++h[k] == n) h[k--] = 0;
            if (k < 0) break;
          }
        }
      }
  r.counters["history_steps_replayed"] = steps;
  r.bound = vf::fmt("all histories of 1..%d operations from a %d-letter alphabet (set_has_alpha on/off, set_channel_width 8/16/32/64, mirror h/v, invert, fill_rect(uint32), write_pixel, dashed line(uint32), "
                    "mask_blit, copy-assign / move-assign from images of another shape, clear(uint32), set_alpha_from_mask_color(uint32), draw_text, copy and move round trips) on one object, "
                    "starting from {0x0,1x2,3x3} x alpha x {8,16,32,64}; model compared after every step", depth, n);
}

// =============================================================================================
// call histories across functions and objects; execution contexts
namespace {

struct Atom {
  Model start;
  GOp op;
};

vector<Atom> make_atoms() {
  vector<Atom> v;
  Model S1 = pattern(3, 3, true, 8, 0), S2 = pattern(1, 2, false, 8, 0), S3 = pattern(2, 3, true, 16, 0), S4 = pattern(5, 4, false, 8, 0), S5 = pattern(2, 2, false, 64, 0), S6 = pattern(13, 17, true, 8, 0),
        S7 = pattern(13, 17, false, 8, 0);
  auto A = std::make_shared<BlitSrc>(pattern(2, 3, true, 8, 1), pattern(2, 3, false, 8, 2));
  auto B = std::make_shared<BlitSrc>(pattern(3, 1, false, 8, 1), pattern(4, 2, false, 8, 2));
  auto C = std::make_shared<BlitSrc>(pattern(2, 2, true, 16, 1), pattern(2, 2, false, 16, 2));
  for (int vv = 0; vv < NVARIANT; vv++) {
    v.push_back({S1, op_blit(vv, A, Call{1, -1, -1, -1, 0, 0})});
    v.push_back({S2, op_blit(vv, B, Call{-1, 0, 2, 2, 1, 0})});
  }
  for (int vv : BLIT_VARIANTS) v.push_back({S3, op_blit(vv, C, Call{0, 1, -1, -1, 0, 0})});
  v.push_back({S1, op_fill(-1, 1, 3, 2, 0x11, 0x22, 0x33, 0xFF, 0)});
  v.push_back({S4, op_fill(1, 1, 9, 9, 0xF0, 0x40, 0x08, 0x80, 0)});
  v.push_back({S2, op_fill(0, 0, 1, 2, 0x31, 0x32, 0x33, 0xFF, 1)});
  v.push_back({S1, op_fill(0, 0, 2, 2, 0xF0, 0x40, 0x08, 0x7F, 2)});
  v.push_back({S5, op_fill(-1, -1, 9, 9, 0x21, 0x32, 0x43, 0xFF, 2)});
  v.push_back({S1, op_line(0, 0, 0, 2, 2, 0xD1, 0xD2, 0xD3, 0xC0, 0)});
  v.push_back({S4, op_line(0, 4, 3, 0, 3, 0xD1, 0xD2, 0xD3, 0xC0, 2)});
  v.push_back({S4, op_line(0, 0, 0, 4, 3, 0xD1, 0xD2, 0xD3, 0xC0, 1)});
  v.push_back({S1, op_line(1, 0, 2, 1, 0, 0xE1, 0xE2, 0xE3, 0xC0, 0)});
  v.push_back({S4, op_line(1, 0, 4, 2, 2, 0xE1, 0xE2, 0xE3, 0xC0, 2)});
  v.push_back({S1, op_line(2, 2, 0, 2, 0, 0xE1, 0xE2, 0xE3, 0xC0, 1)});
  v.push_back({S4, op_line(2, 1, 0, 3, 1, 0xE1, 0xE2, 0xE3, 0xC0, 2)});
  v.push_back({S2, op_line(1, -1, 5, 0, 3, 0xE1, 0xE2, 0xE3, 0xC0, 0)});
  TextArgs t;
  t.r = 1; t.g = 2; t.b = 3; t.a = 0xFF; t.br = 0xA0; t.bg = 0xB0; t.bb = 0xC0; t.ba = 0xFF;
  t.x = 1; t.y = 1; t.s = "Aj\n1";
  v.push_back({S6, op_text(0, t)});
  t.x = -1; t.y = -2; t.s = "B";
  v.push_back({S1, op_text(4, t)});
  t.x = 0; t.y = -3; t.s = "\x80\r!"; t.ba = 0x80; t.a = 0x40;
  v.push_back({S4, op_text(3, t)});
  t.x = 2; t.y = 9; t.s = "x"; t.ba = 0;
  v.push_back({S7, op_text(1, t)});
  t.x = -1; t.y = 0; t.s = "A"; t.ba = 0xFF; t.a = 0xFF;
  v.push_back({S3, op_text(2, t)});
  t.x = 3; t.y = 2; t.s = "longer text\nsecond line";
  v.push_back({S6, op_text(5, t)});
  for (int f = 0; f < 6; f++) {
    v.push_back({S1, op_pixel(f, 1, 2)});
    v.push_back({S2, op_pixel(f, 1, 0)});  // outside: x == width
  }
  v.push_back({S3, op_pixel(3, 1, 2)});
  v.push_back({S5, op_pixel(0, 1, 1, 0x0102030405060708ull, 0x1112131415161718ull, 0x2122232425262728ull, 0x3132333435363738ull)});
  for (int k : {0, 1, 2, 5, 6, 7, 8, 9}) v.push_back({S1, op_whole(k)});
  v.push_back({S1, op_whole(3, 0)});
  v.push_back({S1, op_whole(3, 1)});
  v.push_back({S1, op_whole(4, 16)});
  v.push_back({S1, op_whole(4, 64)});
  v.push_back({S3, op_whole(0)});
  v.push_back({S3, op_whole(2)});
  v.push_back({S3, op_whole(4, 8)});
  v.push_back({S3, op_whole(3, 0)});
  v.push_back({S5, op_whole(4, 8)});
  v.push_back({S5, op_whole(2)});
  v.push_back({S5, op_whole(7)});
  v.push_back({S2, op_whole(3, 1)});
  v.push_back({S1, op_assign(0, S3)});
  v.push_back({S3, op_assign(1, S2)});
  v.push_back({S2, op_assign(2, S5)});
  v.push_back({S1, op_assign(3, Model())});
  v.push_back({S3, op_assign(4, Model())});
  return v;
}

// one call on a fresh object holding `start`
string run_atom(const Atom& a, string& detail, int ctx = 0) {
  Image img = make_image(a.start);
  Model m = a.start;
  return run_step(a.op, img, m, detail, ctx);
}
string atom_str(const Atom& a) { return "[" + shape_str(a.start) + " image]." + a.op.name; }

}  // namespace

VF_SECTION(calls, 16, 16, 120) {
  probe_invert_convention();
  auto atoms = make_atoms();
  size_t n = atoms.size();
  r.note("call-pairs");
  // A;B and A;B;A: every call is judged against the model on its own fresh object - a result may not depend on what was called before
  for (int triple = 0; triple < 2; triple++)
    for (size_t i = 0; i < n; i++)
      for (size_t j = 0; j < n; j++) {
        if (!r.take()) continue;
        if (r.wants_desc()) r.desc((triple ? "calls A;B;A: A = " : "calls A;B: A = ") + atom_str(atoms[i]) + ", B = " + atom_str(atoms[j]));
        r.nontriv();
        const Atom* seq[3] = {&atoms[i], &atoms[j], &atoms[i]};
        int len = triple ? 3 : 2;
        bool bad = false;
        for (int k = 0; k < len && !bad; k++) {
          string detail, prefix;
          for (int q = 0; q < k; q++) prefix += atom_str(*seq[q]) + "; ";
          g_ctx = k ? " [after: " + prefix + "]" : "";
          r.poison_errno();
          string fk = run_atom(*seq[k], detail);
          if (!fk.empty()) {
            bad = true;
            // ("call" = first call of this case; earlier cases of the same process may still have left state behind)
            r.fail(string(k ? "after-another-call:" : "call:") + seq[k]->op.key + ":" + fk, [&] { return (k ? "after " + prefix : string()) + atom_str(*seq[k]) + " -> " + detail; });
          }
        }
        g_ctx.clear();
        if (!bad) r.ok(triple ? "A;B;A all equal the model" : "A;B both equal the model");
      }
  r.note("execution-contexts");
  for (int ctx = 1; ctx < NCTX; ctx++)
    for (size_t i = 0; i < n; i++) {
      if (!r.take()) continue;
      if (r.wants_desc()) r.desc(atom_str(atoms[i]) + " " + ctx_name[ctx]);
      r.nontriv();
      string detail;
      g_ctx = string(" [") + ctx_name[ctx] + "]";
      r.poison_errno();
      string fk = run_atom(atoms[i], detail, ctx);
      g_ctx.clear();
      if (!fk.empty()) r.fail("in-context:" + atoms[i].op.key + ":" + fk, [&] { return atom_str(atoms[i]) + " " + ctx_name[ctx] + " -> " + detail; });
      else r.ok(string("context: ") + ctx_name[ctx]);
    }
  r.bound = vf::fmt("%zu boundary calls (13 blit variants on 2 shape pairs + 8 on 16-bit, fill_rect 3 forms, the 3 line functions x 3 forms, draw_text 6 forms, 6 pixel-access forms inside/outside, "
                    "whole-image operations on 8/16/64-bit, assignments): every ordered pair A;B and triple A;B;A, each call compared with the model; every call in 3 exception contexts "
                    "(catch handler, destructor during unwinding, handler that rethrows)", n);
}

// =============================================================================================
// draw_text against the per-pixel model
VF_SECTION(text, 16, 16, 180) {
  r.note("draw_text");
  const string alphabet = string("Aj \n\r\x7F\x80\xFF\x1F", 9);
  vector<string> strings;
  vf::all_strings(alphabet, r.thorough() ? 3 : 2, [&](const string& s) { strings.push_back(s); });
  vector<std::pair<int, int>> sizes = r.thorough() ? vector<std::pair<int, int>>{{0, 0}, {1, 1}, {6, 8}, {7, 9}, {13, 17}, {20, 5}} : vector<std::pair<int, int>>{{1, 1}, {6, 8}, {13, 17}};
  struct Bg { uint64_t fa, ba; const char* name; };
  const Bg bgs[3] = {{0xFF, 0xFF, "opaque background"}, {0x40, 0x80, "translucent background"}, {0xC0, 0x00, "no background"}};
  uint64_t cls[3] = {0, 0, 0};
  for (auto [W, H] : sizes)
    for (int alpha = 0; alpha < 2; alpha++)
      for (int cw : {8, 16, 32, 64}) {
        if (cw != 8 && !(W == 6 && H == 8)) continue;
        Model pat = pattern(W, H, alpha, cw, 0);
        Image img = make_image(pat);
        auto raw = pat.raw();
        const vector<ll> xs_t = {-12, -6, -5, -1, 0, 1, W - 1, W}, ys_t = {-16, -9, -8, -7, -1, 0, H - 1, H}, xs_q = {-6, -1, 0, W - 1}, ys_q = {-8, -7, -1, 0, H - 1, H};
        for (int form = 0; form < NTEXTFORMS; form++)
          for (int bi = 0; bi < 3; bi++) {
            if (form == 4 && bi != 2) continue;                   // that overload has no background argument
            if (!r.thorough() && bi != 0 && form != 1 && form != 3 && form != 4) continue;  // quick: translucent / no background through one 64-bit-colour and one packed overload
            if (cw != 8 && (bi == 1 || (bi == 2 && cw == 64))) continue;  // wide channels: opaque colours only (see assumptions)
            for (size_t si = 0; si < strings.size(); si++) {
              if (cw != 8 && strings[si].size() > 1) continue;
              // three-character strings (thorough): on the 6x8 and 13x17 rgba canvases, opaque background, one overload of each colour form
              bool len3 = strings[si].size() > 2;
              if (len3 && !(cw == 8 && alpha && (W == 6 || W == 13) && bi == 0 && (form == 1 || form == 3))) continue;
              const vector<ll>& xs = (len3 || !r.thorough()) ? xs_q : xs_t;
              const vector<ll>& ys = (len3 || !r.thorough()) ? ys_q : ys_t;
              for (ll x : xs)
                for (ll y : ys) {
                  if (!r.take()) continue;
                  TextArgs t;
                  t.x = x; t.y = y; t.r = 0x01; t.g = 0x02; t.b = 0x03; t.a = bgs[bi].fa; t.br = 0xA0; t.bg = 0xB0; t.bb = 0xC0; t.ba = bgs[bi].ba; t.s = strings[si];
                  auto what = [&] { return vf::fmt("%dx%d %s %d-bit canvas: ", W, H, alpha ? "rgba" : "rgb", cw) + text_str(form, t); };
                  if (r.wants_desc()) r.desc(what());
                  if (!t.s.empty()) r.nontriv();
                  if (!raw.empty()) memcpy(img.get_data(), raw.data(), raw.size());
                  ll ow = 0, oh = 0;
                  r.poison_errno();
                  string o = vf::outcome([&] { real_draw_text(img, form, t, &ow, &oh); });
                  if (o != "ok") { r.fail(o == "out_of_range" ? "draw_text:out_of_range-escapes" : "draw_text:throws", [&] { return what() + " threw " + o; }); continue; }
                  Model exp = pat;
                  m_draw_text(exp, t);
                  if (!same(img, exp)) {
                    Model after = model_of(img);
                    // classify: a pixel outside the text's cells changed / a cell pixel is wrong
                    r.fail(vf::fmt("draw_text/form%d:differs-from-model", form), [&] { return what() + ": before " + pat.dump() + ", after " + after.dump() + ", model " + exp.dump(); });
                    continue;
                  }
                  cls[exp.p == pat.p ? 0 : 1]++;
                  if ((form == 0 || form == 2) && (ow == -12345 || oh == -12345)) cls[2]++;
                }
            }
          }
      }
  if (cls[0]) r.hist["nothing visible"] += cls[0];
  if (cls[1]) r.hist["pixels painted = model"] += cls[1];
  if (cls[2]) r.hist["width/height outputs not written (not compared)"] += cls[2];
  r.bound = vf::fmt("canvases {%s} x alpha (8-bit; 6x8 also 16/32/64-bit with opaque colours) x 6 call forms (5 overloads + null width pointer) x {opaque, translucent, no} background x every string of <= %d characters (three-character strings on a reduced grid) over "
                    "{A, j, space, \\\\n, \\\\r, 0x7F, 0x80, 0xFF, 0x1F} x %s; whole buffer vs the per-pixel text model",
      r.thorough() ? "0x0,1x1,6x8,7x9,13x17,20x5" : "1x1,6x8,13x17", r.thorough() ? 3 : 2,
      r.thorough() ? "x in {-12,-6,-5,-1,0,1,W-1,W} x y in {-16,-9,-8,-7,-1,0,H-1,H}" : "x in {-6,-1,0,W-1} x y in {-8,-7,-1,0,H-1,H} (translucent / no background through two of the overloads)");
}

// =============================================================================================
// line overloads on every canvas format
VF_SECTION(lines2, 16, 16, 120) {
  r.note("line-overloads");
  int smax = r.thorough() ? 4 : 3;
  const ll DASH[7] = {0, 1, 2, 5, 1ll << 31, 1ll << 32, std::numeric_limits<ll>::max()};
  for (int W = 1; W <= smax; W++)
    for (int H = 1; H <= smax; H++)
      for (int alpha = 0; alpha < 2; alpha++)
        for (int cw : {8, 16, 32, 64}) {
          Model pat = pattern(W, H, alpha, cw, 0);
          for (int form = 1; form <= 2; form++) {
            auto run = [&](const GOp& op) {
              Image img = make_image(pat);
              Model m = pat;
              string detail;
              r.nontriv();
              r.poison_errno();
              string fk = run_step(op, img, m, detail);
              if (!fk.empty()) r.fail(op.key + ":" + fk, [&] { return "[" + shape_str(pat) + " image]." + op.name + " -> " + detail; });
              else r.ok(m.p == pat.p ? "nothing drawn" : "drawn = model (exact when inside and unambiguous, else subset in the line colour)");
            };
            for (ll x1 = -1; x1 <= W; x1++)
              for (ll y1 = -1; y1 <= H; y1++)
                for (ll x2 = -1; x2 <= W; x2++)
                  for (ll y2 = -1; y2 <= H; y2++) {
                    if (!r.take()) continue;
                    GOp op = op_line(0, x1, y1, x2, y2, 0xD1, 0xD2, 0xD3, 0xC4, form);
                    if (r.wants_desc()) r.desc("[" + shape_str(pat) + " image]." + op.name);
                    run(op);
                  }
            for (int vert = 0; vert < 2; vert++)
              for (ll a1 = -1; a1 <= (vert ? H : W); a1++)
                for (ll a2 = -1; a2 <= (vert ? H : W); a2++)
                  for (ll c = -1; c <= (vert ? W : H); c++)
                    for (ll dash : DASH) {
                      if (!r.take()) continue;
                      GOp op = vert ? op_line(2, c, a1, a2, dash, 0xE1, 0xE2, 0xE3, 0xC4, form) : op_line(1, a1, a2, c, dash, 0xE1, 0xE2, 0xE3, 0xC4, form);
                      if (r.wants_desc()) r.desc("[" + shape_str(pat) + " image]." + op.name);
                      run(op);
                    }
          }
        }
  r.bound = vf::fmt("canvases 1..%d x 1..%d x alpha x {8,16,32,64}: default-alpha and uint32 overloads of draw_line (every endpoint pair in [-1,size]^4) and of both axis lines "
                    "(every start,end,position in [-1,size]^3 x dash {0,1,2,5,2^31,2^32,2^63-1})", smax, smax);
}

// =============================================================================================
// resize_blit: no law in the statement (it interpolates, and it lets out_of_range escape when the destination rectangle
// leaves the canvas) - executed for memory safety, and for the one bound every blit has: only the requested rectangle changes.
VF_SECTION(resize, 8, 8, 120) {
  r.note("resize_blit");
  uint64_t cls[3] = {0, 0, 0};
  for (int si = 0; si < 2; si++)
    for (int alpha = 0; alpha < 2; alpha++) {
      Model dpat = pattern(3, 3, alpha, 8, 0), spat = si ? pattern(3, 1, alpha, 8, 1) : pattern(2, 2, !alpha, 8, 1);
      Image dimg = make_image(dpat), simg = make_image(spat);
      auto draw = dpat.raw();
      for (ll x = -1; x <= 3; x++)
        for (ll y = -1; y <= 3; y++)
          for (ll w = 0; w <= 4; w++)
            for (ll h = 0; h <= 4; h++)
              for (ll sx = 0; sx <= 1; sx++)
                for (ll sy = 0; sy <= 1; sy++)
                  for (ll sw : {-1, 1, 2, 3})
                    for (ll sh : {-1, 1, 2}) {
                      if (!r.take()) continue;
                      auto what = [&] { return vf::fmt("dest(3x3 %s).resize_blit(source %dx%d; x=%lld, y=%lld, w=%lld, h=%lld, sx=%lld, sy=%lld, sw=%lld, sh=%lld)", alpha ? "rgba" : "rgb", spat.w, spat.h, x, y, w, h, sx, sy, sw, sh); };
                      if (r.wants_desc()) r.desc(what());
                      if (w > 0 && h > 0) r.nontriv();
                      memcpy(dimg.get_data(), draw.data(), draw.size());
                      string o = vf::outcome([&] { dimg.resize_blit(simg, x, y, w, h, sx, sy, sw, sh); });
                      if (!same(simg, spat)) { r.fail("resize_blit:source-modified", what); continue; }
                      Model after = model_of(dimg);
                      bool stray = false;
                      for (ll py = 0; py < 3 && !stray; py++)
                        for (ll px = 0; px < 3 && !stray; px++)
                          if (!(after.at(px, py) == dpat.at(px, py)) && (px < x || px >= x + w || py < y || py >= y + h)) stray = true;
                      if (stray) { r.fail("resize_blit:touches-pixel-outside-rectangle", [&] { return what() + ": before " + dpat.dump() + ", after " + after.dump(); }); continue; }
                      cls[o == "ok" ? 0 : o == "out_of_range" ? 1 : 2]++;
                    }
    }
  if (cls[0]) r.hist["returned (interpolated colours not compared)"] += cls[0];
  if (cls[1]) r.hist["threw out_of_range (not judged: outside the statement)"] += cls[1];
  if (cls[2]) r.hist["threw another exception (not judged)"] += cls[2];
  r.bound = "resize_blit on a 3x3 canvas from 2x2 / 3x1 sources: x,y in [-1,3], w,h in [0,4], sx,sy in {0,1}, sw in {-1,1,2,3}, sh in {-1,1,2}: memory safety, source untouched, no pixel outside the requested rectangle changes";
}

// =============================================================================================
// BitmapImage, the monochrome canvas of Image.hh
namespace {

struct BM {
  size_t w = 0, h = 0;
  vector<uint8_t> bit;  // w*h
  bool at(size_t x, size_t y) const { return bit[y * w + x]; }
  size_t row_bytes() const { return (w + 7) / 8; }
  vector<uint8_t> raw() const {
    vector<uint8_t> v(row_bytes() * h, 0);
    for (size_t y = 0; y < h; y++)
      for (size_t x = 0; x < w; x++)
        if (at(x, y)) v[y * row_bytes() + x / 8] |= 0x80 >> (x & 7);
    return v;
  }
  string dump() const {
    string s = vf::fmt("%zux%zu [", w, h);
    for (size_t y = 0; y < h; y++) {
      for (size_t x = 0; x < w; x++) s += at(x, y) ? '#' : '.';
      if (y + 1 < h) s += '/';
    }
    return s + "]";
  }
};
BM bm_pattern(size_t w, size_t h, int salt) {
  BM m;
  m.w = w; m.h = h;
  m.bit.resize(w * h);
  for (size_t y = 0; y < h; y++)
    for (size_t x = 0; x < w; x++) m.bit[y * w + x] = ((x * 7 + y * 3 + salt) % 5) < 2;
  return m;
}
BitmapImage bm_make(const BM& m) {
  BitmapImage b(m.w, m.h);
  auto r = m.raw();
  if (b.get_data_size() != r.size()) throw std::logic_error("harness: unexpected BitmapImage::get_data_size()");
  if (!r.empty()) memcpy(b.get_data(), r.data(), r.size());
  return b;
}
// dims and every pixel (through the raw buffer, harness's own index arithmetic); padding bits are not compared
bool bm_same(const BitmapImage& b, const BM& m) {
  if (b.get_width() != m.w || b.get_height() != m.h) return false;
  if (b.get_data_size() != m.row_bytes() * m.h) return false;
  const uint8_t* d = (const uint8_t*)b.get_data();
  for (size_t y = 0; y < m.h; y++)
    for (size_t x = 0; x < m.w; x++)
      if (!!(d[y * m.row_bytes() + x / 8] & (0x80 >> (x & 7))) != m.at(x, y)) return false;
  return true;
}
BM bm_model_of(const BitmapImage& b) {
  BM m;
  m.w = b.get_width(); m.h = b.get_height();
  m.bit.resize(m.w * m.h);
  const uint8_t* d = (const uint8_t*)b.get_data();
  for (size_t y = 0; y < m.h; y++)
    for (size_t x = 0; x < m.w; x++) m.bit[y * m.w + x] = !!(d[y * m.row_bytes() + x / 8] & (0x80 >> (x & 7)));
  return m;
}
string bm_exercise(BitmapImage& b, const BM& m) {
  if (!bm_same(b, m)) return "holds " + bm_model_of(b).dump() + ", expected " + m.dump();
  for (size_t y = 0; y < m.h; y++)
    for (size_t x = 0; x < m.w; x++)
      if (b.read_pixel(x, y) != m.at(x, y)) return "read_pixel differs from the buffer";
  if (vf::outcome([&] { b.read_pixel(m.w, 0); }) != "out_of_range" || vf::outcome([&] { b.read_pixel(0, m.h); }) != "out_of_range") return "read_pixel outside does not throw out_of_range";
  b.invert();
  BM inv = m;
  for (auto& v : inv.bit) v = !v;
  if (!bm_same(b, inv)) return "invert() gives " + bm_model_of(b).dump();
  b.clear(true);
  for (auto& v : inv.bit) v = 1;
  if (!bm_same(b, inv)) return "clear(true) gives " + bm_model_of(b).dump();
  return "";
}

}  // namespace

VF_SECTION(bitmap, 8, 8, 120) {
  const vector<size_t> SZ = {0, 1, 2, 7, 8, 9, 16, 17};
  const size_t P31 = (size_t)1 << 31, P32 = (size_t)1 << 32, P63 = (size_t)1 << 63, SMAX = ~(size_t)0;
  r.note("BitmapImage::read_pixel/write_pixel");
  for (size_t W : SZ)
    for (size_t H : SZ) {
      BM pat = bm_pattern(W, H, 0);
      vector<size_t> xs = {0, 1, W - 1, W, W + 1, P31, P32, P32 + 1, P63, SMAX}, ys = {0, 1, H - 1, H, H + 1, P31, P32, P32 + 1, P63, SMAX};
      for (size_t x : xs)
        for (size_t y : ys)
          for (int op = 0; op < 3; op++) {
            if (!r.take()) continue;
            const char* opn[3] = {"read_pixel", "write_pixel(true)", "write_pixel(false)"};
            auto what = [&] { return vf::fmt("%zux%zu bitmap: %s at (%zu,%zu)", W, H, opn[op], x, y); };
            if (r.wants_desc()) r.desc(what());
            r.nontriv();
            BitmapImage b = bm_make(pat);
            auto before = pat.raw();
            bool got = false, in = x < W && y < H;
            string o = vf::outcome([&] {
              if (op == 0) got = b.read_pixel(x, y);
              else b.write_pixel(x, y, op == 1);
            });
            string key = op == 0 ? "bitmap_read_pixel" : "bitmap_write_pixel";
            if (!in) {
              if (o != "out_of_range") r.fail(key + ":outside-does-not-throw-out_of_range", [&] { return what() + ": outcome " + o; });
              else if (!before.empty() && memcmp(b.get_data(), before.data(), before.size())) r.fail(key + ":outside-access-modifies-canvas", what);
              else r.ok("outside:out_of_range");
              continue;
            }
            if (o != "ok") { r.fail(key + ":inside-throws", [&] { return what() + " threw " + o; }); continue; }
            if (op == 0 && got != pat.at(x, y)) { r.fail(key + ":wrong-value", what); continue; }
            BM exp = pat;
            if (op) exp.bit[y * W + x] = op == 1;
            // the whole buffer including the padding bits of every row must be as before except the one bit
            auto want = before;
            if (op) {
              size_t i = y * pat.row_bytes() + x / 8;
              uint8_t bit = 0x80 >> (x & 7);
              want[i] = op == 1 ? (want[i] | bit) : (want[i] & ~bit);
            }
            if (memcmp(b.get_data(), want.data(), want.size())) { r.fail(key + (op ? ":touches-other-pixels" : ":read-modifies-canvas"), [&] { return what() + ": after " + bm_model_of(b).dump() + ", expected " + exp.dump(); }); continue; }
            r.ok(op ? "inside:written" : "inside:read");
          }
    }
  r.note("BitmapImage whole-image operations");
  for (size_t W : SZ)
    for (size_t H : SZ)
      for (int op = 0; op < 8; op++) {
        if (!r.take()) continue;
        const char* opn[8] = {"clear(false)", "clear(true)", "invert", "invert twice", "to_color(without alpha)", "to_color(with alpha)", "construct", "operator== / != on a copy (executed, not compared)"};
        BM pat = bm_pattern(W, H, 1);
        auto what = [&] { return string(opn[op]) + " on bitmap " + pat.dump(); };
        if (r.wants_desc()) r.desc(what());
        if (W && H) r.nontriv();
        string bad;
        string o = vf::outcome([&] {
          BitmapImage b = bm_make(pat);
          BM exp = pat;
          switch (op) {
            case 0: case 1: b.clear(op == 1); for (auto& v : exp.bit) v = op == 1; break;
            case 2: b.invert(); for (auto& v : exp.bit) v = !v; break;
            case 3: {
              auto before = pat.raw();
              b.invert(); b.invert();
              if (!before.empty() && memcmp(b.get_data(), before.data(), before.size())) bad = "buffer differs after inverting twice";
              break;
            }
            case 4: case 5: {
              Image c = b.to_color(0x10203040u, 0xA0B0C0D0u, op == 5);
              Model want((int)W, (int)H, op == 5, 8);
              for (size_t y = 0; y < H; y++)
                for (size_t x = 0; x < W; x++) {
                  if (pat.at(x, y)) want.write(x, y, 0xA0, 0xB0, 0xC0, 0xD0);
                  else want.write(x, y, 0x10, 0x20, 0x30, 0x40);
                }
              if (!same(c, want)) bad = "to_color gives " + model_of(c).dump() + ", model " + want.dump();
              break;
            }
            case 6: {
              BitmapImage f(W, H);
              BM black;
              black.w = W; black.h = H; black.bit.assign(W * H, 0);
              if (!bm_same(f, black)) bad = "a new bitmap is not all-false";
              break;
            }
            case 7: {
              BitmapImage c(b);
              r.hist[string("copy == original: ") + (c == b ? "true" : "false") + ", != : " + (c != b ? "true" : "false")]++;
              break;
            }
          }
          if (bad.empty() && !bm_same(b, exp)) bad = "bitmap holds " + bm_model_of(b).dump() + ", model " + exp.dump();
        });
        if (o != "ok") r.fail(string("bitmap_") + opn[op] + ":throws", [&] { return what() + " threw " + o; });
        else if (!bad.empty()) r.fail(string("bitmap_") + opn[op] + ":differs-from-model", [&] { return what() + ": " + bad; });
        else r.ok("bitmap operation = model");
      }
  r.note("BitmapImage::write_row");
  for (size_t W : SZ)
    for (size_t H : SZ) {
      BM pat = bm_pattern(W, H, 2);
      vector<size_t> ysr = {0, H - 1, H, H + 1, P32, SMAX}, bits = {0, 1, 7, 8, 9, W - 1, W, W + 1, W + 7, W + 8, W + 64};
      for (size_t y : ysr)
        for (size_t nb : bits) {
          if (!r.take()) continue;
          if (nb > (1u << 20)) { r.ok("write_row: size wraps below zero for this width (skipped)"); continue; }
          auto what = [&] { return vf::fmt("%zux%zu bitmap: write_row(y=%zu, %zu bits)", W, H, y, nb); };
          if (r.wants_desc()) r.desc(what());
          r.nontriv();
          size_t nbytes = (nb + 7) / 8;
          vf::GuardBuf in(nbytes);  // exactly the bytes that hold nb bits; reading more faults
          for (size_t i = 0; i < nbytes; i++) in.data[i] = (uint8_t)(0xA7 * (i + 1) + y);
          BitmapImage b = bm_make(pat);
          auto before = pat.raw();
          string o = vf::outcome([&] { b.write_row(y, in.data, nb); });
          if (y >= H) {
            if (o != "out_of_range") r.fail("bitmap_write_row:outside-does-not-throw-out_of_range", [&] { return what() + ": outcome " + o; });
            else if (!before.empty() && memcmp(b.get_data(), before.data(), before.size())) r.fail("bitmap_write_row:outside-access-modifies-canvas", what);
            else r.ok("row outside:out_of_range");
            continue;
          }
          if (o != "ok") { r.fail("bitmap_write_row:inside-throws", [&] { return what() + " threw " + o; }); continue; }
          const uint8_t* d = (const uint8_t*)b.get_data();
          size_t rb = pat.row_bytes();
          bool other = false, wrong = false;
          for (size_t i = 0; i < before.size(); i++)
            if ((i / (rb ? rb : 1)) != y && d[i] != before[i]) other = true;
          for (size_t x = 0; x < std::min(nb, W); x++)
            if (!!(d[y * rb + x / 8] & (0x80 >> (x & 7))) != !!(in.data[x / 8] & (0x80 >> (x & 7)))) wrong = true;
          for (size_t i = std::min(nbytes, rb); i < rb; i++)
            if (d[y * rb + i] != before[y * rb + i]) wrong = true;  // bytes of the row beyond the given data stay
          if (other) r.fail("bitmap_write_row:touches-other-rows", what);
          else if (wrong) r.fail("bitmap_write_row:wrong-row-content", what);
          else r.ok("row written");
        }
    }
  r.note("BitmapImage copies");
  {
    vector<std::pair<int, int>> st;  // (-1,-1) = default-constructed
    st.push_back({-1, -1});
    for (int w : {0, 1, 7, 8, 9, 17})
      for (int h : {0, 1, 2, 9}) st.push_back({w, h});
    auto mk = [&](std::pair<int, int> s, int salt, BM& m) {
      if (s.first < 0) { m = BM(); return std::make_unique<BitmapImage>(); }
      m = bm_pattern(s.first, s.second, salt);
      return std::make_unique<BitmapImage>(bm_make(m));
    };
    auto sname = [&](std::pair<int, int> s) { return s.first < 0 ? string("default-constructed bitmap") : vf::fmt("%dx%d bitmap", s.first, s.second); };
    const char* bname[4] = {"bitmap-copy-assign", "bitmap-move-assign", "bitmap-swap", "bitmap-copy-assign-and-back"};
    for (int op = 0; op < 4; op++)
      for (auto ds : st)
        for (auto ss : st) {
          if (!r.take()) continue;
          auto what = [&] { return string(bname[op]) + ": destination " + sname(ds) + ", source " + sname(ss); };
          if (r.wants_desc()) r.desc(what());
          r.nontriv();
          BM dm, sm;
          auto dst = mk(ds, 0, dm);
          auto src = mk(ss, 3, sm);
          string kind, bad;
          string o = vf::outcome([&] {
            switch (op) {
              case 0: {
                *dst = *src;
                if (!bm_same(*dst, sm)) { kind = "copy-differs"; bad = "destination holds " + bm_model_of(*dst).dump() + ", source " + sm.dump(); return; }
                if (!bm_same(*src, sm)) { kind = "source-modified"; return; }
                string e = bm_exercise(*dst, sm);
                if (!e.empty()) { kind = "result-unusable"; bad = "the assigned bitmap " + e; return; }
                if (!bm_same(*src, sm)) { kind = "not-deep"; bad = "drawing on the copy changed the source"; return; }
                break;
              }
              case 1: {
                *dst = std::move(*src);
                if (!bm_same(*dst, sm)) { kind = "copy-differs"; bad = "destination holds " + bm_model_of(*dst).dump() + ", source was " + sm.dump(); return; }
                BM left = bm_model_of(*src);
                string e = bm_exercise(*src, left);
                if (e.empty()) e = bm_exercise(*dst, sm);
                if (!e.empty()) { kind = "result-unusable"; bad = e; return; }
                break;
              }
              case 2: {
                std::swap(*dst, *src);
                if (!bm_same(*dst, sm) || !bm_same(*src, dm)) { kind = "copy-differs"; bad = "after the swap: " + bm_model_of(*dst).dump() + " / " + bm_model_of(*src).dump(); return; }
                string e = bm_exercise(*dst, sm);
                if (e.empty()) e = bm_exercise(*src, dm);
                if (!e.empty()) { kind = "result-unusable"; bad = e; return; }
                break;
              }
              case 3: {
                BitmapImage keep(*dst);
                *dst = *src;
                *dst = keep;
                if (!bm_same(*dst, dm)) { kind = "copy-differs"; bad = "assigned back, destination holds " + bm_model_of(*dst).dump() + ", expected " + dm.dump(); return; }
                string e = bm_exercise(*dst, dm);
                if (!e.empty()) { kind = "result-unusable"; bad = e; return; }
                if (!bm_same(keep, dm) || !bm_same(*src, sm)) { kind = "not-deep"; bad = "drawing on the destination changed one of its sources"; return; }
                break;
              }
            }
          });
          if (o != "ok") r.fail(string(bname[op]) + ":throws", [&] { return what() + " threw " + o; });
          else if (!kind.empty()) r.fail(string(bname[op]) + ":" + kind, [&] { return what() + ": " + bad; });
          else r.ok("bitmap copy deep");
        }
    const char* uname[4] = {"bitmap-copy-construct", "bitmap-move-construct", "bitmap-self-copy-assign", "bitmap-self-move-assign"};
    for (int op = 0; op < 4; op++)
      for (auto ss : st) {
        if (!r.take()) continue;
        auto what = [&] { return string(uname[op]) + " of " + sname(ss); };
        if (r.wants_desc()) r.desc(what());
        r.nontriv();
        BM sm;
        auto src = mk(ss, 3, sm);
        string kind, bad;
        string o = vf::outcome([&] {
          switch (op) {
            case 0: {
              BitmapImage c(*src);
              if (!bm_same(c, sm)) { kind = "copy-differs"; bad = "copy holds " + bm_model_of(c).dump(); return; }
              string e = bm_exercise(c, sm);
              if (!e.empty()) { kind = "result-unusable"; bad = e; return; }
              if (!bm_same(*src, sm)) { kind = "not-deep"; bad = "drawing on the copy changed the source"; return; }
              break;
            }
            case 1: {
              BitmapImage c(std::move(*src));
              if (!bm_same(c, sm)) { kind = "copy-differs"; bad = "new bitmap holds " + bm_model_of(c).dump(); return; }
              BM left = bm_model_of(*src);
              string e = bm_exercise(*src, left);
              if (e.empty()) e = bm_exercise(c, sm);
              if (!e.empty()) { kind = "result-unusable"; bad = e; return; }
              break;
            }
            case 2: {
              BitmapImage& alias = *src;
              *src = alias;
              if (!bm_same(*src, sm)) { kind = "content-lost"; bad = "after bm = bm the bitmap holds " + bm_model_of(*src).dump() + ", before " + sm.dump(); return; }
              break;
            }
            case 3: {
              BitmapImage& alias = *src;
              *src = std::move(alias);
              BM left = bm_model_of(*src);
              string e = bm_exercise(*src, left);
              if (!e.empty()) { kind = "result-unusable"; bad = e; return; }
              break;
            }
          }
        });
        if (o != "ok") r.fail(string(uname[op]) + ":throws", [&] { return what() + " threw " + o; });
        else if (!kind.empty()) r.fail(string(uname[op]) + ":" + kind, [&] { return what() + ": " + bad; });
        else r.ok("bitmap construction/self-assignment");
      }
  }
  r.bound = "BitmapImage sizes {0,1,2,7,8,9,16,17}^2: read/write_pixel at {0,1,n-1,n,n+1,2^31,2^32,2^32+1,2^63,SIZE_MAX}^2; clear, invert, invert twice, to_color with/without alpha, construction; "
            "write_row for rows {0,h-1,h,h+1,2^32,SIZE_MAX} x 11 bit counts from a guard-page buffer; copy/move/swap/assign-back between all ordered pairs of 25 states, self-assignment";
}

// =============================================================================================
// round 3 - BitmapImage whose ROW byte length straddles 256, 4096, 65536 (class "sizes around internal block sizes")
namespace {

inline uint64_t bm_mix(uint64_t z) {
  z += 0x9E3779B97F4A7C15ull;
  z = (z ^ (z >> 30)) * 0xBF58476D1CE4E5B9ull;
  z = (z ^ (z >> 27)) * 0x94D049BB133111EBull;
  return z ^ (z >> 31);
}
// aperiodic content: a misplaced row, byte or piece of a row is visible
BM bm_bigpat(size_t w, size_t h, int salt) {
  BM m;
  m.w = w; m.h = h;
  m.bit.resize(w * h);
  for (size_t i = 0; i < w * h; i += 64) {
    uint64_t hs = bm_mix(i + ((uint64_t)salt << 56));
    for (size_t k = 0; k < 64 && i + k < w * h; k++) m.bit[i + k] = (hs >> k) & 1;
  }
  return m;
}
string bm_first_diff(const BitmapImage& b, const BM& m) {
  if (b.get_width() != m.w || b.get_height() != m.h) return vf::fmt("is %zux%zu", b.get_width(), b.get_height());
  if (b.get_data_size() != m.row_bytes() * m.h) return vf::fmt("has a buffer of %zu bytes", b.get_data_size());
  const uint8_t* d = (const uint8_t*)b.get_data();
  for (size_t y = 0; y < m.h; y++)
    for (size_t x = 0; x < m.w; x++)
      if (!!(d[y * m.row_bytes() + x / 8] & (0x80 >> (x & 7))) != m.at(x, y)) return vf::fmt("differs from the model first at (%zu,%zu)", x, y);
  return "";
}

}  // namespace

VF_SECTION(bigbitmap, 16, 16, 240) {
  vector<std::pair<size_t, size_t>> sizes;
  for (size_t B : r.thorough() ? vector<size_t>{256, 1024, 4096, 8192, 65536} : vector<size_t>{256, 4096, 65536})
    for (size_t W : {8 * B - 8, 8 * B - 7, 8 * B - 1, 8 * B, 8 * B + 1, 8 * B + 9, 16 * B - 1, 16 * B + 1})
      for (size_t H : {1, 2, 3}) sizes.push_back({W, H});
  const char* opn[10] = {"clear(false)", "clear(true)", "invert", "invert twice", "to_color(without alpha)", "to_color(with alpha)", "construct", "corner pixels", "write_row of every row", "copies"};
  for (auto [W, H] : sizes)
    for (int op = 0; op < 10; op++) {
      if (!r.take()) continue;
      r.note(string("BitmapImage ") + opn[op]);
      auto what = [&, W = W, H = H] { return vf::fmt("%s on a %zux%zu bitmap (%zu bytes per row)", opn[op], W, H, (W + 7) / 8); };
      if (r.wants_desc()) r.desc(what());
      r.nontriv();
      BM pat = bm_bigpat(W, H, 1);
      size_t rb = pat.row_bytes();
      string bad;
      string o = vf::outcome([&, W = W, H = H] {
        BitmapImage b = bm_make(pat);
        BM exp = pat;
        switch (op) {
          case 0: case 1: b.clear(op == 1); for (auto& v : exp.bit) v = op == 1; break;
          case 2: b.invert(); for (auto& v : exp.bit) v = !v; break;
          case 3: {
            auto before = pat.raw();
            b.invert(); b.invert();
            if (memcmp(b.get_data(), before.data(), before.size())) bad = "buffer differs after inverting twice";
            break;
          }
          case 4: case 5: {
            Image c = b.to_color(0x10203040u, 0xA0B0C0D0u, op == 5);
            size_t nch = op == 5 ? 4 : 3;
            if (c.get_width() != W || c.get_height() != H || c.get_has_alpha() != (op == 5) || c.get_channel_width() != 8 || c.get_data_size() != W * H * nch) { bad = "to_color gives an image of another shape"; break; }
            const uint8_t* d = (const uint8_t*)c.get_data();
            const uint8_t t[4] = {0xA0, 0xB0, 0xC0, 0xD0}, f[4] = {0x10, 0x20, 0x30, 0x40};
            for (size_t i = 0; i < W * H && bad.empty(); i++)
              if (memcmp(d + i * nch, pat.bit[i] ? t : f, nch)) bad = vf::fmt("to_color: pixel (%zu,%zu) has the wrong colour", i % W, i / W);
            break;
          }
          case 6: {
            BitmapImage fresh(W, H);
            BM black;
            black.w = W; black.h = H; black.bit.assign(W * H, 0);
            string e = bm_first_diff(fresh, black);
            if (!e.empty()) bad = "a new bitmap " + e;
            break;
          }
          case 7: {
            const size_t cx[4] = {0, W - 1, 0, W - 1}, cy[4] = {0, 0, H - 1, H - 1};
            for (int k = 0; k < 4; k++)
              if (b.read_pixel(cx[k], cy[k]) != pat.at(cx[k], cy[k])) bad = vf::fmt("read_pixel(%zu,%zu) differs from the buffer", cx[k], cy[k]);
            const size_t ox[4] = {W, 0, W, W - 1}, oy[4] = {0, H, H - 1, H};
            for (int k = 0; k < 4; k++)
              if (vf::outcome([&] { b.read_pixel(ox[k], oy[k]); }) != "out_of_range" || vf::outcome([&] { b.write_pixel(ox[k], oy[k], true); }) != "out_of_range")
                bad = vf::fmt("access at (%zu,%zu) outside the bitmap does not throw out_of_range", ox[k], oy[k]);
            for (int k = 0; k < 4; k++) {
              b.write_pixel(cx[k], cy[k], k & 1);
              exp.bit[cy[k] * W + cx[k]] = k & 1;
            }
            break;
          }
          case 8: {
            // every row replaced from a buffer that holds exactly the row (reading more faults), rows taken from another pattern
            BM other = bm_bigpat(W, H, 2);
            auto oraw = other.raw();
            vf::GuardBuf in(rb);
            for (size_t y = 0; y < H; y++) {
              memcpy(in.data, oraw.data() + y * rb, rb);
              b.write_row(H - 1 - y, in.data, W);
              for (size_t x = 0; x < W; x++) exp.bit[(H - 1 - y) * W + x] = other.at(x, y);
            }
            break;
          }
          case 9: {
            auto before = pat.raw();
            BitmapImage c1(b);
            BitmapImage c2(9, 2);
            c2 = b;
            BitmapImage c3(W, H);
            c3 = b;
            BitmapImage c4(std::move(c1));
            BitmapImage c5;
            c5 = std::move(c2);
            for (const BitmapImage* c : {&c3, &c4, &c5}) {
              string e = bm_first_diff(*c, pat);
              if (!e.empty() && bad.empty()) bad = "a copy " + e;
              if (c->get_data() == b.get_data()) bad = "a copy shares the buffer";
            }
            c3.invert();
            c4.clear(true);
            c5.write_pixel(W - 1, H - 1, !pat.at(W - 1, H - 1));
            if (memcmp(b.get_data(), before.data(), before.size())) bad = "drawing on the copies changed the original (copies are not deep)";
            break;
          }
        }
        if (bad.empty()) {
          string e = bm_first_diff(b, exp);
          if (!e.empty()) bad = "the bitmap " + e;
        }
      });
      if (o != "ok") r.fail(string("bitmap_") + opn[op] + ":throws", [&] { return what() + " threw " + o; });
      else if (!bad.empty()) r.fail(string("bitmap_") + opn[op] + ":differs-from-model", [&] { return what() + ": " + bad; });
      else r.ok("large bitmap operation = model");
    }
  r.bound = vf::fmt("BitmapImage widths {8B-8, 8B-7, 8B-1, 8B, 8B+1, 8B+9, 16B-1, 16B+1} for row byte boundaries B in %s x heights {1,2,3} (%zu bitmaps, aperiodic content) x 10 operations: clear x2, invert, invert twice, "
                    "to_color x2, construction, corner pixel access inside and just outside, write_row of every row from a guard-page buffer, copy/move construction and assignment (deep)",
      r.thorough() ? "{256,1024,4096,8192,65536}" : "{256,4096,65536}", sizes.size());
}
