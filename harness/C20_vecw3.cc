// C20 (vectors, boundary components) — part 3 of 3, see C20_vecw.hh
#include "C20_vecw.hh"

VF_SECTION(vecwide3, 16, 16, 90) { wide_section<double, float, uint8_t>(r); }
