// C20 (vectors) — Vector2/3/4 operators are the componentwise definitions: small components (exact geometry) and the
// strict-weak-order laws of operator<.  main() and the integer/entropy/matrix sections are in harness/C20.cc, the
// boundary-component sections in harness/C20_vecw{1,2,3}.cc; the checker templates in harness/C20_vec.hh.
#include "C20_vec.hh"

using namespace c20;

VF_SECTION(vec2, 2, 2, 90) {
  vec_pairs<int64_t, 2>(r, range_alphabet<int64_t>(-4, 4), range_alphabet<int64_t>(-4, 4), true, "small components");
  vec_pairs<double, 2>(r, range_alphabet<double>(-4, 4), range_alphabet<double>(-4, 4), true, "small components");
  r.bound = "Vector2<int64_t> and Vector2<double>: all ordered pairs with components in [-4,4] (6561 each) and every (vector, scalar in [-4,4]); aliased-operand forms (v op= v.<component>, v = v op v.<component>, op in + - * / %, every component by each of its names x/y, a/b and at(i); "
            "v = v + v, v = v - v, v = -v; results assigned over either operand) on every vector";
}
VF_SECTION(vec3, 16, 16, 90) {
  vec_pairs<int64_t, 3>(r, range_alphabet<int64_t>(-4, 4), range_alphabet<int64_t>(-4, 4), true, "small components");
  vec_pairs<double, 3>(r, range_alphabet<double>(-4, 4), range_alphabet<double>(-4, 4), true, "small components");
  r.bound = "Vector3<int64_t> and Vector3<double>: all ordered pairs with components in [-4,4] (531441 each) and every (vector, scalar in [-4,4]); aliased-operand forms (v op= v.<component>, v = v op v.<component>, op in + - * / %, every component by each of its names x/y/z, rx/ry/rz, r/g/b and at(i); "
            "v = v + v, v = v - v, v = -v, v = v.cross(v); results of + - cross assigned over either operand) on every vector";
}
VF_SECTION(vec4, 2, 2, 90) {
  const std::vector<int64_t> ai = range_alphabet<int64_t>(-4, 4);
  const std::vector<double> ad = range_alphabet<double>(-4, 4);
  vec_pairs<int64_t, 4>(r, range_alphabet<int64_t>(-1, 1), range_alphabet<int64_t>(-1, 1), true, "small components", &ai);
  vec_pairs<double, 4>(r, range_alphabet<double>(-1, 1), range_alphabet<double>(-1, 1), true, "small components", &ad);
  r.bound = "Vector4<int64_t> and Vector4<double>: all ordered pairs with components in [-1,1] (6561 each) and every (vector, scalar in [-1,1]); aliased-operand forms (v op= v.<component>, v = v op v.<component>, op in + - * / %, "
            "every component by each of its names x/y/z/w, r/g/b/a and at(i); v = v + v, v = v - v, v = -v) on every vector with components in [-4,4] (6561 each)";
}
VF_SECTION(order, 16, 16, 90) {
  vec_triples<int64_t, 2>(r, range_alphabet<int64_t>(-4, 4));
  vec_triples<double, 2>(r, range_alphabet<double>(-4, 4));
  vec_triples<int64_t, 3>(r, range_alphabet<int64_t>(-1, 1));
  vec_triples<double, 3>(r, range_alphabet<double>(-1, 1));
  vec_triples<int64_t, 4>(r, range_alphabet<int64_t>(0, 1));
  vec_triples<double, 4>(r, range_alphabet<double>(0, 1));
  r.bound = "operator< strict-weak-order laws on all triples: Vector2 over [-4,4]^2 (531441), Vector3 over [-1,1]^3 (19683), Vector4 over {0,1}^4 (4096); int64_t and double";
}

