// C19: operand rendering, user-defined operand types and the typed front end of the relation sweep
// (shared by C19.cc, C19_types1.cc, C19_types2.cc).
#pragma once
#include <chrono>
#include <complex>
#include <limits>
#include <memory>
#include <optional>
#include <string_view>
#include <tuple>

#include "C19_common.hh"

namespace c19 {

// ---- rendering of operand values -------------------------------------------------------------------------
template <class T>
inline std::string sv(const T& v);

template <class T>
std::string sv_int(T v) {
  if constexpr (std::is_signed_v<T>) return std::to_string((long long)v);
  else return std::to_string((unsigned long long)v);
}
inline std::string sv_str(const std::string& s) { return vf::show(s); }
inline std::string sv_wide(const std::wstring& s) {
  std::string o = "L\"";
  for (wchar_t c : s) o += (c >= 0x20 && c < 0x7F) ? std::string(1, (char)c) : vf::fmt("\\x%X", (unsigned)c);
  return o + "\"";
}

inline int g_arr[4];  // pointer operands point into this array (relational comparison is defined inside one array)

template <class T>
inline std::string sv(const T& v) {
  if constexpr (std::is_same_v<T, bool>) return v ? "true" : "false";
  else if constexpr (std::is_same_v<T, char>) return vf::fmt("char(%d)", (int)v);
  else if constexpr (std::is_same_v<T, wchar_t>) return vf::fmt("wchar_t(%d)", (int)v);
  else if constexpr (std::is_integral_v<T>) return sv_int(v);
  else if constexpr (std::is_same_v<T, long double>) return vf::fmt("%Lg", v);
  else if constexpr (std::is_floating_point_v<T>) return vf::fmt("%.9g", (double)v);
  else if constexpr (std::is_enum_v<T>) return "enum(" + std::to_string((long long)v) + ")";
  else if constexpr (std::is_same_v<T, std::string>) return sv_str(v);
  else if constexpr (std::is_same_v<T, std::string_view>) return "sv" + sv_str(std::string(v));
  else if constexpr (std::is_same_v<T, const char*>) return v ? "(const char*)" + sv_str(v) : std::string("(const char*)null");
  else if constexpr (std::is_same_v<T, std::wstring>) return sv_wide(v);
  else if constexpr (std::is_same_v<T, const wchar_t*>) return "(const wchar_t*)" + sv_wide(v);
  else if constexpr (std::is_same_v<T, std::u16string>) {
    std::string o = "u\"";
    for (char16_t c : v) o += vf::fmt("\\u%04X", (unsigned)c);
    return o + "\"";
  } else if constexpr (std::is_same_v<T, std::nullptr_t>) return "nullptr";
  else if constexpr (std::is_pointer_v<T>) {
    if (!v) return "null";
    return vf::fmt("&arr[%d]", (int)((const int*)v - g_arr));
  } else return "?";
}
// 128-bit integers (std::to_string / std::is_integral do not cover them under -std=c++20): hexadecimal
inline std::string sv(const unsigned __int128& v) { return vf::fmt("u128(0x%llX:%016llX)", (unsigned long long)(v >> 64), (unsigned long long)v); }
inline std::string sv(const __int128& v) { return vf::fmt("i128(0x%llX:%016llX)", (unsigned long long)((unsigned __int128)v >> 64), (unsigned long long)v); }
#ifdef __SIZEOF_FLOAT128__
inline std::string sv(const __float128& v) { return vf::fmt("%Lgq", (long double)v); }
#endif
inline std::string sv(const std::chrono::milliseconds& d) { return vf::fmt("%lldms", (long long)d.count()); }
inline std::string sv(const std::chrono::seconds& d) { return vf::fmt("%llds", (long long)d.count()); }
inline std::string sv(const std::error_code& e) { return vf::fmt("error_code(%d)", e.value()); }
inline std::string sv(const std::vector<int>& v) {
  std::string o = "{";
  for (size_t i = 0; i < v.size(); i++) o += (i ? "," : "") + std::to_string(v[i]);
  return o + "}";
}
inline std::string sv(const std::pair<int, std::string>& v) { return "(" + std::to_string(v.first) + "," + vf::show(v.second) + ")"; }
inline std::string sv(const std::tuple<int, double>& v) { return vf::fmt("(%d,%g)", std::get<0>(v), std::get<1>(v)); }
inline std::string sv(const std::optional<int>& v) { return v ? "opt(" + std::to_string(*v) + ")" : std::string("nullopt"); }
inline std::string sv(const std::complex<double>& v) { return vf::fmt("(%g%+gi)", v.real(), v.imag()); }
inline std::string sv(const std::shared_ptr<int>& v) { return v ? "sp(" + std::to_string(*v) + ")" : std::string("sp(null)"); }

// ---- user-defined operand types --------------------------------------------------------------------------
// A genuine partial order (set inclusion): a >= b is NOT !(a < b).
struct Subset {
  unsigned bits;
};
inline bool operator==(Subset a, Subset b) { return a.bits == b.bits; }
inline bool operator!=(Subset a, Subset b) { return a.bits != b.bits; }
inline bool operator<=(Subset a, Subset b) { return (a.bits & ~b.bits) == 0; }
inline bool operator>=(Subset a, Subset b) { return (b.bits & ~a.bits) == 0; }
inline bool operator<(Subset a, Subset b) { return a <= b && a != b; }
inline bool operator>(Subset a, Subset b) { return a >= b && a != b; }
inline std::string sv(const Subset& s) { return vf::fmt("Subset{%u}", s.bits); }

// C++20 defaulted three-way comparison over a double: std::partial_ordering, all six operators synthesised
struct PO {
  double v;
  auto operator<=>(const PO&) const = default;
};
inline std::string sv(const PO& p) { return vf::fmt("PO{%g}", p.v); }

// Operators that return int 256 for "true": the helper receives it through the implicit conversion to bool
struct Tri {
  int v;
};
inline int operator==(Tri a, Tri b) { return a.v == b.v ? 0x100 : 0; }
inline int operator!=(Tri a, Tri b) { return a.v != b.v ? 0x100 : 0; }
inline int operator<(Tri a, Tri b) { return a.v < b.v ? 0x100 : 0; }
inline int operator<=(Tri a, Tri b) { return a.v <= b.v ? 0x100 : 0; }
inline int operator>(Tri a, Tri b) { return a.v > b.v ? 0x100 : 0; }
inline int operator>=(Tri a, Tri b) { return a.v >= b.v ? 0x100 : 0; }
inline std::string sv(const Tri& t) { return vf::fmt("Tri{%d}", t.v); }

// Only == exists (C++20 rewrites != from it)
struct EqOnly {
  int v;
  bool operator==(const EqOnly& o) const { return v == o.v; }
};
inline std::string sv(const EqOnly& t) { return vf::fmt("EqOnly{%d}", t.v); }

// Not copyable, not movable: the macros must work on the operands in place
struct Pinned {
  int v;
  explicit Pinned(int x) : v(x) {}
  Pinned(const Pinned&) = delete;
  Pinned& operator=(const Pinned&) = delete;
  friend bool operator==(const Pinned& a, const Pinned& b) { return a.v == b.v; }
  friend auto operator<=>(const Pinned& a, const Pinned& b) { return a.v <=> b.v; }
};

enum Color { RED, GREEN, BLUE = 0x7FFFFFFF };
enum class Level : uint8_t { LOW = 0, MID = 128, HIGH = 255 };


// All relations x all ordered pairs (a in av, b in bv) x the given contexts.
template <class A, class B>
void check_relations(vf::Run& r, const char* tname, const std::vector<A>& av, const std::vector<B>& bv, const std::vector<int>& ctxs, bool ordered_values = true) {
  constexpr bool ordered = requires(const A& a, const B& b) { a < b; a <= b; a > b; a >= b; };
  RelSweep s;
  s.tname = tname;
  s.na = av.size();
  s.nb = bv.size();
  s.nrel = (ordered && ordered_values) ? 8 : 4;
  s.call = [&](int rel, size_t i, size_t j, bool& truth, Site& site) {
    const A& a = av[i];
    const B& b = bv[j];
    return call_rel(rel, a, b, truth, site);
  };
  s.show_a = [&](size_t i) { const A& a = av[i]; return sv(a); };
  s.show_b = [&](size_t j) { const B& b = bv[j]; return sv(b); };
  sweep_relations(r, s, ctxs);
}
template <class A>
void check_relations(vf::Run& r, const char* tname, const std::vector<A>& av, const std::vector<int>& ctxs, bool ordered_values = true) {
  check_relations<A, A>(r, tname, av, av, ctxs, ordered_values);
}

// +-(2^k - 1), +-2^k, +-(2^k + 1) for the given k, clipped to T
template <class T>
std::vector<T> pow2_set(const std::vector<int>& ks) {
  std::vector<T> out = {0};
  auto add = [&](T v) {
    for (auto& x : out) if (x == v) return;
    out.push_back(v);
  };
  constexpr int W = sizeof(T) * 8;
  for (int k : ks) {
    if (k >= W) continue;
    using U = std::make_unsigned_t<T>;
    U p = (U)1 << k;
    for (int dlt = -1; dlt <= 1; dlt++) {
      U m = p + (U)dlt;
      if constexpr (std::is_signed_v<T>) {
        if (m <= (U)std::numeric_limits<T>::max()) add((T)m);
        add((T)(U)(0 - m));  // two's complement negative (for k = W-1 this is the minimum itself / its neighbours)
      } else add((T)m);
    }
  }
  add(std::numeric_limits<T>::max());
  add(std::numeric_limits<T>::min());
  return out;
}
inline std::vector<int> ks_quick() { return {0, 7, 8, 15, 16, 31, 32, 63}; }
inline std::vector<int> ks_all() {
  std::vector<int> v;
  for (int k = 0; k < 64; k++) v.push_back(k);
  return v;
}


}  // namespace c19
