// C03 (part): conversions from other arithmetic types (section conv); the machinery is in C03_conv.hh.
#include "C03_conv.hh"

VF_SECTION(conv, 4, 4, 120) {
#define X(W, T, O) drive_conv_all<W, T>(r, #W, O);
  C03_W16(X) C03_W32(X) C03_W64(X) C03_WF32(X) C03_WF64(X)
#undef X
  r.bound = "24 wrapper types x {W(s), w = s, converted_endian::operator=(s), store(s)} x source types {bool, char, int8/uint8/int16/uint16, int, unsigned, int64, uint64, float, double} x all values 2^k-1, 2^k, 2^k+1 and their negatives of the source type (43 boundary values for float/double sources); float->integer conversions whose truncated value does not fit are executed-not-compared";
}

