// C03 (part): non-initial object states (section pairs); the machinery is in C03_pairs.hh.
#include "C03_pairs.hh"

VF_SECTION(pairs, 8, 16, 120) {
  Arena ar;
#define X(W, T, O)                                                     \
  {                                                                    \
    auto pv = pair_values<T>();                                        \
    drive_pairs<W, T>(r, ar, #W, O, pv, pv, NSETTINGS);                \
  }
  C03_W16(X) C03_W32(X) C03_W64(X) C03_WF32(X) C03_WF64(X)
#undef X
  if (r.thorough()) {
#define X(W, T, O)                                                     \
  {                                                                    \
    auto pv = pair_values<T>();                                        \
    auto wide = wide_pair_values<T>(pv);                               \
    if (sizeof(T) == 2) {                                              \
      drive_pairs<W, T>(r, ar, #W, O, wide, pv, 1);                    \
      drive_pairs<W, T>(r, ar, #W, O, pv, wide, 1);                    \
    } else drive_pairs<W, T>(r, ar, #W, O, wide, wide, 1);             \
  }
    C03_W16(X) C03_W32(X) C03_W64(X) C03_WF32(X) C03_WF64(X)
#undef X
  }
  r.bound = r.thorough()
      ? "24 wrapper types x 11 write paths x all ordered (held value, written value) pairs of a 24-26 value boundary set x 12 placements/contexts; plus, at one placement: 16-bit all 65536 held x boundary written and boundary held x all 65536 written, 32-bit (L5^4 + walking + boundary)^2, 64-bit/double (625 lane values + walking + boundary)^2"
      : "24 wrapper types x 11 write paths {ctor, w = v, converted_endian::operator=(v), store, store_raw, copy/move assignment, copy ctor, base copy assignment, memcpy of the encoded bytes, self-assignment} x all ordered (held value, written value) pairs of a 24-26 value boundary set (floats: both zeros, +-1, +-min denormal, 5 NaNs, +-inf, max, min normal, lane patterns; ints: 0, 1, 2, -1, -2, min, max, single-lane and all-distinct patterns) x 12 placements/contexts (7 misalignments, flush against a PROT_NONE page at either end, exact-size heap block, inside a catch handler, in a destructor during unwinding)";
}

