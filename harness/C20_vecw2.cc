// C20 (vectors, boundary components) — part 2 of 3, see C20_vecw.hh
#include "C20_vecw.hh"

VF_SECTION(vecwide2, 16, 16, 90) { wide_section<uint64_t, int32_t, int16_t>(r); }
