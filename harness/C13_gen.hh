// C13_gen.hh — reference model and oracle for the round-2 sections of C13, generic in the coordinate
// type (Vector2/3/4<T>, the 1-D type P1<T>) and the value type.  The Explorer in C13.cc closes a
// structure space over the 3x3 int64 grid; the sections built on this header enumerate what that
// closure cannot see: operation sequences on ONE object without state merging (hidden state, reuse
// after emptying, query-mutate-query), other instantiations, coordinates at the type limits, the
// iterator members and calling contexts.
//
// The model is a plain list of (point, value) entries; every expected answer is a linear scan that
// uses the named members (x, y, z, w) and the built-in comparison operators only.
#pragma once
#include <sanitizer/lsan_interface.h>
#include <stdint.h>
#include <string.h>

#include <functional>
#include <limits>
#include <new>
#include <string>
#include <type_traits>
#include <utility>
#include <vector>

#include "KDTree.hh"
#include "Vector.hh"
#include "vf.hh"

namespace c13 {

using namespace phosg;

// vf::outcome is a template with eleven handlers; instantiating it for every lambda of every coordinate type
// dominates compile time, so the lambdas are passed by reference through one non-template instance
struct FnRef {
  void* obj;
  void (*call)(void*);
  template <class F>
  FnRef(F& f) : obj((void*)&f), call([](void* o) { (*(F*)o)(); }) {}
};
inline std::string outcome_ref(FnRef f) {
  return vf::outcome([&] { f.call(f.obj); });
}
template <class F>
inline std::string outcome(F&& f) {
  return outcome_ref(FnRef(f));
}

inline bool repeated_failure(vf::Run& r, const std::string& key) {
  auto it = r.viol.find(key);
  if (it == r.viol.end() || it->second.count == 0) return false;
  it->second.count++;
  r.hist["VIOLATION:" + key]++;
  return true;
}
inline void record_failure(vf::Run& r, const std::string& key, const std::string& text) {
  r.fail(key, [&] { return text; });
}

// 1-D degenerate coordinate type (phosg has no Vector1; KDTree only needs at(), dimensions(), ==)
template <class T>
struct P1 {
  T x;
  P1() : x(0) {}
  explicit P1(T x_) : x(x_) {}
  T at(size_t) const { return x; }
  bool operator==(const P1& o) const { return x == o.x; }
  bool operator!=(const P1& o) const { return !(x == o.x); }
  static constexpr size_t dimensions() { return 1; }
};

template <class T>
inline std::string show_c(T v) {
  if constexpr (std::is_floating_point_v<T>) return vf::fmt("%.17g", (double)v);
  else if constexpr (std::is_signed_v<T>) return vf::fmt("%lld", (long long)v);
  else return vf::fmt("%llu", (unsigned long long)v);
}

template <class Pt>
struct PT;
template <class T>
struct PT<P1<T>> {
  using C = T;
  static constexpr int D = 1;
  static T get(const P1<T>& p, int) { return p.x; }
  static P1<T> make(const T* c) { return P1<T>(c[0]); }
  static const char* name() { return "P1"; }
};
template <class T>
struct PT<Vector2<T>> {
  using C = T;
  static constexpr int D = 2;
  static T get(const Vector2<T>& p, int d) { return d == 0 ? p.x : p.y; }
  static Vector2<T> make(const T* c) { return Vector2<T>(c[0], c[1]); }
  static const char* name() { return "Vector2"; }
};
template <class T>
struct PT<Vector3<T>> {
  using C = T;
  static constexpr int D = 3;
  static T get(const Vector3<T>& p, int d) { return d == 0 ? p.x : (d == 1 ? p.y : p.z); }
  static Vector3<T> make(const T* c) { return Vector3<T>(c[0], c[1], c[2]); }
  static const char* name() { return "Vector3"; }
};
template <class T>
struct PT<Vector4<T>> {
  using C = T;
  static constexpr int D = 4;
  static T get(const Vector4<T>& p, int d) { return d == 0 ? p.x : (d == 1 ? p.y : (d == 2 ? p.z : p.w)); }
  static Vector4<T> make(const T* c) { return Vector4<T>(c[0], c[1], c[2], c[3]); }
  static const char* name() { return "Vector4"; }
};

template <class Pt>
inline std::string show_pt(const Pt& p) {
  std::string s = "(";
  for (int d = 0; d < PT<Pt>::D; d++) s += (d ? "," : "") + show_c(PT<Pt>::get(p, d));
  return s + ")";
}
template <class Pt>
inline bool same_pt(const Pt& a, const Pt& b) {
  for (int d = 0; d < PT<Pt>::D; d++)
    if (!(PT<Pt>::get(a, d) == PT<Pt>::get(b, d))) return false;
  return true;
}
// lo <= p < hi on every axis
template <class Pt>
inline bool in_box(const Pt& p, const Pt& lo, const Pt& hi) {
  for (int d = 0; d < PT<Pt>::D; d++) {
    auto c = PT<Pt>::get(p, d);
    if (c < PT<Pt>::get(lo, d)) return false;
    if (!(c < PT<Pt>::get(hi, d))) return false;
  }
  return true;
}

inline std::string show_v(int64_t v) { return vf::fmt("%lld", (long long)v); }
inline std::string show_v(const std::string& v) {
  if (v.size() <= 12) return vf::show(v);
  return vf::show(v.substr(0, 10)) + vf::fmt("...(%zu bytes)", v.size());
}

// A value type that counts its live instances and remembers being moved from: the tree must own
// exactly size() values, none of them in the moved-from state, and none after destruction.
struct Tracked {
  int64_t v;
  bool moved_from;
  static int64_t& live() { static int64_t n = 0; return n; }
  Tracked() : v(0), moved_from(false) { live()++; }
  Tracked(int64_t x) : v(x), moved_from(false) { live()++; }
  Tracked(int a, int b) : v((int64_t)a * 10 + b), moved_from(false) { live()++; }
  Tracked(const Tracked& o) : v(o.v), moved_from(o.moved_from) { live()++; }
  Tracked(Tracked&& o) noexcept : v(o.v), moved_from(o.moved_from) { live()++; o.moved_from = true; o.v = -777; }
  Tracked& operator=(const Tracked& o) { v = o.v; moved_from = o.moved_from; return *this; }
  Tracked& operator=(Tracked&& o) noexcept {
    if (this != &o) { v = o.v; moved_from = o.moved_from; o.moved_from = true; o.v = -777; }
    return *this;
  }
  ~Tracked() { live()--; }
  bool operator==(const Tracked& o) const { return v == o.v && moved_from == o.moved_from; }
};
inline std::string show_v(const Tracked& t) { return vf::fmt("%lld%s", (long long)t.v, t.moved_from ? "(moved-from)" : ""); }

template <class Pt, class Val>
struct Model {
  using E = std::pair<Pt, Val>;
  std::vector<E> items;
  int find(const Pt& p, const Val& v) const {
    for (size_t i = 0; i < items.size(); i++)
      if (same_pt(items[i].first, p) && items[i].second == v) return (int)i;
    return -1;
  }
  bool has_pt(const Pt& p) const {
    for (auto& e : items)
      if (same_pt(e.first, p)) return true;
    return false;
  }
  void remove_at(int i) { items.erase(items.begin() + i); }
  std::string show() const { return show_list(items); }
  static std::string show_list(const std::vector<E>& v) {
    std::string s = "{";
    for (auto& e : v) s += show_pt(e.first) + "=" + show_v(e.second) + " ";
    return s + "}";
  }
};

// the tree under test lives in a local buffer: destroying an empty tree was fatal on the tree this suite
// started from; whether it still is is settled once per instantiation in a forked child, and while it is
// fatal it is reported and empty trees are abandoned instead of destroyed (an empty tree owns nothing)
template <class Tree>
struct Holder {
  alignas(Tree) unsigned char buf[sizeof(Tree)];
  Tree* t;
  Holder() { t = new (buf) Tree(); }
  Holder(const Holder&) = delete;
  Holder& operator=(const Holder&) = delete;
  static int& empty_dtor_state() { static int s = 0; return s; }  // 0 unknown, 1 safe, 2 fatal
  static int& empty_dtor_status() { static int s = 0; return s; }
  // returns false when the destruction was skipped because it is known to be fatal
  bool destroy() {
    Tree* x = t;
    t = nullptr;
    if (!x) return true;
    if (x->root == nullptr) {
      if (empty_dtor_state() == 0) {
        empty_dtor_status() = vf::in_child([&] { x->~Tree(); });
        empty_dtor_state() = empty_dtor_status() == 0 ? 1 : 2;
      }
      if (empty_dtor_state() == 2) return false;
    }
    x->~Tree();
    return true;
  }
  ~Holder() { destroy(); }
};

enum Style { PRE_ARROW = 0, POST_STAR = 1, RANGE_FOR = 2 };

template <class Pt, class Val>
struct Checker {
  using Tree = KDTree<Pt, Val>;
  using Node = typename Tree::Node;
  using M = Model<Pt, Val>;
  using E = std::pair<Pt, Val>;
  static constexpr int D = PT<Pt>::D;

  vf::Run& r;
  std::vector<Pt> probes;
  std::vector<std::pair<Pt, Pt>> boxes;
  std::function<std::string()> hist;  // describes the case; evaluated only when something fails
  uint64_t calls = 0;                 // observer calls compared with the model

  explicit Checker(vf::Run& run) : r(run) {}

  // r.fail is a template over the describing lambda; to keep compile time down it is instantiated once (in
  // record_failure) and the describing lambda of a call site runs only for the first failure of its key
  template <class F>
  void fail(const std::string& key, F&& what) {
    if (repeated_failure(r, key)) return;
    record_failure(r, key, "after [" + (hist ? hist() : std::string()) + "]: " + what());
  }

  // 0 equal, 1 an expected entry is missing, 2 only extra entries
  static int cmp_multiset(const std::vector<E>& got, const std::vector<E>& exp) {
    std::vector<char> used(exp.size(), 0);
    bool extra = false;
    for (auto& g : got) {
      bool hit = false;
      for (size_t i = 0; i < exp.size(); i++)
        if (!used[i] && same_pt(exp[i].first, g.first) && exp[i].second == g.second) { used[i] = 1; hit = true; break; }
      if (!hit) extra = true;
    }
    for (char u : used)
      if (!u) return 1;
    return extra ? 2 : 0;
  }

  void destroy(Holder<Tree>& h) {
    if (!h.destroy())
      fail("~KDTree:crash-on-empty-tree", [&] { return vf::fmt("destroying the tree while it is empty killed the process (wait status 0x%x); expected: safe", Holder<Tree>::empty_dtor_status()); });
  }

  // LeakSanitizer inside the case (so that a leak is attributed to the case and reproduces in a replay); costs a
  // stop-the-world scan, so it is used where a leak would have no other symptom
  // overwrites the dead part of the stack: pointers left behind by frames that have returned (or were unwound)
  // would otherwise keep leaked blocks "reachable" for the scan
  __attribute__((noinline)) static void wipe_dead_stack() {
    volatile char pad[96 * 1024];
    for (size_t i = 0; i < sizeof(pad); i += 8) pad[i] = 0;
    for (size_t i = 0; i < sizeof(pad); i++) pad[i] = 0;
  }
  bool leak_seen = false;  // the section then leaves through r.finish_now(): LeakSanitizer's own exit check would kill the shard
  void leak_check() {
    if (leak_seen) return;  // later scans would report the same blocks again
    wipe_dead_stack();
    if (__lsan_do_recoverable_leak_check()) leak_seen = true;
    if (leak_seen)
      fail("LeakSanitizer:leak", [&] { return std::string("LeakSanitizer found memory that is no longer reachable after the tree of this case was destroyed (allocation stacks are in the shard's stderr)"); });
  }

  // ---- white-box structure check after a mutation ----------------------------------------------
  struct Anc { const Node* n; bool before; };
  void scan_node(const Node* n, const Node* parent, int depth, std::vector<Anc>& anc, std::vector<E>& content, size_t limit, std::string& problem, std::string& order_problem) const {
    if (!problem.empty()) return;
    if (content.size() >= limit) { problem = "more nodes reachable from root than entries were ever inserted (cycle or count error)"; return; }
    if (n->parent != parent) { problem = "parent link of " + show_pt(n->pt) + " does not point at the real parent"; return; }
    if (n->dim != (size_t)(depth % D)) { problem = vf::fmt("node at depth %d has dim %zu", depth, n->dim); return; }
    content.emplace_back(n->pt, n->value);
    if (order_problem.empty())
      for (auto& a : anc) {
        int d = (int)a.n->dim;
        auto c = PT<Pt>::get(n->pt, d), s = PT<Pt>::get(a.n->pt, d);
        bool okside = a.before ? (c < s) : !(c < s);
        if (!okside) {
          order_problem = "entry " + show_pt(n->pt) + vf::fmt(" at depth %d is on the %s side of ancestor ", depth, a.before ? "before" : "after_or_equal") + show_pt(a.n->pt) + vf::fmt(" which splits axis %d", d);
          break;
        }
      }
    if (n->before) { anc.push_back({n, true}); scan_node(n->before, n, depth + 1, anc, content, limit, problem, order_problem); anc.pop_back(); }
    if (n->after_or_equal) { anc.push_back({n, false}); scan_node(n->after_or_equal, n, depth + 1, anc, content, limit, problem, order_problem); anc.pop_back(); }
  }
  // true when the structure is usable
  bool scan(const Tree& t, const M& m, const char* op) {
    std::vector<Anc> anc;
    std::vector<E> content;
    std::string problem, order_problem;
    if (t.root) scan_node(t.root, nullptr, 0, anc, content, m.items.size() + 3, problem, order_problem);
    if (problem.empty() && content.size() != t.node_count) problem = vf::fmt("node_count is %zu but %zu nodes are linked", t.node_count, content.size());
    std::string o = op;
    if (!problem.empty()) { fail(o + ":corrupts-structure", [&] { return problem; }); return false; }
    if (t.size() != m.items.size()) fail(o + ":size", [&] { return vf::fmt("size() == %zu afterwards, expected %zu", t.size(), m.items.size()); });
    if (cmp_multiset(content, m.items) != 0) { fail(o + ":content", [&] { return "tree holds " + M::show_list(content) + ", expected " + m.show(); }); return false; }
    if (!order_problem.empty()) fail(o + ":breaks-ordering-invariant", [&] { return order_problem + "; tree holds " + M::show_list(content); });
    return true;
  }

  // ---- mutations ---------------------------------------------------------------------------------
  void insert(Tree& t, M& m, const Pt& p, const Val& v, bool use_emplace) {
    std::string oc = outcome([&] {
      bool ok;
#ifdef C13_HAVE_EMPLACE
      if (use_emplace) { auto it = t.emplace(p, v); ok = (it != t.end()) && same_pt(it->first, p) && it->second == v; }
      else
#endif
      { (void)use_emplace; auto it = t.insert(p, v); ok = (it != t.end()) && same_pt(it->first, p) && it->second == v; }
      if (!ok) fail("insert:returned-iterator", [&] { return "insert/emplace(" + show_pt(p) + "," + show_v(v) + ") returned an iterator that does not designate the new entry"; });
    });
    if (oc != "ok") fail("insert:throws", [&] { return "insert/emplace(" + show_pt(p) + "," + show_v(v) + ") threw " + oc; });
    m.items.emplace_back(p, v);
  }
  void erase(Tree& t, M& m, const Pt& p, const Val& v) {
    int at = m.find(p, v);
    bool got = false;
    std::string oc = outcome([&] { got = t.erase(p, v); });
    if (at >= 0) m.remove_at(at);
    if (oc != "ok") fail("erase:throws", [&] { return "erase(" + show_pt(p) + "," + show_v(v) + ") threw " + oc; });
    else if (got != (at >= 0))
      fail(at >= 0 ? "erase:false-for-present-entry" : "erase:true-for-absent-entry", [&] { return "erase(" + show_pt(p) + "," + show_v(v) + vf::fmt(") returned %s, a linear scan says the entry %s", got ? "true" : "false", at >= 0 ? "exists" : "does not exist"); });
  }
  // full traversal; erase_advance instead of ++ at the visit numbers in `mask` (bit 63 = at the last visit).
  // false: the traversal misbehaved so badly that the tree must not be used further
  bool traverse(Tree& t, M& m, uint64_t mask, Style style) {
    std::vector<E> before = m.items, seen;
    size_t limit = 2 * before.size() + 4, visits = 0;
    bool last = mask >> 63 & 1;
    const char* site = mask ? "erase_advance" : "iterate";
    std::string s = site;
    bool fine = true;
    std::string oc = outcome([&] {
      if (style == RANGE_FOR && !mask) {
        for (const auto& e : t) {
          if (++visits > limit) { fine = false; break; }
          seen.push_back(e);
        }
        return;
      }
      auto it = t.begin();
      const auto end = t.end();
      while (style == POST_STAR ? !(it == end) : (it != end)) {
        if (visits >= limit) { fine = false; return; }
        E e = (style == POST_STAR) ? *it : E(it->first, it->second);
        seen.push_back(e);
        bool er = (visits < 63 && (mask >> visits & 1)) || (last && visits + 1 == before.size());
        if (er) {
          t.erase_advance(it);
          int at = m.find(e.first, e.second);
          if (at >= 0) m.remove_at(at);
        } else if (style == POST_STAR) {
          auto old = it++;
          if (!(same_pt((*old).first, e.first) && (*old).second == e.second))
            fail("iterator:post-increment", [&] { return "the iterator returned by it++ dereferences to " + show_pt((*old).first) + "=" + show_v((*old).second) + ", expected the entry before the step " + show_pt(e.first) + "=" + show_v(e.second); });
        } else {
          ++it;
        }
        visits++;
      }
    });
    if (oc != "ok") { fail(s + ":throws", [&] { return vf::fmt("traversal (erase mask %llx, style %d) threw ", (unsigned long long)mask, (int)style) + oc; }); return false; }
    if (!fine) { fail(s + ":does-not-terminate", [&] { return vf::fmt("traversal (erase mask %llx, style %d): more than %zu visits for %zu live entries", (unsigned long long)mask, (int)style, limit, before.size()); }); return false; }
    if (cmp_multiset(seen, before) != 0 || seen.size() != before.size())
      fail(s + ":visits", [&] { return vf::fmt("traversal (erase mask %llx, style %d) visited ", (unsigned long long)mask, (int)style) + M::show_list(seen) + ", every entry of " + M::show_list(before) + " must be visited exactly once"; });
    return true;
  }

  // ---- observers ---------------------------------------------------------------------------------
  void check_point(const Tree& t, const M& m, const Pt& p) {
    bool present = m.has_pt(p);
    bool ex = false;
    calls += 2;
    r.poison_errno();
    std::string oc = outcome([&] { ex = t.exists(p); });
    if (oc != "ok") fail("exists(pt):throws", [&] { return "exists(" + show_pt(p) + ") threw " + oc; });
    else if (ex != present)
      fail(present ? "exists(pt):false-for-present-point" : "exists(pt):true-for-absent-point", [&] { return "exists(" + show_pt(p) + vf::fmt(") == %s but the model %s; model = ", ex ? "true" : "false", present ? "holds it" : "does not hold it") + m.show(); });
    const Val* got = nullptr;
    oc = outcome([&] { got = &t.at(p); });
    if (present) {
      if (oc != "ok") fail("at:throws-for-present-point", [&] { return "at(" + show_pt(p) + ") threw " + oc + " but the model holds that point; model = " + m.show(); });
      else if (m.find(p, *got) < 0) fail("at:wrong-value", [&] { return "at(" + show_pt(p) + ") == " + show_v(*got) + ", which is not the value of any entry at that point; model = " + m.show(); });
    } else {
      if (oc == "ok") fail("at:returns-for-absent-point", [&] { return "at(" + show_pt(p) + ") returned " + show_v(*got) + " but no entry has that point; model = " + m.show(); });
      else if (oc != "out_of_range") fail("at:wrong-exception-class", [&] { return "at(" + show_pt(p) + ") threw " + oc + ", expected out_of_range"; });
    }
  }
  void check_box(const Tree& t, const M& m, const Pt& lo, const Pt& hi) {
    std::vector<E> exp;
    for (auto& e : m.items)
      if (in_box(e.first, lo, hi)) exp.push_back(e);
    auto boxstr = [&] { return "[" + show_pt(lo) + "," + show_pt(hi) + ")"; };
    std::vector<E> got;
    calls += 2;
    r.poison_errno();
    std::string oc = outcome([&] { got = t.within(lo, hi); });
    if (oc != "ok") fail("within:throws", [&] { return "within" + boxstr() + " threw " + oc + "; expected " + M::show_list(exp) + " (model = " + m.show() + ")"; });
    else {
      int c = cmp_multiset(got, exp);
      if (c) fail(c == 1 ? "within:missing-entry" : "within:extra-entry", [&] { return "within" + boxstr() + " returned " + M::show_list(got) + ", linear scan gives " + M::show_list(exp) + " (model = " + m.show() + ")"; });
    }
    bool ex = false;
    oc = outcome([&] { ex = t.exists(lo, hi); });
    if (oc != "ok") fail("exists(box):throws", [&] { return "exists" + boxstr() + " threw " + oc; });
    else if (ex != !exp.empty())
      fail(ex ? "exists(box):true-for-empty-box" : "exists(box):false-for-occupied-box", [&] { return "exists" + boxstr() + vf::fmt(" == %s, linear scan finds %zu entries (model = ", ex ? "true" : "false", exp.size()) + m.show() + ")"; });
  }
  // every observer against the model; `reverse` walks probes and boxes from the far end
  void sweep(Tree& t, const M& m, bool reverse, Style style, size_t box_limit = 0) {
    calls++;
    if (t.size() != m.items.size()) fail("size", [&] { return vf::fmt("size() == %zu, model holds %zu entries", t.size(), m.items.size()); });
    {
      M copy = m;
      traverse(t, copy, 0, style);
    }
    (void)outcome([&] { (void)t.depth(); });  // depth() is outside the statement: executed (memory safety), never compared
    size_t np = probes.size(), nb = (box_limit && box_limit < boxes.size()) ? box_limit : boxes.size();
    for (size_t i = 0; i < np; i++) check_point(t, m, probes[reverse ? np - 1 - i : i]);
    for (size_t i = 0; i < nb; i++) {
      auto& b = boxes[reverse ? nb - 1 - i : i];
      check_box(t, m, b.first, b.second);
    }
  }

  // boxes with every corner coordinate drawn from `vals`; per axis all (lo,hi) pairs when `full`, else the
  // pairs lo <= hi plus one inverted pair
  void all_boxes(const std::vector<typename PT<Pt>::C>& vals, bool full) {
    using C = typename PT<Pt>::C;
    std::vector<std::pair<C, C>> iv;
    for (size_t a = 0; a < vals.size(); a++)
      for (size_t b = 0; b < vals.size(); b++)
        if (full || a <= b || (a == vals.size() - 1 && b == 0)) iv.emplace_back(vals[a], vals[b]);
    std::vector<uint32_t> radix((size_t)D, (uint32_t)iv.size());
    for (vf::Odometer o(radix); !o.done; o.step()) {
      C lo[4], hi[4];
      for (int d = 0; d < D; d++) { lo[d] = iv[o.d[(size_t)d]].first; hi[d] = iv[o.d[(size_t)d]].second; }
      boxes.emplace_back(PT<Pt>::make(lo), PT<Pt>::make(hi));
    }
  }
  void all_probes(const std::vector<typename PT<Pt>::C>& vals) {
    using C = typename PT<Pt>::C;
    std::vector<uint32_t> radix((size_t)D, (uint32_t)vals.size());
    for (vf::Odometer o(radix); !o.done; o.step()) {
      C c[4];
      for (int d = 0; d < D; d++) c[d] = vals[o.d[(size_t)d]];
      probes.push_back(PT<Pt>::make(c));
    }
  }
};

}  // namespace c13
