// C17 — reference models and probes shared by C17.cc, C17_hist.cc and C17_more.cc.
//
//  * RefArgs / ref_classify / snapshot : reference token classifier and the white-box view of an object
//  * RefNum / ref_numeral / expectation: reference numeral grammar per IntFormat and "fits the target type"
//  * RefFloat / ref_float              : complete floating-point literal, value from std::from_chars
//  * int_read / float_read             : ONE typed read through one access path, judged against the reference
//  * run_ctx                           : executes a probe in an execution context (catch handler, destructor
//                                        during unwinding, fresh thread) — results must not depend on it
// Everything is written from the property statement; nothing here copies the library's algorithm.
#pragma once
#include <errno.h>
#include <math.h>
#include <stdint.h>

#include <charconv>
#include <limits>
#include <map>
#include <optional>
#include <stdexcept>
#include <string>
#include <thread>
#include <type_traits>
#include <vector>

#include "Arguments.hh"

#include "vf.hh"

namespace c17 {

using phosg::Arguments;
typedef Arguments::IntFormat IntFormat;
typedef unsigned __int128 u128;
typedef __int128 i128;

inline std::string s128(i128 v) {
  if (v == 0) return "0";
  bool neg = v < 0;
  u128 u = neg ? (u128)(-(v + 1)) + 1 : (u128)v;
  std::string s;
  while (u) { s.insert(s.begin(), (char)('0' + (int)(u % 10))); u /= 10; }
  return neg ? "-" + s : s;
}

inline std::string short_show(const std::string& s) {
  if (s.size() <= 48) return vf::show(s);
  return vf::show(s.substr(0, 20)) + vf::fmt("...(%zu bytes)...", s.size()) + vf::show(s.substr(s.size() - 12));
}

inline std::string list_str(const std::vector<std::string>& v) {
  std::string s = "[";
  for (size_t i = 0; i < v.size(); i++) {
    if (i >= 12 && v.size() > 14) { s += vf::fmt(", ...(%zu in all)", v.size()); break; }
    s += (i ? ", " : "") + short_show(v[i]);
  }
  return s + "]";
}

// ---------------------------------------------------------------------------------------------------
// classification reference
// ---------------------------------------------------------------------------------------------------
struct RefArgs {
  std::vector<std::string> positional;
  std::map<std::string, std::vector<std::string>> named;
  size_t named_total = 0;
  bool operator==(const RefArgs& o) const { return positional == o.positional && named == o.named; }
};

// positional unless it starts with '-' and has more; "--name[=value]" (first '=' splits) is a named
// option; "-abc" is the flags a, b, c (each a named option with empty value); "-" and "--" alone carry
// neither a flag letter nor a name and stay positional
inline RefArgs ref_classify(const std::vector<std::string>& tokens) {
  RefArgs r;
  for (const std::string& t : tokens) {
    if (t.size() > 2 && t[0] == '-' && t[1] == '-') {
      std::string body = t.substr(2);
      size_t eq = body.find('=');
      std::string name = eq == std::string::npos ? body : body.substr(0, eq);
      std::string value = eq == std::string::npos ? std::string() : body.substr(eq + 1);
      r.named[name].push_back(value);
      r.named_total++;
    } else if (t.size() >= 2 && t[0] == '-' && t[1] != '-') {
      for (size_t i = 1; i < t.size(); i++) {
        r.named[std::string(1, t[i])].push_back("");
        r.named_total++;
      }
    } else {
      r.positional.push_back(t);
    }
  }
  return r;
}

// white-box snapshot of an Arguments object
inline RefArgs snapshot(const Arguments& a) {
  RefArgs r;
  for (auto& p : a.positional) r.positional.push_back(p.text);
  for (auto& kv : a.named) {
    auto& v = r.named[kv.first];
    for (auto& t : kv.second) { v.push_back(t.text); r.named_total++; }
  }
  return r;
}
inline std::string ref_str(const RefArgs& r) {
  std::string s = "positional=" + list_str(r.positional) + " named={";
  bool first = true;
  for (auto& kv : r.named) { s += (first ? "" : ", ") + short_show(kv.first) + ":" + list_str(kv.second); first = false; }
  return s + "}";
}

// ---------------------------------------------------------------------------------------------------
// integer numeral reference
// ---------------------------------------------------------------------------------------------------
enum Cls { INVALID, VALID, DONTCARE };
struct RefNum {
  Cls cls = INVALID;
  bool neg = false;
  u128 mag = 0;
  bool huge = false;  // magnitude >= 2^100 (saturated)
  bool plus = false;  // explicit '+': rejecting it is fine, but if it is accepted the value must be right
  const char* why = "";
};

inline int digit_of(char c) {
  if (c >= '0' && c <= '9') return c - '0';
  if (c >= 'a' && c <= 'f') return c - 'a' + 10;
  if (c >= 'A' && c <= 'F') return c - 'A' + 10;
  return 99;
}

// A complete numeral: [-] digits of the requested base; HEX may carry 0x; DEFAULT follows the C
// convention (0x.. hex, 0.. octal, otherwise decimal).  Leading blanks are don't-care; whether an explicit
// '+' belongs to a numeral is not settled by the statement (rejecting is fine; if accepted, value and fit
// are checked).
inline RefNum ref_numeral(const std::string& t, IntFormat f) {
  RefNum r;
  if (t.empty()) { r.why = "empty"; return r; }
  if (t[0] == ' ' || (t[0] >= '\t' && t[0] <= '\r')) { r.cls = DONTCARE; r.why = "leading blank"; return r; }
  size_t i = 0;
  bool plus = false;
  if (t[i] == '-') { r.neg = true; i++; }
  else if (t[i] == '+') { plus = true; i++; }
  auto is_x = [&](size_t k) { return k + 2 < t.size() && t[k] == '0' && (t[k + 1] == 'x' || t[k + 1] == 'X') && digit_of(t[k + 2]) < 16; };
  int base = 10;
  // "0b101": a binary literal in C23 (and for newer C libraries' base-0 conversions), not in C17 — the
  // statement's "numeral of the requested base" does not settle it for DEFAULT
  if (f == IntFormat::DEFAULT && i + 1 < t.size() && t[i] == '0' && (t[i + 1] == 'b' || t[i + 1] == 'B')) { r.cls = DONTCARE; r.why = "0b prefix under IntFormat::DEFAULT"; return r; }
  switch (f) {
    case IntFormat::DECIMAL: base = 10; break;
    case IntFormat::OCTAL: base = 8; break;
    case IntFormat::HEX: base = 16; if (is_x(i)) i += 2; break;
    case IntFormat::DEFAULT:
      if (is_x(i)) { base = 16; i += 2; }
      else if (i < t.size() && t[i] == '0') base = 8;
      else base = 10;
      break;
  }
  if (i >= t.size()) { r.why = "no digits"; return r; }
  for (; i < t.size(); i++) {
    int d = digit_of(t[i]);
    if (d >= base) { r.why = "not a digit of the base"; return r; }
    if (!r.huge) {
      r.mag = r.mag * (unsigned)base + (unsigned)d;
      if (r.mag >> 100) r.huge = true;
    }
  }
  r.cls = VALID;
  r.plus = plus;
  r.why = plus ? "numeral with explicit plus sign" : "numeral";
  return r;
}

template <class T> inline const char* iname() {
  if (std::is_same_v<T, int8_t>) return "int8_t";
  if (std::is_same_v<T, uint8_t>) return "uint8_t";
  if (std::is_same_v<T, int16_t>) return "int16_t";
  if (std::is_same_v<T, uint16_t>) return "uint16_t";
  if (std::is_same_v<T, int32_t>) return "int32_t";
  if (std::is_same_v<T, uint32_t>) return "uint32_t";
  if (std::is_same_v<T, int64_t>) return "int64_t";
  if (std::is_same_v<T, uint64_t>) return "uint64_t";
  if (std::is_same_v<T, long long>) return "long long";
  if (std::is_same_v<T, unsigned long long>) return "unsigned long long";
  if (std::is_same_v<T, char>) return "char";
  if (std::is_same_v<T, wchar_t>) return "wchar_t";
  if (std::is_same_v<T, char16_t>) return "char16_t";
  if (std::is_same_v<T, char32_t>) return "char32_t";
  return "?";
}
template <class T> inline const char* fname() {
  if (std::is_same_v<T, float>) return "float";
  if (std::is_same_v<T, double>) return "double";
  if (std::is_same_v<T, long double>) return "long double";
  return "?";
}

inline const char* fmt_name(IntFormat f) {
  switch (f) {
    case IntFormat::DEFAULT: return "DEFAULT";
    case IntFormat::HEX: return "HEX";
    case IntFormat::DECIMAL: return "DECIMAL";
    case IntFormat::OCTAL: return "OCTAL";
  }
  return "?";
}
inline const IntFormat FORMATS[4] = {IntFormat::DEFAULT, IntFormat::DECIMAL, IntFormat::HEX, IntFormat::OCTAL};

enum Expect { E_VALUE, E_INVALID, E_DONTCARE };
template <class T>
inline Expect expectation(const RefNum& n, uint64_t* bits) {
  if (n.cls == DONTCARE) return E_DONTCARE;
  if (n.cls == INVALID) return E_INVALID;
  typedef std::numeric_limits<T> L;
  if (sizeof(T) == 8) {
    // statement: for 64-bit targets any numeral of magnitude below 2^63 is returned; beyond: don't-care
    if (n.huge || n.mag >= ((u128)1 << 63)) return E_DONTCARE;
    *bits = n.neg ? (uint64_t)0 - (uint64_t)n.mag : (uint64_t)n.mag;
    return E_VALUE;
  }
  if (n.huge) return E_INVALID;
  if (n.neg) {
    u128 lim = L::is_signed ? (u128)1 << (sizeof(T) * 8 - 1) : 0;
    if (n.mag > lim) return E_INVALID;
    *bits = (uint64_t)0 - (uint64_t)n.mag;
  } else {
    if (n.mag > (u128)(uint64_t)L::max()) return E_INVALID;
    *bits = (uint64_t)n.mag;
  }
  return E_VALUE;
}

inline std::string ref_num_str(const RefNum& ref) {
  return std::string(ref.why) + (ref.cls == VALID ? std::string(", value ") + (ref.neg ? "-" : "") + (ref.huge ? ">=2^100" : s128((i128)ref.mag)) : std::string());
}

// Verdict on ONE integer read.  oc/got/count/what describe what the real call did.  Returns the outcome
// class for the histogram or nullptr after reporting a violation under K + ":<failure kind>".
template <class T, class Ctx>
inline const char* judge_int(vf::Run& r, const std::string& K, Ctx&& ctx, const RefNum& ref, const std::string& oc, T got, size_t count, const std::string& what) {
  uint64_t want_bits = 0;
  Expect e = expectation<T>(ref, &want_bits);
  if (e == E_DONTCARE) return "don't-care input (executed, not compared)";
  if (ref.plus && oc == "invalid_argument") return "don't-care input (executed, not compared)";
  if (oc != "ok" && oc != "invalid_argument") {
    r.fail(K + ":wrong-exception-type", [&] { return ctx() + " threw " + oc + " (" + what + ")"; });
    return nullptr;
  }
  if (e == E_INVALID) {
    if (oc == "ok") {
      r.fail(K + (ref.cls == VALID ? ":accepts-numeral-that-does-not-fit" : ":accepts-incomplete-numeral"), [&] { return ctx() + " returned " + s128((i128)got) + ", expected invalid_argument"; });
      return nullptr;
    }
    return ref.cls == VALID ? "rejected: does not fit" : "rejected: not a numeral of the base";
  }
  if (oc != "ok") {
    r.fail(K + ":rejects-fitting-numeral", [&] { return ctx() + " threw invalid_argument (" + what + ")"; });
    return nullptr;
  }
  if (count != 1 || got != (T)want_bits) {
    r.fail(K + ":wrong-value", [&] { return ctx() + " returned " + s128((i128)got) + vf::fmt(" (%zu values)", count); });
    return nullptr;
  }
  return "accepted: value exact";
}

// errno is ambient process state: whatever an earlier, unrelated library call left there.  The
// getters' results must not depend on it, so every typed read starts from a pre-decided value
// (a function of the case index and the access path, hence identical on replay).  Without this a
// defect that consults a stale errno fails or passes depending on which cases ran before it.
inline void set_ambient_errno(const vf::Run& r, int via) {
  static const int STATES[4] = {0, ERANGE, EINVAL, EINTR};
  errno = STATES[(r.cur + (uint64_t)via) % 4];
}

enum Via { VIA_NAMED, VIA_MULTI, VIA_DEFAULT, VIA_POSITIONAL, VIA_POS_DEFAULT, NVIA };
inline const char* via_name[NVIA] = {"get<T>(name, fmt)", "get_multi<T>(name, fmt)", "get<T>(name, default, fmt)", "get<T>(position, fmt)", "get<T>(position, default, fmt)"};

// One typed read of `text` (stored as --x=<text> in `named` and as positional 0 in `positional`) and its
// comparison with the reference.  K is the key prefix.
template <class T>
inline const char* int_read(vf::Run& r, const std::string& K, Arguments& named, Arguments* positional, const std::string& text, const RefNum& ref, IntFormat f, Via via, bool own_errno = true) {
  T got = 0;
  size_t count = 1;
  std::string what;
  std::string oc = vf::outcome([&] {
    if (own_errno) set_ambient_errno(r, (int)via);
    switch (via) {
      case VIA_NAMED: got = named.get<T>("x", f); break;
      case VIA_MULTI: { auto v = named.get_multi<T>("x", f); count = v.size(); got = v.empty() ? 0 : v[0]; break; }
      case VIA_DEFAULT: got = named.get<T>("x", (T)77, f); break;
      case VIA_POSITIONAL: got = positional->get<T>((size_t)0, f); break;
      case VIA_POS_DEFAULT: got = positional->get<T>((size_t)0, (T)77, f); break;
      default: break;
    }
  }, &what);
  r.counters["getter_calls"]++;
  auto ctx = [&] { return vf::fmt("%s with T=%s fmt=%s on text ", via_name[via], iname<T>(), fmt_name(f)) + short_show(text) + " (reference: " + ref_num_str(ref) + ")"; };
  return judge_int<T>(r, K, ctx, ref, oc, got, count, what);
}

// five renderings of n (style 5/6: upper-case hexadecimal)
inline std::string render(i128 n, int style) {
  bool neg = n < 0;
  u128 m = neg ? (u128)(-(n + 1)) + 1 : (u128)n;
  auto digits = [&](unsigned base, const char* alphabet) {
    if (m == 0) return std::string("0");
    std::string s;
    u128 v = m;
    while (v) { s.insert(s.begin(), alphabet[(int)(v % base)]); v /= base; }
    return s;
  };
  const char* lo = "0123456789abcdef";
  const char* up = "0123456789ABCDEF";
  std::string body;
  switch (style) {
    case 0: body = digits(10, lo); break;
    case 1: body = "0x" + digits(16, lo); break;
    case 2: body = digits(16, lo); break;
    case 3: body = "0" + digits(8, lo); break;
    case 4: body = digits(8, lo); break;
    case 5: body = "0X" + digits(16, up); break;
    case 6: body = digits(16, up); break;
  }
  return (neg ? "-" : "") + body;
}
inline const char* style_name[7] = {"decimal", "0x-hex", "bare hex", "0-octal", "bare octal", "0X-HEX upper case", "bare HEX upper case"};

// ---------------------------------------------------------------------------------------------------
// floats
// ---------------------------------------------------------------------------------------------------
struct RefFloat {
  Cls cls = INVALID;
  double value = 0;
  const char* why = "";
};
inline RefFloat ref_float(const std::string& t) {
  RefFloat r;
  if (t.empty()) { r.why = "empty"; return r; }
  if (t[0] == ' ' || (t[0] >= '\t' && t[0] <= '\r')) { r.cls = DONTCARE; r.why = "leading blank"; return r; }
  std::string s = t;
  bool plus = false;
  if (s[0] == '+') { plus = true; s = s.substr(1); if (!s.empty() && (s[0] == '-' || s[0] == '+')) { r.why = "two signs"; return r; } }
  {
    size_t k = (!s.empty() && s[0] == '-') ? 1 : 0;
    if (k + 1 < s.size() && s[k] == '0' && (s[k + 1] == 'x' || s[k + 1] == 'X')) { r.cls = DONTCARE; r.why = "hexadecimal float"; return r; }
    if (k < s.size() && (s[k] == 'i' || s[k] == 'I' || s[k] == 'n' || s[k] == 'N')) { r.cls = DONTCARE; r.why = "inf/nan spelling"; return r; }
  }
  double v = 0;
  auto res = std::from_chars(s.data(), s.data() + s.size(), v, std::chars_format::general);
  if (res.ptr != s.data() + s.size() || res.ec == std::errc::invalid_argument) { r.why = "not a complete literal"; return r; }
  r.value = v;
  if (res.ec == std::errc::result_out_of_range) { r.cls = DONTCARE; r.why = "literal outside the double range"; return r; }
  r.cls = plus ? DONTCARE : VALID;
  r.why = plus ? "explicit plus sign" : "literal";
  return r;
}

template <class T, class Ctx>
inline const char* judge_float(vf::Run& r, const std::string& K, Ctx&& ctx, const RefFloat& ref, const std::string& oc, T got, size_t count, const std::string& what) {
  if (ref.cls == DONTCARE && !(oc == "ok" && ref.why[0] == 'e')) return "don't-care input (executed, not compared)";
  if (oc != "ok" && oc != "invalid_argument") { r.fail(K + ":wrong-exception-type", [&] { return ctx() + " threw " + oc + " (" + what + ")"; }); return nullptr; }
  if (ref.cls == INVALID) {
    if (oc == "ok") { r.fail(K + ":accepts-incomplete-literal", [&] { return ctx() + vf::fmt(" returned %.17g, expected invalid_argument", (double)got); }); return nullptr; }
    return "rejected: not a floating-point literal";
  }
  if (oc != "ok") { r.fail(K + ":rejects-literal", [&] { return ctx() + " threw invalid_argument (" + what + ")"; }); return nullptr; }
  if (sizeof(T) == 4) {
    if (fabs(ref.value) > (double)std::numeric_limits<float>::max()) return "accepted: literal outside the float range (value not compared)";
    float want = (float)ref.value, g = (float)got;
    float lo = std::nextafter(want, -std::numeric_limits<float>::infinity()), hi = std::nextafter(want, std::numeric_limits<float>::infinity());
    if (count != 1 || !(g >= lo && g <= hi)) { r.fail(K + ":wrong-value", [&] { return ctx() + vf::fmt(" returned %.17g, std::from_chars gives %.17g", (double)got, (double)want); }); return nullptr; }
    return g == want ? "accepted: equals from_chars" : "accepted: within 1 ulp of from_chars";
  }
  // double and long double: the value is compared at double precision (the statement does not promise more)
  double want = ref.value, g = (double)got;
  double lo = std::nextafter(want, -std::numeric_limits<double>::infinity()), hi = std::nextafter(want, std::numeric_limits<double>::infinity());
  if (count != 1 || !(g >= lo && g <= hi)) { r.fail(K + ":wrong-value", [&] { return ctx() + vf::fmt(" returned %.17g, std::from_chars gives %.17g", (double)got, (double)want); }); return nullptr; }
  return g == want ? "accepted: equals from_chars" : "accepted: within 1 ulp of from_chars";
}

inline const char* fvia_name[NVIA] = {"get<T>(name)", "get_multi<T>(name)", "get<T>(name, default)", "get<T>(position)", "get<T>(position, default)"};

template <class T>
inline const char* float_read(vf::Run& r, const std::string& K, Arguments& named, Arguments* positional, const std::string& text, const RefFloat& ref, int via, bool own_errno = true) {
  T got = 0;
  size_t count = 1;
  std::string what;
  std::string oc = vf::outcome([&] {
    if (own_errno) set_ambient_errno(r, via);
    switch (via) {
      case VIA_NAMED: got = named.get<T>("x"); break;
      case VIA_MULTI: { auto v = named.get_multi<T>("x"); count = v.size(); got = v.empty() ? 0 : v[0]; break; }
      case VIA_DEFAULT: got = named.get<T>("x", std::optional<T>((T)9.25)); break;
      case VIA_POSITIONAL: got = positional->get<T>((size_t)0); break;
      case VIA_POS_DEFAULT: got = positional->get<T>((size_t)0, std::optional<T>((T)9.25)); break;
    }
  }, &what);
  r.counters["getter_calls"]++;
  auto ctx = [&] { return vf::fmt("%s with T=%s on text ", fvia_name[via], fname<T>()) + short_show(text) + " (reference: " + ref.why + ")"; };
  return judge_float<T>(r, K, ctx, ref, oc, got, count, what);
}

// ---------------------------------------------------------------------------------------------------
// execution contexts: the verdict of a getter / of assert_none_unused is a function of the object and the
// arguments of the call, not of what else the thread is doing
// ---------------------------------------------------------------------------------------------------
enum Cx { CX_PLAIN, CX_CATCH, CX_UNWIND, CX_UNWIND_IN_CATCH, CX_THREAD, CX_THREAD_UNWIND, NCX };
inline const char* cx_name[NCX] = {"plain call", "inside a catch handler", "in a destructor during stack unwinding", "in a destructor during unwinding started inside a catch handler", "on a fresh thread", "on a fresh thread in a destructor during unwinding"};

template <class F>
struct AtExit {
  F& f;
  ~AtExit() { f(); }
};

// f must not let an exception escape (probes catch their own)
template <class F>
inline void run_ctx(int cx, int errno_value, F&& f) {
  auto body = [&] { errno = errno_value; f(); };
  switch (cx) {
    case CX_PLAIN: body(); break;
    case CX_CATCH:
      try { throw std::runtime_error("outer"); } catch (const std::exception&) { body(); }
      break;
    case CX_UNWIND:
      try { AtExit<decltype(body)> g{body}; throw std::runtime_error("outer"); } catch (const std::exception&) {}
      break;
    case CX_UNWIND_IN_CATCH:
      try { throw std::logic_error("outer 1"); } catch (const std::exception&) {
        try { AtExit<decltype(body)> g{body}; throw std::runtime_error("outer 2"); } catch (const std::exception&) {}
      }
      break;
    case CX_THREAD: { std::thread t([&] { body(); }); t.join(); break; }
    case CX_THREAD_UNWIND: {
      std::thread t([&] { try { AtExit<decltype(body)> g{body}; throw std::runtime_error("outer"); } catch (const std::exception&) {} });
      t.join();
      break;
    }
  }
}

}  // namespace c17
