// C19: expect(v) / expect_msg(v, msg) / expect_generic(v, ...) / expect(!v) with a predicate v that is not a bool
// (shared by C19.cc `predicates` and C19_types3.cc `predicate_types`).
//
// Oracle: the helper throws iff the predicate, converted to bool the way the language converts a condition
// (v ? true : false), is false.
//
// Round 5: every macro call is behind a feature test (requires-expression on the macro call itself), so a change to the
// library that makes a form ill-formed for some predicate type (e.g. a pointer) is a keyed finding
// `<form>:ill-formed-for-these-types` - demanded only for types that convert IMPLICITLY to bool, which is what the
// funnel expect_generic(bool pred, ...) accepts; for types that convert only contextually (explicit operator bool,
// nullptr_t) an ill-formed call is "not applicable" and a well-formed one is judged like every other.
#pragma once
#include "C19_rel.hh"

namespace c19 {

template <class V>
inline constexpr bool implicit_bool_v = std::is_convertible_v<const V&, bool>;

template <class V>
inline constexpr bool wf_expect_v = requires(const V& v) { expect(v); };
template <class V>
inline constexpr bool wf_expect_msg_v = requires(const V& v) { expect_msg(v, "value is zero: 50% of %s"); };
template <class V>
inline constexpr bool wf_expect_generic_v = requires(const V& v) { expect_generic(v, "generic %d%n", "some/other file.cc", 77); };
template <class V>
inline constexpr bool wf_expect_not_v = requires(const V& v) { expect(!v); };

// vals: any random-access container of V (std::vector, std::deque for types that cannot be moved); show: V -> text.
// The typed part only builds the type-erased call; the loops and verdicts are in sweep_predicates (C19_common.cc).
template <class V, class Vals, class Show>
void check_pred_with(vf::Run& r, const char* tname, const Vals& vals, const std::vector<int>& ctxs, Show show) {
  PredSweep s;
  s.tname = tname;
  s.n = vals.size();
  s.wf[0] = wf_expect_v<V>;
  s.wf[1] = wf_expect_msg_v<V>;
  s.wf[2] = wf_expect_generic_v<V>;
  s.wf[3] = wf_expect_not_v<V>;
  s.implicit_bool = implicit_bool_v<V>;
  s.show = [&](size_t i) { const V& v = vals[i]; return show(v); };
  s.call = [&](int form, size_t i, bool& truth, Site& site) {
    const V& v = vals[i];
    site.file = __FILE__;
    return probe([&] {
      // clang-format off
      switch (form) {
        case 0: if constexpr (wf_expect_v<V>) { bool t = v ? true : false; truth = t; site.line = __LINE__; expect(v); } break;
        case 1: if constexpr (wf_expect_msg_v<V>) { bool t = v ? true : false; truth = t; site.line = __LINE__; expect_msg(v, "value is zero: 50% of %s"); } break;
        case 2: if constexpr (wf_expect_generic_v<V>) { bool t = v ? true : false; truth = t; site.line = 77; site.file = "some/other file.cc"; expect_generic(v, "generic %d%n", "some/other file.cc", 77); } break;
        case 3: if constexpr (wf_expect_not_v<V>) { bool t = !v; truth = t; site.line = __LINE__; expect(!v); } break;
      }
      // clang-format on
    });
  };
  sweep_predicates(r, s, ctxs);
}

template <class V>
void check_pred(vf::Run& r, const char* tname, const std::vector<V>& vals, const std::vector<int>& ctxs) {
  check_pred_with<V>(r, tname, vals, ctxs, [](const V& v) { return sv(v); });
}

}  // namespace c19
