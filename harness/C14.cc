// C14 — file and stream reads are complete regardless of how data is delivered; directory,
// path, scoped_fd and Poll bookkeeping.
// E-ENV: libc read/pread/open/close are interposed at link time (-Wl,--wrap) and buffered streams
// are fopencookie streams; each environment answer (how many bytes this call delivers, or EINTR)
// is a choice point enumerated by engine/env.hh.  E-BFS/E-ENUM for scoped_fd, Poll, paths, trees.
#include <dirent.h>
#include <errno.h>
#include <fcntl.h>
#include <poll.h>
#include <stdio.h>
#include <string.h>
#include <sys/stat.h>
#include <unistd.h>

#include <algorithm>
#include <map>
#include <optional>
#include <set>
#include <string>
#include <unordered_set>
#include <vector>

#include "Filesystem.hh"
#include "env.hh"
#include "vf.hh"

using namespace phosg;

// ---- interposition ---------------------------------------------------------------------------------

extern "C" ssize_t __real_read(int, void*, size_t);
extern "C" ssize_t __real_pread(int, void*, size_t, off_t);
extern "C" int __real_open(const char*, int, ...);
extern "C" int __real_close(int);

namespace {

vfe::Env g_env;

struct Source {
  bool active = false;
  int fd = -1;               // descriptor whose reads are owned (-1: learn it from open(path))
  std::string path;          // when non-empty, open() of this path defines fd
  size_t size = 0;           // content size (the real file holds the content)
  bool small = false;        // true: every chunk size is an option (all compositions)
  bool error_used = false;
  size_t consumed = 0;       // bytes delivered by read() so far
  size_t calls = 0;
  std::vector<size_t> last_call_sizes;
} g_src;

// choice menu for a call that could deliver up to R bytes
size_t pick_chunk(size_t R, bool* inject_error) {
  *inject_error = false;
  if (R == 0) {
    // at EOF the only other answer is an error
    if (!g_src.error_used && !g_src.small) {
      if (g_env.choose(2) == 1) { g_src.error_used = true; *inject_error = true; }
    }
    return 0;
  }
  std::vector<size_t> menu;
  if (g_src.small) {
    for (size_t k = R; k >= 1; k--) menu.push_back(k);
  } else {
    menu.push_back(R);
    for (size_t k : {(size_t)1, R / 2, R - 1}) if (k >= 1 && k < R && std::find(menu.begin(), menu.end(), k) == menu.end()) menu.push_back(k);
  }
  int nopt = (int)menu.size() + (g_src.error_used ? 0 : 1);
  int c = g_env.choose(nopt);
  if (c >= (int)menu.size()) { g_src.error_used = true; *inject_error = true; return 0; }
  return menu[c];
}

// fd bookkeeping for the scoped_fd section
struct FdLog {
  bool active = false;
  std::set<int> live;
  int double_close = 0;
  int opens = 0;
  std::string path;  // opens of this path are owned
} g_fdlog;

}  // namespace

extern "C" ssize_t __wrap_read(int fd, void* buf, size_t n) {
  if (!g_src.active || fd != g_src.fd || fd < 0) return __real_read(fd, buf, n);
  g_src.calls++;
  size_t remaining = g_src.size - std::min(g_src.size, g_src.consumed);
  bool err;
  size_t k = pick_chunk(std::min(n, remaining), &err);
  if (err) { errno = EINTR; return -1; }
  ssize_t r = k ? __real_read(fd, buf, k) : __real_read(fd, buf, n);
  if (r > 0) g_src.consumed += r;
  g_src.last_call_sizes.push_back(r < 0 ? 0 : r);
  return r;
}

extern "C" ssize_t __wrap_pread(int fd, void* buf, size_t n, off_t off) {
  if (!g_src.active || fd != g_src.fd || fd < 0) return __real_pread(fd, buf, n, off);
  g_src.calls++;
  size_t remaining = (size_t)off >= g_src.size ? 0 : g_src.size - (size_t)off;
  bool err;
  size_t k = pick_chunk(std::min(n, remaining), &err);
  if (err) { errno = EINTR; return -1; }
  ssize_t r = k ? __real_pread(fd, buf, k, off) : __real_pread(fd, buf, n, off);
  if (r > 0) g_src.consumed += r;
  return r;
}

extern "C" int __wrap_open(const char* path, int flags, ...) {
  mode_t mode = 0;
  if (flags & (O_CREAT | O_TMPFILE)) {
    va_list va;
    va_start(va, flags);
    mode = va_arg(va, mode_t);
    va_end(va);
  }
  int fd = __real_open(path, flags, mode);
  if (g_src.active && !g_src.path.empty() && g_src.path == path && fd >= 0) g_src.fd = fd;
  if (g_fdlog.active && g_fdlog.path == path && fd >= 0) { g_fdlog.live.insert(fd); g_fdlog.opens++; }
  return fd;
}

extern "C" int __wrap_close(int fd) {
  if (g_fdlog.active) {
    // only descriptors handed to the objects under test are tracked
    if (g_fdlog.live.count(fd)) g_fdlog.live.erase(fd);
    else if (fd >= 0) g_fdlog.double_close++;
  }
  if (g_src.active && fd == g_src.fd && !g_src.path.empty()) g_src.fd = -2;
  return __real_close(fd);
}

namespace {

std::string scratch_dir(vf::Run& r, const char* what) {
  std::string d = std::string(getenv("VF_ROOT") ? getenv("VF_ROOT") : ".") + "/build/scratch";
  mkdir(d.c_str(), 0755);
  d += "/C14";
  mkdir(d.c_str(), 0755);
  d += vf::fmt("/%s-%s-%llu-%d", what, r.tier.c_str(), (unsigned long long)r.shard, (int)getpid());
  std::string cmd = "rm -rf '" + d + "'";
  if (system(cmd.c_str())) {}
  mkdir(d.c_str(), 0755);
  return d;
}
void rm_rf(const std::string& d) {
  std::string cmd = "rm -rf '" + d + "'";
  if (system(cmd.c_str())) {}
}

std::string content(size_t n) {
  std::string s(n, 0);
  for (size_t i = 0; i < n; i++) s[i] = (char)((i % 251) + 1);  // never NUL: padding with zeros is visible
  return s;
}

void write_real(const std::string& path, const std::string& d) {
  int fd = __real_open(path.c_str(), O_CREAT | O_TRUNC | O_WRONLY, 0644);
  size_t off = 0;
  while (off < d.size()) {
    ssize_t w = write(fd, d.data() + off, d.size() - off);
    if (w <= 0) { perror("write_real"); _exit(3); }
    off += w;
  }
  __real_close(fd);
}

std::string brief(const std::string& s) {
  if (s.size() <= 24) return vf::show(s);
  return vf::fmt("<%zu bytes, head %s>", s.size(), vf::show(s.substr(0, 8)).c_str());
}

// ---- fd reads ------------------------------------------------------------------------------------

enum FdFn { RA_FD, READ_FD, READX_STR, READX_BUF, PREADX_STR, PREADX_BUF, LOAD_FILE, NFDFN };
const char* fdfn_name[] = {"read_all(fd)", "read(fd,size)", "readx(fd,size)", "readx(fd,buf,size)", "preadx(fd,size,off)", "preadx(fd,buf,size,off)", "load_file"};

struct FdCase { FdFn fn; size_t n, size, off; };

// one execution; returns "" or failure text.  key_out gets the failure class.
std::string run_fd_case(const FdCase& c, const std::string& path, const std::string& d, std::string* key_out) {
  g_src = Source();
  g_src.active = true;
  g_src.size = d.size();
  g_src.small = d.size() <= 10;
  int fd = -1;
  if (c.fn == LOAD_FILE) g_src.path = path;
  else { fd = __real_open(path.c_str(), O_RDONLY); g_src.fd = fd; }
  std::string got, what;
  std::string out = vf::outcome([&] {
    switch (c.fn) {
      case RA_FD: got = read_all(fd); break;
      case READ_FD: got = phosg::read(fd, c.size); break;
      case READX_STR: got = readx(fd, c.size); break;
      case READX_BUF: { std::string b(c.size, 'Z'); readx(fd, b.data(), c.size); got = b; break; }
      case PREADX_STR: got = preadx(fd, c.size, c.off); break;
      case PREADX_BUF: { std::string b(c.size, 'Z'); preadx(fd, b.data(), c.size, c.off); got = b; break; }
      case LOAD_FILE: got = load_file(path); break;
      default: break;
    }
  }, &what);
  size_t consumed = g_src.consumed;
  bool err_injected = g_src.error_used;
  g_src.active = false;
  if (fd >= 0) __real_close(fd);
  if (out != "ok") {
    if (out != "runtime_error") { *key_out = "unexpected-exception-type"; return "threw " + out + " (" + what + "), documented failures are io_error/runtime_error"; }
    return "";  // throwing is always allowed by the statement
  }
  (void)err_injected;
  switch (c.fn) {
    case RA_FD:
    case LOAD_FILE:
      if (got != d) {
        *key_out = got.size() < d.size() && d.compare(0, got.size(), got) == 0 ? "silent-truncation" : got.size() > d.size() ? "padded-or-extra" : "wrong-bytes";
        return vf::fmt("returned %s but the source holds %s (%zu bytes consumed from the source)", brief(got).c_str(), brief(d).c_str(), consumed);
      }
      break;
    case READ_FD:
      // clamping form: must return exactly the bytes it consumed from the source (a prefix, no padding)
      if (got != d.substr(0, std::min(consumed, d.size())) || got.size() > c.size) { *key_out = "not-the-delivered-bytes"; return vf::fmt("returned %s after consuming %zu bytes of %s", brief(got).c_str(), consumed, brief(d).c_str()); }
      break;
    case READX_STR:
    case READX_BUF:
      if (c.size > d.size()) { *key_out = "exact-read-beyond-eof-succeeds"; return vf::fmt("asked for %zu bytes of a %zu-byte source and returned normally with %s", c.size, d.size(), brief(got).c_str()); }
      if (got != d.substr(0, c.size)) { *key_out = "silent-truncation-or-padding"; return vf::fmt("asked for exactly %zu bytes, returned %s, source is %s", c.size, brief(got).c_str(), brief(d).c_str()); }
      break;
    case PREADX_STR:
    case PREADX_BUF:
      if (c.size > 0 && c.off + c.size > d.size()) { *key_out = "exact-read-beyond-eof-succeeds"; return vf::fmt("asked for %zu bytes at offset %zu of a %zu-byte source and returned normally", c.size, c.off, d.size()); }
      if (got != (c.size ? d.substr(c.off, c.size) : std::string())) { *key_out = "silent-truncation-or-padding"; return vf::fmt("asked for exactly %zu bytes at %zu, returned %s", c.size, c.off, brief(got).c_str()); }
      break;
    default: break;
  }
  return "";
}

}  // namespace

VF_SECTION(fd_reads, 16, 16, 240) {
  std::string dir = scratch_dir(r, "fd");
  std::string path = dir + "/src.bin";
  std::vector<size_t> sizes;
  for (size_t n = 0; n <= 10; n++) sizes.push_back(n);
  for (size_t n : {255, 256, 257, 16383, 16384, 16385, 32768, 40000, 204800}) sizes.push_back(n);
  int bound_big = r.thorough() ? 3 : 2;
  for (size_t n : sizes) {
    std::string d = content(n);
    bool file_written = false;
    for (int f = 0; f < NFDFN; f++) {
      std::vector<std::pair<size_t, size_t>> args = {{0, 0}};  // (size, off)
      if (f == READ_FD) { args.clear(); for (size_t s : std::set<size_t>{0, n / 2, n, n + 5}) args.push_back({s, 0}); }
      if (f == READX_STR || f == READX_BUF) { args.clear(); for (size_t s : std::set<size_t>{0, 1, n / 2, n, n + 1}) args.push_back({s, 0}); }
      if (f == PREADX_STR || f == PREADX_BUF) { args.clear(); for (size_t o : std::set<size_t>{0, 1, n / 2}) for (size_t s : std::set<size_t>{0, 1, n / 2, n, n + 1}) args.push_back({s, o}); }
      for (auto [sz, off] : args) {
        if (!r.take()) continue;
        if (!file_written) { write_real(path, d); file_written = true; }
        FdCase c{(FdFn)f, n, sz, off};
        r.note(fdfn_name[f]);
        bool small = n <= 10;
        std::string cd = vf::fmt("%s on a %zu-byte source, size=%zu off=%zu; %s", fdfn_name[f], n, sz, off, small ? "every way of splitting the delivery into read() chunks (plus one EINTR)" : vf::fmt("answers {full,1,half,count-1,EINTR} per read() call, <=%d non-default answers", bound_big).c_str());
        if (r.wants_desc()) r.desc(cd);
        std::string key;
        auto st = vfe::explore(g_env, [&] { r.beat(); key.clear(); return run_fd_case(c, path, d, &key); }, small ? -1 : bound_big, 2000000);
        r.transitions += st.choice_points;
        r.states += st.executions;
        r.counters["executions"] += st.executions;
        if (!st.complete && st.failure.empty()) r.exhaustive = false;
        if (st.executions > 1) r.nontriv();
        if (!st.failure.empty()) {
          bool engine = st.failure.rfind("ENGINE", 0) == 0;
          // replay the failing plan once more: it must reproduce
          if (!engine) {
            g_env.begin(st.failing_choices);
            std::string k2, again = run_fd_case(c, path, d, &k2);
            if (again != st.failure) { engine = true; key = "engine-nonreproducible"; }
          }
          r.fail(std::string(fdfn_name[f]) + ":" + (engine ? "engine" : key.empty() ? "horizon" : key), [&] { return cd + " :: " + st.failure + " :: delivery plan (answer index/options per call) = [ " + st.failing_trace + "] after " + std::to_string(st.executions) + " executions"; });
        } else r.ok(st.executions == 1 ? "single-plan" : st.executions < 100 ? "lt-100-plans" : "ge-100-plans");
      }
    }
  }
  rm_rf(dir);
  r.bound = vf::fmt("sources of 0..10 bytes: all delivery compositions; 9 block-boundary sizes up to 200 KiB: answers {full,1,half,count-1,EINTR} with <=%d deviations", bound_big);
}

// ---- stream reads ----------------------------------------------------------------------------------

namespace {

struct Cookie {
  std::string data;
  size_t pos = 0;
  bool choices = false;      // chunk sizes are choice points
  size_t fixed_chunk = 0;    // else: deliver at most this many bytes per callback (0 = all)
  size_t calls = 0;
};

ssize_t cookie_read(void* cv, char* buf, size_t n) {
  Cookie* c = (Cookie*)cv;
  c->calls++;
  size_t R = std::min(n, c->data.size() - c->pos);
  size_t k = R;
  if (R > 0) {
    if (c->choices) {
      std::vector<size_t> menu = {R};
      for (size_t x : {(size_t)1, R / 2, R - 1}) if (x >= 1 && x < R && std::find(menu.begin(), menu.end(), x) == menu.end()) menu.push_back(x);
      k = menu[g_env.choose((int)menu.size())];
    } else if (c->fixed_chunk) k = std::min(R, c->fixed_chunk);
  }
  memcpy(buf, c->data.data() + c->pos, k);
  c->pos += k;
  return k;
}

FILE* open_cookie(Cookie* c) {
  cookie_io_functions_t io = {cookie_read, nullptr, nullptr, nullptr};
  return fopencookie(c, "rb", io);
}

enum StFn { RA_FILE, FREAD, FREADX_STR, FREADX_BUF, FGETCX, NSTFN };
const char* stfn_name[] = {"read_all(FILE*)", "fread(FILE*,size)", "freadx(FILE*,size)", "freadx(FILE*,buf,size)", "fgetcx"};

std::string run_stream_case(StFn fn, const std::string& d, size_t size, std::string* key) {
  Cookie ck;
  ck.data = d;
  ck.choices = true;
  FILE* f = open_cookie(&ck);
  std::string got, what;
  std::string out = vf::outcome([&] {
    switch (fn) {
      case RA_FILE: got = read_all(f); break;
      case FREAD: got = phosg::fread(f, size); break;
      case FREADX_STR: got = freadx(f, size); break;
      case FREADX_BUF: { std::string b(size, 'Z'); freadx(f, b.data(), size); got = b; break; }
      case FGETCX: for (size_t i = 0; i < size; i++) got.push_back((char)fgetcx(f)); break;
      default: break;
    }
  }, &what);
  fclose(f);
  if (out != "ok") {
    if (out != "runtime_error") { *key = "unexpected-exception-type"; return "threw " + out + " (" + what + ")"; }
    if (fn == RA_FILE) { *key = "throws-on-complete-delivery"; return "threw (" + what + ") although the source delivered everything without error"; }
    if ((fn == FREADX_STR || fn == FREADX_BUF || fn == FGETCX) && size <= d.size()) { *key = "throws-although-data-available"; return vf::fmt("asked for %zu of %zu available bytes and threw (%s)", size, d.size(), what.c_str()); }
    if (fn == FREAD) { *key = "clamping-form-throws"; return "fread threw (" + what + ")"; }
    return "";
  }
  switch (fn) {
    case RA_FILE:
      if (got != d) { *key = got.size() < d.size() ? "silent-truncation" : "padded-or-wrong"; return vf::fmt("returned %s, the stream delivered %s", brief(got).c_str(), brief(d).c_str()); }
      break;
    case FREAD:
      if (got != d.substr(0, std::min(size, d.size()))) { *key = "not-the-prefix"; return vf::fmt("fread(%zu) returned %s from a stream holding %s", size, brief(got).c_str(), brief(d).c_str()); }
      break;
    default:
      if (size > d.size()) { *key = "exact-read-beyond-eof-succeeds"; return vf::fmt("asked for %zu bytes of a %zu-byte stream and returned normally", size, d.size()); }
      if (got != d.substr(0, size)) { *key = "silent-truncation-or-padding"; return vf::fmt("asked for exactly %zu bytes, returned %s", size, brief(got).c_str()); }
  }
  return "";
}

}  // namespace

VF_SECTION(stream_reads, 16, 16, 240) {
  std::vector<size_t> sizes;
  for (size_t n = 0; n <= 6; n++) sizes.push_back(n);
  for (size_t n : {255, 256, 257, 4095, 4096, 4097, 16383, 16384, 16385, 32768, 40000, 204800}) sizes.push_back(n);
  int bound = r.thorough() ? 3 : 2;
  for (size_t n : sizes) {
    std::string d = content(n);
    for (int f = 0; f < NSTFN; f++) {
      std::set<size_t> args = {0};
      if (f != RA_FILE) args = {0, 1, n / 2, n, n + 1};
      if (f == FGETCX && n > 300) args = {1, 300};
      for (size_t sz : args) {
        if (!r.take()) continue;
        r.note(stfn_name[f]);
        std::string cd = vf::fmt("%s on a %zu-byte cookie stream, size=%zu; callback answers {full,1,half,count-1} with <=%d non-default answers", stfn_name[f], n, sz, bound);
        if (r.wants_desc()) r.desc(cd);
        std::string key;
        auto st = vfe::explore(g_env, [&] { r.beat(); key.clear(); return run_stream_case((StFn)f, d, sz, &key); }, bound, 2000000);
        r.transitions += st.choice_points;
        r.states += st.executions;
        r.counters["executions"] += st.executions;
        if (!st.complete && st.failure.empty()) r.exhaustive = false;
        if (st.executions > 1) r.nontriv();
        if (!st.failure.empty()) r.fail(std::string(stfn_name[f]) + ":" + (key.empty() ? "engine-or-horizon" : key), [&] { return cd + " :: " + st.failure + " :: plan = [ " + st.failing_trace + "]"; });
        else r.ok(st.executions == 1 ? "single-plan" : "multi-plan");
      }
    }
  }
  r.bound = vf::fmt("streams of 0..6 bytes and 12 block-boundary sizes up to 200 KiB; callback answers {full,1,half,count-1}, <=%d deviations", bound);
}

VF_SECTION(fgets_lines, 16, 16, 240) {
  // every line length 0..1100 x {newline-terminated, ended by EOF} x following content x chunking
  const std::vector<std::string> follow = {"", "xy\n", std::string(300, 'q') + "\n"};
  const std::vector<size_t> chunking = r.thorough() ? std::vector<size_t>{0, 1, 7, 255, 256} : std::vector<size_t>{0, 1, 255};
  size_t maxlen = 1100;
  for (size_t len = 0; len <= maxlen; len++) {
    for (int nl = 0; nl < 2; nl++) {
      for (size_t fi = 0; fi < follow.size(); fi++) {
        if (!nl && fi) continue;  // an EOF-terminated line has nothing after it
        for (size_t ch : chunking) {
          if (!r.take()) continue;
          r.note("fgets");
          std::string line(len, 'a');
          for (size_t i = 0; i < len; i++) line[i] = (char)('a' + (i % 23));
          std::string contentv = line + (nl ? "\n" : "") + follow[fi];
          if (r.wants_desc()) r.desc(vf::fmt("fgets(FILE*) on a %zu-char line %s, followed by %zu more bytes, stream delivers %s per callback", len, nl ? "ending in \\n" : "ended by EOF", follow[fi].size(), ch ? std::to_string(ch).c_str() : "everything"));
          std::vector<std::string> want;
          {
            size_t p = 0;
            while (p < contentv.size()) {
              size_t e = contentv.find('\n', p);
              e = e == std::string::npos ? contentv.size() : e + 1;
              want.push_back(contentv.substr(p, e - p));
              p = e;
            }
          }
          Cookie ck;
          ck.data = contentv;
          ck.fixed_chunk = ch;
          FILE* f = open_cookie(&ck);
          std::vector<std::string> got;
          std::string what, out = vf::outcome([&] {
            for (size_t k = 0; k < contentv.size() + 2; k++) {
              std::string l = phosg::fgets(f);
              if (l.empty()) break;
              got.push_back(l);
            }
          }, &what);
          fclose(f);
          r.nontriv();
          auto d = [&] {
            std::string g;
            for (auto& l : got) g += std::to_string(l.size()) + " ";
            std::string w;
            for (auto& l : want) w += std::to_string(l.size()) + " ";
            return vf::fmt("line of %zu chars %s + %zu following bytes, %s per callback: fgets returned lines of lengths [ %s] (%s), the content's lines have lengths [ %s]", len, nl ? "with \\n" : "without \\n", follow[fi].size(), ch ? std::to_string(ch).c_str() : "all", g.c_str(), out.c_str(), w.c_str());
          };
          if (out != "ok") r.fail("fgets:throws-on-healthy-stream", d);
          else if (got != want) {
            std::string cat;
            for (auto& l : got) cat += l;
            r.fail(cat == contentv ? "fgets:line-split-wrongly" : "fgets:bytes-lost-or-added", d);
          } else r.ok(len < 255 ? "short-line" : "long-line");
        }
      }
    }
  }
  r.bound = "every line length 0..1100 x {\\n, EOF} x 3 followers x per-callback delivery sizes";
}

// ---- files, paths, directories ------------------------------------------------------------------------

VF_SECTION(files, 4, 8, 240) {
  std::string dir = scratch_dir(r, "files");
  std::vector<size_t> sizes;
  for (size_t n = 0; n <= 300; n++) sizes.push_back(n);
  for (size_t n : {4095, 4096, 4097, 16383, 16384, 16385, 32768, 65536, 204800}) sizes.push_back(n);
  for (size_t n : sizes) {
    if (!r.take()) continue;
    r.note("save_file/load_file");
    if (r.wants_desc()) r.desc(vf::fmt("load_file(save_file(d)) with |d|=%zu", n));
    std::string d = content(n);
    if (n > 2) { d[1] = 0; d[n - 1] = (char)0xFF; }
    std::string p = dir + "/f.bin";
    std::string got, what, out = vf::outcome([&] { save_file(p, d); got = load_file(p); }, &what);
    // independent read-back of what save_file produced
    std::string raw;
    {
      int fd = __real_open(p.c_str(), O_RDONLY);
      char buf[65536];
      ssize_t k;
      while (fd >= 0 && (k = __real_read(fd, buf, sizeof(buf))) > 0) raw.append(buf, k);
      if (fd >= 0) __real_close(fd);
    }
    r.nontriv();
    if (out != "ok") r.fail("save_file/load_file:throws", [&] { return vf::fmt("|d|=%zu: threw %s (%s)", n, out.c_str(), what.c_str()); });
    else if (raw != d) r.fail("save_file:file-content", [&] { return vf::fmt("|d|=%zu: file holds %s", n, brief(raw).c_str()); });
    else if (got != d) r.fail("load_file:content", [&] { return vf::fmt("|d|=%zu: load_file returned %s", n, brief(got).c_str()); });
    else r.ok("roundtrip");
    ::unlink(p.c_str());
  }
  rm_rf(dir);
  r.bound = "every size 0..300 plus 9 block-boundary sizes up to 200 KiB";
}

VF_SECTION(paths, 1, 1, 120) {
  vf::all_strings("a/.", r.thorough() ? 9 : 7, [&](const std::string& p) {
    if (!r.take()) return;
    if (r.wants_desc()) r.desc("dirname/basename of " + vf::show(p));
    std::string dn = dirname(p), bn = basename(p);
    bool has = p.find('/') != std::string::npos;
    if (has) r.nontriv();
    if (bn.find('/') != std::string::npos) r.fail("basename:contains-slash", [&] { return vf::show(p) + " -> basename " + vf::show(bn); });
    else if (has && dn + "/" + bn != p) r.fail("dirname/basename:law", [&] { return vf::show(p) + " -> dirname " + vf::show(dn) + " basename " + vf::show(bn); });
    else if (!has && (bn != p || !dn.empty())) r.fail("dirname/basename:no-slash", [&] { return vf::show(p) + " -> dirname " + vf::show(dn) + " basename " + vf::show(bn); });
    else r.ok(has ? "with-slash" : "no-slash");
  });
  r.bound = "all strings over {a,/,.} up to the stated length";
}

namespace {
enum Kind { K_FILE, K_DIR, K_DIR_FILE, K_LINK_FILE, K_LINK_DIR, K_DANGLING, K_DIR_WITH_LINKDIR, NKIND };
const char* kind_name[] = {"file", "emptydir", "dir+file", "symlink->outside file", "symlink->outside dir", "dangling symlink", "dir containing symlink->outside dir"};
bool exists_l(const std::string& p) { struct stat st; return ::lstat(p.c_str(), &st) == 0; }
}  // namespace

VF_SECTION(dirs, 8, 16, 240) {
  std::string base = scratch_dir(r, "dirs");
  const std::vector<std::string> names = {"a", "b", ".h", "x y"};
  size_t maxk = r.thorough() ? 4 : 3;
  // every subset of names (size <= maxk) with every assignment of kinds
  struct Tree { std::vector<int> members; std::vector<uint32_t> kinds; };
  std::vector<Tree> trees;
  for (uint32_t mask = 0; mask < 16; mask++) {
    if ((size_t)__builtin_popcount(mask) > maxk) continue;
    std::vector<int> members;
    for (int i = 0; i < 4; i++) if (mask & (1u << i)) members.push_back(i);
    if (members.empty()) { trees.push_back({members, {}}); continue; }
    for (vf::Odometer od(std::vector<uint32_t>(members.size(), NKIND)); !od.done; od.step()) trees.push_back({members, od.d});
  }
  std::stable_sort(trees.begin(), trees.end(), [](const Tree& a, const Tree& b) { return a.members.size() < b.members.size(); });
  for (auto& tree : trees) {
    {
      const std::vector<int>& members = tree.members;
      struct { const std::vector<uint32_t>& d; } od{tree.kinds};
      if (!r.take()) continue;
      r.note("list_directory/unlink");
      std::string root = base + "/root", outside = base + "/outside";
      rm_rf(root);
      rm_rf(outside);
      mkdir(root.c_str(), 0755);
      mkdir(outside.c_str(), 0755);
      mkdir((outside + "/odir").c_str(), 0755);
      write_real(outside + "/odir/keep", "keep");
      write_real(outside + "/ofile", "ofile");
      std::string desc;
      std::set<std::string> want;
      for (size_t i = 0; i < members.size(); i++) {
        std::string nm = names[members[i]], p = root + "/" + nm;
        int k = od.d[i];
        desc += vf::show(nm) + "=" + kind_name[k] + "; ";
        want.insert(nm);
        switch (k) {
          case K_FILE: write_real(p, "data"); break;
          case K_DIR: mkdir(p.c_str(), 0755); break;
          case K_DIR_FILE: mkdir(p.c_str(), 0755); write_real(p + "/inner", "i"); break;
          case K_LINK_FILE: if (symlink((outside + "/ofile").c_str(), p.c_str())) {} break;
          case K_LINK_DIR: if (symlink((outside + "/odir").c_str(), p.c_str())) {} break;
          case K_DANGLING: if (symlink((outside + "/nonexistent").c_str(), p.c_str())) {} break;
          case K_DIR_WITH_LINKDIR: mkdir(p.c_str(), 0755); if (symlink((outside + "/odir").c_str(), (p + "/l").c_str())) {} break;
        }
      }
      if (r.wants_desc()) r.desc("tree { " + desc + "}");
      if (!members.empty()) r.nontriv();
      std::string what;
      std::unordered_set<std::string> got;
      std::vector<std::string> gots;
      std::string out = vf::outcome([&] { got = list_directory(root); gots = list_directory_sorted(root); }, &what);
      std::set<std::string> gotset(got.begin(), got.end());
      bool bad = false;
      if (out != "ok") { r.fail("list_directory:throws", [&] { return "tree { " + desc + "}: " + out + " " + what; }); bad = true; }
      else if (gotset != want || got.size() != want.size()) { r.fail("list_directory:names", [&] { return "tree { " + desc + "}: returned " + std::to_string(got.size()) + " names"; }); bad = true; }
      else if (gots != std::vector<std::string>(want.begin(), want.end())) { r.fail("list_directory_sorted:order-or-names", [&] { return "tree { " + desc + "}"; }); bad = true; }
      out = vf::outcome([&] { phosg::unlink(root, true); }, &what);
      bool outside_ok = exists_l(outside + "/odir/keep") && exists_l(outside + "/ofile") && exists_l(outside + "/odir");
      if (!outside_ok) { r.fail("unlink(recursive):deletes-through-symlink", [&] { return "tree { " + desc + "}: a symlink's target outside the tree was modified (outside/odir/keep or outside/ofile is gone); unlink " + out + " " + what; }); bad = true; }
      else if (out != "ok") { r.fail("unlink(recursive):throws", [&] { return "tree { " + desc + "}: " + out + " " + what; }); bad = true; }
      else if (exists_l(root)) { r.fail("unlink(recursive):tree-remains", [&] { return "tree { " + desc + "}: root still exists after unlink(root, true)"; }); bad = true; }
      if (!bad) r.ok("listed-and-removed");
    }
  }
  rm_rf(base);
  r.bound = vf::fmt("every tree with <=%zu entries over 4 names x 7 entry kinds", maxk);
}

// ---- scoped_fd ------------------------------------------------------------------------------------------

namespace {
enum SOp { S_CTOR_OPEN_X, S_CTOR_INT_X, S_MOVE_CTOR_Y_FROM_X, S_MOVE_ASSIGN_Y_X, S_MOVE_ASSIGN_X_Y, S_ASSIGN_INT_X, S_CLOSE_X, S_OPEN_X, S_DTOR_X, S_DTOR_Y, S_CTOR_DEFAULT_Y, S_SELF_CLOSE_TWICE_X, NSOP };
const char* sop_name[] = {"X=scoped_fd(path)", "X=scoped_fd(int)", "Y=scoped_fd(move(X))", "Y=move(X)", "X=move(Y)", "X=int", "X.close()", "X.open(path)", "~X", "~Y", "Y=scoped_fd()", "X.close();X.close()"};
}  // namespace

VF_SECTION(scoped_fd_histories, 8, 16, 240) {
  std::string dir = scratch_dir(r, "sfd");
  std::string path = dir + "/f";
  write_real(path, "x");
  size_t depth = r.thorough() ? 6 : 5;
  std::vector<uint32_t> radix(depth, NSOP + 1);  // NSOP = "stop" (shorter histories)
  for (vf::Odometer od(radix); !od.done; od.step()) {
    // canonical form: a "stop" is only allowed at the tail
    bool canon = true, stopped = false;
    size_t len = 0;
    for (size_t i = 0; i < depth; i++) {
      if (od.d[i] == NSOP) stopped = true;
      else { if (stopped) canon = false; len++; }
    }
    if (!canon) continue;
    if (!r.take()) continue;
    r.note("scoped_fd");
    auto hist = [&] { std::string h; for (size_t i = 0; i < len; i++) h += std::string(sop_name[od.d[i]]) + "; "; return h; };
    if (r.wants_desc()) r.desc(hist());
    g_fdlog = FdLog();
    g_fdlog.active = true;
    g_fdlog.path = path;
    std::string fail;
    {
      std::optional<scoped_fd> X, Y;
      int mx = -1, my = -1;  // model: descriptor held, -1 none
      auto fresh_fd = [&] { int fd = dup(2); g_fdlog.live.insert(fd); return fd; };
      auto model_close = [&](int& m) { m = -1; };
      bool skipped = false;
      for (size_t i = 0; i < len && fail.empty(); i++) {
        switch (od.d[i]) {
          case S_CTOR_OPEN_X: if (X) { skipped = true; break; } X.emplace(path, O_RDONLY); mx = (int)*X; break;
          case S_CTOR_INT_X: if (X) { skipped = true; break; } { int fd = fresh_fd(); X.emplace(fd); mx = fd; } break;
          case S_MOVE_CTOR_Y_FROM_X: if (!X || Y) { skipped = true; break; } Y.emplace(std::move(*X)); my = mx; mx = -1; break;
          case S_MOVE_ASSIGN_Y_X: if (!X || !Y) { skipped = true; break; } *Y = std::move(*X); model_close(my); my = mx; mx = -1; break;
          case S_MOVE_ASSIGN_X_Y: if (!X || !Y) { skipped = true; break; } *X = std::move(*Y); model_close(mx); mx = my; my = -1; break;
          case S_ASSIGN_INT_X: if (!X) { skipped = true; break; } { int fd = fresh_fd(); *X = fd; mx = fd; } break;
          case S_CLOSE_X: if (!X) { skipped = true; break; } X->close(); mx = -1; break;
          case S_OPEN_X: if (!X) { skipped = true; break; } X->open(path, O_RDONLY); mx = (int)*X; break;
          case S_DTOR_X: if (!X) { skipped = true; break; } X.reset(); mx = -1; break;
          case S_DTOR_Y: if (!Y) { skipped = true; break; } Y.reset(); my = -1; break;
          case S_CTOR_DEFAULT_Y: if (Y) { skipped = true; break; } Y.emplace(); my = -1; break;
          case S_SELF_CLOSE_TWICE_X: if (!X) { skipped = true; break; } X->close(); X->close(); mx = -1; break;
        }
        if (skipped) break;
        if (X && (X->is_open() != (mx >= 0) || (mx >= 0 && (int)*X != mx))) fail = vf::fmt("after step %zu X.is_open()=%d fd=%d, model holds %d", i + 1, (int)X->is_open(), (int)*X, mx);
        if (Y && (Y->is_open() != (my >= 0) || (my >= 0 && (int)*Y != my))) fail = vf::fmt("after step %zu Y.is_open()=%d fd=%d, model holds %d", i + 1, (int)Y->is_open(), (int)*Y, my);
        if (g_fdlog.double_close) fail = vf::fmt("after step %zu a descriptor that was not open (or not owned) was closed", i + 1);
        // every descriptor handed over and still live must be held by exactly one object
        std::set<int> held;
        if (mx >= 0) held.insert(mx);
        if (my >= 0) held.insert(my);
        if (fail.empty() && g_fdlog.live != held) fail = vf::fmt("after step %zu the set of open owned descriptors (%zu) differs from the descriptors the objects hold (%zu): leak or premature close", i + 1, g_fdlog.live.size(), held.size());
      }
      if (skipped) { g_fdlog.active = false; r.evals--; r.ok("inapplicable-history"); continue; }
    }  // destructors
    if (fail.empty() && g_fdlog.double_close) fail = "a descriptor was closed twice (second close hit a descriptor that was no longer owned)";
    if (fail.empty() && !g_fdlog.live.empty()) fail = vf::fmt("%zu descriptor(s) leaked after both objects were destroyed", g_fdlog.live.size());
    for (int fd : g_fdlog.live) __real_close(fd);
    g_fdlog.active = false;
    r.nontriv();
    r.transitions += len;
    if (!fail.empty()) r.fail("scoped_fd:ownership", [&] { return hist() + ":: " + fail; });
    else r.ok("closed-exactly-once");
  }
  rm_rf(dir);
  r.bound = vf::fmt("all applicable histories of length <=%zu over 12 operations on two objects", depth);
}

// ---- Poll ---------------------------------------------------------------------------------------------------

VF_SECTION(poll_histories, 1, 1, 240) {
  int a[2], b[2], c[2];
  if (::pipe(a) || ::pipe(b) || ::pipe(c)) { perror("pipe"); _exit(3); }
  if (write(a[1], "x", 1) != 1) _exit(3);
  // descriptors: a[0] readable now, b[0] not readable, c[1] writable
  int fds[3] = {a[0], b[0], c[1]};
  std::sort(fds, fds + 3);
  struct Op { int kind; int fd; short ev; };
  std::vector<Op> ops;
  for (int fd : fds) { ops.push_back({0, fd, POLLIN}); ops.push_back({0, fd, POLLOUT}); ops.push_back({0, fd, (short)(POLLIN | POLLOUT)}); ops.push_back({1, fd, 0}); }
  auto opname = [&](const Op& o) { return o.kind ? vf::fmt("remove(fd#%d)", (int)(std::find(fds, fds + 3, o.fd) - fds)) : vf::fmt("add(fd#%d,%s)", (int)(std::find(fds, fds + 3, o.fd) - fds), o.ev == POLLIN ? "IN" : o.ev == POLLOUT ? "OUT" : "IN|OUT"); };
  // E-BFS to a fixpoint: state = history, canonical form = the private vector + model
  struct St { std::vector<int> hist; };
  std::map<std::string, bool> seen;
  std::vector<St> frontier = {{{}}};
  size_t maxdepth = 0;
  auto build = [&](const std::vector<int>& h, Poll& p, std::map<int, short>& model) {
    for (int oi : h) {
      const Op& o = ops[oi];
      if (o.kind == 0) { p.add(o.fd, o.ev); model[o.fd] = o.ev; }
      else { p.remove(o.fd); model.erase(o.fd); }
    }
  };
  auto canon = [&](Poll& p) {
    std::string s;
    for (auto& pf : p.poll_fds) s += vf::fmt("%d:%d,", pf.fd, (int)pf.events);
    return s;
  };
  auto check = [&](const std::vector<int>& h, Poll& p, const std::map<int, short>& model) -> std::pair<std::string, std::string> {
    if (p.empty() != model.empty()) return {"Poll:empty", vf::fmt("empty()=%d but the model holds %zu descriptors", (int)p.empty(), model.size())};
    std::string want;
    for (auto& [fd, ev] : model) want += vf::fmt("%d:%d,", fd, (int)ev);
    if (canon(p) != want) return {"Poll:descriptor-set", "tracked (fd:events) list is [" + canon(p) + "], a map would hold [" + want + "]"};
    // reference readiness: the kernel asked directly about the model's set
    std::vector<struct pollfd> ref;
    for (auto& [fd, ev] : model) ref.push_back({fd, ev, 0});
    ::poll(ref.data(), ref.size(), 0);
    std::map<int, short> wantr;
    for (auto& pf : ref) if (pf.revents) wantr[pf.fd] = pf.revents;
    auto got = p.poll(0);
    std::map<int, short> gotr(got.begin(), got.end());
    if (gotr != wantr) return {"Poll:poll-result", vf::fmt("poll(0) reported %zu ready descriptors, a direct poll of the same set reports %zu", gotr.size(), wantr.size())};
    (void)h;
    return {"", ""};
  };
  auto hstr = [&](const std::vector<int>& h) { std::string s; for (int oi : h) s += opname(ops[oi]) + "; "; return s; };
  seen[""] = true;
  r.states = 1;
  while (!frontier.empty()) {
    std::vector<St> next;
    for (auto& st : frontier) {
      for (size_t oi = 0; oi < ops.size(); oi++) {
        std::vector<int> h = st.hist;
        h.push_back((int)oi);
        Poll p;
        std::map<int, short> model;
        build(h, p, model);
        r.transitions++;
        r.evals++;
        r.beat();
        auto [key, why] = check(h, p, model);
        if (!key.empty()) { r.fail(key, [&] { return hstr(h) + ":: " + why; }); continue; }
        std::string cs = canon(p);
        if (!seen.count(cs)) {
          seen[cs] = true;
          r.states++;
          if (h.size() > maxdepth) maxdepth = h.size();
          next.push_back({h});
        }
      }
    }
    frontier.swap(next);
  }
  r.counters["bfs_max_depth"] = maxdepth;
  r.counters["bfs_fixpoint"] = 1;
  // un-merged histories (validates the merging): every sequence up to the depth
  size_t depth = r.thorough() ? 5 : 4;
  uint64_t unmerged = 0;
  std::vector<uint32_t> radix(depth, (uint32_t)ops.size());
  for (size_t len = 1; len <= depth; len++) {
    for (vf::Odometer od(std::vector<uint32_t>(len, (uint32_t)ops.size())); !od.done; od.step()) {
      std::vector<int> h(od.d.begin(), od.d.end());
      Poll p;
      std::map<int, short> model;
      build(h, p, model);
      unmerged++;
      r.evals++;
      if ((unmerged & 1023) == 0) r.beat();
      auto [key, why] = check(h, p, model);
      if (!key.empty()) r.fail(key, [&] { return hstr(h) + ":: " + why; });
    }
  }
  r.nontrivial = r.evals;
  r.counters["unmerged_histories"] = unmerged;
  if (r.wants_desc() || true) r.samples.push_back("Poll history: add(fd#0,IN); add(fd#0,OUT); remove(fd#0); -> empty() must be true");
  r.ok("poll-bfs-done");
  for (int fd : {a[0], a[1], b[0], b[1], c[0], c[1]}) __real_close(fd);
  r.bound = vf::fmt("BFS to fixpoint over add/remove on 3 descriptors x {IN,OUT,IN|OUT}; plus all un-merged histories up to length %zu", depth);
}

VF_MAIN()
