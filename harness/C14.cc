// C14 — file and stream reads are complete regardless of how data is delivered; directory,
// path, scoped_fd and Poll bookkeeping.
// E-ENV: libc read/pread/open/close are interposed at link time (-Wl,--wrap) and buffered streams
// are fopencookie streams; each environment answer (how many bytes this call delivers, or EINTR)
// is a choice point enumerated by engine/env.hh.  E-BFS/E-ENUM for scoped_fd, Poll, paths, trees.
#include <dirent.h>
#include <errno.h>
#include <fcntl.h>
#include <ftw.h>
#include <limits.h>
#include <poll.h>
#include <stdarg.h>
#include <stdio.h>
#include <string.h>
#include <sys/ioctl.h>
#include <sys/socket.h>
#include <sys/stat.h>
#include <sys/sysmacros.h>
#include <sys/un.h>
#include <unistd.h>

#include <algorithm>
#include <atomic>
#include <map>
#include <memory>
#include <optional>
#include <set>
#include <string>
#include <thread>
#include <unordered_set>
#include <vector>

#include "Filesystem.hh"
#include "env.hh"
#include "vf.hh"

using namespace phosg;

// ---- interposition ---------------------------------------------------------------------------------

extern "C" ssize_t __real_read(int, void*, size_t);
extern "C" ssize_t __real_pread(int, void*, size_t, off_t);
extern "C" int __real_open(const char*, int, ...);
extern "C" int __real_close(int);
extern "C" ssize_t __real_write(int, const void*, size_t);
extern "C" int __real_poll(struct pollfd*, nfds_t, int);

namespace {

ssize_t pipe_read(int fd, void* buf, size_t n);
ssize_t fault_read(int fd, void* buf, size_t n, off_t off, bool positioned);

vfe::Env g_env;

// round 3: FAULTS as part of the compared environment.  A source (cookie stream or wrapped descriptor) asks the plan before
// every read callback / read() / pread() call; the explorer may answer up to `budget` calls with -1 and errno in
// {EINTR, EAGAIN, EIO}; a fault is transient (only that call fails) or permanent (that call and the next kPermanentCalls
// calls fail; a caller that still keeps asking then gets end-of-file for good, so a retry loop on a failing source ends
// and its result is compared like any other - whether retrying a failing source is wise is not part of the statement).
const int kFaultErrno[3] = {EINTR, EAGAIN, EIO};
const char* const kFaultName[3] = {"EINTR", "EAGAIN", "EIO"};
const size_t kPermanentCalls = 64;
struct FaultPlan {
  int budget = 0;          // faults the explorer may still place
  size_t perm_failed = 0;  // calls failed since the permanent fault started
  bool exhausted = false;  // the caller retried a permanently failing source kPermanentCalls times: end-of-file from now on
  bool permanent = false;  // a permanent fault has started
  int perm_errno = 0;
  size_t faults = 0;       // calls answered with -1 so far
  size_t calls = 0;
  std::string log;
  // 0 = answer this call normally, -1 = answer it with end-of-file, else the errno to fail it with
  int next() {
    size_t idx = calls++;
    if (exhausted) return -1;
    if (permanent) {
      if (++perm_failed > kPermanentCalls) { exhausted = true; return -1; }
      faults++;
      return perm_errno;
    }
    if (budget <= 0) return 0;
    int c = g_env.choose(7);  // 0 normal; 1..3 transient EINTR/EAGAIN/EIO; 4..6 permanent
    if (c == 0) return 0;
    budget--;
    faults++;
    int e = kFaultErrno[(c - 1) % 3];
    if (c > 3) { permanent = true; perm_errno = e; }
    log += "call #" + std::to_string(idx) + " fails with " + kFaultName[(c - 1) % 3] + (c > 3 ? " and so does every later call; " : " (only this call); ");
    return e;
  }
};

struct Source {
  bool active = false;
  int fd = -1;               // descriptor whose reads are owned (-1: learn it from open(path))
  std::string path;          // when non-empty, open() of this path defines fd
  size_t size = 0;           // content size (the real file holds the content)
  bool small = false;        // true: every chunk size is an option (all compositions)
  bool error_used = false;
  size_t consumed = 0;       // bytes delivered by read() so far
  size_t calls = 0;
  std::vector<size_t> last_call_sizes;
  // round 2
  bool real_offset = false;  // regular file whose offset is also moved by lseek: what is left is computed from the descriptor offset
  bool no_error = false;     // never offer the EINTR answer
  bool pipe = false;         // fd is the read end of a real kernel pipe; the writer's pending chunks are flushed by the wrapper
  int wfd = -1;              // write end (non-blocking); closed by the wrapper once every chunk has been flushed
  std::vector<std::string> chunks;
  size_t next_chunk = 0;
  size_t in_pipe = 0;
  // round 3
  bool fault_mode = false;   // regular file: every read()/pread() delivers at most `chunk` bytes (0: what was asked) or fails as `plan` says
  size_t chunk = 0;
  size_t short_answers = 0;  // calls answered with fewer bytes than asked for although the file had more
  FaultPlan plan;
} g_src;

// sink side: write() calls on the descriptor opened for `path` may be short (save_file / writex)
struct Sink {
  bool active = false;
  int fd = -1;
  std::string path;
  bool error_used = false;
  size_t calls = 0, accepted = 0;
  bool deviated = false;
} g_sink;

int g_poll_eintr = 0;  // >0: the next Poll::poll() system call is interrupted by a signal

// choice menu for a call that could deliver up to R bytes
// *inject_error: 0 or the errno the call fails with (one failing call per execution: EINTR or, round 3, EAGAIN)
size_t pick_chunk(size_t R, int* inject_error) {
  *inject_error = 0;
  if (R == 0) {
    // at EOF the only other answer is an error
    if (!g_src.error_used && !g_src.small && !g_src.no_error) {
      int c = g_env.choose(3);
      if (c) { g_src.error_used = true; *inject_error = c == 1 ? EINTR : EAGAIN; }
    }
    return 0;
  }
  std::vector<size_t> menu;
  if (g_src.small) {
    for (size_t k = R; k >= 1; k--) menu.push_back(k);
  } else {
    menu.push_back(R);
    for (size_t k : {(size_t)1, R / 2, R - 1}) if (k >= 1 && k < R && std::find(menu.begin(), menu.end(), k) == menu.end()) menu.push_back(k);
  }
  int nopt = (int)menu.size() + ((g_src.error_used || g_src.no_error) ? 0 : 2);
  int c = g_env.choose(nopt);
  if (c >= (int)menu.size()) { g_src.error_used = true; *inject_error = c == (int)menu.size() ? EINTR : EAGAIN; return 0; }
  return menu[c];
}

// fd bookkeeping for the scoped_fd section
struct FdLog {
  bool active = false;
  std::set<int> live;
  int double_close = 0;
  int opens = 0;
  std::string path;  // opens of this path are owned
  std::string path2 = "\x01none";  // a second owned path (created by O_CREAT opens)
} g_fdlog;

}  // namespace

namespace {
// Real-pipe source: the writer's pending chunks are pushed into the kernel pipe by the wrapper itself, so the whole
// scenario stays single-threaded and deterministic while the reader sees genuine pipe semantics (fstat says FIFO,
// st_size 0, short counts, EOF only after the writer closed).  Choice: how many pending chunks arrive before this read.
ssize_t pipe_read(int fd, void* buf, size_t n) {
  g_src.calls++;
  size_t pend = g_src.chunks.size() - g_src.next_chunk;
  std::vector<long> menu;  // number of chunks flushed before the read; -1 = EINTR, -2 = EAGAIN
  if (pend) {
    size_t lo = g_src.in_pipe ? 0 : 1;  // an empty pipe with a live writer would block: something must arrive first
    if (g_src.small) {
      for (size_t j = pend;; j--) { if (j < lo) break; menu.push_back((long)j); if (j == 0) break; }
    } else {
      menu.push_back((long)pend);
      for (size_t j : {(size_t)1, (size_t)2, pend / 2, (size_t)0}) if (j >= lo && j < pend && std::find(menu.begin(), menu.end(), (long)j) == menu.end()) menu.push_back((long)j);
    }
  } else menu.push_back(0);
  if (!g_src.error_used && !g_src.no_error) { menu.push_back(-1); menu.push_back(-2); }
  long j = menu.size() > 1 ? menu[g_env.choose((int)menu.size())] : menu[0];
  if (j < 0) { g_src.error_used = true; errno = j == -1 ? EINTR : EAGAIN; return -1; }
  for (long k = 0; k < j && g_src.next_chunk < g_src.chunks.size(); k++) {
    std::string& c = g_src.chunks[g_src.next_chunk];
    ssize_t w = c.empty() ? 0 : __real_write(g_src.wfd, c.data(), c.size());
    if (w < 0) w = 0;
    g_src.in_pipe += w;
    if ((size_t)w < c.size()) { c.erase(0, w); break; }  // kernel pipe full: the rest stays pending
    g_src.next_chunk++;
  }
  if (g_src.next_chunk == g_src.chunks.size() && g_src.wfd >= 0) { __real_close(g_src.wfd); g_src.wfd = -1; }
  if (g_src.in_pipe == 0 && g_src.wfd >= 0 && n > 0) {  // would block forever (cannot happen: lo == 1 above); fail loudly
    fprintf(stderr, "C14 pipe source: read on an empty pipe with a live writer\n");
    _exit(3);
  }
  ssize_t r = __real_read(fd, buf, n);
  if (r > 0) { g_src.in_pipe -= r; g_src.consumed += r; }
  g_src.last_call_sizes.push_back(r < 0 ? 0 : r);
  return r;
}
}  // namespace

namespace {
// Fault-mode source (round 3): a regular file whose read()/pread() calls deliver at most g_src.chunk bytes, or fail as the plan says.
ssize_t fault_read(int fd, void* buf, size_t n, off_t off, bool positioned) {
  g_src.calls++;
  if (int e = g_src.plan.next()) { if (e < 0) return 0; errno = e; return -1; }
  size_t k = g_src.chunk ? std::min(n, g_src.chunk) : n;
  ssize_t r = positioned ? __real_pread(fd, buf, k, off) : __real_read(fd, buf, k);
  if (r > 0) g_src.consumed += r;
  if (k < n && r == (ssize_t)k) g_src.short_answers++;  // (conservative: counts a cut-off answer even when the file ended right there)
  return r;
}
}  // namespace

extern "C" ssize_t __wrap_read(int fd, void* buf, size_t n) {
  if (!g_src.active || fd != g_src.fd || fd < 0) return __real_read(fd, buf, n);
  if (g_src.pipe) return pipe_read(fd, buf, n);
  if (g_src.fault_mode) return fault_read(fd, buf, n, 0, false);
  g_src.calls++;
  if (g_src.real_offset) { off_t o = lseek(fd, 0, SEEK_CUR); if (o >= 0) g_src.consumed = (size_t)o; }
  size_t remaining = g_src.size - std::min(g_src.size, g_src.consumed);
  int err;
  size_t k = pick_chunk(std::min(n, remaining), &err);
  if (err) { errno = err; return -1; }
  ssize_t r = k ? __real_read(fd, buf, k) : __real_read(fd, buf, n);
  if (r > 0) g_src.consumed += r;
  g_src.last_call_sizes.push_back(r < 0 ? 0 : r);
  return r;
}

extern "C" ssize_t __wrap_pread(int fd, void* buf, size_t n, off_t off) {
  if (!g_src.active || fd != g_src.fd || fd < 0) return __real_pread(fd, buf, n, off);
  if (g_src.fault_mode) return fault_read(fd, buf, n, off, true);
  g_src.calls++;
  size_t remaining = (size_t)off >= g_src.size ? 0 : g_src.size - (size_t)off;
  int err;
  size_t k = pick_chunk(std::min(n, remaining), &err);
  if (err) { errno = err; return -1; }
  ssize_t r = k ? __real_pread(fd, buf, k, off) : __real_pread(fd, buf, n, off);
  if (r > 0) g_src.consumed += r;
  return r;
}

extern "C" int __wrap_open(const char* path, int flags, ...) {
  mode_t mode = 0;
  if (flags & (O_CREAT | O_TMPFILE)) {
    va_list va;
    va_start(va, flags);
    mode = va_arg(va, mode_t);
    va_end(va);
  }
  int fd = __real_open(path, flags, mode);
  if (g_src.active && !g_src.path.empty() && g_src.path == path && fd >= 0) g_src.fd = fd;
  if (g_sink.active && !g_sink.path.empty() && g_sink.path == path && fd >= 0) g_sink.fd = fd;
  if (g_fdlog.active && fd >= 0 && (g_fdlog.path == path || g_fdlog.path2 == path)) { g_fdlog.live.insert(fd); g_fdlog.opens++; }
  return fd;
}

extern "C" int __wrap_close(int fd) {
  if (g_fdlog.active) {
    // only descriptors handed to the objects under test are tracked
    if (g_fdlog.live.count(fd)) g_fdlog.live.erase(fd);
    else if (fd >= 0) g_fdlog.double_close++;
  }
  if (g_src.active && fd == g_src.fd && !g_src.path.empty()) g_src.fd = -2;
  if (g_sink.active && fd == g_sink.fd) g_sink.fd = -2;
  return __real_close(fd);
}

// short writes: {everything, 1 byte, half, all but one, EINTR/ENOSPC error}
extern "C" ssize_t __wrap_write(int fd, const void* buf, size_t n) {
  if (!g_sink.active || fd != g_sink.fd || fd < 0) return __real_write(fd, buf, n);
  g_sink.calls++;
  std::vector<size_t> menu = {n};
  for (size_t k : {(size_t)1, n / 2, n - 1}) if (n && k >= 1 && k < n && std::find(menu.begin(), menu.end(), k) == menu.end()) menu.push_back(k);
  if (n > 1) menu.push_back(0);  // a write that accepts nothing (returns 0)
  int nopt = (int)menu.size() + (g_sink.error_used ? 0 : 2);
  int c = g_env.choose(nopt);
  if (c != 0) g_sink.deviated = true;
  if (c >= (int)menu.size()) { g_sink.error_used = true; errno = c == (int)menu.size() ? EINTR : ENOSPC; return -1; }
  ssize_t w = menu[c] ? __real_write(fd, buf, menu[c]) : 0;
  if (w > 0) g_sink.accepted += w;
  return w;
}

extern "C" int __wrap_poll(struct pollfd* fds, nfds_t n, int timeout) {
  if (g_poll_eintr > 0) { g_poll_eintr--; errno = EINTR; return -1; }
  return __real_poll(fds, n, timeout);
}

namespace {

// reference tree removal (independent of phosg: nftw, physical walk, children first)
int rm_cb(const char* p, const struct stat*, int, struct FTW*) { ::remove(p); return 0; }
void rm_rf(const std::string& d) {
  struct stat st;
  if (::lstat(d.c_str(), &st)) return;
  nftw(d.c_str(), rm_cb, 32, FTW_DEPTH | FTW_PHYS);
}
std::string scratch_dir(vf::Run& r, const char* what) {
  std::string d = std::string(getenv("VF_ROOT") ? getenv("VF_ROOT") : ".") + "/build/scratch";
  mkdir(d.c_str(), 0755);
  d += "/C14";
  mkdir(d.c_str(), 0755);
  d += vf::fmt("/%s-%s-%llu-%d", what, r.tier.c_str(), (unsigned long long)r.shard, (int)getpid());
  rm_rf(d);
  mkdir(d.c_str(), 0755);
  return d;
}

std::string content(size_t n) {
  std::string s(n, 0);
  for (size_t i = 0; i < n; i++) s[i] = (char)((i % 255) + 1);  // every byte value 01..FF (FF = EOF as a char); never NUL: padding with zeros is visible
  return s;
}

void write_real(const std::string& path, const std::string& d) {
  int fd = __real_open(path.c_str(), O_CREAT | O_TRUNC | O_WRONLY, 0644);
  size_t off = 0;
  while (off < d.size()) {
    ssize_t w = write(fd, d.data() + off, d.size() - off);
    if (w <= 0) { perror("write_real"); _exit(3); }
    off += w;
  }
  __real_close(fd);
}

bool exists_l(const std::string& p) { struct stat st; return ::lstat(p.c_str(), &st) == 0; }

std::string brief(const std::string& s) {
  if (s.size() <= 24) return vf::show(s);
  return vf::fmt("<%zu bytes, head %s>", s.size(), vf::show(s.substr(0, 8)).c_str());
}

// ---- fd reads ------------------------------------------------------------------------------------

enum FdFn { RA_FD, READ_FD, READX_STR, READX_BUF, PREADX_STR, PREADX_BUF, LOAD_FILE, NFDFN };
const char* fdfn_name[] = {"read_all(fd)", "read(fd,size)", "readx(fd,size)", "readx(fd,buf,size)", "preadx(fd,size,off)", "preadx(fd,buf,size,off)", "load_file"};

struct FdCase { FdFn fn; size_t n, size, off; };

// one execution; returns "" or failure text.  key_out gets the failure class.
std::string run_fd_case(const FdCase& c, const std::string& path, const std::string& d, std::string* key_out) {
  g_src = Source();
  g_src.active = true;
  g_src.size = d.size();
  g_src.small = d.size() <= 10;
  int fd = -1;
  if (c.fn == LOAD_FILE) g_src.path = path;
  else { fd = __real_open(path.c_str(), O_RDONLY); g_src.fd = fd; }
  std::string got, what;
  std::string out = vf::outcome([&] {
    switch (c.fn) {
      case RA_FD: got = read_all(fd); break;
      case READ_FD: got = phosg::read(fd, c.size); break;
      case READX_STR: got = readx(fd, c.size); break;
      case READX_BUF: { std::string b(c.size, 'Z'); readx(fd, b.data(), c.size); got = b; break; }
      case PREADX_STR: got = preadx(fd, c.size, c.off); break;
      case PREADX_BUF: { std::string b(c.size, 'Z'); preadx(fd, b.data(), c.size, c.off); got = b; break; }
      case LOAD_FILE: got = load_file(path); break;
      default: break;
    }
  }, &what);
  size_t consumed = g_src.consumed;
  bool err_injected = g_src.error_used;
  g_src.active = false;
  if (fd >= 0) __real_close(fd);
  if (out != "ok") {
    if (out != "runtime_error") { *key_out = "unexpected-exception-type"; return "threw " + out + " (" + what + "), documented failures are io_error/runtime_error"; }
    return "";  // throwing is always allowed by the statement
  }
  (void)err_injected;
  switch (c.fn) {
    case RA_FD:
    case LOAD_FILE:
      if (got != d) {
        *key_out = got.size() < d.size() && d.compare(0, got.size(), got) == 0 ? "silent-truncation" : got.size() > d.size() ? "padded-or-extra" : "wrong-bytes";
        return vf::fmt("returned %s but the source holds %s (%zu bytes consumed from the source)", brief(got).c_str(), brief(d).c_str(), consumed);
      }
      break;
    case READ_FD:
      // clamping form: must return exactly the bytes it consumed from the source (a prefix, no padding)
      if (got != d.substr(0, std::min(consumed, d.size())) || got.size() > c.size) { *key_out = "not-the-delivered-bytes"; return vf::fmt("returned %s after consuming %zu bytes of %s", brief(got).c_str(), consumed, brief(d).c_str()); }
      break;
    case READX_STR:
    case READX_BUF:
      if (c.size > d.size()) { *key_out = "exact-read-beyond-eof-succeeds"; return vf::fmt("asked for %zu bytes of a %zu-byte source and returned normally with %s", c.size, d.size(), brief(got).c_str()); }
      if (got != d.substr(0, c.size)) { *key_out = "silent-truncation-or-padding"; return vf::fmt("asked for exactly %zu bytes, returned %s, source is %s", c.size, brief(got).c_str(), brief(d).c_str()); }
      break;
    case PREADX_STR:
    case PREADX_BUF:
      if (c.size > 0 && c.off + c.size > d.size()) { *key_out = "exact-read-beyond-eof-succeeds"; return vf::fmt("asked for %zu bytes at offset %zu of a %zu-byte source and returned normally", c.size, c.off, d.size()); }
      if (got != (c.size ? d.substr(c.off, c.size) : std::string())) { *key_out = "silent-truncation-or-padding"; return vf::fmt("asked for exactly %zu bytes at %zu, returned %s", c.size, c.off, brief(got).c_str()); }
      break;
    default: break;
  }
  return "";
}

}  // namespace

VF_SECTION(fd_reads, 16, 16, 240) {
  std::string dir = scratch_dir(r, "fd");
  std::string path = dir + "/src.bin";
  std::vector<size_t> sizes;
  for (size_t n = 0; n <= 10; n++) sizes.push_back(n);
  for (size_t n : {255, 256, 257, 16383, 16384, 16385, 32768, 40000, 204800}) sizes.push_back(n);
  int bound_big = r.thorough() ? 3 : 2;
  for (size_t n : sizes) {
    std::string d = content(n);
    bool file_written = false;
    for (int f = 0; f < NFDFN; f++) {
      std::vector<std::pair<size_t, size_t>> args = {{0, 0}};  // (size, off)
      if (f == READ_FD) { args.clear(); for (size_t s : std::set<size_t>{0, n / 2, n, n + 5}) args.push_back({s, 0}); }
      if (f == READX_STR || f == READX_BUF) { args.clear(); for (size_t s : std::set<size_t>{0, 1, n / 2, n, n + 1}) args.push_back({s, 0}); }
      if (f == PREADX_STR || f == PREADX_BUF) { args.clear(); for (size_t o : std::set<size_t>{0, 1, n / 2}) for (size_t s : std::set<size_t>{0, 1, n / 2, n, n + 1}) args.push_back({s, o}); }
      for (auto [sz, off] : args) {
        if (!r.take()) continue;
        if (!file_written) { write_real(path, d); file_written = true; }
        FdCase c{(FdFn)f, n, sz, off};
        r.note(fdfn_name[f]);
        bool small = n <= 10;
        std::string cd = vf::fmt("%s on a %zu-byte source, size=%zu off=%zu; %s", fdfn_name[f], n, sz, off, small ? "every way of splitting the delivery into read() chunks (plus one EINTR)" : vf::fmt("answers {full,1,half,count-1,EINTR} per read() call, <=%d non-default answers", bound_big).c_str());
        if (r.wants_desc()) r.desc(cd);
        std::string key;
        auto st = vfe::explore(g_env, [&] { r.beat(); key.clear(); return run_fd_case(c, path, d, &key); }, small ? -1 : bound_big, 2000000);
        r.transitions += st.choice_points;
        r.states += st.executions;
        r.counters["executions"] += st.executions;
        if (!st.complete && st.failure.empty()) r.exhaustive = false;
        if (st.executions > 1) r.nontriv();
        if (!st.failure.empty()) {
          bool engine = st.failure.rfind("ENGINE", 0) == 0;
          // replay the failing plan once more: it must reproduce
          if (!engine) {
            g_env.begin(st.failing_choices);
            std::string k2, again = run_fd_case(c, path, d, &k2);
            if (again != st.failure) { engine = true; key = "engine-nonreproducible"; }
          }
          r.fail(std::string(fdfn_name[f]) + ":" + (engine ? "engine" : key.empty() ? "horizon" : key), [&] { return cd + " :: " + st.failure + " :: delivery plan (answer index/options per call) = [ " + st.failing_trace + "] after " + std::to_string(st.executions) + " executions"; });
        } else r.ok(st.executions == 1 ? "single-plan" : st.executions < 100 ? "lt-100-plans" : "ge-100-plans");
      }
    }
  }
  rm_rf(dir);
  r.bound = vf::fmt("sources of 0..10 bytes: all delivery compositions; 9 block-boundary sizes up to 200 KiB: answers {full,1,half,count-1,EINTR} with <=%d deviations", bound_big);
}

// ---- stream reads ----------------------------------------------------------------------------------

namespace {

struct Cookie {
  std::string data;
  size_t pos = 0;
  bool choices = false;      // chunk sizes are choice points
  size_t fixed_chunk = 0;    // else: deliver at most this many bytes per callback (0 = all)
  size_t calls = 0;
  bool fail_at_end = false;  // instead of end-of-file the callback reports an error (EIO)
};

ssize_t cookie_read(void* cv, char* buf, size_t n) {
  Cookie* c = (Cookie*)cv;
  c->calls++;
  size_t R = std::min(n, c->data.size() - c->pos);
  size_t k = R;
  if (R == 0 && c->fail_at_end) { errno = EIO; return -1; }
  if (R > 0) {
    if (c->choices) {
      std::vector<size_t> menu = {R};
      for (size_t x : {(size_t)1, R / 2, R - 1}) if (x >= 1 && x < R && std::find(menu.begin(), menu.end(), x) == menu.end()) menu.push_back(x);
      k = menu[g_env.choose((int)menu.size())];
    } else if (c->fixed_chunk) k = std::min(R, c->fixed_chunk);
  }
  memcpy(buf, c->data.data() + c->pos, k);
  c->pos += k;
  return k;
}

FILE* open_cookie(Cookie* c) {
  cookie_io_functions_t io = {cookie_read, nullptr, nullptr, nullptr};
  return fopencookie(c, "rb", io);
}

enum StFn { RA_FILE, FREAD, FREADX_STR, FREADX_BUF, FGETCX, NSTFN };
const char* stfn_name[] = {"read_all(FILE*)", "fread(FILE*,size)", "freadx(FILE*,size)", "freadx(FILE*,buf,size)", "fgetcx"};

std::string run_stream_case(StFn fn, const std::string& d, size_t size, std::string* key) {
  Cookie ck;
  ck.data = d;
  ck.choices = true;
  FILE* f = open_cookie(&ck);
  std::string got, what;
  std::string out = vf::outcome([&] {
    switch (fn) {
      case RA_FILE: got = read_all(f); break;
      case FREAD: got = phosg::fread(f, size); break;
      case FREADX_STR: got = freadx(f, size); break;
      case FREADX_BUF: { std::string b(size, 'Z'); freadx(f, b.data(), size); got = b; break; }
      case FGETCX: for (size_t i = 0; i < size; i++) got.push_back((char)fgetcx(f)); break;
      default: break;
    }
  }, &what);
  fclose(f);
  if (out != "ok") {
    if (out != "runtime_error") { *key = "unexpected-exception-type"; return "threw " + out + " (" + what + ")"; }
    if (fn == RA_FILE) { *key = "throws-on-complete-delivery"; return "threw (" + what + ") although the source delivered everything without error"; }
    if ((fn == FREADX_STR || fn == FREADX_BUF || fn == FGETCX) && size <= d.size()) { *key = "throws-although-data-available"; return vf::fmt("asked for %zu of %zu available bytes and threw (%s)", size, d.size(), what.c_str()); }
    if (fn == FREAD) { *key = "clamping-form-throws"; return "fread threw (" + what + ")"; }
    return "";
  }
  switch (fn) {
    case RA_FILE:
      if (got != d) { *key = got.size() < d.size() ? "silent-truncation" : "padded-or-wrong"; return vf::fmt("returned %s, the stream delivered %s", brief(got).c_str(), brief(d).c_str()); }
      break;
    case FREAD:
      if (got != d.substr(0, std::min(size, d.size()))) { *key = "not-the-prefix"; return vf::fmt("fread(%zu) returned %s from a stream holding %s", size, brief(got).c_str(), brief(d).c_str()); }
      break;
    default:
      if (size > d.size()) { *key = "exact-read-beyond-eof-succeeds"; return vf::fmt("asked for %zu bytes of a %zu-byte stream and returned normally", size, d.size()); }
      if (got != d.substr(0, size)) { *key = "silent-truncation-or-padding"; return vf::fmt("asked for exactly %zu bytes, returned %s", size, brief(got).c_str()); }
  }
  return "";
}

}  // namespace

VF_SECTION(stream_reads, 16, 16, 240) {
  std::vector<size_t> sizes;
  for (size_t n = 0; n <= 6; n++) sizes.push_back(n);
  for (size_t n : {255, 256, 257, 4095, 4096, 4097, 16383, 16384, 16385, 32768, 40000, 204800}) sizes.push_back(n);
  int bound = r.thorough() ? 3 : 2;
  for (size_t n : sizes) {
    std::string d = content(n);
    for (int f = 0; f < NSTFN; f++) {
      std::set<size_t> args = {0};
      if (f != RA_FILE) args = {0, 1, n / 2, n, n + 1};
      if (f == FGETCX && n > 300) args = {1, 300};
      for (size_t sz : args) {
        if (!r.take()) continue;
        r.note(stfn_name[f]);
        std::string cd = vf::fmt("%s on a %zu-byte cookie stream, size=%zu; callback answers {full,1,half,count-1} with <=%d non-default answers", stfn_name[f], n, sz, bound);
        if (r.wants_desc()) r.desc(cd);
        std::string key;
        auto st = vfe::explore(g_env, [&] { r.beat(); key.clear(); return run_stream_case((StFn)f, d, sz, &key); }, bound, 2000000);
        r.transitions += st.choice_points;
        r.states += st.executions;
        r.counters["executions"] += st.executions;
        if (!st.complete && st.failure.empty()) r.exhaustive = false;
        if (st.executions > 1) r.nontriv();
        if (!st.failure.empty()) r.fail(std::string(stfn_name[f]) + ":" + (key.empty() ? "engine-or-horizon" : key), [&] { return cd + " :: " + st.failure + " :: plan = [ " + st.failing_trace + "]"; });
        else r.ok(st.executions == 1 ? "single-plan" : "multi-plan");
      }
    }
  }
  r.bound = vf::fmt("streams of 0..6 bytes and 12 block-boundary sizes up to 200 KiB; callback answers {full,1,half,count-1}, <=%d deviations", bound);
}

VF_SECTION(fgets_lines, 16, 16, 240) {
  // every line length 0..1100 x {newline-terminated, ended by EOF} x following content x chunking
  const std::vector<std::string> follow = {"", "xy\n", std::string(300, 'q') + "\n"};
  const std::vector<size_t> chunking = r.thorough() ? std::vector<size_t>{0, 1, 7, 255, 256} : std::vector<size_t>{0, 1, 255};
  size_t maxlen = 1100;
  std::vector<size_t> lens;
  for (size_t len = 0; len <= maxlen; len++) lens.push_back(len);
  // far beyond any internal block: multiples of the 255-character block +-1, powers of two +-1 up to 128 KiB
  {
    std::set<size_t> far;
    for (size_t k = 5; k <= (r.thorough() ? 80u : 24u); k++) for (size_t x : {255 * k - 2, 255 * k - 1, 255 * k, 255 * k + 1}) far.insert(x);
    for (size_t k = 11; k <= 17; k++) for (size_t x : {((size_t)1 << k) - 1, (size_t)1 << k, ((size_t)1 << k) + 1}) far.insert(x);
    for (size_t x : far) if (x > maxlen) lens.push_back(x);
  }
  for (size_t len : lens) {
    for (int nl = 0; nl < 2; nl++) {
      for (size_t fi = 0; fi < follow.size(); fi++) {
        if (!nl && fi) continue;  // an EOF-terminated line has nothing after it
        for (size_t ch : chunking) {
          if (!r.take()) continue;
          r.note("fgets");
          std::string line(len, 'a');
          for (size_t i = 0; i < len; i++) line[i] = (char)('a' + (i % 23));
          std::string contentv = line + (nl ? "\n" : "") + follow[fi];
          if (r.wants_desc()) r.desc(vf::fmt("fgets(FILE*) on a %zu-char line %s, followed by %zu more bytes, stream delivers %s per callback", len, nl ? "ending in \\n" : "ended by EOF", follow[fi].size(), ch ? std::to_string(ch).c_str() : "everything"));
          std::vector<std::string> want;
          {
            size_t p = 0;
            while (p < contentv.size()) {
              size_t e = contentv.find('\n', p);
              e = e == std::string::npos ? contentv.size() : e + 1;
              want.push_back(contentv.substr(p, e - p));
              p = e;
            }
          }
          Cookie ck;
          ck.data = contentv;
          ck.fixed_chunk = ch;
          FILE* f = open_cookie(&ck);
          std::vector<std::string> got;
          std::string what, out = vf::outcome([&] {
            for (size_t k = 0; k < contentv.size() + 2; k++) {
              std::string l = phosg::fgets(f);
              if (l.empty()) break;
              got.push_back(l);
            }
          }, &what);
          fclose(f);
          r.nontriv();
          auto d = [&] {
            std::string g;
            for (auto& l : got) g += std::to_string(l.size()) + " ";
            std::string w;
            for (auto& l : want) w += std::to_string(l.size()) + " ";
            return vf::fmt("line of %zu chars %s + %zu following bytes, %s per callback: fgets returned lines of lengths [ %s] (%s), the content's lines have lengths [ %s]", len, nl ? "with \\n" : "without \\n", follow[fi].size(), ch ? std::to_string(ch).c_str() : "all", g.c_str(), out.c_str(), w.c_str());
          };
          if (out != "ok") r.fail("fgets:throws-on-healthy-stream", d);
          else if (got != want) {
            std::string cat;
            for (auto& l : got) cat += l;
            r.fail(cat == contentv ? "fgets:line-split-wrongly" : "fgets:bytes-lost-or-added", d);
          } else r.ok(len < 255 ? "short-line" : "long-line");
        }
      }
    }
  }
  r.bound = vf::fmt("every line length 0..1100 plus %zu lengths to 131073 (255k-2..255k+1, 2^k-1..2^k+1) x {\\n, EOF} x 3 followers x per-callback delivery sizes", lens.size() - 1101);
}

#include "C14_hist.hh"
#include "C14_objs.hh"
#include "C14_faults.hh"

// ---- files, paths, directories ------------------------------------------------------------------------

VF_SECTION(files, 4, 8, 240) {
  std::string dir = scratch_dir(r, "files");
  std::vector<size_t> sizes;
  for (size_t n = 0; n <= 300; n++) sizes.push_back(n);
  for (size_t n : {4095, 4096, 4097, 16383, 16384, 16385, 32768, 65536, 204800}) sizes.push_back(n);
  for (size_t n : sizes) {
    if (!r.take()) continue;
    r.note("save_file/load_file");
    if (r.wants_desc()) r.desc(vf::fmt("load_file(save_file(d)) with |d|=%zu", n));
    std::string d = content(n);
    if (n > 2) { d[1] = 0; d[n - 1] = (char)0xFF; }
    std::string p = dir + "/f.bin";
    std::string got, what, out = vf::outcome([&] { save_file(p, d); got = load_file(p); }, &what);
    // independent read-back of what save_file produced
    std::string raw;
    {
      int fd = __real_open(p.c_str(), O_RDONLY);
      char buf[65536];
      ssize_t k;
      while (fd >= 0 && (k = __real_read(fd, buf, sizeof(buf))) > 0) raw.append(buf, k);
      if (fd >= 0) __real_close(fd);
    }
    r.nontriv();
    if (out != "ok") r.fail("save_file/load_file:throws", [&] { return vf::fmt("|d|=%zu: threw %s (%s)", n, out.c_str(), what.c_str()); });
    else if (raw != d) r.fail("save_file:file-content", [&] { return vf::fmt("|d|=%zu: file holds %s", n, brief(raw).c_str()); });
    else if (got != d) r.fail("load_file:content", [&] { return vf::fmt("|d|=%zu: load_file returned %s", n, brief(got).c_str()); });
    else r.ok("roundtrip");
    ::unlink(p.c_str());
  }
  rm_rf(dir);
  r.bound = "every size 0..300 plus 9 block-boundary sizes up to 200 KiB";
}

VF_SECTION(paths, 2, 2, 120) {
  auto one = [&](const std::string& p) {
    if (!r.take()) return;
    if (r.wants_desc()) r.desc("dirname/basename of " + vf::show(p));
    std::string dn = dirname(p), bn = basename(p);
    bool has = p.find('/') != std::string::npos;
    if (has) r.nontriv();
    if (bn.find('/') != std::string::npos) r.fail("basename:contains-slash", [&] { return vf::show(p) + " -> basename " + vf::show(bn); });
    else if (has && dn + "/" + bn != p) r.fail("dirname/basename:law", [&] { return vf::show(p) + " -> dirname " + vf::show(dn) + " basename " + vf::show(bn); });
    else if (!has && (bn != p || !dn.empty())) r.fail("dirname/basename:no-slash", [&] { return vf::show(p) + " -> dirname " + vf::show(dn) + " basename " + vf::show(bn); });
    else r.ok(has ? "with-slash" : "no-slash");
  };
  vf::all_strings("a/.", r.thorough() ? 9 : 7, one);
  // other bytes: NUL, backslash, space, a high byte (the law is about any path containing a slash)
  vf::all_strings(std::string("/\0\\ \xE9", 5), r.thorough() ? 6 : 5, one);
  // long components (beyond any small-string buffer) on either side of the last slash
  for (size_t a : {0, 1, 15, 16, 23, 24, 255, 4096}) for (size_t b : {0, 1, 15, 16, 23, 24, 255, 4096}) for (int lead = 0; lead < 2; lead++)
    one(std::string(lead, '/') + std::string(a, 'd') + "/" + std::string(b, 'b'));
  r.bound = "all strings over {a,/,.} up to the stated length; all strings over {/,NUL,backslash,space,0xE9} up to 5 (6); 128 paths with components of 0..4096 bytes";
}

namespace {
enum Kind { K_FILE, K_DIR, K_DIR_FILE, K_LINK_FILE, K_LINK_DIR, K_DANGLING, K_DIR_WITH_LINKDIR, K_FIFO, K_DEEP3, K_DIR_ODD, K_DEEP_LINKS, K_SELF_LINK, K_SOCKET, K_CHARDEV, K_BLOCKDEV, K_DIR_SPECIALS, NKIND };
const char* kind_name[] = {"file", "emptydir", "dir+file", "symlink->outside file", "symlink->outside dir", "dangling symlink", "dir containing symlink->outside dir", "FIFO", "dir/dir/dir/file + dir/file", "dir containing {dangling symlink, FIFO, empty dir, symlink to itself}", "dir/dir/{symlink->outside dir, symlink->tree root}", "symlink to itself", "unix-domain socket", "character device node", "block device node", "dir containing {socket, character device, block device, FIFO}"};

// Round 5: the remaining inode types (S_IFSOCK, S_IFCHR, S_IFBLK), so that every file type the kernel has occurs in the
// trees (seed C14-J: a type test without the S_IFMT mask took sockets and block devices for directories).
// The socket is bound through /proc/self/fd/<dir> so that the 108-byte sun_path limit does not depend on the scratch path.
void make_socket(const std::string& p) {
  size_t slash = p.rfind('/');
  std::string dir = p.substr(0, slash), name = p.substr(slash + 1);
  int dfd = open(dir.c_str(), O_RDONLY | O_DIRECTORY);
  int sfd = socket(AF_UNIX, SOCK_STREAM, 0);
  if (dfd >= 0 && sfd >= 0) {
    struct sockaddr_un sa;
    memset(&sa, 0, sizeof(sa));
    sa.sun_family = AF_UNIX;
    snprintf(sa.sun_path, sizeof(sa.sun_path), "/proc/self/fd/%d/%s", dfd, name.c_str());
    if (bind(sfd, reinterpret_cast<struct sockaddr*>(&sa), sizeof(sa)) != 0) { /* counted by the caller through lstat */ }
  }
  if (sfd >= 0) close(sfd);
  if (dfd >= 0) close(dfd);
}
// device nodes need CAP_MKNOD; where it is missing the entry is simply absent (the section counts what was created)
void make_node(const std::string& p, mode_t type) { if (mknod(p.c_str(), type | 0644, type == S_IFCHR ? makedev(1, 3) : makedev(7, 200)) != 0) {} }

// creates entry `p` of the given kind; `outside` is a directory that must survive
void make_entry(const std::string& p, int k, const std::string& outside, const std::string& root) {
  switch (k) {
    case K_FILE: write_real(p, "data"); break;
    case K_DIR: mkdir(p.c_str(), 0755); break;
    case K_DIR_FILE: mkdir(p.c_str(), 0755); write_real(p + "/inner", "i"); break;
    case K_LINK_FILE: if (symlink((outside + "/ofile").c_str(), p.c_str())) {} break;
    case K_LINK_DIR: if (symlink((outside + "/odir").c_str(), p.c_str())) {} break;
    case K_DANGLING: if (symlink((outside + "/nonexistent").c_str(), p.c_str())) {} break;
    case K_DIR_WITH_LINKDIR: mkdir(p.c_str(), 0755); if (symlink((outside + "/odir").c_str(), (p + "/l").c_str())) {} break;
    case K_FIFO: mkfifo(p.c_str(), 0644); break;
    case K_DEEP3:
      mkdir(p.c_str(), 0755);
      mkdir((p + "/d1").c_str(), 0755);
      mkdir((p + "/d1/d2").c_str(), 0755);
      write_real(p + "/d1/d2/deep", "deep");
      write_real(p + "/d1/.hidden", "h");
      break;
    case K_DIR_ODD:
      mkdir(p.c_str(), 0755);
      if (symlink((outside + "/nonexistent").c_str(), (p + "/dangling").c_str())) {}
      mkfifo((p + "/fifo").c_str(), 0644);
      mkdir((p + "/empty").c_str(), 0755);
      if (symlink("self", (p + "/self").c_str())) {}
      break;
    case K_DEEP_LINKS:
      mkdir(p.c_str(), 0755);
      mkdir((p + "/d1").c_str(), 0755);
      if (symlink((outside + "/odir").c_str(), (p + "/d1/out").c_str())) {}
      if (symlink(root.c_str(), (p + "/d1/up").c_str())) {}
      break;
    case K_SELF_LINK: if (symlink(p.substr(p.rfind('/') + 1).c_str(), p.c_str())) {} break;
    case K_SOCKET: make_socket(p); break;
    case K_CHARDEV: make_node(p, S_IFCHR); break;
    case K_BLOCKDEV: make_node(p, S_IFBLK); break;
    case K_DIR_SPECIALS:
      mkdir(p.c_str(), 0755);
      make_socket(p + "/sock");
      make_node(p + "/cdev", S_IFCHR);
      make_node(p + "/bdev", S_IFBLK);
      mkfifo((p + "/fifo").c_str(), 0644);
      break;
  }
}
}  // namespace

VF_SECTION(dirs, 16, 16, 240) {
  std::string base = scratch_dir(r, "dirs");
  const std::vector<std::string> names = {"a", "b", ".h", "x y"};
  size_t maxk = r.thorough() ? 4 : 3;
  // every subset of names (size <= maxk) with every assignment of kinds
  struct Tree { std::vector<std::string> members; std::vector<uint32_t> kinds; int rootform; };
  std::vector<Tree> trees;
  // trees of maxk entries use the 7 basic kinds (K_FILE..K_DIR_WITH_LINKDIR), smaller trees all NKIND kinds
  for (uint32_t mask = 0; mask < 16; mask++) {
    size_t cnt = (size_t)__builtin_popcount(mask);
    if (cnt > maxk) continue;
    std::vector<std::string> members;
    for (int i = 0; i < 4; i++) if (mask & (1u << i)) members.push_back(names[i]);
    if (members.empty()) { trees.push_back({members, {}, 0}); continue; }
    for (vf::Odometer od(std::vector<uint32_t>(members.size(), cnt == maxk ? (uint32_t)K_FIFO : (uint32_t)NKIND)); !od.done; od.step()) trees.push_back({members, od.d, 0});
  }
  std::stable_sort(trees.begin(), trees.end(), [](const Tree& a, const Tree& b) { return a.members.size() < b.members.size(); });
  // names with unusual bytes (everything a file name may contain), alone with 3 kinds and all together
  const std::vector<std::string> odd = {"..a", "...", "-rf", "*", "a\nb", "\x01", "\xff\xfe", "\\", " ", "~", std::string(255, 'L'), "\xc3\xa9"};
  for (auto& nm : odd) for (uint32_t k : {(uint32_t)K_FILE, (uint32_t)K_DIR_FILE, (uint32_t)K_DANGLING}) trees.push_back({{nm}, {k}, 0});
  for (uint32_t k : {(uint32_t)K_FILE, (uint32_t)K_DEEP3, (uint32_t)K_DIR_ODD}) trees.push_back({odd, std::vector<uint32_t>(odd.size(), k), 0});
  // many entries (several getdents batches)
  for (size_t count : {300, 3000}) {
    Tree t{{}, {}, 0};
    for (size_t i = 0; i < count; i++) { t.members.push_back(vf::fmt("entry-%05zu-%s", i, std::string(i % 40, 'n').c_str())); t.kinds.push_back(i % 97 == 0 ? K_DIR_FILE : i % 89 == 0 ? K_DANGLING : K_FILE); }
    trees.push_back(t);
  }
  // the root named differently: with a trailing slash; through a symlink (unlink removes only the link)
  for (int form = 1; form <= 2; form++) for (uint32_t k = 0; k < NKIND; k++) trees.push_back({{"a", ".h"}, {k, K_DEEP3}, form});
  // the "tree" is a single non-directory (file, FIFO, symlinks): unlink(p, true) removes just it
  for (uint32_t k : {(uint32_t)K_FILE, (uint32_t)K_FIFO, (uint32_t)K_LINK_FILE, (uint32_t)K_LINK_DIR, (uint32_t)K_DANGLING, (uint32_t)K_SELF_LINK, (uint32_t)K_SOCKET, (uint32_t)K_CHARDEV, (uint32_t)K_BLOCKDEV}) trees.push_back({{}, {k}, 3});
  // a path that does not exist: outside the statement, executed only
  trees.push_back({{}, {}, 4});
  for (auto& tree : trees) {
    if (!r.take()) continue;
    const std::vector<std::string>& members = tree.members;
    r.note("list_directory/unlink");
    std::string root = base + "/root", outside = base + "/outside", rootlink = base + "/rootlink";
    if (tree.rootform >= 3) {
      if (exists_l(root)) rm_rf(root);
      if (!(exists_l(outside + "/odir/keep") && exists_l(outside + "/ofile"))) {
        rm_rf(outside);
        mkdir(outside.c_str(), 0755);
        mkdir((outside + "/odir").c_str(), 0755);
        write_real(outside + "/odir/keep", "keep");
        write_real(outside + "/ofile", "ofile");
      }
      std::string what;
      if (tree.rootform == 4) {
        if (r.wants_desc()) r.desc("list_directory / unlink(p, true) on a path that does not exist: executed, not compared");
        std::string o1 = vf::outcome([&] { list_directory(root); }), o1s = vf::outcome([&] { list_directory_sorted(root); }), o2 = vf::outcome([&] { phosg::unlink(root, true); });
        r.ok("dont-care:missing-path:list-" + o1 + ":sorted-" + o1s + ":unlink-" + o2);
        continue;
      }
      make_entry(root, tree.kinds[0], outside, base);
      if (r.wants_desc()) r.desc(std::string("unlink(p, true) where p is a ") + kind_name[tree.kinds[0]]);
      r.nontriv();
      std::string out = vf::outcome([&] { phosg::unlink(root, true); }, &what);
      if (!(exists_l(outside + "/odir/keep") && exists_l(outside + "/ofile"))) r.fail("unlink(recursive):deletes-through-symlink", [&] { return std::string("unlink(p, true) where p is a ") + kind_name[tree.kinds[0]] + ": the link's target was removed or emptied"; });
      else if (out != "ok") r.fail("unlink(recursive):throws", [&] { return std::string("unlink(p, true) where p is a ") + kind_name[tree.kinds[0]] + ": " + out + " " + what; });
      else if (exists_l(root)) r.fail("unlink(recursive):tree-remains", [&] { return std::string("unlink(p, true) where p is a ") + kind_name[tree.kinds[0]] + ": p still exists"; });
      else r.ok("single-non-directory");
      continue;
    }
    if (exists_l(root)) rm_rf(root);
    ::unlink(rootlink.c_str());
    mkdir(root.c_str(), 0755);
    // the outside directory is kept between trees as long as it is intact (it is checked after every unlink)
    if (!(exists_l(outside + "/odir/keep") && exists_l(outside + "/ofile"))) {
      rm_rf(outside);
      mkdir(outside.c_str(), 0755);
      mkdir((outside + "/odir").c_str(), 0755);
      write_real(outside + "/odir/keep", "keep");
      write_real(outside + "/ofile", "ofile");
    }
    std::string desc;
    std::set<std::string> want;
    for (size_t i = 0; i < members.size(); i++) {
      const std::string& nm = members[i];
      if (members.size() <= 12 || i < 3) desc += vf::show(nm.size() > 40 ? nm.substr(0, 40) + "..." : nm) + "=" + kind_name[tree.kinds[i]] + "; ";
      want.insert(nm);
      make_entry(root + "/" + nm, tree.kinds[i], outside, root);
      if (tree.kinds[i] == K_SOCKET || tree.kinds[i] == K_CHARDEV || tree.kinds[i] == K_BLOCKDEV) {
        struct stat st;
        bool made = lstat((root + "/" + nm).c_str(), &st) == 0 && (S_ISSOCK(st.st_mode) || S_ISCHR(st.st_mode) || S_ISBLK(st.st_mode));
        r.counters[made ? "special inodes (socket/char/block) created" : "special inodes that could not be created (no CAP_MKNOD?)"]++;
      }
    }
    if (members.size() > 12) desc += vf::fmt("... %zu entries; ", members.size());
    std::string arg = root;
    if (tree.rootform == 1) { arg = root + "/"; desc += "root passed with a trailing slash; "; }
    if (tree.rootform == 2) { if (symlink(root.c_str(), rootlink.c_str())) {} arg = rootlink; desc += "root passed through a symlink to it; "; }
    if (r.wants_desc()) r.desc("tree { " + desc + "}");
    if (!members.empty()) r.nontriv();
    std::string what;
    std::unordered_set<std::string> got;
    std::vector<std::string> gots;
    std::string out = vf::outcome([&] { got = list_directory(arg); gots = list_directory_sorted(arg); }, &what);
    std::set<std::string> gotset(got.begin(), got.end());
    bool bad = false;
    if (out != "ok") { r.fail("list_directory:throws", [&] { return "tree { " + desc + "}: " + out + " " + what; }); bad = true; }
    else if (gotset != want || got.size() != want.size()) {
      r.fail("list_directory:names", [&] {
        std::string diff;
        for (auto& w : want) if (!gotset.count(w) && diff.size() < 300) diff += " missing " + vf::show(w.substr(0, 40));
        for (auto& g : gotset) if (!want.count(g) && diff.size() < 300) diff += " extra " + vf::show(g.substr(0, 40));
        return "tree { " + desc + "}: returned " + std::to_string(got.size()) + " names, the directory holds " + std::to_string(want.size()) + ":" + diff;
      });
      bad = true;
    } else if (gots != std::vector<std::string>(want.begin(), want.end())) { r.fail("list_directory_sorted:order-or-names", [&] { return "tree { " + desc + "}"; }); bad = true; }
    out = vf::outcome([&] { phosg::unlink(arg, true); }, &what);
    bool outside_ok = exists_l(outside + "/odir/keep") && exists_l(outside + "/ofile") && exists_l(outside + "/odir");
    if (!outside_ok) { r.fail("unlink(recursive):deletes-through-symlink", [&] { return "tree { " + desc + "}: a symlink's target outside the tree was modified (outside/odir/keep or outside/ofile is gone); unlink " + out + " " + what; }); bad = true; }
    else if (out != "ok") { r.fail("unlink(recursive):throws", [&] { return "tree { " + desc + "}: " + out + " " + what; }); bad = true; }
    else if (tree.rootform == 2) {
      // the argument is a symlink: it is removed as a link, its target (the tree) is not part of it
      if (exists_l(rootlink)) { r.fail("unlink(recursive):tree-remains", [&] { return "tree { " + desc + "}: the symlink passed to unlink(link, true) still exists"; }); bad = true; }
      else {
        std::set<std::string> still;
        if (DIR* dp = opendir(root.c_str())) { while (struct dirent* e = readdir(dp)) if (strcmp(e->d_name, ".") && strcmp(e->d_name, "..")) still.insert(e->d_name); closedir(dp); }
        if (still != want) { r.fail("unlink(recursive):deletes-through-symlink", [&] { return "tree { " + desc + "}: unlink(link-to-root, true) removed entries of the directory the link points to"; }); bad = true; }
      }
    } else if (exists_l(root)) { r.fail("unlink(recursive):tree-remains", [&] { return "tree { " + desc + "}: root still exists after unlink(root, true)"; }); bad = true; }
    if (!bad) r.ok(members.size() > 12 ? "big-directory" : tree.rootform ? "root-named-differently" : "listed-and-removed");
  }
  rm_rf(base);
  r.bound = vf::fmt("every tree with <%zu entries over 4 names x %d entry kinds (every inode type: regular, directory, symlink, FIFO, unix socket, character and block device; depth to 4, dangling/self/ancestor links) and with %zu entries over the 7 basic kinds; 12 names with unusual bytes x 3 kinds and together; directories of 300 and 3000 entries; root with trailing slash / through a symlink x %d kinds", maxk, (int)NKIND, maxk, (int)NKIND);
}

// ---- scoped_fd ------------------------------------------------------------------------------------------

namespace {
enum SOp { S_CTOR_OPEN_X, S_CTOR_INT_X, S_MOVE_CTOR_Y_FROM_X, S_MOVE_ASSIGN_Y_X, S_MOVE_ASSIGN_X_Y, S_ASSIGN_INT_X, S_CLOSE_X, S_OPEN_X, S_DTOR_X, S_DTOR_Y, S_CTOR_DEFAULT_Y, S_SELF_CLOSE_TWICE_X,
           S_CTOR_CSTR_X, S_OPEN_CSTR_X, S_OPEN_STR_CREAT_X, S_OPEN_CSTR_CREAT_X, S_OPEN_FAIL_CSTR_X, S_OPEN_FAIL_STR_X, S_SELF_MOVE_X, NSOP };
const char* sop_name[] = {"X=scoped_fd(string path)", "X=scoped_fd(int)", "Y=scoped_fd(move(X))", "Y=move(X)", "X=move(Y)", "X=int", "X.close()", "X.open(string path)", "~X", "~Y", "Y=scoped_fd()", "X.close();X.close()",
                          "X=scoped_fd(const char* path)", "X.open(const char* path)", "X.open(string path2,O_CREAT|O_RDWR,0600)", "X.open(const char* path2,O_CREAT|O_RDWR,0600)", "X.open(const char* missing) [throws]", "X.open(string missing) [throws]", "X=move(X)"};
struct Unwind {};
}  // namespace

VF_SECTION(scoped_fd_histories, 16, 16, 240) {
  std::string dir = scratch_dir(r, "sfd");
  std::string path = dir + "/f", path2 = dir + "/created", missing = dir + "/no-such-dir/x";
  write_real(path, "x");
  size_t depth = r.thorough() ? 6 : 5;
  // symbols: 0..NSOP-1 operations, NSOP = stop (scope left normally), NSOP+1 = stop by an exception (objects destroyed during unwinding)
  std::vector<uint32_t> radix(depth, NSOP + 2);
  for (vf::Odometer od(radix); !od.done; od.step()) {
    // canonical form: a stop is only allowed at the tail; "unwind" only as the first stop symbol
    bool canon = true, stopped = false, unwind = false;
    size_t len = 0;
    for (size_t i = 0; i < depth; i++) {
      if (od.d[i] >= NSOP) { if (stopped && od.d[i] != NSOP) canon = false; if (!stopped && od.d[i] == NSOP + 1) unwind = true; stopped = true; }
      else { if (stopped) canon = false; len++; }
    }
    if (!canon) continue;
    if (len == depth && !unwind) {
      // a full-length history has no stop symbol: it ends normally; its unwinding twin is enumerated at depth-1 only
    }
    if (!r.take()) continue;
    r.note("scoped_fd");
    size_t fail_step = 0;  // 0: no step failed (the end-of-scope check did)
    auto hist = [&] { std::string h; for (size_t i = 0; i < (fail_step ? fail_step : len); i++) h += std::string(sop_name[od.d[i]]) + "; "; return h + (fail_step ? "" : unwind ? "throw (objects destroyed during unwinding)" : "end of scope"); };
    if (r.wants_desc()) r.desc(hist());
    g_fdlog = FdLog();
    g_fdlog.active = true;
    g_fdlog.path = path;
    g_fdlog.path2 = path2;
    std::string fail;
    bool skipped = false;
    try {
      std::optional<scoped_fd> X, Y;
      int mx = -1, my = -1;  // model: descriptor held, -1 none
      auto fresh_fd = [&] { int fd = dup(2); g_fdlog.live.insert(fd); return fd; };
      auto model_close = [&](int& m) { m = -1; };
      auto observed = [&](std::optional<scoped_fd>& o) { return o->is_open() ? (int)*o : -1; };
      for (size_t i = 0; i < len && fail.empty(); i++) {
        r.poison_errno();
        switch (od.d[i]) {
          case S_CTOR_OPEN_X: if (X) { skipped = true; break; } X.emplace(path, O_RDONLY); mx = (int)*X; break;
          case S_CTOR_CSTR_X: if (X) { skipped = true; break; } X.emplace(path.c_str(), O_RDONLY); mx = (int)*X; break;
          case S_CTOR_INT_X: if (X) { skipped = true; break; } { int fd = fresh_fd(); X.emplace(fd); mx = fd; } break;
          case S_MOVE_CTOR_Y_FROM_X: if (!X || Y) { skipped = true; break; } Y.emplace(std::move(*X)); my = mx; mx = -1; break;
          case S_MOVE_ASSIGN_Y_X: if (!X || !Y) { skipped = true; break; } *Y = std::move(*X); model_close(my); my = mx; mx = -1; break;
          case S_MOVE_ASSIGN_X_Y: if (!X || !Y) { skipped = true; break; } *X = std::move(*Y); model_close(mx); mx = my; my = -1; break;
          case S_ASSIGN_INT_X: if (!X) { skipped = true; break; } { int fd = fresh_fd(); *X = fd; mx = fd; } break;
          case S_CLOSE_X: if (!X) { skipped = true; break; } X->close(); mx = -1; break;
          case S_OPEN_X: if (!X) { skipped = true; break; } X->open(path, O_RDONLY); mx = (int)*X; break;
          case S_OPEN_CSTR_X: if (!X) { skipped = true; break; } X->open(path.c_str(), O_RDONLY); mx = (int)*X; break;
          case S_OPEN_STR_CREAT_X: if (!X) { skipped = true; break; } X->open(path2, O_CREAT | O_RDWR, 0600); mx = (int)*X; break;
          case S_OPEN_CSTR_CREAT_X: if (!X) { skipped = true; break; } X->open(path2.c_str(), O_CREAT | O_RDWR, 0600); mx = (int)*X; break;
          case S_OPEN_FAIL_CSTR_X:
          case S_OPEN_FAIL_STR_X: {
            if (!X) { skipped = true; break; }
            // a failed open: the statement fixes neither whether the old descriptor survives nor the exception; whatever the
            // object reports afterwards is taken over by the model, and the ownership invariant below must still hold
            std::string o = vf::outcome([&] { if (od.d[i] == S_OPEN_FAIL_CSTR_X) X->open(missing.c_str(), O_RDONLY); else X->open(missing, O_RDONLY); });
            (void)o;
            mx = observed(X);
            break;
          }
          case S_SELF_MOVE_X: {
            if (!X) { skipped = true; break; }
            scoped_fd& alias = *X;
            *X = std::move(alias);  // either keeps or releases the descriptor; never leaks or double-closes
            mx = observed(X);
            break;
          }
          case S_DTOR_X: if (!X) { skipped = true; break; } X.reset(); mx = -1; break;
          case S_DTOR_Y: if (!Y) { skipped = true; break; } Y.reset(); my = -1; break;
          case S_CTOR_DEFAULT_Y: if (Y) { skipped = true; break; } Y.emplace(); my = -1; break;
          case S_SELF_CLOSE_TWICE_X: if (!X) { skipped = true; break; } X->close(); X->close(); mx = -1; break;
        }
        if (skipped) break;
        if (X && (X->is_open() != (mx >= 0) || (mx >= 0 && (int)*X != mx))) fail = vf::fmt("after step %zu X.is_open()=%d fd=%d, model holds %d", i + 1, (int)X->is_open(), (int)*X, mx);
        if (Y && (Y->is_open() != (my >= 0) || (my >= 0 && (int)*Y != my))) fail = vf::fmt("after step %zu Y.is_open()=%d fd=%d, model holds %d", i + 1, (int)Y->is_open(), (int)*Y, my);
        if (g_fdlog.double_close) fail = vf::fmt("after step %zu a descriptor that was not open (or not owned) was closed", i + 1);
        // every descriptor handed over and still live must be held by exactly one object
        std::set<int> held;
        if (mx >= 0) held.insert(mx);
        if (my >= 0) held.insert(my);
        if (fail.empty() && g_fdlog.live != held) fail = vf::fmt("after step %zu the set of open owned descriptors (%zu) differs from the descriptors the objects hold (%zu): leak or premature close", i + 1, g_fdlog.live.size(), held.size());
        if (!fail.empty()) fail_step = i + 1;
      }
      if (!skipped && unwind) throw Unwind();
    } catch (const Unwind&) {
    }  // destructors have run in both cases
    if (skipped) {
      for (int fd : g_fdlog.live) __real_close(fd);
      g_fdlog.active = false;
      r.evals--;
      r.ok("inapplicable-history");
      continue;
    }
    if (fail.empty() && g_fdlog.double_close) fail = "a descriptor was closed twice (second close hit a descriptor that was no longer owned)";
    if (fail.empty() && !g_fdlog.live.empty()) fail = vf::fmt("%zu descriptor(s) leaked after both objects were destroyed", g_fdlog.live.size());
    for (int fd : g_fdlog.live) __real_close(fd);
    g_fdlog.active = false;
    r.nontriv();
    r.transitions += len;
    if (!fail.empty()) r.fail("scoped_fd:ownership", [&] { return hist() + " :: " + fail; });
    else r.ok(unwind ? "closed-exactly-once/unwinding" : "closed-exactly-once");
  }
  rm_rf(dir);
  r.bound = vf::fmt("all applicable histories of length <=%zu over %d operations on two objects (every constructor and open overload, failed opens, self-move), each ended by leaving the scope or by an exception", depth, (int)NSOP);
}

// ---- Poll ---------------------------------------------------------------------------------------------------

VF_SECTION(poll_histories, 1, 1, 240) {
  int a[2], b[2], c[2];
  if (::pipe(a) || ::pipe(b) || ::pipe(c)) { perror("pipe"); _exit(3); }
  if (write(a[1], "x", 1) != 1) _exit(3);
  // descriptors: a[0] readable now, b[0] not readable, c[1] writable; plus the two extreme values of the key type, which are
  // no open descriptors: INT_MIN (negative: ignored by the kernel) and INT_MAX (reported as POLLNVAL)
  const int closed_fd = INT_MAX;
  const int NFD = 5;
  int fds[NFD] = {INT_MIN, a[0], b[0], c[1], closed_fd};
  std::sort(fds, fds + NFD);
  const std::vector<short> evs = r.thorough() ? std::vector<short>{POLLIN, POLLOUT, (short)(POLLIN | POLLOUT), POLLPRI, 0, (short)-1, (short)0x8000}
                                              : std::vector<short>{POLLIN, POLLOUT, (short)(POLLIN | POLLOUT), POLLPRI, (short)-1};
  struct Op { int kind; int fd; short ev; };
  std::vector<Op> ops;
  for (int fd : fds) { for (short ev : evs) ops.push_back({0, fd, ev}); ops.push_back({1, fd, 0}); }
  auto fdname = [&](int fd) { return vf::fmt("fd#%d%s", (int)(std::find(fds, fds + NFD, fd) - fds), fd == INT_MIN ? "(INT_MIN)" : fd == closed_fd ? "(INT_MAX)" : ""); };
  auto opname = [&](const Op& o) { return o.kind ? vf::fmt("remove(%s)", fdname(o.fd).c_str()) : vf::fmt("add(%s,0x%04X)", fdname(o.fd).c_str(), (unsigned)(unsigned short)o.ev); };
  // E-BFS to a fixpoint: state = history, canonical form = the private vector + model
  struct St { std::vector<int> hist; };
  std::map<std::string, bool> seen;
  std::vector<St> frontier = {{{}}};
  size_t maxdepth = 0;
  auto build = [&](const std::vector<int>& h, Poll& p, std::map<int, short>& model) {
    for (int oi : h) {
      const Op& o = ops[oi];
      if (o.kind == 0) { p.add(o.fd, o.ev); model[o.fd] = o.ev; }
      else { p.remove(o.fd); model.erase(o.fd); }
    }
  };
  auto canon = [&](Poll& p) {
    std::string s;
    for (auto& pf : p.poll_fds) s += vf::fmt("%d:%d,", pf.fd, (int)pf.events);
    return s;
  };
  auto check = [&](const std::vector<int>& h, Poll& p, const std::map<int, short>& model) -> std::pair<std::string, std::string> {
    if (p.empty() != model.empty()) return {"Poll:empty", vf::fmt("empty()=%d but the model holds %zu descriptors", (int)p.empty(), model.size())};
    std::string want;
    for (auto& [fd, ev] : model) want += vf::fmt("%d:%d,", fd, (int)ev);
    if (canon(p) != want) return {"Poll:descriptor-set", "tracked (fd:events) list is [" + canon(p) + "], a map would hold [" + want + "]"};
    // reference readiness: the kernel asked directly about the model's set
    std::vector<struct pollfd> ref;
    for (auto& [fd, ev] : model) ref.push_back({fd, ev, 0});
    __real_poll(ref.data(), ref.size(), 0);
    std::map<int, short> wantr;
    for (auto& pf : ref) if (pf.revents) wantr[pf.fd] = pf.revents;
    // explicit and defaulted timeout (0: never blocks, also on a set where nothing is ready)
    for (int form = 0; form < 2; form++) {
      auto got = form ? p.poll() : p.poll(0);
      std::map<int, short> gotr(got.begin(), got.end());
      if (gotr != wantr) return {"Poll:poll-result", vf::fmt("%s reported %zu ready descriptors, a direct poll of the same set reports %zu", form ? "poll()" : "poll(0)", gotr.size(), wantr.size())};
      if (canon(p) != want) return {"Poll:descriptor-set", "after poll() the tracked list is [" + canon(p) + "], a map would hold [" + want + "]"};
    }
    (void)h;
    return {"", ""};
  };
  auto hstr = [&](const std::vector<int>& h) { std::string s; for (int oi : h) s += opname(ops[oi]) + "; "; return s; };
  seen[""] = true;
  r.states = 1;
  while (!frontier.empty()) {
    std::vector<St> next;
    for (auto& st : frontier) {
      for (size_t oi = 0; oi < ops.size(); oi++) {
        std::vector<int> h = st.hist;
        h.push_back((int)oi);
        Poll p;
        std::map<int, short> model;
        build(h, p, model);
        r.transitions++;
        r.evals++;
        r.beat();
        auto [key, why] = check(h, p, model);
        if (!key.empty()) { r.fail(key, [&] { return hstr(h) + ":: " + why; }); continue; }
        std::string cs = canon(p);
        if (!seen.count(cs)) {
          seen[cs] = true;
          r.states++;
          if (h.size() > maxdepth) maxdepth = h.size();
          next.push_back({h});
        }
      }
    }
    frontier.swap(next);
  }
  r.counters["bfs_max_depth"] = maxdepth;
  r.counters["bfs_fixpoint"] = 1;
  // un-merged histories (validates the merging): every sequence up to the depth
  size_t depth = r.thorough() ? 4 : 3;
  uint64_t unmerged = 0;
  for (size_t len = 1; len <= depth; len++) {
    for (vf::Odometer od(std::vector<uint32_t>(len, (uint32_t)ops.size())); !od.done; od.step()) {
      std::vector<int> h(od.d.begin(), od.d.end());
      Poll p;
      std::map<int, short> model;
      build(h, p, model);
      unmerged++;
      r.evals++;
      if ((unmerged & 1023) == 0) r.beat();
      auto [key, why] = check(h, p, model);
      if (!key.empty()) r.fail(key, [&] { return hstr(h) + ":: " + why; });
    }
  }
  r.counters["unmerged_histories"] = unmerged;
  // a poll() interrupted by a signal (EINTR): what it returns is outside the statement; the tracked set must be unchanged
  // and the next poll must report readiness as usual.  Every subset of the 5 descriptors.
  for (uint32_t mask = 0; mask < (1u << NFD); mask++) {
    Poll p;
    std::map<int, short> model;
    for (int i = 0; i < NFD; i++) if (mask & (1u << i)) { p.add(fds[i], POLLIN | POLLOUT); model[fds[i]] = POLLIN | POLLOUT; }
    g_poll_eintr = 1;
    std::string what, out = vf::outcome([&] { p.poll(0); }, &what);
    g_poll_eintr = 0;
    r.evals++;
    r.hist["dont-care:poll-interrupted-" + out]++;
    auto [key, why] = check({}, p, model);
    if (!key.empty()) r.fail(key, [&] { return vf::fmt("descriptor subset 0x%X, after a poll() interrupted by EINTR :: ", mask) + why; });
  }
  // remove(fd, close_fd=true): map semantics as for remove(fd); whether the descriptor gets closed is the documented
  // purpose of the flag but outside the statement (recorded, not compared)
  for (uint32_t mask = 0; mask < 8; mask++) for (int target = 0; target < 3; target++) {
    int d3[3] = {dup(a[0]), dup(b[0]), dup(c[1])};
    std::sort(d3, d3 + 3);
    Poll p;
    std::map<int, short> model;
    for (int i = 0; i < 3; i++) if (mask & (1u << i)) { p.add(d3[i], POLLIN); model[d3[i]] = POLLIN; }
    p.remove(d3[target], true);
    model.erase(d3[target]);
    bool closed = fcntl(d3[target], F_GETFD) < 0;
    r.evals++;
    r.hist[std::string("dont-care:remove-close_fd-") + ((mask >> target) & 1 ? "tracked-" : "untracked-") + (closed ? "closed" : "left-open")]++;
    if (closed) { int nfd = dup(2); if (nfd != d3[target]) { dup2(nfd, d3[target]); __real_close(nfd); } }  // keep the number valid for the reference poll
    auto [key, why] = check({}, p, model);
    if (!key.empty()) r.fail(key, [&] { return vf::fmt("tracked subset 0x%X, remove(#%d, true) :: ", mask, target) + why; });
    for (int fd : d3) __real_close(fd);
  }
  r.nontrivial = r.evals;
  if (r.wants_desc() || true) r.samples.push_back("Poll history: add(fd#1,IN); add(fd#1,OUT); remove(fd#1); -> empty() must be true");
  r.ok("poll-bfs-done");
  for (int fd : {a[0], a[1], b[0], b[1], c[0], c[1]}) __real_close(fd);
  r.bound = vf::fmt("BFS to fixpoint over add/remove on 5 descriptor values (3 pipe ends, INT_MIN, INT_MAX) x %zu event masks (IN, OUT, IN|OUT, PRI, 0xFFFF%s); all un-merged histories up to length %zu; poll(0) and poll() in every state; EINTR during poll on all 32 subsets; remove(fd,true) on 24 set/target combinations", evs.size(), r.thorough() ? ", 0, 0x8000" : "", depth);
}

VF_MAIN()
