// C01_common.hh — small helpers shared by all C01 translation units.
#pragma once
#include <stdint.h>
#include <stdlib.h>
#include <string.h>

#include <algorithm>
#include <functional>
#include <memory>
#include <string>
#include <vector>

#include "C01_kinds.hh"
#include "vf.hh"

namespace c01 {

typedef std::vector<uint8_t> Bytes;

inline std::string kname(const char* op, const Kind& k) { return std::string(op) + "_" + k.name; }

// exact-size heap block (ASan red zones on both sides)
struct Exact {
  uint8_t* p;
  size_t n;
  explicit Exact(size_t n_, uint8_t fill = 0xEE) : p((uint8_t*)malloc(n_ ? n_ : 1)), n(n_) { memset(p, fill, n_ ? n_ : 1); }
  Exact(const Exact&) = delete;
  ~Exact() { free(p); }
};

// ---- list-of-bytes model of the untyped reads (shared by `blocks`, `rd_ops`, `rd_views`) -------------
// C string at pos: bytes up to the next NUL; nothing complete is encoded when there is no NUL.
inline bool model_cstr(const uint8_t* m, size_t n, size_t pos, std::string* out) {
  for (size_t j = pos; j < n; j++)
    if (m[j] == 0) {
      out->assign((const char*)m + pos, j - pos);
      return true;
    }
  return false;
}
// line at pos: everything up to the next LF (or the end of the data), one trailing CR dropped; the
// cursor moves past the LF if there is one.  Nothing is encoded at or past the end.
inline bool model_line(const uint8_t* m, size_t n, size_t pos, std::string* out, size_t* newpos) {
  if (pos >= n) return false;
  size_t j = pos;
  while (j < n && m[j] != '\n') j++;
  out->assign((const char*)m + pos, j - pos);
  if (!out->empty() && out->back() == '\r') out->pop_back();
  *newpos = std::min(j + 1, n);
  return true;
}
// clamped raw read of k bytes at pos (k may be any size_t)
inline std::string model_read(const uint8_t* m, size_t n, size_t pos, size_t k) {
  if (pos >= n) return std::string();
  size_t avail = n - pos;
  return std::string((const char*)m + pos, k < avail ? k : avail);
}
// true iff [pos, pos+k) lies inside [0, n) — written without overflow
inline bool model_fits(size_t n, size_t pos, size_t k) { return pos <= n && k <= n - pos; }

// ---- plain structs for the put<T>/get<T> templates ----------------------------------------------------
struct S3 {
  uint8_t a;
  phosg::be_uint16_t b;
} __attribute__((packed));
struct S5 {
  phosg::le_uint32_t a;
  int8_t b;
} __attribute__((packed));
struct S12 {
  phosg::be_uint32_t a;
  phosg::le_float f;
  phosg::re_uint16_t c;
  uint8_t d[2];
} __attribute__((packed));
struct S16 {
  phosg::le_uint64_t a;
  phosg::be_double b;
} __attribute__((packed));
static_assert(sizeof(S3) == 3 && sizeof(S5) == 5 && sizeof(S12) == 12 && sizeof(S16) == 16, "packed");

// builds the struct from a 64-bit seed and gives the reference bytes (member by member, with enc())
inline S3 make_S3(uint64_t v, uint8_t* ref) {
  S3 s;
  s.a = (uint8_t)(v >> 16);
  s.b = (uint16_t)v;
  ref[0] = (uint8_t)(v >> 16);
  enc(ref + 1, v, 2, BE);
  return s;
}
inline S5 make_S5(uint64_t v, uint8_t* ref) {
  S5 s;
  s.a = (uint32_t)v;
  s.b = (int8_t)(v >> 32);
  enc(ref, v, 4, LE);
  ref[4] = (uint8_t)(v >> 32);
  return s;
}
inline S12 make_S12(uint64_t v, uint8_t* ref) {
  S12 s;
  s.a = (uint32_t)v;
  s.f = from_bits<float>((v >> 32) ^ 0x7FC00001u);
  s.c = (uint16_t)(v >> 8);
  s.d[0] = (uint8_t)(v >> 56);
  s.d[1] = (uint8_t)(v >> 48);
  enc(ref, v, 4, BE);
  enc(ref + 4, (uint32_t)((v >> 32) ^ 0x7FC00001u), 4, LE);
  enc(ref + 8, v >> 8, 2, BE);  // reverse of the little-endian host
  ref[10] = (uint8_t)(v >> 56);
  ref[11] = (uint8_t)(v >> 48);
  return s;
}
inline S16 make_S16(uint64_t v, uint8_t* ref) {
  S16 s;
  s.a = v;
  s.b = from_bits<double>(~v);
  enc(ref, v, 8, LE);
  enc(ref + 8, ~v, 8, BE);
  return s;
}

}  // namespace c01
