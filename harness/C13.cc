// C13 — KDTree equals a brute-force multiset under any insert / erase / erase-while-iterating history.
// Sections S1-S4: E-BFS closures over the plain grids (explorer in C13_explorer.hh); the round-2 sections
// live in C13_ext.cc (closures on coordinates at the int64_t limits), C13_seq*.cc (operation sequences on one
// object), C13_pairs*.cc (boundary coordinates of every coordinate type) and C13_misc.cc (iterator members,
// calling contexts, emplace forms).
#include "C13_explorer.hh"

using namespace c13x;

// Each section is one shard for check.py and forks its own workers per BFS level (bfs.hh).

// S1: 3x3 grid, one value (duplicates are identical entries)
VF_SECTION(S1, 1, 1, 180) {
  bool th = r.thorough();
  Explorer<V2> e(r, 1, th ? 7 : 5, th ? 6 : 5);
  e.run("S1 (3x3 grid, value 0)", th ? 8 : 10);
}

// S2: 3x3 grid, two values (several entries at one point that differ in value)
VF_SECTION(S2, 1, 1, 180) {
  bool th = r.thorough();
  Explorer<V2> e(r, 2, th ? 5 : 3, 5);
  e.run("S2 (3x3 grid, values {0,1})", th ? 8 : 4);
}

// S3: 2x2x2 Vector3 cube
VF_SECTION(S3, 1, 1, 180) {
  bool th = r.thorough();
  Explorer<V3> e(r, 1, th ? 5 : 3, 5);
  e.run("S3 (2x2x2 cube, value 0)", th ? 1 : 2);
}

// S4: S2's scope, every observer before and after every operation on the same object (what a fresh object per
// transition cannot show: answers remembered across a mutation)
VF_SECTION(S4, 1, 1, 180) {
  bool th = r.thorough();
  Explorer<V2> e(r, 2, th ? 3 : 2, 5);
  e.requery = true;
  e.run("S4 (3x3 grid, values {0,1}, observers around every operation)", th ? 8 : 2);
}

VF_MAIN()
