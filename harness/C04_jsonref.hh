// C04_jsonref.hh — reference JSON recogniser/evaluator shared by the C04 and C05 harnesses.
//
//   R_std  = jref::parse(text, n, /*ext=*/false): RFC 8259, nothing else.
//   R_ext  = jref::parse(text, n, /*ext=*/true):  R_std plus exactly the four extensions that
//            /repo/src/JSON.hh documents for the default parser mode:
//              - trailing commas in lists and dictionaries
//              - hexadecimal integers            (-?0x[0-9A-Fa-f]+, the form serialize() emits)
//              - single-character constants      (n / t / f)
//              - comments                        (// up to end of line, wherever whitespace may be)
//
// Written from the RFC grammar, not from the phosg parser: index-based recursive descent, numbers
// are validated against the RFC production and then converted with strtod()/checked integer
// accumulation.  It is itself bound to Python's json module by oracles/C04.py / C05.py, which replay
// every quick-tier text (see dat_line()).
//
// A result carries, besides accept/reject, the flags that put a text *outside the property
// statements* (the harnesses then check totality only):
//   num_range  integer-syntax number outside int64, or fraction/exponent number that is not a finite
//              normal double (overflow, underflow to zero/denormal); hex integer outside int64
//   big_u      \uXXXX escape above U+00FF (phosg documents strings as byte strings)
//   dup_key    a dictionary repeats a key
//   too_deep   bracket nesting above 500
//   amb_comment  a comment is terminated by a bare CR (the header does not say whether CR ends a comment)
#pragma once
#include <errno.h>
#include <float.h>
#include <math.h>
#include <stdint.h>
#include <stdio.h>
#include <stdlib.h>
#include <string.h>
#include <sys/stat.h>

#include <string>
#include <utility>
#include <vector>

namespace jref {

struct Val {
  enum Kind { NUL, BOOL, INT, FLT, STR, LIST, DICT };
  Kind k = NUL;
  bool b = false;
  int64_t i = 0;
  double d = 0;
  bool has_exp = false;  // FLT only: the literal had an exponent part
  std::string s;
  std::vector<Val> items;
  std::vector<std::pair<std::string, Val>> members;  // document order

  static Val null() { return Val(); }
  static Val boolean(bool x) { Val v; v.k = BOOL; v.b = x; return v; }
  static Val integer(int64_t x) { Val v; v.k = INT; v.i = x; return v; }
  static Val real(double x) { Val v; v.k = FLT; v.d = x; return v; }
  static Val str(std::string x) { Val v; v.k = STR; v.s = std::move(x); return v; }
  static Val list(std::vector<Val> x = {}) { Val v; v.k = LIST; v.items = std::move(x); return v; }
  static Val dict(std::vector<std::pair<std::string, Val>> x = {}) { Val v; v.k = DICT; v.members = std::move(x); return v; }

  size_t nodes() const {
    size_t n = 1;
    for (auto& c : items) n += c.nodes();
    for (auto& m : members) n += m.second.nodes();
    return n;
  }
  bool has_float() const {
    if (k == FLT) return true;
    for (auto& c : items) if (c.has_float()) return true;
    for (auto& m : members) if (m.second.has_float()) return true;
    return false;
  }
  bool has_empty_container() const {
    if ((k == LIST && items.empty()) || (k == DICT && members.empty())) return true;
    for (auto& c : items) if (c.has_empty_container()) return true;
    for (auto& m : members) if (m.second.has_empty_container()) return true;
    return false;
  }
  bool has_exp_number() const {
    if (k == FLT && has_exp) return true;
    for (auto& c : items) if (c.has_exp_number()) return true;
    for (auto& m : members) if (m.second.has_exp_number()) return true;
    return false;
  }
};

enum ExtBit : unsigned { EXT_COMMA = 1, EXT_HEX = 2, EXT_ONECHAR = 4, EXT_COMMENT = 8 };

inline const char* ext_name(unsigned mask) {
  switch (mask) {
    case EXT_COMMA: return "trailing-comma";
    case EXT_HEX: return "hex-integer";
    case EXT_ONECHAR: return "one-char-constant";
    case EXT_COMMENT: return "comment";
    case 0: return "none";
    default: return "several";
  }
}

struct Result {
  // --- "one value at the start of the text" (what a reader-based entry point sees)
  bool prefix_ok = false;   // leading whitespace + one complete value was recognised
  size_t value_end = 0;     // offset just past that value (no trailing whitespace)
  unsigned ext_in_value = 0;  // extensions used at offsets < value_end (incl. leading comments)
  // --- whole text
  bool accepted = false;    // prefix_ok and only whitespace (ext: or comments) follows
  bool junk_after = false;  // prefix_ok and something other than whitespace/comments follows
  unsigned ext_used = 0;    // all extensions used (value + trailing trivia); meaningful if prefix_ok
  Val value;
  // --- outside-the-statement flags (apply to the prefix value / the trivia scanned so far)
  bool num_range = false, big_u = false, dup_key = false, too_deep = false, amb_comment = false;
  int max_depth = 0;
  const char* why = "";     // reason of rejection (debugging aid only)
  size_t err_pos = 0;

  bool outside() const { return num_range || big_u || dup_key || too_deep || amb_comment; }
};

namespace detail {

struct P {
  const unsigned char* p;
  size_t n;
  size_t i = 0;
  bool ext;
  Result* r;
  int depth = 0;
  unsigned ext_now = 0;
  static constexpr int HARD_DEPTH = 4000;  // recursion guard of the reference itself

  bool fail(const char* why) {
    if (!*r->why) { r->why = why; r->err_pos = i; }
    return false;
  }
  static bool is_ws(unsigned char c) { return c == ' ' || c == '\t' || c == '\n' || c == '\r'; }
  static bool is_digit(unsigned char c) { return c >= '0' && c <= '9'; }
  static int hexval(unsigned char c) {
    if (c >= '0' && c <= '9') return c - '0';
    if (c >= 'a' && c <= 'f') return c - 'a' + 10;
    if (c >= 'A' && c <= 'F') return c - 'A' + 10;
    return -1;
  }

  void trivia() {
    for (;;) {
      while (i < n && is_ws(p[i])) i++;
      if (ext && i + 1 < n && p[i] == '/' && p[i + 1] == '/') {
        ext_now |= EXT_COMMENT;
        i += 2;
        while (i < n && p[i] != '\n' && p[i] != '\r') i++;
        if (i < n && p[i] == '\r') r->amb_comment = true;
        continue;
      }
      return;
    }
  }

  bool lit(const char* w) {
    size_t l = strlen(w);
    if (n - i >= l && !memcmp(p + i, w, l)) { i += l; return true; }
    return false;
  }

  bool string_(std::string& out) {
    // p[i] == '"'
    i++;
    for (;;) {
      if (i >= n) return fail("unterminated string");
      unsigned char c = p[i++];
      if (c == '"') return true;
      if (c < 0x20) return fail("raw control character in string");
      if (c != '\\') { out.push_back((char)c); continue; }
      if (i >= n) return fail("unterminated escape");
      unsigned char e = p[i++];
      switch (e) {
        case '"': out.push_back('"'); break;
        case '\\': out.push_back('\\'); break;
        case '/': out.push_back('/'); break;
        case 'b': out.push_back('\b'); break;
        case 'f': out.push_back('\f'); break;
        case 'n': out.push_back('\n'); break;
        case 'r': out.push_back('\r'); break;
        case 't': out.push_back('\t'); break;
        case 'u': {
          if (n - i < 4) return fail("short \\u escape");
          unsigned v = 0;
          for (int k = 0; k < 4; k++) {
            int h = hexval(p[i + k]);
            if (h < 0) return fail("bad hex digit in \\u escape");
            v = v * 16 + h;
          }
          i += 4;
          if (v > 0xFF) { r->big_u = true; out.push_back('?'); }
          else out.push_back((char)v);
          break;
        }
        default: return fail("unknown escape");
      }
    }
  }

  bool number(Val& v) {
    size_t b = i;
    bool neg = false;
    if (p[i] == '-') { neg = true; i++; }
    if (ext && n - i >= 3 && p[i] == '0' && p[i + 1] == 'x' && hexval(p[i + 2]) >= 0) {
      i += 2;
      uint64_t m = 0;
      bool over = false;
      while (i < n && hexval(p[i]) >= 0) {
        if (m >> 60) over = true;
        m = (m << 4) | (unsigned)hexval(p[i]);
        i++;
      }
      ext_now |= EXT_HEX;
      v.k = Val::INT;
      if (over || (!neg && m > (uint64_t)INT64_MAX) || (neg && m > (uint64_t)1 << 63)) r->num_range = true;
      else v.i = neg ? (int64_t)(0 - m) : (int64_t)m;
      return true;
    }
    if (i >= n || !is_digit(p[i])) return fail("digit expected");
    if (p[i] == '0') i++;
    else while (i < n && is_digit(p[i])) i++;
    bool frac = false, exp = false;
    if (i < n && p[i] == '.') {
      if (i + 1 < n && is_digit(p[i + 1])) {
        frac = true;
        i++;
        while (i < n && is_digit(p[i])) i++;
      } else return fail("digit expected after decimal point");
    }
    if (i < n && (p[i] == 'e' || p[i] == 'E')) {
      size_t j = i + 1;
      if (j < n && (p[j] == '+' || p[j] == '-')) j++;
      if (j < n && is_digit(p[j])) {
        exp = true;
        i = j;
        while (i < n && is_digit(p[i])) i++;
      } else return fail("digit expected in exponent");
    }
    if (!frac && !exp) {
      // integer syntax: exact, must fit int64
      uint64_t m = 0;
      bool over = false;
      for (size_t k = b + (neg ? 1 : 0); k < i; k++) {
        unsigned dgt = p[k] - '0';
        if (m > (UINT64_MAX - dgt) / 10) { over = true; break; }
        m = m * 10 + dgt;
      }
      v.k = Val::INT;
      if (over || (!neg && m > (uint64_t)INT64_MAX) || (neg && m > (uint64_t)1 << 63)) r->num_range = true;
      else v.i = neg ? (int64_t)(0 - m) : (int64_t)m;
      return true;
    }
    std::string lit((const char*)p + b, i - b);
    errno = 0;
    char* endp = nullptr;
    double d = strtod(lit.c_str(), &endp);
    if (endp != lit.c_str() + lit.size()) return fail("strtod disagrees with the RFC number production");
    v.k = Val::FLT;
    v.d = d;
    v.has_exp = exp;
    if (!isfinite(d)) r->num_range = true;
    else if (fabs(d) < DBL_MIN) {
      // zero is fine iff every mantissa digit is zero; otherwise it is an underflow
      bool nonzero = false;
      for (size_t k = b; k < i && p[k] != 'e' && p[k] != 'E'; k++) if (p[k] >= '1' && p[k] <= '9') nonzero = true;
      if (nonzero) r->num_range = true;
    }
    return true;
  }

  bool value(Val& v) {
    // caller has skipped trivia
    if (i >= n) return fail("value expected, found end of text");
    unsigned char c = p[i];
    if (c == '[' || c == '{') {
      if (++depth > r->max_depth) r->max_depth = depth;
      if (depth > 500) r->too_deep = true;
      if (depth > HARD_DEPTH) return fail("reference recursion guard");
      bool ok = (c == '[') ? list_(v) : dict_(v);
      depth--;
      return ok;
    }
    if (c == '"') { v.k = Val::STR; return string_(v.s); }
    if (c == '-' || is_digit(c)) return number(v);
    if (lit("null")) { v.k = Val::NUL; return true; }
    if (lit("true")) { v = Val::boolean(true); return true; }
    if (lit("false")) { v = Val::boolean(false); return true; }
    if (ext && (c == 'n' || c == 't' || c == 'f')) {
      i++;
      ext_now |= EXT_ONECHAR;
      if (c == 'n') v.k = Val::NUL;
      else v = Val::boolean(c == 't');
      return true;
    }
    return fail("value expected");
  }

  bool list_(Val& v) {
    v.k = Val::LIST;
    i++;
    trivia();
    if (i < n && p[i] == ']') { i++; return true; }
    for (;;) {
      Val e;
      if (!value(e)) return false;
      v.items.push_back(std::move(e));
      trivia();
      if (i >= n) return fail("unterminated list");
      if (p[i] == ']') { i++; return true; }
      if (p[i] != ',') return fail("',' or ']' expected");
      i++;
      trivia();
      if (ext && i < n && p[i] == ']') { ext_now |= EXT_COMMA; i++; return true; }
    }
  }

  bool dict_(Val& v) {
    v.k = Val::DICT;
    i++;
    trivia();
    if (i < n && p[i] == '}') { i++; return true; }
    for (;;) {
      if (i >= n) return fail("unterminated dictionary");
      if (p[i] != '"') return fail("string key expected");
      std::string key;
      if (!string_(key)) return false;
      trivia();
      if (i >= n || p[i] != ':') return fail("':' expected");
      i++;
      trivia();
      Val e;
      if (!value(e)) return false;
      for (auto& m : v.members) if (m.first == key) r->dup_key = true;
      v.members.emplace_back(std::move(key), std::move(e));
      trivia();
      if (i >= n) return fail("unterminated dictionary");
      if (p[i] == '}') { i++; return true; }
      if (p[i] != ',') return fail("',' or '}' expected");
      i++;
      trivia();
      if (ext && i < n && p[i] == '}') { ext_now |= EXT_COMMA; i++; return true; }
    }
  }
};

}  // namespace detail

inline Result parse(const char* text, size_t n, bool ext) {
  Result r;
  detail::P ps{(const unsigned char*)text, n, 0, ext, &r};
  ps.trivia();
  if (!ps.value(r.value)) return r;
  r.prefix_ok = true;
  r.value_end = ps.i;
  r.ext_in_value = ps.ext_now;
  ps.trivia();
  r.ext_used = ps.ext_now;
  if (ps.i == n) r.accepted = true;
  else { r.junk_after = true; r.why = "trailing data"; r.err_pos = ps.i; }
  return r;
}
inline Result parse(const std::string& s, bool ext) { return parse(s.data(), s.size(), ext); }

// ---- canonical rendering (shared with the Python oracles) ------------------------------------

inline void hex_into(std::string& o, const std::string& s) {
  static const char* H = "0123456789abcdef";
  for (unsigned char c : s) { o += H[c >> 4]; o += H[c & 15]; }
}

inline void canon_into(std::string& o, const Val& v) {
  switch (v.k) {
    case Val::NUL: o += 'n'; break;
    case Val::BOOL: o += v.b ? 't' : 'f'; break;
    case Val::INT: o += 'i'; o += std::to_string(v.i); break;
    case Val::FLT: { char b[40]; snprintf(b, sizeof(b), "d%.17g", v.d); o += b; break; }
    case Val::STR: o += 's'; hex_into(o, v.s); break;
    case Val::LIST:
      o += '[';
      for (size_t k = 0; k < v.items.size(); k++) { if (k) o += ','; canon_into(o, v.items[k]); }
      o += ']';
      break;
    case Val::DICT:
      o += '{';
      for (size_t k = 0; k < v.members.size(); k++) {
        if (k) o += ',';
        hex_into(o, v.members[k].first);
        o += ':';
        canon_into(o, v.members[k].second);
      }
      o += '}';
      break;
  }
}
inline std::string canon(const Val& v) { std::string o; canon_into(o, v); return o; }

// One line of a <section>.<shard>.dat file:  <hex text or '-'> TAB <A|O|R> TAB <canonical value> TAB '.'
// (the final '.' marks a complete line: a shard that dies with an ASan report loses its stdio buffer, and the
// restarted shard appends to the same file, so a cut-off line must be recognisable)
//   A = R_std accepts and the value is inside the statement (Python must produce the same value)
//   O = R_std accepts, value outside the statement (Python must accept; value not compared)
//   R = R_std rejects (Python must reject)
inline void dat_line(FILE* f, const std::string& text, const Result& std_result) {
  if (!f) return;
  std::string o;
  o.reserve(text.size() * 2 + 64);
  if (text.empty()) o += '-';
  else hex_into(o, text);
  o += '\t';
  if (!std_result.accepted) o += "R\t";
  else if (std_result.outside()) o += "O\t";
  else { o += "A\t"; canon_into(o, std_result.value); }
  o += "\t.\n";
  fwrite(o.data(), 1, o.size(), f);
}

inline FILE* dat_open(const std::string& section, uint64_t shard) {
  const char* d = getenv("VF_OUTDIR");
  if (!d || !*d) return nullptr;
  std::string p = std::string(d) + "/" + section + "." + std::to_string(shard) + ".dat";
  struct stat sb;
  bool resumed = stat(p.c_str(), &sb) == 0 && sb.st_size > 0;
  FILE* f = fopen(p.c_str(), "a");  // "a": a shard restarted after a crash keeps what it already wrote
  if (f && resumed) fputc('\n', f);  // terminate a line the previous incarnation may have left cut off
  return f;
}

// ---- comparison of a phosg::JSON against a reference value -------------------------------------
// kind_strict: INT must come back as is_int(), FLT as is_float() (C04: "same integer/float kind").
// Otherwise only the numeric value is compared (C05: "yields the value ...").
// Returns "" if equal, else a short tag naming the kind of the first differing leaf.

inline bool close_rel(double a, double b, double tol) {
  if (a == b) return true;
  if (!isfinite(a) || !isfinite(b)) return false;
  double m = fabs(a) > fabs(b) ? fabs(a) : fabs(b);
  return fabs(a - b) <= tol * m;
}

template <class J>
std::string differs(const J& j, const Val& v, double tol, bool kind_strict) {
  switch (v.k) {
    case Val::NUL: return j.is_null() ? "" : "null";
    case Val::BOOL: return (j.is_bool() && j.as_bool() == v.b) ? "" : "bool";
    case Val::INT:
      if (j.is_int()) return j.as_int() == v.i ? "" : "int";
      if (!kind_strict && j.is_float() && v.i >= -(1LL << 53) && v.i <= (1LL << 53) && j.as_float() == (double)v.i) return "";
      return "int";
    case Val::FLT: {
      const char* tag = v.has_exp ? "float-exp" : "float";
      if (j.is_float()) return close_rel(j.as_float(), v.d, tol) ? "" : tag;
      if (!kind_strict && j.is_int()) return close_rel((double)j.as_int(), v.d, tol) ? "" : tag;
      return tag;
    }
    case Val::STR: return (j.is_string() && j.as_string() == v.s) ? "" : "string";
    case Val::LIST: {
      if (!j.is_list() || j.as_list().size() != v.items.size()) return "shape";
      for (size_t k = 0; k < v.items.size(); k++) {
        std::string t = differs(*j.as_list()[k], v.items[k], tol, kind_strict);
        if (!t.empty()) return t;
      }
      return "";
    }
    case Val::DICT: {
      if (!j.is_dict() || j.as_dict().size() != v.members.size()) return "shape";
      for (auto& m : v.members) {
        auto it = j.as_dict().find(m.first);
        if (it == j.as_dict().end()) return "key";
        std::string t = differs(*it->second, m.second, tol, kind_strict);
        if (!t.empty()) return t;
      }
      return "";
    }
  }
  return "shape";
}

}  // namespace jref
