// C17 (round 2) — get_multi lists, constructor forms.
//
//  overloads : get_multi on every list of <= 3 values for nine targets and all formats; Arguments(argv, n) for
//              every n, nullptr, char**, string literal / lvalue / rvalue.  (Absent arguments and present-but-empty
//              texts: section `absent`, C17_absent.hh.)
#include <string.h>

#include "C17_common.hh"

using namespace c17;

namespace {

// get_multi on a list of values
template <class T>
bool multi_int(vf::Run& r, const std::vector<std::string>& vals, IntFormat f) {
  std::vector<std::string> tokens = {"p"};
  for (auto& v : vals) tokens.push_back("--x=" + v);
  tokens.push_back("--y=1");
  Arguments a(tokens);
  std::vector<T> got;
  std::string what;
  r.poison_errno();
  std::string oc = vf::outcome([&] { got = a.get_multi<T>("x", f); }, &what);
  r.counters["getter_calls"]++;
  bool any_bad = false, any_dc = false;
  std::vector<T> want;
  for (auto& v : vals) {
    uint64_t bits = 0;
    RefNum ref = ref_numeral(v, f);
    Expect e = expectation<T>(ref, &bits);
    if (e == E_DONTCARE || ref.plus) any_dc = true;
    else if (e == E_INVALID) any_bad = true;
    else want.push_back((T)bits);
  }
  if (any_dc) return true;
  auto ctx = [&] { return vf::fmt("get_multi<%s>(\"x\", %s) on values ", iname<T>(), fmt_name(f)) + list_str(vals); };
  if (any_bad) {
    if (oc != "invalid_argument") { r.fail("get_multi:list-with-a-rejected-value", [&] { return ctx() + " -> " + oc + vf::fmt(" (%zu values), expected invalid_argument", got.size()); }); return false; }
    return true;
  }
  if (oc != "ok" || got != want) {
    r.fail("get_multi:wrong-values", [&] { std::string s; for (T g : got) s += s128((i128)g) + ","; return ctx() + " -> " + oc + " [" + s + "] (" + what + ")"; });
    return false;
  }
  // everything of x was read: after also reading p and y nothing is left over
  a.get<std::string>((size_t)0);
  a.get<std::string>("y");
  std::string oc2 = vf::outcome([&] { a.assert_none_unused(); });
  if (oc2 != "ok") { r.fail("get_multi:leaves-values-unread", [&] { return ctx() + " succeeded, p and y were read, but assert_none_unused() -> " + oc2; }); return false; }
  return true;
}
template <class T>
bool multi_float(vf::Run& r, const std::vector<std::string>& vals) {
  std::vector<std::string> tokens = {"p"};
  for (auto& v : vals) tokens.push_back("--x=" + v);
  tokens.push_back("--y=1");
  Arguments a(tokens);
  std::vector<T> got;
  r.poison_errno();
  std::string oc = vf::outcome([&] { got = a.get_multi<T>("x"); });
  r.counters["getter_calls"]++;
  bool any_bad = false, any_dc = false;
  std::vector<T> want;
  for (auto& v : vals) {
    RefFloat ref = ref_float(v);
    if (ref.cls == DONTCARE) any_dc = true;
    else if (ref.cls == INVALID) any_bad = true;
    else want.push_back((T)ref.value);
  }
  if (any_dc) return true;
  auto ctx = [&] { return vf::fmt("get_multi<%s>(\"x\") on values ", fname<T>()) + list_str(vals); };
  if (any_bad) {
    if (oc != "invalid_argument") { r.fail("get_multi:list-with-a-rejected-value", [&] { return ctx() + " -> " + oc + vf::fmt(" (%zu values), expected invalid_argument", got.size()); }); return false; }
    return true;
  }
  if (oc != "ok" || got != want) {
    r.fail("get_multi:wrong-values", [&] { std::string s; for (T g : got) s += vf::fmt("%.17g,", (double)g); return ctx() + " -> " + oc + " [" + s + "]"; });
    return false;
  }
  a.get<std::string>((size_t)0);
  a.get<std::string>("y");
  std::string oc2 = vf::outcome([&] { a.assert_none_unused(); });
  if (oc2 != "ok") { r.fail("get_multi:leaves-values-unread", [&] { return ctx() + " succeeded, p and y were read, but assert_none_unused() -> " + oc2; }); return false; }
  return true;
}

}  // namespace

VF_SECTION(overloads, 4, 4, 120) {
  r.note("multi/constructors");
  // (d) get_multi on every list of <= 3 values
  static const char* VALS[] = {"1", "", "x", "300", "-1", "0x10", "1.5"};
  const uint32_t NV = sizeof(VALS) / sizeof(VALS[0]);
  for (size_t len = 0; len <= 3; len++) {
    for (vf::Odometer o(std::vector<uint32_t>(len, NV)); !o.done; o.step()) {
      if (!r.take()) continue;
      std::vector<std::string> vals;
      for (size_t i = 0; i < len; i++) vals.push_back(VALS[o.d[len - 1 - i]]);
      if (r.wants_desc()) r.desc("--x supplied with values " + list_str(vals) + ": get_multi for nine targets and all formats");
      r.nontriv();
      bool ok = true;
      for (IntFormat f : FORMATS) {
        ok &= multi_int<int8_t>(r, vals, f);
        ok &= multi_int<uint16_t>(r, vals, f);
        ok &= multi_int<int32_t>(r, vals, f);
        ok &= multi_int<int64_t>(r, vals, f);
        ok &= multi_int<unsigned long long>(r, vals, f);
        ok &= multi_int<char>(r, vals, f);
      }
      ok &= multi_float<float>(r, vals);
      ok &= multi_float<double>(r, vals);
      ok &= multi_float<long double>(r, vals);
      if (ok) r.ok(len == 0 ? "option not supplied" : "get_multi: all values in order, or invalid_argument");
    }
  }
  // (e) constructor forms
  {
    static const char* ARGV3[] = {"a", "--n=1", "-xy"};
    for (size_t n = 0; n <= 3; n++) {
      if (!r.take()) continue;
      if (r.wants_desc()) r.desc(vf::fmt("Arguments(argv, %zu) on a three-element argv (const char* const* and char**), Arguments(nullptr, 0)", n));
      r.nontriv();
      std::vector<std::string> tokens(ARGV3, ARGV3 + n);
      RefArgs want = ref_classify(tokens);
      bool ok = true;
      Arguments a(ARGV3, n);
      if (!(snapshot(a) == want)) { ok = false; r.fail("constructors:argv-count", [&] { return vf::fmt("Arguments(argv, %zu) stored ", n) + ref_str(snapshot(a)) + ", reference " + ref_str(want); }); }
      char s0[] = "a", s1[] = "--n=1", s2[] = "-xy";
      char* margv[] = {s0, s1, s2, nullptr};
      char** mp = margv;
      Arguments b(mp, n);
      if (!(snapshot(b) == want)) { ok = false; r.fail("constructors:argv-count", [&] { return vf::fmt("Arguments(char** argv, %zu) stored ", n) + ref_str(snapshot(b)); }); }
      if (strcmp(s0, "a") || strcmp(s1, "--n=1") || strcmp(s2, "-xy")) { ok = false; r.fail("constructors:argv-modified", [&] { return std::string("Arguments(char** argv, n) changed the caller's strings"); }); }
      if (n == 0) {
        Arguments c((const char* const*)nullptr, 0);
        if (!(snapshot(c) == want)) { ok = false; r.fail("constructors:argv-count", [&] { return "Arguments(nullptr, 0) stored " + ref_str(snapshot(c)); }); }
      }
      if (ok) r.ok("argv constructor respects the count");
    }
    if (r.take()) {
      if (r.wants_desc()) r.desc("Arguments(\"literal\"), Arguments(std::string&&), Arguments(const std::string&) on the same command line; the caller's vector is left alone by the copying constructor");
      r.nontriv();
      bool ok = true;
      std::vector<std::string> tokens = {"a", "--n=1", "-xy", "b c"};
      RefArgs want = ref_classify(tokens);
      Arguments a("a --n=1 -xy 'b c'");
      std::string line = "a --n=1 -xy 'b c'";
      Arguments b(line);
      Arguments c(std::string("a --n=1 -xy 'b c'"));
      if (!(snapshot(a) == want) || !(snapshot(b) == want) || !(snapshot(c) == want)) { ok = false; r.fail("constructors:string-forms-differ", [&] { return "literal: " + ref_str(snapshot(a)) + "; lvalue: " + ref_str(snapshot(b)) + "; rvalue: " + ref_str(snapshot(c)) + "; reference " + ref_str(want); }); }
      std::vector<std::string> copy = tokens;
      const std::vector<std::string>& cref = copy;
      Arguments d(cref);
      if (copy != tokens || line != "a --n=1 -xy 'b c'") { ok = false; r.fail("constructors:argument-modified", [&] { return "Arguments(const vector&) / Arguments(const string&) changed the caller's object: " + list_str(copy) + " / " + vf::show(line); }); }
      if (!(snapshot(d) == want)) { ok = false; r.fail("constructors:string-forms-differ", [&] { return "Arguments(const vector&) stored " + ref_str(snapshot(d)); }); }
      if (ok) r.ok("constructor forms agree");
    }
  }
  r.bound = "get_multi on every list of 0..3 values from {1, \"\", x, 300, -1, 0x10, 1.5} x 9 targets x 4 formats (all values in order or invalid_argument; afterwards nothing of the option is left unread); Arguments(argv, 0..3) on const char* const* and char**, Arguments(nullptr, 0), string literal / lvalue / rvalue, const vector&";
}


// =====================================================================================================
// every subset of getters before assert_none_unused (round 1)
// =====================================================================================================
namespace {

// ---------------------------------------------------------------------------------------------------
// getters x assert_none_unused
// ---------------------------------------------------------------------------------------------------
struct PoolArg { const char* token; };
const PoolArg POOL[7] = {{"7"}, {"300"}, {"--n=5"}, {"--n=6"}, {"--f=1.5"}, {"-v"}, {"--s=str"}};
enum { G_STR_P0, G_STR_P1_NOTHROW, G_STR_S, G_STR_N_THROW, G_MULTI_STR_N, G_BOOL_V, G_INT_N, G_INT_N_DEF, G_MULTI_INT_N, G_DBL_F, G_DBL_F_DEF, G_MULTI_DBL_F, G_INT_P0, G_U16_P1_DEF, NGETTERS };
const char* GETTER_NAME[NGETTERS] = {"get<string>(0)", "get<string>(1,false)", "get<string>(\"s\")", "get<string>(\"n\",true)", "get_multi<string>(\"n\")", "get<bool>(\"v\")",
    "get<int>(\"n\")", "get<int>(\"n\",99)", "get_multi<int>(\"n\")", "get<double>(\"f\")", "get<double>(\"f\",2.5)", "get_multi<double>(\"f\")", "get<int64_t>(0)", "get<uint16_t>(1,42)"};

std::string join_strs(const std::vector<std::string>& v) {
  std::string s;
  for (auto& x : v) s += x + ",";
  return s;
}

void unused_case(vf::Run& r, unsigned argmask, unsigned getmask) {
  std::vector<std::string> tokens;
  for (int i = 0; i < 7; i++) if (argmask & (1u << i)) tokens.push_back(POOL[i].token);
  auto getters_str = [&] {
    std::string s;
    for (int g = 0; g < NGETTERS; g++) if (getmask & (1u << g)) s += std::string(s.empty() ? "" : "; ") + GETTER_NAME[g];
    return s.empty() ? std::string("(none)") : s;
  };
  if (r.wants_desc()) r.desc("Arguments(" + list_str(tokens) + "), getters called: " + getters_str() + ", then assert_none_unused()");
  // reference state
  std::vector<std::string> pos;
  std::vector<std::string> nvals;
  bool has_f = argmask & 16, has_v = argmask & 32, has_s = argmask & 64;
  if (argmask & 1) pos.push_back("7");
  if (argmask & 2) pos.push_back("300");
  if (argmask & 4) nvals.push_back("5");
  if (argmask & 8) nvals.push_back("6");
  std::vector<bool> pos_used(pos.size(), false);
  bool n_used = nvals.empty(), f_used = !has_f, v_used = !has_v, s_used = !has_s;
  bool dontcare = false;  // a single-value getter applied to a repeated option: outcome not settled by the statement

  Arguments a(tokens);
  r.nontriv();
  bool bad = false;
  for (int g = 0; g < NGETTERS; g++) {
    if (!(getmask & (1u << g))) continue;
    std::string got, want;
    std::string oc;
    switch (g) {
      case G_STR_P0:
        oc = vf::outcome([&] { got = a.get<std::string>((size_t)0); });
        want = pos.size() > 0 ? "ok:" + pos[0] : "out_of_range:";
        if (pos.size() > 0) pos_used[0] = true;
        break;
      case G_STR_P1_NOTHROW:
        oc = vf::outcome([&] { got = a.get<std::string>((size_t)1, false); });
        want = pos.size() > 1 ? "ok:" + pos[1] : "ok:";
        if (pos.size() > 1) pos_used[1] = true;
        break;
      case G_STR_S:
        oc = vf::outcome([&] { got = a.get<std::string>("s"); });
        want = has_s ? "ok:str" : "ok:";
        s_used = true;
        break;
      case G_STR_N_THROW:
        oc = vf::outcome([&] { got = a.get<std::string>("n", true); });
        if (nvals.size() > 1) dontcare = true;
        want = nvals.size() == 1 ? "ok:" + nvals[0] : "out_of_range:";
        if (nvals.size() == 1) n_used = true;
        break;
      case G_MULTI_STR_N:
        oc = vf::outcome([&] { got = join_strs(a.get_multi<std::string>("n")); });
        want = "ok:" + join_strs(nvals);
        n_used = true;
        break;
      case G_BOOL_V:
        oc = vf::outcome([&] { got = a.get<bool>("v") ? "true" : "false"; });
        want = has_v ? "ok:true" : "ok:false";
        v_used = true;
        break;
      case G_INT_N:
        oc = vf::outcome([&] { got = std::to_string(a.get<int>("n")); });
        if (nvals.size() > 1) dontcare = true;
        want = nvals.size() == 1 ? "ok:" + nvals[0] : "out_of_range:";
        if (nvals.size() == 1) n_used = true;
        break;
      case G_INT_N_DEF:
        oc = vf::outcome([&] { got = std::to_string(a.get<int>("n", 99)); });
        if (nvals.size() > 1) dontcare = true;
        want = nvals.size() == 1 ? "ok:" + nvals[0] : "ok:99";
        if (nvals.size() == 1) n_used = true;
        break;
      case G_MULTI_INT_N:
        oc = vf::outcome([&] { std::vector<std::string> v; for (int x : a.get_multi<int>("n")) v.push_back(std::to_string(x)); got = join_strs(v); });
        want = "ok:" + join_strs(nvals);
        n_used = true;
        break;
      case G_DBL_F:
        oc = vf::outcome([&] { got = vf::fmt("%g", a.get<double>("f")); });
        want = has_f ? "ok:1.5" : "out_of_range:";
        f_used = true;
        break;
      case G_DBL_F_DEF:
        oc = vf::outcome([&] { got = vf::fmt("%g", a.get<double>("f", std::optional<double>(2.5))); });
        want = has_f ? "ok:1.5" : "ok:2.5";
        f_used = true;
        break;
      case G_MULTI_DBL_F:
        oc = vf::outcome([&] { std::vector<std::string> v; for (double x : a.get_multi<double>("f")) v.push_back(vf::fmt("%g", x)); got = join_strs(v); });
        want = has_f ? "ok:1.5," : "ok:";
        f_used = true;
        break;
      case G_INT_P0:
        oc = vf::outcome([&] { got = std::to_string(a.get<int64_t>((size_t)0)); });
        want = pos.size() > 0 ? "ok:" + pos[0] : "out_of_range:";
        if (pos.size() > 0) pos_used[0] = true;
        break;
      case G_U16_P1_DEF:
        oc = vf::outcome([&] { got = std::to_string(a.get<uint16_t>((size_t)1, (uint16_t)42)); });
        want = pos.size() > 1 ? "ok:" + pos[1] : "ok:42";
        if (pos.size() > 1) pos_used[1] = true;
        break;
    }
    r.counters["getter_calls"]++;
    std::string have = oc + ":" + (oc == "ok" ? got : "");
    bool single_on_repeated = (g == G_STR_N_THROW || g == G_INT_N || g == G_INT_N_DEF) && nvals.size() > 1;
    // get_multi on an absent option: an empty vector (library convention) or out_of_range are both within the statement
    bool multi_absent_ok = (g == G_MULTI_STR_N || g == G_MULTI_INT_N) ? (nvals.empty() && oc == "out_of_range") : (g == G_MULTI_DBL_F && !has_f && oc == "out_of_range");
    if (!single_on_repeated && !multi_absent_ok && have != want) {
      bad = true;
      r.fail(std::string("getters:") + GETTER_NAME[g] + ":wrong-result", [&] { return "Arguments(" + list_str(tokens) + "), getters " + getters_str() + ": " + GETTER_NAME[g] + " -> " + have + ", expected " + want; });
    }
  }
  bool all_used = n_used && f_used && v_used && s_used;
  for (bool u : pos_used) all_used = all_used && u;
  std::string oc1 = vf::outcome([&] { a.assert_none_unused(); });
  std::string oc2 = vf::outcome([&] { a.assert_none_unused(); });
  if (dontcare) { r.ok("single-value getter on a repeated option (executed, not compared)"); return; }
  if (oc1 != oc2) { bad = true; r.fail("assert_none_unused:not-idempotent", [&] { return "Arguments(" + list_str(tokens) + "), getters " + getters_str() + ": first call " + oc1 + ", second " + oc2; }); }
  if (all_used && oc1 != "ok") { bad = true; r.fail("assert_none_unused:throws-though-everything-was-read", [&] { return "Arguments(" + list_str(tokens) + "), getters " + getters_str() + ": " + oc1; }); }
  if (!all_used && oc1 != "invalid_argument") { bad = true; r.fail("assert_none_unused:silent-though-an-argument-was-never-read", [&] { return "Arguments(" + list_str(tokens) + "), getters " + getters_str() + ": " + oc1; }); }
  if (!bad) r.ok(tokens.empty() ? "nothing supplied" : all_used ? "everything read: no throw" : "something unread: invalid_argument");
}

}  // namespace

VF_SECTION(unused, 16, 16, 120) {
  r.note("assert_none_unused");
  // thorough: every subset of the 14 getters.  quick: every subset of two 12-getter families that
  // together contain all 14 (each family leaves out two getters whose sibling stays in)
  std::vector<unsigned> families;
  if (r.thorough()) families = {(1u << NGETTERS) - 1};
  else families = {((1u << NGETTERS) - 1) & ~((1u << G_STR_N_THROW) | (1u << G_U16_P1_DEF)), ((1u << NGETTERS) - 1) & ~((1u << G_STR_S) | (1u << G_INT_P0))};
  for (size_t fi = 0; fi < families.size(); fi++) {
    std::vector<int> members;
    for (int g = 0; g < NGETTERS; g++) if (families[fi] & (1u << g)) members.push_back(g);
    for (unsigned argmask = 0; argmask < 128; argmask++) {
      if (__builtin_popcount(argmask) > 4) continue;
      for (unsigned sub = 0; sub < (1u << members.size()); sub++) {
        unsigned getmask = 0;
        for (size_t k = 0; k < members.size(); k++) if (sub & (1u << k)) getmask |= 1u << members[k];
        // second family: subsets already seen in the first one are skipped
        if (fi > 0 && (getmask & ~families[0]) == 0) continue;
        if (!r.take()) continue;
        unused_case(r, argmask, getmask);
      }
    }
  }
  r.bound = r.thorough() ? "every set of <=4 arguments from {7, 300, --n=5, --n=6, --f=1.5, -v, --s=str} (99 sets) x every subset of 14 getters (16384), then assert_none_unused() twice"
                         : "every set of <=4 arguments from {7, 300, --n=5, --n=6, --f=1.5, -v, --s=str} (99 sets) x every subset of two overlapping 12-getter families covering all 14 getters (7168 subsets), then assert_none_unused() twice";
}

