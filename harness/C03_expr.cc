// C03 (part, round 5): operator expressions of the 8- and 16-bit wrappers consumed in wide contexts.  See C03_expr.hh.
#define C03_NO_FORCE_INLINE
#include "C03_expr.hh"

VF_SECTION(expr_narrow, 16, 16, 120) {
#define X(W, T, O) drive_expr<W, T>(r, #W, O);
  C03_W8(X)
  C03_W16(X)
#undef X
  r.bound = std::string("12 wrapper types (little/big/reverse-endian x uint8_t, int8_t, uint16_t, int16_t) ") + kExprBound;
}
