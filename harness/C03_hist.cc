// C03 (part): operation histories (section hist); the machinery is in C03_hist.hh.  See C03.cc / C03_common.hh.
#include "C03_hist.hh"

VF_SECTION(hist, 16, 16, 120) {
#define X(W, T, O) drive_hist<W, T>(r, #W, O);
  C03_W16(X) C03_W32(X) C03_W64(X) C03_WF32(X) C03_WF64(X)
#undef X
  r.bound = std::string(r.thorough() ? "[thorough: 8 boundary values instead of 6 and EVERY defined shift count 0..promoted width-1: 238^3 (16/32-bit), 366^3 (64-bit), 108^3 (float) histories per type] " : "") + "24 wrapper types x every history of 3 operations over an alphabet of 2 objects x ({store, converted_endian::operator=, w = v, store_raw, ctor} x 6 boundary values + compound operators (ints: += 1, -= 1, *= 2, *= -1, /= 2, %= 3, &=, |= msb, ^= ~0, <<= c and >>= c for c in {1, width-1, width, promoted width-1} below the promoted width (16-bit: 1, 15, 16, 31; 32-bit: 1, 31; 64-bit: 1, 63); floats: += 0.0, -= 0.0, += -0.0, += 1, -= 1, *= -1, *= 2, /= 2) + ++x, x++, --x, x-- + copy from the other object + self-assignment): 106^3 (16-bit) / 98^3 (32/64-bit) / 88^3 (float) histories per type; both objects compared with native shadows after every step";
}
