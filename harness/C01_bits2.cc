// C01 (part, round 2): BitWriter operation histories (write / truncate / reset / assignment interleaved, the
// buffer compared after every operation, then read back through BitReader), BitReader in every way it can be
// constructed or derived (br_views) and BitReader navigation histories (br_ops).
//
// Model: a list of bits.  str() must be the MSB-first packing of the list with zero padding in the last byte,
// size() the length of the list.  BitReader does no bounds checking (by design; memory safety of out-of-range bit
// reads is not part of this property), so only in-range reads are issued.
#include "C01_common.hh"

using namespace phosg;
using namespace c01;

namespace {

typedef std::vector<uint8_t> Bits;  // one element per bit

std::string pack_bits(const Bits& b, size_t n) {
  std::string s((n + 7) / 8, '\0');
  for (size_t i = 0; i < n; i++)
    if (b[i]) s[i / 8] = (char)((uint8_t)s[i / 8] + (uint8_t)(128 >> (i % 8)));
  return s;
}
uint64_t bits_value(const Bits& b, size_t off, size_t n) {
  uint64_t v = 0;
  for (size_t i = 0; i < n; i++) v = v * 2 + b[off + i];
  return v;
}
std::string bits_str(const Bits& b) {
  std::string s;
  for (auto x : b) s += x ? '1' : '0';
  return s.empty() ? "(no bits)" : s;
}
Bits bits_of(const uint8_t* p, size_t nbits) {
  Bits b(nbits);
  for (size_t i = 0; i < nbits; i++) b[i] = (p[i / 8] >> (7 - i % 8)) & 1;
  return b;
}

// ---- BitWriter histories ----------------------------------------------------------------------------------------
enum BOpT { BO_WRITE, BO_TRUNC, BO_RESET, BO_ASSIGN, BO_COPYBACK };
struct BOp {
  BOpT t;
  std::string pattern;  // BO_WRITE: the bits appended one by one
  int tmode = 0;        // BO_TRUNC: 0 -> 0, 1 -> size, 2 -> size-1, 3 -> size-3, 4 -> size rounded down to a byte, 5 -> that minus 1, 6 -> size/2
  std::string name, key;
};
size_t trunc_target(int mode, size_t size) {
  switch (mode) {
    case 0: return 0;
    case 1: return size;
    case 2: return size ? size - 1 : 0;
    case 3: return size >= 3 ? size - 3 : 0;
    case 4: return size & ~(size_t)7;
    case 5: return (size & ~(size_t)7) ? (size & ~(size_t)7) - 1 : 0;
    default: return size / 2;
  }
}
std::vector<BOp> build_bops() {
  std::vector<BOp> a;
  for (const char* p : {"0", "1", "10111", "0000000", "11111111", "110100101"}) a.push_back({BO_WRITE, p, 0, std::string("write ") + p, "BitWriter_write"});
  static const char* tn[] = {"truncate(0)", "truncate(size)", "truncate(size-1)", "truncate(size-3)", "truncate(size&~7)", "truncate((size&~7)-1)", "truncate(size/2)"};
  for (int m = 0; m < 7; m++) a.push_back({BO_TRUNC, "", m, tn[m], "BitWriter_truncate"});
  a.push_back({BO_RESET, "", 0, "reset()", "BitWriter_reset"});
  a.push_back({BO_ASSIGN, "", 0, "w = other(101)", "BitWriter_assign"});
  a.push_back({BO_COPYBACK, "", 0, "c = w; c.write(1); (w untouched)", "BitWriter_copy"});
  return a;
}

bool bw_matches(vf::Run& r, BitWriter& bw, const Bits& m, const BOp& o, const std::function<std::string()>& hd) {
  std::string want = pack_bits(m, m.size());
  if (bw.size() != m.size()) {
    r.fail(o.key + ":size", [&] { return hd() + " :: after " + o.name + vf::fmt(": size() = %zu, model %zu bits", bw.size(), m.size()); });
    return false;
  }
  if (bw.str() != want) {
    r.fail(o.key + ":bytes", [&] { return hd() + " :: after " + o.name + ": str() = " + hexb(bw.str().data(), bw.str().size()) + ", MSB-first packing of " + bits_str(m) + " is " + hexb(want.data(), want.size()); });
    return false;
  }
  return true;
}

// reads the writer's output back through BitReader in three ways
bool bits_read_back(vf::Run& r, BitWriter& bw, const Bits& m, const std::function<std::string()>& hd) {
  const size_t L = m.size();
  const std::string& s = bw.str();
  Exact buf(s.size());
  memcpy(buf.p, s.data(), s.size());
  // (a) one bit at a time with the defaulted arguments
  {
    BitReader br(buf.p, bw.size());
    for (size_t i = 0; i < L; i++) {
      if (br.eof()) { r.fail("BitReader_read:eof", [&] { return hd() + vf::fmt(" :: eof() after %zu of %zu bits", i, L); }); return false; }
      uint64_t b = br.read();
      if (b != m[i] || br.where() != i + 1) {
        r.fail("BitReader_read:value", [&] { return hd() + vf::fmt(" :: read() #%zu returned %llu (cursor %zu), the bit written there is %u", i, (unsigned long long)b, br.where(), m[i]); });
        return false;
      }
    }
    if (!br.eof() || br.remaining() != 0) { r.fail("BitReader_read:eof", [&] { return hd() + vf::fmt(" :: all %zu bits read back, eof()=%d remaining()=%zu", L, (int)br.eof(), br.remaining()); }); return false; }
  }
  // (b) over the std::string (whole bytes): 7 bits at a time; the padding of the last byte must read as zeros
  {
    std::string copy = s;
    BitReader br(copy);
    if (br.size() != copy.size() * 8) { r.fail("BitReader:size", [&] { return hd() + vf::fmt(" :: BitReader(std::string of %zu bytes).size() = %zu", copy.size(), br.size()); }); return false; }
    size_t pos = 0;
    while (pos < br.size()) {
      size_t k = std::min<size_t>(7, br.size() - pos);
      Bits padded = m;
      padded.resize(copy.size() * 8, 0);
      uint64_t want = bits_value(padded, pos, k);
      uint64_t got = br.read((uint8_t)k);
      if (got != want) { r.fail("BitReader_read:value", [&] { return hd() + vf::fmt(" :: read(%zu) at bit %zu of str() returned 0x%llX, model 0x%llX", k, pos, (unsigned long long)got, (unsigned long long)want); }); return false; }
      pos += k;
    }
  }
  // (c) the last up-to-64 bits in one positional read
  if (L) {
    BitReader br(buf.p, L);
    size_t k = std::min<size_t>(64, L);
    uint64_t want = bits_value(m, L - k, k), got = br.pread(L - k, (uint8_t)k);
    if (got != want || br.where() != 0) { r.fail("BitReader_pread:value", [&] { return hd() + vf::fmt(" :: pread(%zu, %zu) returned 0x%llX, model 0x%llX", L - k, k, (unsigned long long)got, (unsigned long long)want); }); return false; }
  }
  return true;
}

void bits_history(vf::Run& r, const std::vector<BOp>& alpha, const std::vector<uint32_t>& seq) {
  auto hd = [&] {
    std::string s = "BitWriter history [";
    for (size_t i = 0; i < seq.size(); i++) s += (i ? "; " : "") + alpha[seq[i]].name;
    return s + "]";
  };
  BitWriter bw;
  Bits m;
  const BOp* last = nullptr;
  try {
    for (uint32_t oi : seq) {
      const BOp& o = alpha[oi];
      last = &o;
      r.transitions++;
      switch (o.t) {
        case BO_WRITE:
          for (char ch : o.pattern) {
            bw.write(ch == '1');
            m.push_back(ch == '1');
          }
          break;
        case BO_TRUNC: {
          size_t k = trunc_target(o.tmode, m.size());
          bw.truncate(k);
          m.resize(k);
          break;
        }
        case BO_RESET:
          bw.reset();
          m.clear();
          break;
        case BO_ASSIGN: {
          BitWriter other;
          other.write(true);
          other.write(false);
          other.write(true);
          bw = other;
          m = {1, 0, 1};
          break;
        }
        case BO_COPYBACK: {
          // a copy that is written to must not disturb the original (and must itself be right)
          BitWriter c = bw;
          c.write(true);
          Bits m2 = m;
          m2.push_back(1);
          if (!bw_matches(r, c, m2, o, hd)) return;
          break;
        }
      }
      if (!bw_matches(r, bw, m, o, hd)) return;
    }
  } catch (const std::exception& e) {
    std::string w = e.what();
    r.fail(last->key + ":throws", [&] { return hd() + " :: unexpected exception " + w; });
    return;
  }
  if (bits_read_back(r, bw, m, hd)) r.ok(vf::fmt("bits-history-ok/len%zu", seq.size()));
}

// ---- BitReader views ----------------------------------------------------------------------------------------------
const uint8_t B5[5] = {0xA5, 0x0F, 0xF0, 0x81, 0x7E};

bool verify_bits_view(vf::Run& r, const std::string& form, const BitReader& br0, const Bits& m, size_t c, const std::function<std::string()>& d) {
  const size_t n = m.size();
  // a wrong view is filed under the form that built it, a right view read wrongly under the accessor
  auto bad = [&](const std::string& key, const std::string& what) {
    r.fail(key, [&] { return d() + vf::fmt(" (expected view: %zu bits %s, cursor %zu) :: ", n, bits_str(m).c_str(), c) + what; });
    return false;
  };
  try {
    BitReader br = br0;
    if (br.size() != n || br.where() != c || br.eof() != (c >= n) || (c <= n && br.remaining() != n - c))
      return bad(form + ":state", vf::fmt("size()=%zu where()=%zu eof()=%d remaining()=%zu", br.size(), br.where(), (int)br.eof(), br.remaining()));
    // the bits themselves, one by one: a view over the wrong bytes is the form's fault
    for (size_t off = 0; off < n; off++)
      if (br.pread(off, 1) != m[off]) {
        // ... unless single-bit reads are broken everywhere: the first bit of a known-good reader tells
        static const uint8_t probe[1] = {0x80};
        BitReader pr(probe, 8);
        if (pr.pread(0, 1) == 1 && pr.pread(1, 1) == 0) return bad(form + ":state", vf::fmt("bit %zu of the view reads %llu, expected %u", off, (unsigned long long)br.pread(off, 1), m[off]));
        break;
      }
    for (size_t off = 0; off <= n; off++) {
      for (size_t sz = 0; sz <= 64 && off + sz <= n; sz++) {
        uint64_t want = bits_value(m, off, sz), got = br.pread(off, (uint8_t)sz);
        if (got != want) return bad("BitReader_pread:value", vf::fmt("pread(%zu, %zu) returned 0x%llX, model 0x%llX", off, sz, (unsigned long long)got, (unsigned long long)want));
      }
      if (off < n && br.pread(off) != m[off]) return bad("BitReader_pread:value", vf::fmt("pread(%zu) with the defaulted size returned the wrong bit", off));
    }
    if (br.where() != c) return bad("BitReader_pread:advance", vf::fmt("pread moved the cursor to %zu", br.where()));
    if (c <= n) {
      for (size_t sz : {(size_t)0, (size_t)1, (size_t)3, (size_t)8, (size_t)13, std::min<size_t>(64, n - c)}) {
        if (sz > n - c) continue;
        BitReader q = br;
        uint64_t want = bits_value(m, c, sz);
        uint64_t g0 = q.read((uint8_t)sz, false);
        size_t w0 = q.where();
        uint64_t g1 = q.read((uint8_t)sz);
        if (g0 != want || g1 != want) return bad("BitReader_read:value", vf::fmt("read(%zu) at the cursor returned 0x%llX (advance=false) / 0x%llX, model 0x%llX", sz, (unsigned long long)g0, (unsigned long long)g1, (unsigned long long)want));
        if (w0 != c || q.where() != c + sz) return bad("BitReader_read:advance", vf::fmt("read(%zu): cursor %zu after advance=false, %zu after advance=true", sz, w0, q.where()));
      }
      // sequential pass with rotating chunk sizes
      static const size_t chunk[] = {1, 2, 3, 5, 8, 13, 21, 1, 64};
      BitReader q = br;
      size_t pos = c, j = (c + n) % 9;
      while (pos < n) {
        size_t sz = std::min(chunk[j], n - pos);
        j = (j + 1) % 9;
        uint64_t want = bits_value(m, pos, sz), got = sz == 1 ? q.read() : q.read((uint8_t)sz);
        if (got != want) return bad("BitReader_read:value", vf::fmt("sequential read(%zu) at bit %zu returned 0x%llX, model 0x%llX", sz, pos, (unsigned long long)got, (unsigned long long)want));
        pos += sz;
        if (q.where() != pos || q.remaining() != n - pos || q.eof() != (pos >= n)) return bad("BitReader_read:advance", vf::fmt("after sequential read ending at bit %zu: where()=%zu remaining()=%zu eof()=%d", pos, q.where(), q.remaining(), (int)q.eof()));
      }
      q.go(c);
      if (q.where() != c) return bad("BitReader_go:advance", vf::fmt("go(%zu) left the cursor at %zu", c, q.where()));
      if (c < n && q.read() != m[c]) return bad("BitReader_go:advance", "read() after go(cursor) returned a different bit");
      q.go(0);
      q.skip(n);
      if (q.where() != n || !q.eof()) return bad("BitReader_skip:advance", vf::fmt("go(0); skip(%zu) left the cursor at %zu", n, q.where()));
    }
    if (br0.where() != c || br0.size() != n) return bad(form + ":state", "the reader changed while copies of it were read");
  } catch (const std::exception& e) {
    std::string what = e.what();
    return bad(form + ":throws", "unexpected exception: " + what);
  }
  return true;
}

// ---- BitReader navigation histories ----------------------------------------------------------------------------------
struct BSt {
  size_t n, p;
};

}  // namespace

VF_SECTION(bits_hist, 16, 16, 180) {
  auto alpha = build_bops();
  const size_t depth = r.thorough() ? 6 : 5;
  r.note("BitWriter histories");
  for (size_t len = 1; len <= depth; len++) {
    std::vector<uint32_t> seq(len, 0);
    bool more = true;
    while (more) {
      if (r.take()) {
        if (r.wants_desc()) {
          std::string s;
          for (size_t i = 0; i < seq.size(); i++) s += (i ? "; " : "") + alpha[seq[i]].name;
          r.desc("BitWriter history [" + s + "]");
        }
        r.nontriv();
        r.states++;
        bits_history(r, alpha, seq);
      }
      size_t i = len;
      for (;;) {
        if (i == 0) { more = false; break; }
        i--;
        if (++seq[i] < alpha.size()) break;
        seq[i] = 0;
      }
    }
  }
  r.bound = vf::fmt("all operation sequences of length 1..%zu over %zu BitWriter operations: write of the bit patterns 0, 1, 10111, 0000000, 11111111, 110100101; truncate to 0, size, size-1, size-3, size rounded down to a byte, one below that, size/2; reset(); copy-assignment from a writer holding 101; copy + write on the copy.  size() and str() (MSB-first, zero padding) compared after every operation; final content read back through BitReader bit by bit (defaulted arguments), 7 bits at a time over the std::string constructor (padding bits must be 0) and with one 64-bit pread", depth, alpha.size());
}

VF_SECTION(br_views, 8, 8, 180) {
  const size_t HUGE[] = {0x7FFFFFFFull, 0x80000000ull, 0xFFFFFFFFull, 0x100000000ull, 0x7FFFFFFFFFFFFFFFull, 0x8000000000000000ull, ~(size_t)0 - 1, ~(size_t)0};
  Exact b5(5);
  memcpy(b5.p, B5, 5);
  auto run_case = [&](const std::string& form, const std::string& what, const std::function<void(const std::function<void(const BitReader&, const Bits&, size_t)>&)>& body) {
    if (!r.take()) return;
    std::string dsc = form + ": " + what;
    if (r.wants_desc()) r.desc(dsc);
    r.nontriv();
    bool good = true;
    try {
      body([&](const BitReader& br, const Bits& m, size_t c) {
        if (good) good = verify_bits_view(r, form, br, m, c, [&] { return dsc; });
      });
    } catch (const std::exception& e) {
      std::string w = e.what();
      r.fail(form + ":throws", [&] { return dsc + " :: unexpected exception " + w; });
      good = false;
    }
    if (good) r.ok("bits-view-ok/" + form);
  };
  auto must_throw = [&](const std::string& form, const std::string& what, const std::function<void()>& f) {
    if (!r.take()) return;
    if (r.wants_desc()) r.desc(form + ": " + what + " (must throw)");
    r.nontriv();
    bool threw = false;
    try {
      f();
    } catch (const std::out_of_range&) { threw = true; } catch (const std::exception&) {}
    if (!threw) r.fail(form + ":returns-without-data", [&] { return form + ": " + what + " lies outside the data, yet no out_of_range was thrown"; });
    else r.ok("throws-no-data/" + form);
  };
  r.note("BitReader constructors");
  for (size_t n = 0; n <= 40; n++) {
    run_case("bits_ptr", vf::fmt("BitReader(p, %zu)", n), [&](auto&& v) {
      BitReader br(b5.p, n);
      v(br, bits_of(B5, n), 0);
    });
    for (size_t c = 0; c <= n + 1; c++) {
      run_case("bits_ptr_off", vf::fmt("BitReader(p, %zu, %zu)", n, c), [&](auto&& v) {
        BitReader br(b5.p, n, c);
        v(br, bits_of(B5, n), c);
      });
    }
  }
  for (size_t nb = 0; nb <= 5; nb++) {
    run_case("bits_string", vf::fmt("BitReader(std::string of %zu bytes)", nb), [&](auto&& v) {
      std::string s((const char*)B5, nb);
      BitReader br(s);
      v(br, bits_of(B5, nb * 8), 0);
    });
    run_case("bits_shared", vf::fmt("BitReader(shared_ptr<string> of %zu bytes), caller's reference dropped", nb), [&](auto&& v) {
      auto sp = std::make_shared<std::string>((const char*)B5, nb);
      BitReader br(sp);
      sp.reset();
      v(br, bits_of(B5, nb * 8), 0);
    });
    for (size_t c = 0; c <= nb * 8 + 1; c++) {
      run_case("bits_string_off", vf::fmt("BitReader(std::string of %zu bytes, %zu)", nb, c), [&](auto&& v) {
        std::string s((const char*)B5, nb);
        BitReader br(s, c);
        v(br, bits_of(B5, nb * 8), c);
      });
      run_case("bits_shared_off", vf::fmt("BitReader(shared_ptr<string> of %zu bytes, %zu), caller's reference dropped", nb, c), [&](auto&& v) {
        auto sp = std::make_shared<std::string>((const char*)B5, nb);
        BitReader br(sp, c);
        sp.reset();
        v(br, bits_of(B5, nb * 8), c);
      });
    }
  }
  run_case("bits_default", "BitReader()", [&](auto&& v) {
    BitReader br;
    v(br, Bits(), 0);
  });
  r.note("sub_bits / subx_bits");
  {
    std::vector<size_t> offs, sizes;
    for (size_t o = 0; o <= 7; o++) offs.push_back(o);
    for (size_t h : HUGE) offs.push_back(h);
    sizes = offs;
    for (size_t o : offs) {
      run_case("sub_bits1", vf::fmt("StringReader(5 bytes, cursor 2).sub_bits(%zu)", o), [&](auto&& v) {
        const StringReader sr(b5.p, 5, 2);
        BitReader br = sr.sub_bits(o);
        if (o > 5) v(br, Bits(), 0);
        else v(br, bits_of(B5 + o, (5 - o) * 8), 0);
      });
      if (o <= 5) {
        run_case("subx_bits1", vf::fmt("StringReader(5 bytes).subx_bits(%zu)", o), [&](auto&& v) {
          const StringReader sr(b5.p, 5, 2);
          BitReader br = sr.subx_bits(o);
          v(br, bits_of(B5 + o, (5 - o) * 8), 0);
        });
      } else {
        must_throw("subx_bits1", vf::fmt("StringReader(5 bytes).subx_bits(%zu)", o), [&] {
          const StringReader sr(b5.p, 5);
          sr.subx_bits(o);
        });
      }
      for (size_t z : sizes) {
        run_case("sub_bits2", vf::fmt("StringReader(5 bytes).sub_bits(%zu, %zu)", o, z), [&](auto&& v) {
          const StringReader sr(b5.p, 5, 1);
          BitReader br = sr.sub_bits(o, z);
          if (o >= 5) v(br, Bits(), 0);
          else v(br, bits_of(B5 + o, std::min(z, 5 - o) * 8), 0);
        });
        if (model_fits(5, o, z)) {
          run_case("subx_bits2", vf::fmt("StringReader(5 bytes).subx_bits(%zu, %zu)", o, z), [&](auto&& v) {
            const StringReader sr(b5.p, 5, 1);
            BitReader br = sr.subx_bits(o, z);
            v(br, bits_of(B5 + o, z * 8), 0);
          });
        } else {
          must_throw("subx_bits2", vf::fmt("StringReader(5 bytes).subx_bits(%zu, %zu)", o, z), [&] {
            const StringReader sr(b5.p, 5);
            sr.subx_bits(o, z);
          });
        }
      }
    }
  }
  r.note("BitReader copy / assignment / truncate / go / skip");
  for (size_t c = 0; c <= 41; c++) {
    run_case("bits_copy", vf::fmt("copy of BitReader(p, 40, %zu)", c), [&](auto&& v) {
      BitReader src(b5.p, 40, c);
      BitReader cp(src);
      src.go(0);
      v(cp, bits_of(B5, 40), c);
    });
    for (int target = 0; target < 3; target++) {
      static const char* tn[] = {"BitReader over other data (cursor 9)", "shared_ptr-owning BitReader over other data (cursor 9)", "default-constructed BitReader"};
      run_case("bits_assign", vf::fmt("%s = shared_ptr-owning BitReader(5 bytes, %zu), temporary destroyed", tn[target], c), [&](auto&& v) {
        static const uint8_t OTH[3] = {0x12, 0x34, 0x56};
        auto osp = std::make_shared<std::string>((const char*)OTH, 3);
        BitReader x = target == 0 ? BitReader(OTH, 24, 9) : target == 1 ? BitReader(osp, 9) : BitReader();
        osp.reset();
        auto sp = std::make_shared<std::string>((const char*)B5, 5);
        x = BitReader(sp, c);
        sp.reset();
        v(x, bits_of(B5, 40), c);
        x = BitReader(OTH, 21, 2);
        v(x, bits_of(OTH, 21), 2);
      });
    }
    if (c > 40) continue;
    for (size_t n = c; n <= 40; n++) {
      run_case("bits_truncate", vf::fmt("BitReader(p, 40, %zu).truncate(%zu)", c, n), [&](auto&& v) {
        BitReader br(b5.p, 40, c);
        br.truncate(n);
        v(br, bits_of(B5, n), c);
      });
    }
    for (size_t g = 0; g <= 41; g++) {
      run_case("bits_go", vf::fmt("BitReader(p, 40, %zu).go(%zu)", c, g), [&](auto&& v) {
        BitReader br(b5.p, 40, c);
        br.go(g);
        v(br, bits_of(B5, 40), g);
      });
    }
    for (size_t k = 0; c + k <= 40; k++) {
      run_case("bits_skip", vf::fmt("BitReader(p, 40, %zu).skip(%zu)", c, k), [&](auto&& v) {
        BitReader br(b5.p, 40, c);
        br.skip(k);
        v(br, bits_of(B5, 40), c + k);
      });
    }
  }
  // cursor arithmetic far away from any data: go/skip/where only (no read is issued)
  for (size_t h : HUGE) {
    if (!r.take()) continue;
    if (r.wants_desc()) r.desc(vf::fmt("BitReader go(%zu) / skip / where", h));
    r.nontriv();
    BitReader br(b5.p, 40);
    br.go(h);
    size_t w0 = br.where();
    bool e0 = br.eof();
    br.go(1);
    br.skip(h - 1);
    size_t w1 = br.where();
    BitReader c2(b5.p, 40, h);
    if (w0 != h || w1 != h || !e0 || c2.where() != h) r.fail("bits_go:far", [&] { return vf::fmt("go(%zu): where()=%zu eof()=%d; go(1); skip(%zu): where()=%zu; BitReader(p, 40, %zu).where()=%zu", h, w0, (int)e0, h - 1, w1, h, c2.where()); });
    else r.ok("bits-far-cursor-ok");
  }
  // don't-care: more than 64 bits at once, truncate beyond the size
  if (r.take()) {
    if (r.wants_desc()) r.desc("don't-care: read(65), truncate(size+1)");
    BitReader br(b5.p, 40);
    std::string o1 = vf::outcome([&] { br.pread(0, 65); });
    std::string o2 = vf::outcome([&] { br.truncate(41); });
    r.ok("executed-not-compared/" + o1 + "/" + o2);
  }
  r.bound = "a 40-bit content seen through BitReader(ptr, nbits[, offset]) for every nbits 0..40 x offset 0..nbits+1, BitReader(std::string[, offset]) and BitReader(shared_ptr<string>[, offset]) (caller's reference dropped) for every byte count 0..5 x bit offset, the default constructor, StringReader::sub_bits/subx_bits with one and two arguments (every offset/size 0..7 plus eight huge values), copy, assignment onto readers that already hold other data, truncate(n)/go(g)/skip(k) for every in-range value, go/skip/where with huge cursors; each view: size/where/remaining/eof, pread of every in-range (offset, size <= 64) pair and with the defaulted size, read at the cursor (advance false/true), a sequential pass with rotating chunk sizes, go/skip";
}

VF_SECTION(br_ops, 4, 4, 180) {
  // navigation histories on the 40-bit content; out-of-range reads are not issued (BitReader does not check)
  struct Opn { const char* name; int t; size_t a; bool adv; };  // t: 0 go 1 skip 2 read 3 pread 4 truncate(size-a) 5 truncate(cursor) 6 read() defaulted
  static const Opn ops[] = {
      {"go(0)", 0, 0, true}, {"go(7)", 0, 7, true}, {"go(8)", 0, 8, true}, {"go(33)", 0, 33, true},
      {"skip(1)", 1, 1, true}, {"skip(9)", 1, 9, true}, {"skip(0)", 1, 0, true},
      {"read(1)", 2, 1, true}, {"read()", 6, 1, true}, {"read(5, false)", 2, 5, false}, {"read(12)", 2, 12, true}, {"read(0)", 2, 0, true}, {"read(33)", 2, 33, true},
      {"pread(3, 5)", 3, 5, true}, {"truncate(size-1)", 4, 1, true}, {"truncate(size-8)", 4, 8, true}, {"truncate(cursor)", 5, 0, true}};
  const size_t NOPS = sizeof(ops) / sizeof(ops[0]);
  const size_t depth = r.thorough() ? 5 : 4;
  Exact b5(5);
  memcpy(b5.p, B5, 5);
  const Bits all = bits_of(B5, 40);
  r.note("BitReader navigation histories");
  for (size_t len = 1; len <= depth; len++) {
    std::vector<uint32_t> seq(len, 0);
    bool more = true;
    while (more) {
      if (r.take()) {
        auto hd = [&] {
          std::string s = "BitReader(40 bits) history [";
          for (size_t i = 0; i < seq.size(); i++) s += (i ? "; " : "") + std::string(ops[seq[i]].name);
          return s + "]";
        };
        if (r.wants_desc()) r.desc(hd());
        r.nontriv();
        r.states++;
        BitReader br(b5.p, 40);
        BSt s{40, 0};
        bool good = true, cut = false;
        for (size_t i = 0; i < len && good && !cut; i++) {
          const Opn& o = ops[seq[i]];
          r.transitions++;
          uint64_t got = 0, want = 0;
          bool has_val = false;
          switch (o.t) {
            case 0: br.go(o.a); s.p = o.a; break;
            case 1: br.skip(o.a); s.p += o.a; break;
            case 2:
            case 6:
              if (!model_fits(s.n, s.p, o.a)) { cut = true; break; }  // out of range: not executed
              want = bits_value(all, s.p, o.a);
              got = o.t == 6 ? br.read() : br.read((uint8_t)o.a, o.adv);
              has_val = true;
              if (o.adv) s.p += o.a;
              break;
            case 3:
              if (!model_fits(s.n, 3, o.a)) { cut = true; break; }
              want = bits_value(all, 3, o.a);
              got = br.pread(3, (uint8_t)o.a);
              has_val = true;
              break;
            case 4:
              if (s.n < o.a) { cut = true; break; }
              br.truncate(s.n - o.a);
              s.n -= o.a;
              break;
            case 5:
              if (s.p > s.n) { cut = true; break; }
              br.truncate(s.p);
              s.n = s.p;
              break;
          }
          if (cut) break;
          if (has_val && got != want) {
            r.fail("br_ops:value", [&] { return hd() + vf::fmt(" :: %s (step %zu) returned 0x%llX, model 0x%llX", o.name, i + 1, (unsigned long long)got, (unsigned long long)want); });
            good = false;
          } else if (br.size() != s.n || br.where() != s.p || br.eof() != (s.p >= s.n) || (s.p <= s.n && br.remaining() != s.n - s.p)) {
            r.fail("br_ops:state", [&] { return hd() + vf::fmt(" :: after %s (step %zu): size()=%zu where()=%zu eof()=%d remaining()=%zu, model size %zu cursor %zu", o.name, i + 1, br.size(), br.where(), (int)br.eof(), br.remaining(), s.n, s.p); });
            good = false;
          }
        }
        if (good) r.ok(cut ? "nav-cut-at-out-of-range-read" : "nav-ok");
      }
      size_t i = len;
      for (;;) {
        if (i == 0) { more = false; break; }
        i--;
        if (++seq[i] < NOPS) break;
        seq[i] = 0;
      }
    }
  }
  r.bound = vf::fmt("all sequences of length 1..%zu over %zu BitReader operations on a 40-bit content: go(0|7|8|33), skip(0|1|9), read(0|1|5 no advance|12|33), read() with defaulted arguments, pread(3,5), truncate(size-1|size-8|cursor); value and size/where/eof/remaining compared after every step; a history stops before a read that would leave the data (BitReader does not check bounds)", depth, NOPS);
}
