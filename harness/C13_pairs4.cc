// C13 round 2 — boundary coordinate pairs: floating-point coordinates (see C13_pairs.hh).
#include "C13_pairs.hh"
using namespace c13;
VF_SECTION(pairs_fp, 16, 16, 120) {
  bool th = r.thorough();
  (void)th;
  std::string b;
  run_pairs<Vector2<float>>(r, boundary_alphabet<float>(), 4, b);
  run_pairs<Vector2<double>>(r, boundary_alphabet<double>(), 4, b);
  r.bound = "every ordered pair (a,b) of the floating-point boundary alphabet (+-0, denormal, min, 0.1, 0.5, 1-eps/2, 1, 1+eps, 1.5, 2^31, 2^32, 2^p-1, 2^p, 2^p+2 (p = mantissa width), 2^63, 2^64, max, infinity, all with both signs) as the two coordinate values of a 4-point tree: " + b;
}
