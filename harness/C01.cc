// C01 — typed binary writer/reader round trip with exact big/little-endian byte layout.
// E-ENUM value sweeps per accessor + exhaustive operation histories over the writers (byte-vector
// model) + cstr/line/raw block call trees + BitWriter/BitReader.  See harness/C01.notes.md.
#include "C01_common.hh"

using namespace phosg;
using namespace c01;

namespace {

// ------------------------------------------------------------------------------------------------
// full single-value check of one kind: StringWriter put/pput (inside, at end, past end),
// BufferWriter put/pput, StringReader get(advance)/get(no advance)/pget at an unaligned offset.
// Returns false after the first failure (already reported).
bool check_value_full(vf::Run& r, const Kind& k, uint64_t v, bool all_pput_modes = true) {
  const int w = k.w;
  uint8_t exp[8];
  enc(exp, v, w, k.e);
  const uint64_t want = k.expect(v);
  // cross-check of the reference encoder against the compiler's own byte order handling
  // (host representation = little-endian, __builtin_bswapN = big-endian) for the native widths
  if (w == 2 || w == 4 || w == 8) {
    uint8_t hostb[8];
    uint64_t m = v & maskw(w);
    if (k.e == BE) m = w == 2 ? __builtin_bswap16((uint16_t)m) : w == 4 ? __builtin_bswap32((uint32_t)m) : __builtin_bswap64(m);
    memcpy(hostb, &m, w);  // low w bytes of a little-endian host integer
    if (memcmp(hostb, exp, w)) {
      r.fail("harness:reference-encoder", [&] { return std::string(k.name) + " value " + hexv(v, w) + ": reference encoder gives " + hexb(exp, w) + ", compiler byte order gives " + hexb(hostb, w); });
      return false;
    }
    r.xchecked++;
  }
  auto vdesc = [&] { return std::string(k.name) + " value " + hexv(v, w) + " (reference bytes " + hexb(exp, w) + ")"; };
  try {
    // --- StringWriter::put_K appends exactly the encoding ---------------------------------
    {
      StringWriter sw;
      sw.put_u8(0x5A);
      k.sw_put(sw, v);
      const std::string& s = sw.str();
      if (sw.size() != (size_t)(1 + w) || s.size() != (size_t)(1 + w)) {
        r.fail(kname(k.readonly ? "write_enc" : "put", k) + ":size", [&] { return vdesc() + vf::fmt(": writer size after 1+%d bytes is %zu", w, sw.size()); });
        return false;
      }
      if ((uint8_t)s[0] != 0x5A || memcmp(s.data() + 1, exp, w)) {
        r.fail(kname(k.readonly ? "write_enc" : "put", k) + ":bytes", [&] { return vdesc() + ": StringWriter produced " + hexb(s.data() + 1, w); });
        return false;
      }
    }
    // --- StringWriter::pput_K: overwrite inside, append at end, zero-extend past the end ------
    if (k.sw_pput) {
      static const uint8_t init[10] = {0x11, 0x22, 0x33, 0x44, 0x55, 0x66, 0x77, 0x88, 0x99, 0xAA};
      // modes: inside, at the end, past the end (zero gap), straddling the end, into an empty writer at 0 / at 5
      for (int mode = 0; mode < (all_pput_modes ? 6 : 3); mode++) {
        StringWriter sw;
        size_t have = mode >= 4 ? 0 : 10;
        sw.write(init, have);
        Bytes m(init, init + have);
        size_t off = mode == 0 ? 1 : mode == 1 ? 10 : mode == 2 ? 13 : mode == 3 ? 9 : mode == 4 ? 0 : 5;
        if (m.size() < off + w) m.resize(off + w, 0);
        memcpy(m.data() + off, exp, w);
        k.sw_pput(sw, off, v);
        const std::string& s = sw.str();
        if (s.size() != m.size() || sw.size() != m.size() || memcmp(s.data(), m.data(), m.size())) {
          r.fail(kname("pput", k) + (mode == 2 || mode == 5 ? ":zero-extend" : ":bytes"), [&] {
            return vdesc() + vf::fmt(": StringWriter with %zu bytes, pput at %zu gives ", have, off) + hexb(s.data(), s.size()) + ", model " + hexb(m.data(), m.size());
          });
          return false;
        }
      }
    }
    // --- BufferWriter::put_K / pput_K over an exact-size buffer ----------------------------------
    {
      Exact b(1 + w + w + 1);
      BufferWriter bw(b.p, b.n);
      Bytes m(b.n, 0xEE);
      bw.put_u8(0x5A);
      m[0] = 0x5A;
      k.bw_put(bw, v);
      memcpy(m.data() + 1, exp, w);
      k.bw_pput(bw, 1 + w, v);
      memcpy(m.data() + 1 + w, exp, w);
      if (memcmp(b.p, m.data(), b.n)) {
        r.fail(kname("bw_put", k) + ":bytes", [&] { return vdesc() + ": BufferWriter put at 1 + pput at " + std::to_string(1 + w) + " gives " + hexb(b.p, b.n) + ", model " + hexb(m.data(), m.size()); });
        return false;
      }
      // the cursor advanced by exactly w: the next put lands right after the value
      bw.put_u8(0xC3);
      m[1 + w] = 0xC3;
      if (memcmp(b.p, m.data(), b.n)) {
        r.fail(kname("bw_put", k) + ":advance", [&] { return vdesc() + ": byte written after put landed elsewhere: " + hexb(b.p, b.n) + ", model " + hexb(m.data(), m.size()); });
        return false;
      }
    }
    // --- StringReader get_K / pget_K at an unaligned offset ----------------------------------------
    {
      Exact b(1 + w + 1);
      b.p[0] = 0x5A;
      memcpy(b.p + 1, exp, w);
      b.p[1 + w] = 0xA5;
      StringReader rd(b.p, b.n);
      rd.go(1);
      uint64_t g0 = k.get(rd, false);
      size_t w0 = rd.where();
      if (w0 != 1) {
        r.fail(kname("get", k) + ":advance", [&] { return vdesc() + vf::fmt(": advance=false moved the cursor from 1 to %zu", w0); });
        return false;
      }
      uint64_t g1 = k.get(rd, false);
      size_t w1 = rd.where();
      uint64_t g2 = k.get(rd, true);
      size_t w2 = rd.where();
      uint64_t g3 = k.pget(rd, 1);
      size_t w3 = rd.where();
      if (g0 != want || g1 != want || g2 != want) {
        r.fail(kname("get", k) + ":value", [&] { return vdesc() + vf::fmt(": get returned 0x%llX / 0x%llX / 0x%llX, independent decoder says 0x%llX", (unsigned long long)g0, (unsigned long long)g1, (unsigned long long)g2, (unsigned long long)want); });
        return false;
      }
      if (g3 != want) {
        r.fail(kname("pget", k) + ":value", [&] { return vdesc() + vf::fmt(": pget returned 0x%llX, independent decoder says 0x%llX", (unsigned long long)g3, (unsigned long long)want); });
        return false;
      }
      if (w0 != 1 || w1 != 1) {
        r.fail(kname("get", k) + ":advance", [&] { return vdesc() + vf::fmt(": advance=false moved the cursor from 1 to %zu/%zu", w0, w1); });
        return false;
      }
      if (w2 != (size_t)(1 + w)) {
        r.fail(kname("get", k) + ":advance", [&] { return vdesc() + vf::fmt(": cursor after get at 1 is %zu, encoded width is %d", w2, w); });
        return false;
      }
      if (w3 != w2) {
        r.fail(kname("pget", k) + ":advance", [&] { return vdesc() + vf::fmt(": pget moved the cursor from %zu to %zu", w2, w3); });
        return false;
      }
      if (rd.get_u8() != 0xA5 || !rd.eof()) {
        r.fail(kname("get", k) + ":advance", [&] { return vdesc() + ": byte following the value not read next"; });
        return false;
      }
    }
  } catch (const std::exception& e) {
    std::string what = e.what();
    r.fail(kname("any", k) + ":throws", [&] { return vdesc() + ": unexpected exception " + what; });
    return false;
  }
  return true;
}

// the first n_all_modes values get all six pput placements, the others the first three (the placement logic does
// not depend on the value)
void sweep_kind_values(vf::Run& r, const Kind& k, const std::vector<uint64_t>& vals, size_t n_all_modes = ~(size_t)0) {
  size_t i = 0;
  for (uint64_t v : vals) {
    size_t vi = i++;
    if (!r.take()) continue;
    if (r.wants_desc()) r.desc(std::string("value sweep ") + k.name + " " + hexv(v, k.w));
    r.nontriv();
    if (check_value_full(r, k, v, vi < n_all_modes)) r.ok(std::string("roundtrip-ok/w") + std::to_string(k.w));
  }
}

}  // namespace

// ---- 8/16-bit: every value of every accessor -------------------------------------------------
VF_SECTION(sweep_small, 8, 8, 180) {
  for (auto& k : kinds()) {
    if (k.w > 2) continue;
    r.note(k.name);
    uint64_t n = 1ull << (8 * k.w);
    for (uint64_t v = 0; v < n; v++) {
      if (!r.take()) continue;
      if (r.wants_desc()) r.desc(std::string("value sweep ") + k.name + " " + hexv(v, k.w));
      r.nontriv();
      if (check_value_full(r, k, v)) r.ok(std::string("roundtrip-ok/w") + std::to_string(k.w));
    }
  }
  r.bound = "all 256 values of put/pput/get/pget_{u8,s8} and all 65536 values of the eight 16-bit kinds (native, r, b, l; signed and unsigned) on StringWriter, BufferWriter and StringReader";
}

// ---- 24-bit getters: all 2^24 three-byte inputs -----------------------------------------------
VF_SECTION(sweep24, 16, 16, 180) {
  auto ks = kinds_of_width(3);
  Exact b(5);
  b.p[0] = 0x5A;
  b.p[4] = 0xA5;
  r.note("get_u24*/s24*");
  for (uint32_t hi = 0; hi < 65536; hi++) {
    if (!r.take()) continue;
    if (r.wants_desc()) r.desc(vf::fmt("24-bit getters on all inputs %02X %02X xx", hi >> 8, hi & 0xFF));
    r.evals += 255;
    r.nontrivial += 256;
    bool good = true;
    for (uint32_t lo = 0; lo < 256 && good; lo++) {
      b.p[1] = hi >> 8;
      b.p[2] = hi & 0xFF;
      b.p[3] = lo;
      for (const Kind* k : ks) {
        uint64_t want = k->expect(dec(b.p + 1, 3, k->e));
        StringReader rd(b.p, 5);
        rd.go(1);
        uint64_t g0 = k->get(rd, false);
        size_t w0 = rd.where();
        uint64_t g1 = k->get(rd, true);
        size_t w1 = rd.where();
        uint64_t g2 = k->pget(rd, 1);
        if (g0 != want || g1 != want) {
          r.fail(kname("get", *k) + ":value", [&] { return vf::fmt("bytes %s: get returned 0x%llX / 0x%llX, independent decoder says 0x%llX", hexb(b.p + 1, 3).c_str(), (unsigned long long)g0, (unsigned long long)g1, (unsigned long long)want); });
          good = false;
        } else if (g2 != want) {
          r.fail(kname("pget", *k) + ":value", [&] { return vf::fmt("bytes %s: pget returned 0x%llX, independent decoder says 0x%llX", hexb(b.p + 1, 3).c_str(), (unsigned long long)g2, (unsigned long long)want); });
          good = false;
        } else if (w0 != 1 || w1 != 4) {
          r.fail(kname("get", *k) + ":advance", [&] { return vf::fmt("bytes %s at offset 1: cursor %zu after advance=false, %zu after advance=true (expected 1, 4)", hexb(b.p + 1, 3).c_str(), w0, w1); });
          good = false;
        }
      }
    }
    if (good) r.ok("24bit-block-ok");
  }
  r.bound = "all 2^24 three-byte inputs x {get,pget}_{u24b,u24l,s24b,s24l} (advance true/false)";
}

// ---- 32-bit: lane set (both tiers, full check) --------------------------------------------------
VF_SECTION(sweep32, 8, 8, 180) {
  std::vector<uint64_t> vals = structured_values(4);
  for (uint64_t s : float_specials(4)) vals.push_back(s);
  for (uint64_t s : boundary_values(4)) vals.push_back(s);
  lane_product(L9(), 4, [&](uint64_t v) { vals.push_back(v); });
  dedupe(vals);
  for (const Kind* k : kinds_of_width(4)) {
    r.note(k->name);
    sweep_kind_values(r, *k, vals);
  }
  r.bound = "12 32-bit kinds x (L9^4 lane set + all-distinct + walking one/zero + +-(2^k-1), +-2^k, +-(2^k+1) for every k + float specials), full put/pput/get/pget check";
}

// ---- 32-bit: all 2^32 bit patterns (thorough) -------------------------------------------------
// Light check per value: one StringWriter and one BufferWriter receive the value through all 12
// put_* accessors; the 48 bytes must equal the reference encoding and the 12 get_* accessors must
// return the reference decoding with where() advancing by 4 each.
VF_SECTION(sweep32_all, 0, 16, 180) {
  auto ks = kinds_of_width(4);
  const size_t nk = ks.size();
  StringWriter sw;
  Exact bb(4 * nk);
  std::vector<uint8_t> exp(4 * nk);
  r.note("32-bit put/get");
  for (uint32_t blk = 0; blk < 65536; blk++) {
    if (!r.take()) continue;
    if (r.wants_desc()) r.desc(vf::fmt("all 32-bit kinds on values 0x%04X0000..0x%04XFFFF", blk, blk));
    r.evals += 65535;
    r.nontrivial += 65536;
    bool good = true;
    for (uint32_t lo = 0; lo < 65536 && good; lo++) {
      uint64_t v = ((uint64_t)blk << 16) | lo;
      sw.reset();
      BufferWriter bw(bb.p, bb.n);
      for (size_t i = 0; i < nk; i++) {
        enc(exp.data() + 4 * i, v, 4, ks[i]->e);
        ks[i]->sw_put(sw, v);
        ks[i]->bw_put(bw, v);
      }
      const std::string& s = sw.str();
      if (s.size() != 4 * nk || memcmp(s.data(), exp.data(), 4 * nk) || memcmp(bb.p, exp.data(), 4 * nk)) {
        for (size_t i = 0; i < nk; i++) {
          bool sbad = s.size() != 4 * nk || memcmp(s.data() + 4 * i, exp.data() + 4 * i, 4);
          bool bbad = memcmp(bb.p + 4 * i, exp.data() + 4 * i, 4);
          if (sbad || bbad)
            r.fail(kname(sbad ? "put" : "bw_put", *ks[i]) + ":bytes", [&] { return vf::fmt("value %s as item %zu of 12: produced %s, reference %s", hexv(v, 4).c_str(), i, hexb((sbad ? (const uint8_t*)s.data() : bb.p) + 4 * i, 4).c_str(), hexb(exp.data() + 4 * i, 4).c_str()); });
        }
        good = false;
        break;
      }
      StringReader rd(s.data(), s.size());
      for (size_t i = 0; i < nk; i++) {
        uint64_t want = ks[i]->expect(v);
        uint64_t g = ks[i]->get(rd, true);
        if (g != want) {
          r.fail(kname("get", *ks[i]) + ":value", [&] { return vf::fmt("value %s: get returned 0x%llX, independent decoder says 0x%llX", hexv(v, 4).c_str(), (unsigned long long)g, (unsigned long long)want); });
          good = false;
        } else if (rd.where() != 4 * (i + 1)) {
          r.fail(kname("get", *ks[i]) + ":advance", [&] { return vf::fmt("value %s: cursor %zu after item %zu", hexv(v, 4).c_str(), rd.where(), i); });
          good = false;
        }
      }
    }
    if (good) r.ok("32bit-block-ok");
  }
  r.bound = "all 2^32 bit patterns (every NaN payload, both zeros, every denormal) through the 12 32-bit put_*/BufferWriter put_*/get_* accessors";
}

// ---- 48-bit getters ---------------------------------------------------------------------------
VF_SECTION(sweep48, 4, 4, 180) {
  std::vector<uint64_t> vals = structured_values(6);
  for (uint64_t s : boundary_values(6)) vals.push_back(s);
  lane_product(L5(), 6, [&](uint64_t v) { vals.push_back(v); });
  dedupe(vals);
  for (const Kind* k : kinds_of_width(6)) {
    r.note(k->name);
    sweep_kind_values(r, *k, vals);
  }
  r.bound = "{get,pget}_{u48b,u48l,s48b,s48l} x (L5^6 lane set + all-distinct + walking one/zero + +-(2^k-1), +-2^k, +-(2^k+1) for every k): every choice of sign bit and byte lane";
}

// ---- 64-bit ints and doubles -------------------------------------------------------------------
VF_SECTION(sweep64, 16, 16, 180) {
  std::vector<uint64_t> vals = structured_values(8);
  for (uint64_t s : float_specials(8)) vals.push_back(s);
  for (uint64_t s : boundary_values(8)) vals.push_back(s);
  dedupe(vals);
  size_t n_all_modes = vals.size();
  lane_product(L5(), 8, [&](uint64_t v) { vals.push_back(v); });
  dedupe(vals);
  for (const Kind* k : kinds_of_width(8)) {
    r.note(k->name);
    sweep_kind_values(r, *k, vals, n_all_modes);
  }
  r.bound = "12 64-bit kinds x (L5^8 lane set = 390625 + all-distinct + walking one/zero + +-(2^k-1), +-2^k, +-(2^k+1) for every k + NaN payloads/zeros/inf/denormals)";
}

#include "C01_blocks.hh"

VF_MAIN()
