// C03_optypes.hh - operand-type matrix machinery for the compound operators, shared by C03_optypes.cc (16/32/64-bit
// and float wrappers) and C03_w8.cc (8-bit wrappers).  See C03.cc / C03_common.hh.
#pragma once
#ifndef C03_NO_FORCE_INLINE
#define C03_NO_FORCE_INLINE
#endif
#include "C03_common.hh"

// ---------------------------------------------------------------------------------------------
// Operand-type matrix: every compound operator with operands of several C++ types.  The oracle is the
// native operator applied to a native variable with the *same operand expression type* (so the usual
// arithmetic conversions - promotion of uint8/uint16, unsigned/64-bit operands, int operands on float
// wrappers - happen identically on both sides; a wrapper that converts, negates or narrows the operand
// in its own type first is visible).
namespace {

// An operand value of one of the operand types, carried type-erased so that the loops and the
// accounting are compiled once per wrapper type; only run_binop<W, T, D> is instantiated per D.
enum DType { DT_INT, DT_UNSIGNED, DT_INT64, DT_UINT64, DT_UINT8, DT_UINT16, DT_INT8, DT_INT16, DT_FLOAT, DT_DOUBLE, NDTYPES };
const char* dt_name[NDTYPES] = {"int", "unsigned", "int64_t", "uint64_t", "uint8_t", "uint16_t", "int8_t", "int16_t", "float", "double"};
struct OpVal {
  int dt;
  int64_t i;    // integer operand types: the value (uint64_t stored modulo 2^64)
  double f;     // float / double operands
};
std::string show_opval(const OpVal& v) {
  if (v.dt >= DT_FLOAT) return vf::fmt("(%s)%.17g", dt_name[v.dt], v.f);
  if (v.dt == DT_UNSIGNED || v.dt == DT_UINT64 || v.dt == DT_UINT8 || v.dt == DT_UINT16) return vf::fmt("(%s)%llu", dt_name[v.dt], (unsigned long long)v.i);
  return vf::fmt("(%s)%lld", dt_name[v.dt], (long long)v.i);
}

// boundary operand values of type D: 0, 1, 2, 3, 7, max, max-1, top bit / min, and neighbours
template <class D>
void add_operands(std::vector<OpVal>& out, int dt) {
  if constexpr (std::is_floating_point_v<D>) {
    for (D d : {D(0), D(1), D(3), D(0.5), D(-1), D(2), D(-0.0), D(1e10), D(-3.25), D(16777217.0), D(0.1)}) out.push_back({dt, 0, static_cast<double>(d)});
  } else if constexpr (std::is_signed_v<D>) {
    D mx = std::numeric_limits<D>::max(), mn = std::numeric_limits<D>::min();
    for (D d : {D(0), D(1), D(2), D(3), D(7), D(-1), D(-2), D(-3), mx, D(mx - 1), mn, D(mn + 1), D(mx / 2 + 1)}) out.push_back({dt, static_cast<int64_t>(d), 0});
  } else {
    D mx = std::numeric_limits<D>::max();
    D top = D(D(1) << (sizeof(D) * 8 - 1));
    for (D d : {D(0), D(1), D(2), D(3), D(7), mx, D(mx - 1), D(mx - 2), top, D(top - 1), D(top + 1), D(mx / 3)}) out.push_back({dt, static_cast<int64_t>(d), 0});
  }
}
std::vector<OpVal> all_operands(bool with_fp) {
  std::vector<OpVal> v;
  add_operands<int>(v, DT_INT);
  add_operands<unsigned>(v, DT_UNSIGNED);
  add_operands<int64_t>(v, DT_INT64);
  add_operands<uint64_t>(v, DT_UINT64);
  add_operands<uint8_t>(v, DT_UINT8);
  add_operands<uint16_t>(v, DT_UINT16);
  add_operands<int8_t>(v, DT_INT8);
  add_operands<int16_t>(v, DT_INT16);
  if (with_fp) {
    add_operands<float>(v, DT_FLOAT);
    add_operands<double>(v, DT_DOUBLE);
  }
  return v;
}
// Shift counts.  The native operator is defined for 0 <= count < width of the PROMOTED left operand (32 for
// the 8/16-bit wrappers), whatever the type of the count; `limit_bits` is that width.  Counts at and above
// the width of the wrapped type are the interesting ones for the narrow wrappers.
std::vector<OpVal> all_shift_counts(size_t limit_bits) {
  std::vector<OpVal> v;
  for (int dt = DT_INT; dt <= DT_INT16; dt++)
    for (unsigned c : {0u, 1u, 3u, 7u, 8u, 9u, 15u, 16u, 17u, 24u, 31u, 32u, 33u, 48u, 63u})
      if (c < limit_bits) v.push_back({dt, static_cast<int64_t>(c), 0});
  // don't-care class made visible in the histogram (native-undefined: neither side is executed)
  for (int dt = DT_INT; dt <= DT_INT16; dt++) {
    v.push_back({dt, static_cast<int64_t>(limit_bits), 0});
    if (dt == DT_INT || dt == DT_INT64 || dt == DT_INT8 || dt == DT_INT16) v.push_back({dt, -1, 0});
  }
  return v;
}

// ---- boundary values far from the usual: 2^k-1, 2^k, 2^k+1 for every k up to the width, and their negatives ----
template <class D>
std::vector<D> pow2_values() {
  std::vector<D> v;
  if constexpr (std::is_floating_point_v<D>) {
    std::vector<D> c = {D(0), D(1), std::numeric_limits<D>::denorm_min(), std::numeric_limits<D>::min(), std::numeric_limits<D>::max(), std::numeric_limits<D>::infinity(), D(0.5), D(1.5), D(0.1)};
    for (int k : {1, 7, 8, 15, 16, 23, 24, 25, 31, 32, 33, 52, 53, 54, 63, 64, 65, std::numeric_limits<D>::max_exponent - 1}) {
      D p = ldexp(D(1), k);
      for (D x : {p, nextafter(p, D(0)), nextafter(p, std::numeric_limits<D>::infinity()), D(p - 1), D(p + 1)}) c.push_back(x);
    }
    for (D x : c)
      for (D y : {x, D(-x)}) {
        bool seen = false;
        for (D z : v) seen = seen || bits_of(z) == bits_of(y);
        if (!seen) v.push_back(y);
      }
  } else {
    using UD = std::make_unsigned_t<D>;
    constexpr int w = sizeof(D) * 8;
    for (int k = 0; k <= w; k++)
      for (int dlt = -1; dlt <= 1; dlt++) {
        UD u = static_cast<UD>((k < w ? static_cast<UD>(static_cast<UD>(1) << k) : static_cast<UD>(0)) + static_cast<UD>(dlt));
        for (UD x : {u, static_cast<UD>(UD(0) - u)}) {
          D s = static_cast<D>(x);
          bool seen = false;
          for (D y : v) seen = seen || y == s;
          if (!seen) v.push_back(s);
        }
      }
  }
  return v;
}
template <class D>
void add_pow2(std::vector<OpVal>& out, int dt) {
  for (D d : pow2_values<D>()) {
    if constexpr (std::is_floating_point_v<D>) out.push_back({dt, 0, static_cast<double>(d)});
    else out.push_back({dt, static_cast<int64_t>(d), 0});
  }
}
std::vector<OpVal> pow2_operands(bool with_fp) {
  std::vector<OpVal> v;
  add_pow2<int>(v, DT_INT);
  add_pow2<unsigned>(v, DT_UNSIGNED);
  add_pow2<int64_t>(v, DT_INT64);
  add_pow2<uint64_t>(v, DT_UINT64);
  add_pow2<uint8_t>(v, DT_UINT8);
  add_pow2<uint16_t>(v, DT_UINT16);
  add_pow2<int8_t>(v, DT_INT8);
  add_pow2<int16_t>(v, DT_INT16);
  if (with_fp) {
    add_pow2<float>(v, DT_FLOAT);
    add_pow2<double>(v, DT_DOUBLE);
  }
  return v;
}
// every count the native operator defines (0 .. promoted width - 1), as each integer operand type
std::vector<OpVal> every_shift_count(size_t limit_bits) {
  std::vector<OpVal> v;
  for (int dt = DT_INT; dt <= DT_INT16; dt++)
    for (unsigned c = 0; c < limit_bits; c++) v.push_back({dt, static_cast<int64_t>(c), 0});
  return v;
}

// the only per-operand-type instantiation: the operator on wrapper and native with a D-typed operand
template <class W, class T>
void exec_typed(Cell<W>& cell, Order o, int op, T v, const OpVal& d, Obs& ob) {
  switch (d.dt) {
    case DT_INT: run_binop<W, T, int>(cell, o, op, v, static_cast<int>(d.i), ob); break;
    case DT_UNSIGNED: run_binop<W, T, unsigned>(cell, o, op, v, static_cast<unsigned>(d.i), ob); break;
    case DT_INT64: run_binop<W, T, int64_t>(cell, o, op, v, d.i, ob); break;
    case DT_UINT64: run_binop<W, T, uint64_t>(cell, o, op, v, static_cast<uint64_t>(d.i), ob); break;
    case DT_UINT8: run_binop<W, T, uint8_t>(cell, o, op, v, static_cast<uint8_t>(d.i), ob); break;
    case DT_UINT16: run_binop<W, T, uint16_t>(cell, o, op, v, static_cast<uint16_t>(d.i), ob); break;
    case DT_INT8: run_binop<W, T, int8_t>(cell, o, op, v, static_cast<int8_t>(d.i), ob); break;
    case DT_INT16: run_binop<W, T, int16_t>(cell, o, op, v, static_cast<int16_t>(d.i), ob); break;
    default:
      // integer wrappers take float / double operands only with + - * / (%, &, |, ^, <<, >> are ill-formed natively too)
      if (std::is_integral_v<T> && op > OP_DIV) __builtin_trap();
      if (d.dt == DT_FLOAT) run_binop<W, T, float>(cell, o, op, v, static_cast<float>(d.f), ob);
      else run_binop<W, T, double>(cell, o, op, v, d.f, ob);
      break;
  }
}

template <class W, class T>
void drive_optypes(vf::Run& r, const char* wname, Order o, const std::vector<T>& values, bool pow2 = false) {
  r.note(wname);
  Tally t;
  Cell<W> cell;
  Obs ob;
  uint64_t compared[NDTYPES] = {0};
  constexpr bool fp = std::is_floating_point_v<T>;
  std::vector<OpVal> operands = pow2 ? pow2_operands(fp) : all_operands(fp);
  std::vector<OpVal> arith_operands = pow2 ? pow2_operands(true) : all_operands(true);  // + float / double operands, for + - * / on every wrapper
  std::vector<OpVal> counts;
  if constexpr (!fp) counts = pow2 ? every_shift_count(promoted_bits<T>()) : all_shift_counts(promoted_bits<T>());
  for (int op = OP_ADD; op <= OP_SHR; op++) {
    if (fp && op > OP_DIV) break;
    const std::vector<OpVal>& ds = (op == OP_SHL || op == OP_SHR) ? counts : (op <= OP_DIV ? arith_operands : operands);
    for (const OpVal& d : ds)
      for (T v : values) {
        if (!r.take()) continue;
        exec_typed<W, T>(cell, o, op, v, d, ob);
        if (r.wants_desc()) r.desc(describe_head<T>(wname, o, op, bits_of(v), show_opval(d), ob));
        if (!ob.skipped) compared[d.dt]++;
        account<T>(r, t, op, ob, wname, o, bits_of(v), [&] { return show_opval(d); });
      }
  }
  for (int dt = 0; dt < NDTYPES; dt++)
    if (compared[dt]) r.counters[std::string("compared with operand type ") + dt_name[dt]] += compared[dt];
  t.flush(r, (std::string(wname) + "/").c_str());
}

// stored values: boundary values of the width + byte-lane patterns
template <class T>
std::vector<T> optype_values() {
  std::vector<uint64_t> b = {0, 1, 2, 3, 10, 0x7F, 0x80, 0xFF, 0x100, 0x1234, 0x7FFF, 0x8000, 0xA5A5, 0xFFFE, 0xFFFF};
  if (sizeof(T) >= 4) b.insert(b.end(), {0x10000, 0x01020304, 0x7FFFFFFF, 0x80000000ull, 0xA5A5A5A5ull, 0xFFFFFFFEull, 0xFFFFFFFFull});
  if (sizeof(T) >= 8) b.insert(b.end(), {0x100000000ull, 0x100000007ull, 0x0102030405060708ull, 0x7FFFFFFFFFFFFFFFull, 0x8000000000000000ull, 0xA5A5A5A5A5A5A5A5ull, 0xFFFFFFFFFFFFFFFEull, 0xFFFFFFFFFFFFFFFFull});
  return typed<T>(b);
}

}  // namespace
