// C03 (part): bswap helpers, ext24/ext48, sign_extend.  See C03.cc / C03_common.hh.
#include <map>
#include "C03_common.hh"

// ---------------------------------------------------------------------------------------------
// bswap helpers, ext24/ext48, sign_extend
namespace {

struct FnTally {
  std::map<std::string, uint64_t> n;
  void flush(vf::Run& r) {
    for (auto& [k, v] : n) r.hist[k] += v;
  }
};

// one (function, input) check: `got` vs `want`, with an optional involution observation
inline void judge(vf::Run& r, uint64_t& okc, const char* fn, const char* kind, bool bad, uint64_t in, uint64_t got, uint64_t want, const char* keyfn = nullptr) {
  r.nontriv();
  if (bad) r.fail(std::string(keyfn ? keyfn : fn) + ":" + kind, [&] { return vf::fmt("%s(0x%llX) = 0x%llX, expected 0x%llX", fn, (unsigned long long)in, (unsigned long long)got, (unsigned long long)want); });
  else okc++;
}

template <class R, class S>
void check_sign_extend(vf::Run& r, const char* name, const std::vector<uint64_t>& inputs) {
  uint64_t okc = 0;
  for (uint64_t in : inputs) {
    if (!r.take()) continue;
    S src = from_bits<S>(in);
    R got = sign_extend<R, S>(src);
    R want = static_cast<R>(sext(in, sizeof(S) * 8));
    if (r.wants_desc()) r.desc(vf::fmt("%s(0x%llX)", name, (unsigned long long)in));
    judge(r, okc, name, "wrong-value", bits_of(got) != bits_of(want), in, bits_of(got), bits_of(want), "sign_extend");
  }
  r.hist[std::string(name) + ":top-bit-replicated"] += okc;
}

void check_small(vf::Run& r) {
  uint64_t ok16 = 0, ok8 = 0;
  r.note("bswap16");
  for (uint32_t v = 0; v < 0x10000; v++) {
    if (!r.take()) continue;
    uint16_t x = static_cast<uint16_t>(v);
    uint16_t got = bswap16(x);
    uint64_t want = rev_lanes(x, 2);
    if (r.wants_desc()) r.desc(vf::fmt("bswap16(0x%04X)", v));
    bool bad = got != want;
    judge(r, ok16, "bswap16", "wrong-value", bad, v, got, want);
    if (!bad) {
      if (bswap16(got) != x) r.fail("bswap16:not-involution", [&] { return vf::fmt("bswap16(bswap16(0x%04X)) = 0x%04X", v, bswap16(got)); });
      if (bswap<uint16_t>(x) != want || static_cast<uint16_t>(bswap<int16_t>(static_cast<int16_t>(x))) != want)
        r.fail("bswap<16-bit>:wrong-value", [&] { return vf::fmt("bswap<uint16_t>(0x%04X) = 0x%04X, bswap<int16_t> = 0x%04X, expected 0x%04llX", v, bswap<uint16_t>(x), (uint16_t)bswap<int16_t>((int16_t)x), (unsigned long long)want); });
    }
  }
  r.hist["bswap16:lanes-reversed+involution"] += ok16;
  r.note("bswap8");
  for (uint32_t v = 0; v < 0x100; v++) {
    if (!r.take()) continue;
    uint8_t x = static_cast<uint8_t>(v);
    judge(r, ok8, "bswap8", "wrong-value", bswap8(x) != x || bswap<uint8_t>(x) != x || static_cast<uint8_t>(bswap<int8_t>(static_cast<int8_t>(x))) != x, v, bswap8(x), v);
  }
  r.hist["bswap8:identity"] += ok8;
}

// 32-bit helpers on one input; returns the key suffix of the first failure or nullptr
inline const char* check32(uint32_t x, uint64_t& got, uint64_t& want) {
  want = rev_lanes(x, 4);
  uint32_t g = bswap32(x);
  got = g;
  if (g != want) return "bswap32:wrong-value";
  if (bswap32(g) != x) { got = bswap32(g); want = x; return "bswap32:not-involution"; }
  uint32_t g2 = bswap<uint32_t>(x);
  if (g2 != want) { got = g2; return "bswap<32-bit>:wrong-value"; }
  uint32_t g3 = static_cast<uint32_t>(bswap<int32_t>(static_cast<int32_t>(x)));
  if (g3 != want) { got = g3; return "bswap<32-bit>:wrong-value"; }
  // uint32 -> float: the float's bit pattern is the reversed input
  float f = bswap32f(x);
  if (bits_of(f) != want) { got = bits_of(f); return "bswap32f(uint32):wrong-value"; }
  float f2 = bswap<uint32_t, float>(x);
  if (bits_of(f2) != want) { got = bits_of(f2); return "bswap<uint32,float>:wrong-value"; }
  // float -> uint32: reversed bit pattern of the float
  float fx = from_bits<float>(x);
  uint32_t u = bswap32f(fx);
  if (u != want) { got = u; return "bswap32f(float):wrong-value"; }
  uint32_t u2 = bswap<float, uint32_t>(fx);
  if (u2 != want) { got = u2; return "bswap<float,uint32>:wrong-value"; }
  // round trip float -> raw -> float is bit exact
  float back = bswap32f(u);
  if (bits_of(back) != x) { got = bits_of(back); want = x; return "bswap32f:not-involution"; }
  // sign_extend from 32 bits
  int64_t se = static_cast<int64_t>(static_cast<int32_t>(x));
  uint64_t s1 = static_cast<uint64_t>(sign_extend<int64_t, uint32_t>(x));
  uint64_t s2 = sign_extend<uint64_t, uint32_t>(x);
  uint64_t s3 = static_cast<uint64_t>(sign_extend<int64_t, int32_t>(static_cast<int32_t>(x)));
  want = static_cast<uint64_t>(sext(x, 32));
  if (static_cast<uint64_t>(se) != want) __builtin_trap();  // the two reference formulations agree
  if (s1 != want) { got = s1; return "sign_extend:wrong-value"; }
  if (s2 != want) { got = s2; return "sign_extend:wrong-value"; }
  if (s3 != want) { got = s3; return "sign_extend:wrong-value"; }
  uint64_t s4 = sign_extend<uint64_t, int32_t>(static_cast<int32_t>(x));
  if (s4 != want) { got = s4; return "sign_extend:wrong-value"; }
  uint64_t s5 = static_cast<uint64_t>(sign_extend<long long, int32_t>(static_cast<int32_t>(x)));
  uint64_t s6 = sign_extend<unsigned long long, uint32_t>(x);
  if (s5 != want) { got = s5; return "sign_extend:wrong-value"; }
  if (s6 != want) { got = s6; return "sign_extend:wrong-value"; }
  return nullptr;
}

}  // namespace

VF_SECTION(bswap_small, 4, 4, 120) {
  check_small(r);
  std::vector<uint64_t> all8, all16;
  for (uint32_t v = 0; v < 0x100; v++) all8.push_back(v);
  for (uint32_t v = 0; v < 0x10000; v++) all16.push_back(v);
  r.note("sign_extend");
#define SE(R, S, SET) check_sign_extend<R, S>(r, "sign_extend<" #R "," #S ">", SET);
  SE(int16_t, uint8_t, all8) SE(uint16_t, uint8_t, all8) SE(int32_t, uint8_t, all8) SE(uint32_t, uint8_t, all8) SE(int64_t, uint8_t, all8) SE(uint64_t, uint8_t, all8)
  SE(int16_t, int8_t, all8) SE(uint16_t, int8_t, all8) SE(int32_t, int8_t, all8) SE(uint32_t, int8_t, all8) SE(int64_t, int8_t, all8) SE(uint64_t, int8_t, all8)
  SE(int32_t, uint16_t, all16) SE(uint32_t, uint16_t, all16) SE(int64_t, uint16_t, all16) SE(uint64_t, uint16_t, all16)
  SE(int32_t, int16_t, all16) SE(uint32_t, int16_t, all16) SE(int64_t, int16_t, all16) SE(uint64_t, int16_t, all16)
  // other integer types of the same widths (distinct types: char, char16_t, wchar_t-free set, long long)
  SE(long long, int8_t, all8) SE(unsigned long long, uint8_t, all8) SE(long long, int16_t, all16) SE(unsigned long long, uint16_t, all16)
  SE(int, char, all8) SE(long long, char, all8) SE(int32_t, char16_t, all16) SE(int64_t, char16_t, all16) SE(char32_t, uint16_t, all16) SE(char32_t, int8_t, all8) SE(char16_t, int8_t, all8)
#undef SE
  // same-width instantiations are outside the statement ("narrower value ... wider result"): executed, not compared
  {
    uint64_t n = 0;
    for (uint32_t v = 0; v < 0x10000; v++) {
      if (!r.take()) continue;
      volatile uint64_t sink = 0;
      if (v < 0x100) sink = sink + static_cast<uint8_t>(sign_extend<int8_t, int8_t>(static_cast<int8_t>(v))) + sign_extend<uint8_t, uint8_t>(static_cast<uint8_t>(v)) + static_cast<uint8_t>(sign_extend<int8_t, uint8_t>(static_cast<uint8_t>(v)));
      sink = sink + static_cast<uint16_t>(sign_extend<int16_t, int16_t>(static_cast<int16_t>(v))) + sign_extend<uint16_t, uint16_t>(static_cast<uint16_t>(v)) + sign_extend<uint16_t, int16_t>(static_cast<int16_t>(v));
      n++;
    }
    r.hist["sign_extend<same width>:executed (not compared)"] += n;
  }
  r.bound = "bswap8: all 256; bswap16 + bswap<u16/s16>: all 65536; sign_extend<R,S>: all values of S in {int8,uint8,int16,uint16} x every strictly wider R in {16,32,64-bit signed/unsigned} plus R/S among long long, unsigned long long, char, char16_t, char32_t; same-width 8/16-bit instantiations executed only";
}

VF_SECTION(bswap24, 16, 16, 120) {
  uint64_t ok_b = 0, ok_s = 0, ok_e = 0, ok_g = 0;
  r.note("bswap24");
  for (uint32_t v = 0; v < 0x1000000; v++) {
    if (!r.take()) continue;
    if (r.wants_desc()) r.desc(vf::fmt("bswap24 / bswap24s / ext24 on 0x%06X", v));
    uint64_t want = rev_lanes(v, 3);
    uint32_t got = bswap24(v);
    bool bad = got != want;
    judge(r, ok_b, "bswap24", "wrong-value", bad, v, got, want);
    if (!bad && bswap24(got) != v) r.fail("bswap24:not-involution", [&] { return vf::fmt("bswap24(bswap24(0x%06X)) = 0x%06X", v, bswap24(got)); });
    // signed form: input given zero-extended and sign-extended (both denote the same 24-bit value)
    int32_t wants = static_cast<int32_t>(sext(want, 24));
    int32_t sx = static_cast<int32_t>(sext(v, 24));
    int32_t gs1 = bswap24s(static_cast<int32_t>(v));
    int32_t gs2 = bswap24s(sx);
    bool bads = gs1 != wants || gs2 != wants;
    judge(r, ok_s, "bswap24s", "wrong-value", bads, v, static_cast<uint32_t>(gs1 != wants ? gs1 : gs2), static_cast<uint32_t>(wants));
    if (!bads && bswap24s(gs2) != sx) r.fail("bswap24s:not-involution", [&] { return vf::fmt("bswap24s(bswap24s(%d)) = %d", sx, bswap24s(gs2)); });
    int32_t ge = ext24(v);
    judge(r, ok_e, "ext24", "wrong-value", ge != sx, v, static_cast<uint32_t>(ge), static_cast<uint32_t>(sx));
  }
  // bits above bit 23 are ignored by bswap24 ("reverses the low 24 bits")
  r.note("bswap24-high-garbage");
  auto lanes = lane_set(L9, 9, 3);
  static const uint32_t garbage[4] = {0x01000000u, 0x80000000u, 0xA5000000u, 0xFF000000u};
  for (uint64_t l : lanes) {
    for (uint32_t g : garbage) {
      if (!r.take()) continue;
      uint32_t in = static_cast<uint32_t>(l) | g;
      uint64_t want = rev_lanes(l, 3);
      uint32_t got = bswap24(in);
      judge(r, ok_g, "bswap24", "high-bits-not-ignored", got != want, in, got, want);
      int32_t gs = bswap24s(static_cast<int32_t>(in));
      if (gs != static_cast<int32_t>(sext(want, 24))) r.fail("bswap24s:high-bits-not-ignored", [&] { return vf::fmt("bswap24s(0x%08X) = 0x%08X, expected 0x%08X", in, (uint32_t)gs, (uint32_t)sext(want, 24)); });
    }
  }
  r.hist["bswap24:lanes-reversed+involution"] += ok_b;
  r.hist["bswap24s:reversed+sign-extended+involution"] += ok_s;
  r.hist["ext24:top-bit-replicated"] += ok_e;
  r.hist["bswap24/24s:bits-above-23-ignored"] += ok_g;
  r.bound = "bswap24, bswap24s (zero- and sign-extended argument), ext24: all 2^24 values; bswap24/24s with 4 garbage patterns above bit 23 x (L9^3 + walking + all-distinct)";
}

VF_SECTION(bswap32, 4, 4, 120) {
  uint64_t okc = 0;
  r.note("bswap32");
  auto vals = with_pow2(lane_set(L9, 9, 4), 32);
  for (uint64_t v : vals) {
    if (!r.take()) continue;
    uint32_t x = static_cast<uint32_t>(v);
    if (r.wants_desc()) r.desc(vf::fmt("bswap32 / bswap32f (both directions) / bswap<> / sign_extend<64,32> on 0x%08X", x));
    uint64_t got = 0, want = 0;
    const char* k = check32(x, got, want);
    r.nontriv();
    if (k) r.fail(k, [&] { return vf::fmt("%s: input 0x%08X: observed 0x%llX, expected 0x%llX", k, x, (unsigned long long)got, (unsigned long long)want); });
    else okc++;
  }
  r.hist["32-bit helpers:all-laws-hold"] += okc;
  r.bound = "bswap32, bswap32f(uint32), bswap32f(float), generic bswap<> forms, sign_extend<int64/uint64, uint32/int32>: L9^4 lane values + 64 walking-bit + 2 all-distinct + every 2^k-1, 2^k, 2^k+1 and negative";
}

VF_SECTION(bswap32all, 0, 16, 300) {
  uint64_t okc = 0;
  r.note("bswap32");
  for (uint32_t hi = 0; hi < 0x10000; hi++) {
    if (!r.take()) continue;
    if (r.wants_desc()) r.desc(vf::fmt("32-bit helpers on all 65536 values 0x%04X0000..0x%04XFFFF", hi, hi));
    for (uint32_t lo = 0; lo < 0x10000; lo++) {
      uint32_t x = (hi << 16) | lo;
      uint64_t got = 0, want = 0;
      const char* k = check32(x, got, want);
      if (k) r.fail(k, [&] { return vf::fmt("%s: input 0x%08X: observed 0x%llX, expected 0x%llX", k, x, (unsigned long long)got, (unsigned long long)want); });
      else okc++;
    }
    r.evals += 0xFFFF;
    r.nontrivial += 0x10000;
  }
  r.hist["32-bit helpers:all-laws-hold"] += okc;
  r.bound = "bswap32, bswap32f (both directions), generic bswap<> forms, sign_extend<int64/uint64, uint32/int32>: all 2^32 values (one indexed case = 65536 values)";
}

VF_SECTION(bswap48_64, 8, 8, 120) {
  uint64_t ok48 = 0, ok48s = 0, oke = 0, ok64 = 0, okg = 0;
  r.note("bswap48");
  auto v48 = with_pow2(lane_set(L5, 5, 6), 48);
  for (uint64_t v : v48) {
    if (!r.take()) continue;
    if (r.wants_desc()) r.desc(vf::fmt("bswap48 / bswap48s / ext48 on 0x%012llX", (unsigned long long)v));
    uint64_t want = rev_lanes(v, 6);
    uint64_t got = bswap48(v);
    bool bad = got != want;
    judge(r, ok48, "bswap48", "wrong-value", bad, v, got, want);
    if (!bad && bswap48(got) != v) r.fail("bswap48:not-involution", [&] { return vf::fmt("bswap48(bswap48(0x%012llX)) = 0x%012llX", (unsigned long long)v, (unsigned long long)bswap48(got)); });
    int64_t wants = sext(want, 48);
    int64_t sx = sext(v, 48);
    int64_t gs1 = bswap48s(static_cast<int64_t>(v));
    int64_t gs2 = bswap48s(sx);
    bool bads = gs1 != wants || gs2 != wants;
    judge(r, ok48s, "bswap48s", "wrong-value", bads, v, static_cast<uint64_t>(gs1 != wants ? gs1 : gs2), static_cast<uint64_t>(wants));
    if (!bads && bswap48s(gs2) != sx) r.fail("bswap48s:not-involution", [&] { return vf::fmt("bswap48s(bswap48s(%lld)) = %lld", (long long)sx, (long long)bswap48s(gs2)); });
    r.note("ext48");
    int64_t ge = ext48(v);
    judge(r, oke, "ext48", "wrong-value", ge != sx, v, static_cast<uint64_t>(ge), static_cast<uint64_t>(sx));
    r.note("bswap48");
  }
  static const uint64_t garbage[4] = {0x0001000000000000ull, 0x8000000000000000ull, 0xA5A5000000000000ull, 0xFFFF000000000000ull};
  for (uint64_t l : v48) {
    for (uint64_t g : garbage) {
      if (!r.take()) continue;
      uint64_t in = l | g;
      uint64_t want = rev_lanes(l, 6);
      uint64_t got = bswap48(in);
      judge(r, okg, "bswap48", "high-bits-not-ignored", got != want, in, got, want);
      int64_t gs = bswap48s(static_cast<int64_t>(in));
      if (gs != sext(want, 48)) r.fail("bswap48s:high-bits-not-ignored", [&] { return vf::fmt("bswap48s(0x%016llX) = 0x%016llX, expected 0x%016llX", (unsigned long long)in, (unsigned long long)gs, (unsigned long long)sext(want, 48)); });
    }
  }
  r.note("bswap64");
  auto v64 = with_pow2(lane_set(L5, 5, 8), 64);
  for (uint64_t v : v64) {
    if (!r.take()) continue;
    uint64_t want = rev_lanes(v, 8);
    uint64_t got = bswap64(v);
    r.nontriv();
    const char* k = nullptr;
    uint64_t g = got;
    if (got != want) k = "bswap64:wrong-value";
    else if (bswap64(got) != v) { k = "bswap64:not-involution"; g = bswap64(got); }
    else if ((g = bswap<uint64_t>(v)) != want || (g = static_cast<uint64_t>(bswap<int64_t>(static_cast<int64_t>(v)))) != want) k = "bswap<64-bit>:wrong-value";
    else if ((g = bits_of(bswap64f(v))) != want) k = "bswap64f(uint64):wrong-value";
    else if ((g = bits_of(bswap<uint64_t, double>(v))) != want) k = "bswap<uint64,double>:wrong-value";
    else if ((g = bswap64f(from_bits<double>(v))) != want) k = "bswap64f(double):wrong-value";
    else if ((g = bswap<double, uint64_t>(from_bits<double>(v))) != want) k = "bswap<double,uint64>:wrong-value";
    else if ((g = bits_of(bswap64f(bswap64f(from_bits<double>(v))))) != v) k = "bswap64f:not-involution";
    if (k) r.fail(k, [&] { return vf::fmt("%s: input 0x%016llX: observed 0x%016llX, lane-reversed input is 0x%016llX", k, (unsigned long long)v, (unsigned long long)g, (unsigned long long)want); });
    else ok64++;
  }
  r.hist["bswap48:lanes-reversed+involution"] += ok48;
  r.hist["bswap48s:reversed+sign-extended+involution"] += ok48s;
  r.hist["ext48:top-bit-replicated"] += oke;
  r.hist["bswap48/48s:bits-above-47-ignored"] += okg;
  r.hist["64-bit helpers:all-laws-hold"] += ok64;
  r.bound = "bswap48, bswap48s, ext48: L5^6 = 15625 lane values + 96 walking-bit + 2 all-distinct + every 2^k-1, 2^k, 2^k+1 and negative (+ 4 garbage patterns above bit 47 for bswap48/48s); bswap64, bswap64f (both directions), generic bswap<> forms: L5^8 = 390625 + 128 walking-bit + 2 all-distinct + every 2^k-1, 2^k, 2^k+1 and negative";
}


// ---------------------------------------------------------------------------------------------
// Call histories of the pure helpers: every helper must return the same value for the same argument
// whatever was called before.  For every ordered pair of helpers (f, g) and every ordered pair of
// boundary arguments (a, b): f(a), g(b), f(a) - all three compared with the reference (covers f == g:
// larger-then-smaller, smaller-then-larger, A-B-A; and g != f: a call to another helper in between).
namespace {

struct Helper {
  const char* name;      // call-site name for keys
  const char* key;       // key stem (function family)
  uint64_t (*call)(uint64_t);
  uint64_t (*ref)(uint64_t);
  int in_bits;           // arguments are taken from the boundary set of this width
  bool clean_only;       // argument must be below 2^in_bits (ext24 / ext48)
};

#define H_CALL(EXPR) [](uint64_t a) -> uint64_t { return static_cast<uint64_t>(EXPR); }
template <int N> uint64_t ref_rev(uint64_t a) { return rev_lanes(a, N); }
template <int N, int OUT> uint64_t ref_rev_s(uint64_t a) {
  uint64_t v = static_cast<uint64_t>(sext(rev_lanes(a, N), N * 8));
  return OUT == 64 ? v : (v & ((1ull << (OUT % 64)) - 1));
}
template <int N, int OUT> uint64_t ref_sext(uint64_t a) {
  uint64_t v = static_cast<uint64_t>(sext(a, N));
  return OUT == 64 ? v : (v & ((1ull << (OUT % 64)) - 1));
}

const Helper helpers[] = {
    {"bswap8", "bswap8", H_CALL(bswap8(static_cast<uint8_t>(a))), ref_rev<1>, 8, false},
    {"bswap16", "bswap16", H_CALL(bswap16(static_cast<uint16_t>(a))), ref_rev<2>, 16, false},
    {"bswap<uint16_t>", "bswap<16-bit>", H_CALL(bswap<uint16_t>(static_cast<uint16_t>(a))), ref_rev<2>, 16, false},
    {"bswap<int16_t>", "bswap<16-bit>", H_CALL(static_cast<uint16_t>(bswap<int16_t>(static_cast<int16_t>(a)))), ref_rev<2>, 16, false},
    {"bswap24", "bswap24", H_CALL(bswap24(static_cast<uint32_t>(a))), ref_rev<3>, 32, false},
    {"bswap24s", "bswap24s", H_CALL(static_cast<uint32_t>(bswap24s(static_cast<int32_t>(a)))), ref_rev_s<3, 32>, 32, false},
    {"ext24", "ext24", H_CALL(static_cast<uint32_t>(ext24(static_cast<uint32_t>(a)))), ref_sext<24, 32>, 24, true},
    {"bswap32", "bswap32", H_CALL(bswap32(static_cast<uint32_t>(a))), ref_rev<4>, 32, false},
    {"bswap<uint32_t>", "bswap<32-bit>", H_CALL(bswap<uint32_t>(static_cast<uint32_t>(a))), ref_rev<4>, 32, false},
    {"bswap<int32_t>", "bswap<32-bit>", H_CALL(static_cast<uint32_t>(bswap<int32_t>(static_cast<int32_t>(a)))), ref_rev<4>, 32, false},
    {"bswap32f(uint32_t)", "bswap32f(uint32)", H_CALL(bits_of(bswap32f(static_cast<uint32_t>(a)))), ref_rev<4>, 32, false},
    {"bswap32f(float)", "bswap32f(float)", H_CALL(bswap32f(from_bits<float>(a))), ref_rev<4>, 32, false},
    {"bswap<float,uint32_t>", "bswap<float,uint32>", H_CALL((bswap<float, uint32_t>(from_bits<float>(a)))), ref_rev<4>, 32, false},
    {"bswap<uint32_t,float>", "bswap<uint32,float>", H_CALL(bits_of(bswap<uint32_t, float>(static_cast<uint32_t>(a)))), ref_rev<4>, 32, false},
    {"bswap48", "bswap48", H_CALL(bswap48(a)), ref_rev<6>, 64, false},
    {"bswap48s", "bswap48s", H_CALL(bswap48s(static_cast<int64_t>(a))), ref_rev_s<6, 64>, 64, false},
    {"ext48", "ext48", H_CALL(ext48(a)), ref_sext<48, 64>, 48, true},
    {"bswap64", "bswap64", H_CALL(bswap64(a)), ref_rev<8>, 64, false},
    {"bswap<uint64_t>", "bswap<64-bit>", H_CALL(bswap<uint64_t>(a)), ref_rev<8>, 64, false},
    {"bswap<int64_t>", "bswap<64-bit>", H_CALL(bswap<int64_t>(static_cast<int64_t>(a))), ref_rev<8>, 64, false},
    {"bswap64f(uint64_t)", "bswap64f(uint64)", H_CALL(bits_of(bswap64f(a))), ref_rev<8>, 64, false},
    {"bswap64f(double)", "bswap64f(double)", H_CALL(bswap64f(from_bits<double>(a))), ref_rev<8>, 64, false},
    {"bswap<double,uint64_t>", "bswap<double,uint64>", H_CALL((bswap<double, uint64_t>(from_bits<double>(a)))), ref_rev<8>, 64, false},
    {"bswap<uint64_t,double>", "bswap<uint64,double>", H_CALL(bits_of(bswap<uint64_t, double>(a))), ref_rev<8>, 64, false},
    {"sign_extend<int16_t,int8_t>", "sign_extend", H_CALL(static_cast<uint16_t>(sign_extend<int16_t, int8_t>(static_cast<int8_t>(a)))), ref_sext<8, 16>, 8, false},
    {"sign_extend<uint32_t,uint8_t>", "sign_extend", H_CALL((sign_extend<uint32_t, uint8_t>(static_cast<uint8_t>(a)))), ref_sext<8, 32>, 8, false},
    {"sign_extend<int64_t,int8_t>", "sign_extend", H_CALL((sign_extend<int64_t, int8_t>(static_cast<int8_t>(a)))), ref_sext<8, 64>, 8, false},
    {"sign_extend<int32_t,int16_t>", "sign_extend", H_CALL(static_cast<uint32_t>(sign_extend<int32_t, int16_t>(static_cast<int16_t>(a)))), ref_sext<16, 32>, 16, false},
    {"sign_extend<uint64_t,uint16_t>", "sign_extend", H_CALL((sign_extend<uint64_t, uint16_t>(static_cast<uint16_t>(a)))), ref_sext<16, 64>, 16, false},
    {"sign_extend<int64_t,int32_t>", "sign_extend", H_CALL((sign_extend<int64_t, int32_t>(static_cast<int32_t>(a)))), ref_sext<32, 64>, 32, false},
    {"sign_extend<uint64_t,uint32_t>", "sign_extend", H_CALL((sign_extend<uint64_t, uint32_t>(static_cast<uint32_t>(a)))), ref_sext<32, 64>, 32, false},
};
constexpr size_t NHELPERS = sizeof(helpers) / sizeof(helpers[0]);

// boundary arguments of a width: values that differ only in their high half, only in their low half, byte
// palindromes, byte-reversed twins, sign boundaries of every sub-width
std::vector<uint64_t> helper_args(int bits, bool clean_only) {
  const uint64_t mask = bits == 64 ? ~0ull : ((1ull << bits) - 1);
  std::vector<uint64_t> b = {0, 1, 0x80, 0xFF, 0x100, 0x7FFF, 0x8000, 0x800000, 0x7FFFFF, 0xFFFFFF, 0x1000000, 0x80000000ull, 0x7FFFFFFFull, 0xFFFFFFFFull, 0x100000000ull, 0x100000001ull, 0x200000001ull,
      0x0000000100000000ull, 0x800000000000ull, 0x7FFFFFFFFFFFull, 0xFFFFFFFFFFFFull, 0x1000000000000ull, 0xFFFF800000000000ull, 0x8000000000000000ull, 0x7FFFFFFFFFFFFFFFull, 0xFFFFFFFFFFFFFFFFull,
      0x0102030405060708ull, 0x0807060504030201ull, 0x0102030404030201ull, 0xA5A5A5A5A5A5A5A5ull, 0xFF00FF00FF00FF00ull, 0x0000000000FF0001ull, 0x00000000FF000001ull};
  std::vector<uint64_t> v;
  for (uint64_t x : b) {
    if (clean_only || bits < 32 || bits == 48) x &= mask;
    else if (bits == 32) x &= 0xFFFFFFFFull;
    bool seen = false;
    for (uint64_t y : v) seen = seen || y == x;
    if (!seen) v.push_back(x);
  }
  return v;
}

}  // namespace

VF_SECTION(bswap_hist, 8, 8, 120) {
  std::vector<std::vector<uint64_t>> args;
  for (size_t i = 0; i < NHELPERS; i++) args.push_back(helper_args(helpers[i].in_bits, helpers[i].clean_only));
  uint64_t okc = 0;
  for (size_t fi = 0; fi < NHELPERS; fi++) {
    const Helper& f = helpers[fi];
    r.note(std::string("history ") + f.name);
    for (size_t gi = 0; gi < NHELPERS; gi++) {
      const Helper& g = helpers[gi];
      for (uint64_t a : args[fi])
        for (uint64_t b : args[gi]) {
          if (!r.take()) continue;
          if (r.wants_desc()) r.desc(vf::fmt("%s(0x%llX); %s(0x%llX); %s(0x%llX)", f.name, (unsigned long long)a, g.name, (unsigned long long)b, f.name, (unsigned long long)a));
          r.poison_errno();
          uint64_t r1 = f.call(a), r2 = g.call(b), r3 = f.call(a);
          uint64_t w1 = f.ref(a), w2 = g.ref(b);
          r.nontriv();
          if (r1 != w1 || r2 != w2 || r3 != w1) {
            const Helper& bad = (r1 != w1 || r3 != w1) ? f : g;
            r.fail(std::string(bad.key) + ":wrong-value-in-call-sequence", [&] {
              return vf::fmt("calls in this order: %s(0x%llX) = 0x%llX (expected 0x%llX); %s(0x%llX) = 0x%llX (expected 0x%llX); %s(0x%llX) = 0x%llX (expected 0x%llX)", f.name, (unsigned long long)a,
                  (unsigned long long)r1, (unsigned long long)w1, g.name, (unsigned long long)b, (unsigned long long)r2, (unsigned long long)w2, f.name, (unsigned long long)a, (unsigned long long)r3,
                  (unsigned long long)w1);
            });
          } else okc++;
        }
    }
  }
  r.hist["helper call histories f(a); g(b); f(a):all three equal the reference"] += okc;
  r.bound = "31 helper entry points (bswap8/16/24/24s/32/48/48s/64, bswap32f/bswap64f both directions, every generic bswap<> form, ext24, ext48, 7 sign_extend instantiations) x every ordered pair of helpers (f, g) x every ordered pair of up to 33 boundary arguments (a, b): f(a), g(b), f(a) each compared with the byte-lane / arithmetic reference";
}
