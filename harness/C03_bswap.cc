// C03 (part): bswap helpers, ext24/ext48, sign_extend.  See C03.cc / C03_common.hh.
#include <map>
#include "C03_common.hh"

// ---------------------------------------------------------------------------------------------
// bswap helpers, ext24/ext48, sign_extend
namespace {

struct FnTally {
  std::map<std::string, uint64_t> n;
  void flush(vf::Run& r) {
    for (auto& [k, v] : n) r.hist[k] += v;
  }
};

// one (function, input) check: `got` vs `want`, with an optional involution observation
inline void judge(vf::Run& r, uint64_t& okc, const char* fn, const char* kind, bool bad, uint64_t in, uint64_t got, uint64_t want, const char* keyfn = nullptr) {
  r.nontriv();
  if (bad) r.fail(std::string(keyfn ? keyfn : fn) + ":" + kind, [&] { return vf::fmt("%s(0x%llX) = 0x%llX, expected 0x%llX", fn, (unsigned long long)in, (unsigned long long)got, (unsigned long long)want); });
  else okc++;
}

template <class R, class S>
void check_sign_extend(vf::Run& r, const char* name, const std::vector<uint64_t>& inputs) {
  uint64_t okc = 0;
  for (uint64_t in : inputs) {
    if (!r.take()) continue;
    S src = from_bits<S>(in);
    R got = sign_extend<R, S>(src);
    R want = static_cast<R>(sext(in, sizeof(S) * 8));
    if (r.wants_desc()) r.desc(vf::fmt("%s(0x%llX)", name, (unsigned long long)in));
    judge(r, okc, name, "wrong-value", bits_of(got) != bits_of(want), in, bits_of(got), bits_of(want), "sign_extend");
  }
  r.hist[std::string(name) + ":top-bit-replicated"] += okc;
}

void check_small(vf::Run& r) {
  uint64_t ok16 = 0, ok8 = 0;
  r.note("bswap16");
  for (uint32_t v = 0; v < 0x10000; v++) {
    if (!r.take()) continue;
    uint16_t x = static_cast<uint16_t>(v);
    uint16_t got = bswap16(x);
    uint64_t want = rev_lanes(x, 2);
    if (r.wants_desc()) r.desc(vf::fmt("bswap16(0x%04X)", v));
    bool bad = got != want;
    judge(r, ok16, "bswap16", "wrong-value", bad, v, got, want);
    if (!bad) {
      if (bswap16(got) != x) r.fail("bswap16:not-involution", [&] { return vf::fmt("bswap16(bswap16(0x%04X)) = 0x%04X", v, bswap16(got)); });
      if (bswap<uint16_t>(x) != want || static_cast<uint16_t>(bswap<int16_t>(static_cast<int16_t>(x))) != want)
        r.fail("bswap<16-bit>:wrong-value", [&] { return vf::fmt("bswap<uint16_t>(0x%04X) = 0x%04X, bswap<int16_t> = 0x%04X, expected 0x%04llX", v, bswap<uint16_t>(x), (uint16_t)bswap<int16_t>((int16_t)x), (unsigned long long)want); });
    }
  }
  r.hist["bswap16:lanes-reversed+involution"] += ok16;
  r.note("bswap8");
  for (uint32_t v = 0; v < 0x100; v++) {
    if (!r.take()) continue;
    uint8_t x = static_cast<uint8_t>(v);
    judge(r, ok8, "bswap8", "wrong-value", bswap8(x) != x || bswap<uint8_t>(x) != x || static_cast<uint8_t>(bswap<int8_t>(static_cast<int8_t>(x))) != x, v, bswap8(x), v);
  }
  r.hist["bswap8:identity"] += ok8;
}

// 32-bit helpers on one input; returns the key suffix of the first failure or nullptr
inline const char* check32(uint32_t x, uint64_t& got, uint64_t& want) {
  want = rev_lanes(x, 4);
  uint32_t g = bswap32(x);
  got = g;
  if (g != want) return "bswap32:wrong-value";
  if (bswap32(g) != x) { got = bswap32(g); want = x; return "bswap32:not-involution"; }
  uint32_t g2 = bswap<uint32_t>(x);
  if (g2 != want) { got = g2; return "bswap<32-bit>:wrong-value"; }
  uint32_t g3 = static_cast<uint32_t>(bswap<int32_t>(static_cast<int32_t>(x)));
  if (g3 != want) { got = g3; return "bswap<32-bit>:wrong-value"; }
  // uint32 -> float: the float's bit pattern is the reversed input
  float f = bswap32f(x);
  if (bits_of(f) != want) { got = bits_of(f); return "bswap32f(uint32):wrong-value"; }
  float f2 = bswap<uint32_t, float>(x);
  if (bits_of(f2) != want) { got = bits_of(f2); return "bswap<uint32,float>:wrong-value"; }
  // float -> uint32: reversed bit pattern of the float
  float fx = from_bits<float>(x);
  uint32_t u = bswap32f(fx);
  if (u != want) { got = u; return "bswap32f(float):wrong-value"; }
  uint32_t u2 = bswap<float, uint32_t>(fx);
  if (u2 != want) { got = u2; return "bswap<float,uint32>:wrong-value"; }
  // round trip float -> raw -> float is bit exact
  float back = bswap32f(u);
  if (bits_of(back) != x) { got = bits_of(back); want = x; return "bswap32f:not-involution"; }
  // sign_extend from 32 bits
  int64_t se = static_cast<int64_t>(static_cast<int32_t>(x));
  uint64_t s1 = static_cast<uint64_t>(sign_extend<int64_t, uint32_t>(x));
  uint64_t s2 = sign_extend<uint64_t, uint32_t>(x);
  uint64_t s3 = static_cast<uint64_t>(sign_extend<int64_t, int32_t>(static_cast<int32_t>(x)));
  want = static_cast<uint64_t>(sext(x, 32));
  if (static_cast<uint64_t>(se) != want) __builtin_trap();  // the two reference formulations agree
  if (s1 != want) { got = s1; return "sign_extend:wrong-value"; }
  if (s2 != want) { got = s2; return "sign_extend:wrong-value"; }
  if (s3 != want) { got = s3; return "sign_extend:wrong-value"; }
  return nullptr;
}

}  // namespace

VF_SECTION(bswap_small, 4, 4, 120) {
  check_small(r);
  std::vector<uint64_t> all8, all16;
  for (uint32_t v = 0; v < 0x100; v++) all8.push_back(v);
  for (uint32_t v = 0; v < 0x10000; v++) all16.push_back(v);
  r.note("sign_extend");
#define SE(R, S, SET) check_sign_extend<R, S>(r, "sign_extend<" #R "," #S ">", SET);
  SE(int16_t, uint8_t, all8) SE(uint16_t, uint8_t, all8) SE(int32_t, uint8_t, all8) SE(uint32_t, uint8_t, all8) SE(int64_t, uint8_t, all8) SE(uint64_t, uint8_t, all8)
  SE(int16_t, int8_t, all8) SE(uint16_t, int8_t, all8) SE(int32_t, int8_t, all8) SE(uint32_t, int8_t, all8) SE(int64_t, int8_t, all8) SE(uint64_t, int8_t, all8)
  SE(int32_t, uint16_t, all16) SE(uint32_t, uint16_t, all16) SE(int64_t, uint16_t, all16) SE(uint64_t, uint16_t, all16)
  SE(int32_t, int16_t, all16) SE(uint32_t, int16_t, all16) SE(int64_t, int16_t, all16) SE(uint64_t, int16_t, all16)
#undef SE
  r.bound = "bswap8: all 256; bswap16 + bswap<u16/s16>: all 65536; sign_extend<R,S>: all values of S in {int8,uint8,int16,uint16} x every strictly wider R in {16,32,64-bit signed/unsigned}";
}

VF_SECTION(bswap24, 16, 16, 120) {
  uint64_t ok_b = 0, ok_s = 0, ok_e = 0, ok_g = 0;
  r.note("bswap24");
  for (uint32_t v = 0; v < 0x1000000; v++) {
    if (!r.take()) continue;
    if (r.wants_desc()) r.desc(vf::fmt("bswap24 / bswap24s / ext24 on 0x%06X", v));
    uint64_t want = rev_lanes(v, 3);
    uint32_t got = bswap24(v);
    bool bad = got != want;
    judge(r, ok_b, "bswap24", "wrong-value", bad, v, got, want);
    if (!bad && bswap24(got) != v) r.fail("bswap24:not-involution", [&] { return vf::fmt("bswap24(bswap24(0x%06X)) = 0x%06X", v, bswap24(got)); });
    // signed form: input given zero-extended and sign-extended (both denote the same 24-bit value)
    int32_t wants = static_cast<int32_t>(sext(want, 24));
    int32_t sx = static_cast<int32_t>(sext(v, 24));
    int32_t gs1 = bswap24s(static_cast<int32_t>(v));
    int32_t gs2 = bswap24s(sx);
    bool bads = gs1 != wants || gs2 != wants;
    judge(r, ok_s, "bswap24s", "wrong-value", bads, v, static_cast<uint32_t>(gs1 != wants ? gs1 : gs2), static_cast<uint32_t>(wants));
    if (!bads && bswap24s(gs2) != sx) r.fail("bswap24s:not-involution", [&] { return vf::fmt("bswap24s(bswap24s(%d)) = %d", sx, bswap24s(gs2)); });
    int32_t ge = ext24(v);
    judge(r, ok_e, "ext24", "wrong-value", ge != sx, v, static_cast<uint32_t>(ge), static_cast<uint32_t>(sx));
  }
  // bits above bit 23 are ignored by bswap24 ("reverses the low 24 bits")
  r.note("bswap24-high-garbage");
  auto lanes = lane_set(L9, 9, 3);
  static const uint32_t garbage[4] = {0x01000000u, 0x80000000u, 0xA5000000u, 0xFF000000u};
  for (uint64_t l : lanes) {
    for (uint32_t g : garbage) {
      if (!r.take()) continue;
      uint32_t in = static_cast<uint32_t>(l) | g;
      uint64_t want = rev_lanes(l, 3);
      uint32_t got = bswap24(in);
      judge(r, ok_g, "bswap24", "high-bits-not-ignored", got != want, in, got, want);
      int32_t gs = bswap24s(static_cast<int32_t>(in));
      if (gs != static_cast<int32_t>(sext(want, 24))) r.fail("bswap24s:high-bits-not-ignored", [&] { return vf::fmt("bswap24s(0x%08X) = 0x%08X, expected 0x%08X", in, (uint32_t)gs, (uint32_t)sext(want, 24)); });
    }
  }
  r.hist["bswap24:lanes-reversed+involution"] += ok_b;
  r.hist["bswap24s:reversed+sign-extended+involution"] += ok_s;
  r.hist["ext24:top-bit-replicated"] += ok_e;
  r.hist["bswap24/24s:bits-above-23-ignored"] += ok_g;
  r.bound = "bswap24, bswap24s (zero- and sign-extended argument), ext24: all 2^24 values; bswap24/24s with 4 garbage patterns above bit 23 x (L9^3 + walking + all-distinct)";
}

VF_SECTION(bswap32, 4, 4, 120) {
  uint64_t okc = 0;
  r.note("bswap32");
  auto vals = lane_set(L9, 9, 4);
  for (uint64_t v : vals) {
    if (!r.take()) continue;
    uint32_t x = static_cast<uint32_t>(v);
    if (r.wants_desc()) r.desc(vf::fmt("bswap32 / bswap32f (both directions) / bswap<> / sign_extend<64,32> on 0x%08X", x));
    uint64_t got = 0, want = 0;
    const char* k = check32(x, got, want);
    r.nontriv();
    if (k) r.fail(k, [&] { return vf::fmt("%s: input 0x%08X: observed 0x%llX, expected 0x%llX", k, x, (unsigned long long)got, (unsigned long long)want); });
    else okc++;
  }
  r.hist["32-bit helpers:all-laws-hold"] += okc;
  r.bound = "bswap32, bswap32f(uint32), bswap32f(float), generic bswap<> forms, sign_extend<int64/uint64, uint32/int32>: L9^4 lane values + 64 walking-bit + 2 all-distinct";
}

VF_SECTION(bswap32all, 0, 16, 300) {
  uint64_t okc = 0;
  r.note("bswap32");
  for (uint32_t hi = 0; hi < 0x10000; hi++) {
    if (!r.take()) continue;
    if (r.wants_desc()) r.desc(vf::fmt("32-bit helpers on all 65536 values 0x%04X0000..0x%04XFFFF", hi, hi));
    for (uint32_t lo = 0; lo < 0x10000; lo++) {
      uint32_t x = (hi << 16) | lo;
      uint64_t got = 0, want = 0;
      const char* k = check32(x, got, want);
      if (k) r.fail(k, [&] { return vf::fmt("%s: input 0x%08X: observed 0x%llX, expected 0x%llX", k, x, (unsigned long long)got, (unsigned long long)want); });
      else okc++;
    }
    r.evals += 0xFFFF;
    r.nontrivial += 0x10000;
  }
  r.hist["32-bit helpers:all-laws-hold"] += okc;
  r.bound = "bswap32, bswap32f (both directions), generic bswap<> forms, sign_extend<int64/uint64, uint32/int32>: all 2^32 values (one indexed case = 65536 values)";
}

VF_SECTION(bswap48_64, 8, 8, 120) {
  uint64_t ok48 = 0, ok48s = 0, oke = 0, ok64 = 0, okg = 0;
  r.note("bswap48");
  auto v48 = lane_set(L5, 5, 6);
  for (uint64_t v : v48) {
    if (!r.take()) continue;
    if (r.wants_desc()) r.desc(vf::fmt("bswap48 / bswap48s / ext48 on 0x%012llX", (unsigned long long)v));
    uint64_t want = rev_lanes(v, 6);
    uint64_t got = bswap48(v);
    bool bad = got != want;
    judge(r, ok48, "bswap48", "wrong-value", bad, v, got, want);
    if (!bad && bswap48(got) != v) r.fail("bswap48:not-involution", [&] { return vf::fmt("bswap48(bswap48(0x%012llX)) = 0x%012llX", (unsigned long long)v, (unsigned long long)bswap48(got)); });
    int64_t wants = sext(want, 48);
    int64_t sx = sext(v, 48);
    int64_t gs1 = bswap48s(static_cast<int64_t>(v));
    int64_t gs2 = bswap48s(sx);
    bool bads = gs1 != wants || gs2 != wants;
    judge(r, ok48s, "bswap48s", "wrong-value", bads, v, static_cast<uint64_t>(gs1 != wants ? gs1 : gs2), static_cast<uint64_t>(wants));
    if (!bads && bswap48s(gs2) != sx) r.fail("bswap48s:not-involution", [&] { return vf::fmt("bswap48s(bswap48s(%lld)) = %lld", (long long)sx, (long long)bswap48s(gs2)); });
    r.note("ext48");
    int64_t ge = ext48(v);
    judge(r, oke, "ext48", "wrong-value", ge != sx, v, static_cast<uint64_t>(ge), static_cast<uint64_t>(sx));
    r.note("bswap48");
  }
  static const uint64_t garbage[4] = {0x0001000000000000ull, 0x8000000000000000ull, 0xA5A5000000000000ull, 0xFFFF000000000000ull};
  for (uint64_t l : v48) {
    for (uint64_t g : garbage) {
      if (!r.take()) continue;
      uint64_t in = l | g;
      uint64_t want = rev_lanes(l, 6);
      uint64_t got = bswap48(in);
      judge(r, okg, "bswap48", "high-bits-not-ignored", got != want, in, got, want);
      int64_t gs = bswap48s(static_cast<int64_t>(in));
      if (gs != sext(want, 48)) r.fail("bswap48s:high-bits-not-ignored", [&] { return vf::fmt("bswap48s(0x%016llX) = 0x%016llX, expected 0x%016llX", (unsigned long long)in, (unsigned long long)gs, (unsigned long long)sext(want, 48)); });
    }
  }
  r.note("bswap64");
  auto v64 = lane_set(L5, 5, 8);
  for (uint64_t v : v64) {
    if (!r.take()) continue;
    uint64_t want = rev_lanes(v, 8);
    uint64_t got = bswap64(v);
    r.nontriv();
    const char* k = nullptr;
    uint64_t g = got;
    if (got != want) k = "bswap64:wrong-value";
    else if (bswap64(got) != v) { k = "bswap64:not-involution"; g = bswap64(got); }
    else if ((g = bswap<uint64_t>(v)) != want || (g = static_cast<uint64_t>(bswap<int64_t>(static_cast<int64_t>(v)))) != want) k = "bswap<64-bit>:wrong-value";
    else if ((g = bits_of(bswap64f(v))) != want) k = "bswap64f(uint64):wrong-value";
    else if ((g = bits_of(bswap<uint64_t, double>(v))) != want) k = "bswap<uint64,double>:wrong-value";
    else if ((g = bswap64f(from_bits<double>(v))) != want) k = "bswap64f(double):wrong-value";
    else if ((g = bswap<double, uint64_t>(from_bits<double>(v))) != want) k = "bswap<double,uint64>:wrong-value";
    else if ((g = bits_of(bswap64f(bswap64f(from_bits<double>(v))))) != v) k = "bswap64f:not-involution";
    if (k) r.fail(k, [&] { return vf::fmt("%s: input 0x%016llX: observed 0x%016llX, lane-reversed input is 0x%016llX", k, (unsigned long long)v, (unsigned long long)g, (unsigned long long)want); });
    else ok64++;
  }
  r.hist["bswap48:lanes-reversed+involution"] += ok48;
  r.hist["bswap48s:reversed+sign-extended+involution"] += ok48s;
  r.hist["ext48:top-bit-replicated"] += oke;
  r.hist["bswap48/48s:bits-above-47-ignored"] += okg;
  r.hist["64-bit helpers:all-laws-hold"] += ok64;
  r.bound = "bswap48, bswap48s, ext48: L5^6 = 15625 lane values + 96 walking-bit + 2 all-distinct (+ 4 garbage patterns above bit 47 for bswap48/48s); bswap64, bswap64f (both directions), generic bswap<> forms: L5^8 = 390625 + 128 walking-bit + 2 all-distinct";
}

