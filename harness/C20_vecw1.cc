// C20 (vectors, boundary components) — part 1 of 3, see C20_vecw.hh
#include "C20_vecw.hh"

VF_SECTION(vecwide1, 16, 16, 90) { wide_section<int64_t, uint32_t>(r); }
