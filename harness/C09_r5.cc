// C09 round-5 section (same oracle as the other parser sections: c09::check_parse = totality + reference evaluator).
//
//   floatgrid : the decimal text -> binary conversion of the numeric constructs of parse_data_string as a grid
//               (digit-string length / shape) x (position relative to a rounding boundary) x (binade):
//
//               for every ANCHOR (a float / double bit pattern b; list below: around 1, 2^24 / 2^53, 0.1, 10, 1e10, 1e-10,
//               1e22/1e23, 1e30, 1e-30, the smallest normal, the largest and smallest denormals, zero, the largest
//               finite value, every one with both mantissa parities and on both sides of a power of two) the EXACT
//               decimal expansion of the midpoint between b and its successor is computed with decimal big-number
//               arithmetic, and these texts are derived from it:
//                 tie        the midpoint itself, also with 1 / 2 / 40 zeros appended        -> the neighbour with even mantissa
//                 up-k       midpoint followed by k-1 zeros and a 1, k = 1..40                  -> upper neighbour
//                 down-k     midpoint minus one unit in its last place followed by k nines     -> lower neighbour
//                 prefix-n   the first n significant digits of the midpoint (n = 1..60 and a ladder up to its full
//                            length) and the same prefix plus one unit in its last place           (reference only)
//                 exact      the exact expansions of b and of its successor                      -> themselves
//                 padded     tie / up-1 / up-40 / down-1 / down-40 with 1, 20, 400 leading zeros
//               x {positional notation, d.ddd e+-x notation} x sign x {little endian, $ big endian} x {% float, %% double}
//               (every text goes through BOTH constructs).
//
//               Expected bytes: the reference evaluator (ref_eval: glibc strtof / strtod, correctly rounded; a `%` float
//               obtained by rounding twice, text -> double -> float, is NOT accepted any more) and, for the families
//               marked "->", additionally the neighbour known by construction (reference self-check).  Every text is
//               written to fgrid.<shard>.dat and re-evaluated by oracles/C09.py with exact integer arithmetic (nearest
//               binary32 / binary64 to the exact decimal, ties to even, overflow to infinity, gradual underflow).
//
//               Integer constructs: # / ## / ### / #### at the borders of each width, plain and with long zero-padded or
//               over-long digit strings; zero-padded and over-long numbers are outside the documented syntax (strtoull
//               base 0 reads a leading 0 as octal) and executed for totality only.
#include <float.h>

#include <set>

#include "C09_common.hh"

using namespace c09;

namespace {

// ---- exact decimal arithmetic on digit strings ---------------------------------------------------------------------

// decimal digits (most significant first) of a non-negative integer times a small factor
void mul_small(string& dg, unsigned f) {
  unsigned carry = 0;
  for (size_t i = dg.size(); i-- > 0;) {
    unsigned v = (unsigned)(dg[i] - '0') * f + carry;
    dg[i] = (char)('0' + v % 10);
    carry = v / 10;
  }
  while (carry) {
    dg.insert(dg.begin(), (char)('0' + carry % 10));
    carry /= 10;
  }
}

// A positive decimal: value = 0.<dg> x 10^pt  (dg has no leading zero unless the number was built that way)
struct Dec {
  string dg;
  long pt = 0;
};

// exact decimal expansion of m x 2^q (m > 0)
Dec exact_dec(uint64_t m, long q) {
  Dec d;
  d.dg = std::to_string(m);
  if (q >= 0) {
    for (long i = 0; i < q; i++) mul_small(d.dg, 2);
    d.pt = (long)d.dg.size();
  } else {
    for (long i = 0; i < -q; i++) mul_small(d.dg, 5);  // m 2^q = m 5^-q / 10^-q
    d.pt = (long)d.dg.size() + q;
  }
  return d;
}

Dec normalised(Dec d) {
  size_t z = 0;
  while (z + 1 < d.dg.size() && d.dg[z] == '0') z++;
  d.dg.erase(0, z);
  d.pt -= (long)z;
  return d;
}

// dg -> dg + 1 / dg - 1 in the last place (dg read as an integer)
Dec plus_ulp(Dec d) {
  size_t i = d.dg.size();
  while (i > 0 && d.dg[i - 1] == '9') d.dg[--i] = '0';
  if (i == 0) {
    d.dg.insert(d.dg.begin(), '1');
    d.pt++;
  } else d.dg[i - 1]++;
  return d;
}
Dec minus_ulp(Dec d) {  // d.dg is not all zeros
  size_t i = d.dg.size();
  while (i > 0 && d.dg[i - 1] == '0') d.dg[--i] = '9';
  d.dg[i - 1]--;
  return normalised(d);
}

string positional(const Dec& d, size_t pad) {
  string s(pad, '0');
  long n = (long)d.dg.size();
  if (d.pt <= 0) return s + "0." + string((size_t)-d.pt, '0') + d.dg;
  if (d.pt >= n) return s + d.dg + string((size_t)(d.pt - n), '0');
  return s + d.dg.substr(0, (size_t)d.pt) + "." + d.dg.substr((size_t)d.pt);
}
string scientific(const Dec& d, size_t pad) {
  string s(pad, '0');
  s += d.dg[0];
  if (d.dg.size() > 1) s += "." + d.dg.substr(1);
  long e = d.pt - 1;
  return s + (e < 0 ? "e-" : "e+") + std::to_string(e < 0 ? -e : e);
}

// ---- anchors -----------------------------------------------------------------------------------------------------

const uint32_t FLOAT_ANCHORS[] = {
    0x3F800000, 0x3F800001, 0x3F800002, 0x3F7FFFFF, 0x3F7FFFFE, 0x3FFFFFFF, 0x40000000,  // around 1 and 2
    0x4B7FFFFF, 0x4B800000, 0x4B800001,                                                    // 2^24: integers stop being exact
    0x3DCCCCCC, 0x3DCCCCCD, 0x41200000, 0x411FFFFF,                                        // 0.1, 10
    0x501502F9, 0x501502F8, 0x2EDBE6FF, 0x2EDBE6FE, 0x7149F2CA, 0x7149F2C9, 0x0DA24260, 0x0DA2425F,  // 1e10 1e-10 1e30 1e-30
    0x00800000, 0x00800001, 0x007FFFFF, 0x007FFFFE, 0x00400000, 0x003FFFFF,                // smallest normal, largest denormals
    0x00000000, 0x00000001, 0x00000002, 0x00000003,                                        // zero and the smallest denormals
    0x7F7FFFFF, 0x7F7FFFFE, 0x7F7FFFFD, 0x7F000000, 0x7EFFFFFF};                           // largest finite (successor: 2^128 = overflow)
const uint64_t DOUBLE_ANCHORS[] = {
    0x3FF0000000000000ull, 0x3FF0000000000001ull, 0x3FEFFFFFFFFFFFFFull, 0x3FEFFFFFFFFFFFFEull,  // around 1
    0x433FFFFFFFFFFFFFull, 0x4340000000000000ull, 0x4340000000000001ull,                         // 2^53
    0x3FB9999999999999ull, 0x3FB999999999999Aull,                                                 // 0.1
    0x4480F0CF064DD591ull, 0x4480F0CF064DD592ull, 0x44B52D02C7E14AF6ull, 0x44B52D02C7E14AF5ull,   // 1e22, 1e23
    0x0010000000000000ull, 0x0010000000000001ull, 0x000FFFFFFFFFFFFFull, 0x000FFFFFFFFFFFFEull,   // smallest normal, largest denormals
    0x0000000000000000ull, 0x0000000000000001ull, 0x0000000000000002ull,                          // zero and the smallest denormals
    0x7FEFFFFFFFFFFFFFull, 0x7FEFFFFFFFFFFFFEull, 0x7FE0000000000000ull, 0x7FDFFFFFFFFFFFFFull};  // largest finite (successor: 2^1024)

struct Token {
  Dec d;
  const char* family;
  int expect;  // 0: lower neighbour, 1: upper neighbour, 2: the neighbour with even mantissa, -1: reference only
  bool padded = false;  // also written with leading zeros
};

// all magnitudes derived from the midpoint between mant x 2^q and (mant + 1) x 2^q
// (full = false: only the tie, the shortest and longest tie-breakers and the two neighbours - used for the binade sweep)
vector<Token> tokens_for(uint64_t mant, long q, bool full) {
  vector<Token> T;
  Dec mid = exact_dec(2 * mant + 1, q - 1);
  T.push_back({mid, "tie", 2, true});
  for (size_t z : {1, 2, 40}) {
    if (!full) break;
    Dec t = mid;
    t.dg += string(z, '0');
    T.push_back({t, "tie+zeros", 2});
  }
  for (size_t k = 1; k <= 40; k++) {
    if (!full && k != 1 && k != 40) continue;
    Dec u = mid;
    u.dg += string(k - 1, '0') + "1";
    T.push_back({u, "up", 1, k == 1 || k == 40});
    Dec l = minus_ulp(mid);
    l.dg += string(k, '9');
    T.push_back({l, "down", 0, k == 1 || k == 40});
  }
  vector<size_t> lens;
  for (size_t n = 1; n <= 60; n++) lens.push_back(n);
  for (size_t n : {80, 100, 112, 150, 200, 400, 700, 760, 767}) lens.push_back(n);
  lens.push_back(mid.dg.size() - 1);
  size_t prev = 0;
  for (size_t n : lens) {
    if (!full) break;
    if (n <= prev || n >= mid.dg.size()) continue;
    prev = n;
    Dec p = mid;
    p.dg.resize(n);
    T.push_back({p, "prefix", -1});
    T.push_back({plus_ulp(p), "prefix+ulp", -1});
  }
  if (mant) T.push_back({exact_dec(mant, q), "exact-lower", 0});
  T.push_back({exact_dec(mant + 1, q), "exact-upper", 1});
  return T;
}

struct Variant {
  const Token* t;
  int notation;  // 0 positional, 1 scientific
  size_t pad;
};

string bits_hex(uint64_t v, int bytes) { return vf::fmt(bytes == 4 ? "%08llx" : "%016llx", (unsigned long long)v); }

}  // namespace

VF_SECTION(floatgrid, 16, 16, 120) {
  r.note("parse_data_string");
  bool exact = ExactStr::selftest();
  FILE* dat = nullptr;
  if (const char* od = getenv("VF_OUTDIR")) {
    if (*od && r.only < 0) dat = fopen((string(od) + vf::fmt("/fgrid.%llu.dat", (unsigned long long)r.shard)).c_str(), "a");
  }
  size_t ntok = 0, ntext = 0;
  std::set<string> seen;

  // one anchor: kind 0 = float (mantissa 24 bits), 1 = double (53 bits)
  auto anchor = [&](int kind, uint64_t bits, bool full) {
    const int P = kind ? 53 : 24, EB = kind ? 11 : 8;
    const uint64_t frac = bits & ((1ull << (P - 1)) - 1), ef = bits >> (P - 1);
    const uint64_t mant = ef ? frac | (1ull << (P - 1)) : frac;
    const long q = (ef ? (long)ef : 1) - ((1 << (EB - 1)) - 1) - (P - 1);
    vector<Token> T = tokens_for(mant, q, full);  // every shard builds every token (the index space must be identical; < 1 ms per anchor)
    vector<Variant> V;
    for (auto& t : T) {
      V.push_back({&t, 0, 0});
      if (full) V.push_back({&t, 1, 0});
    }
    for (auto& t : T)
      if (t.padded && full)
        for (size_t pad : {1, 20, 400}) V.push_back({&t, 0, pad});
    for (auto& v : V) {
      const string mag = v.notation ? scientific(v.t->d, v.pad) : positional(v.t->d, v.pad);
      if (!seen.insert(mag).second) continue;  // short prefixes of neighbouring anchors coincide: every text once
      ntok++;
      for (int neg = 0; neg < 2; neg++) {
        for (int big = 0; big < (full ? 2 : 1); big++) {
          for (int construct = 0; construct < 2; construct++) {  // 0: % float, 1: %% double
            ntext++;
            if (!r.take()) continue;
            string num = string(neg ? "-" : "") + mag;
            string text = string(big ? "$" : "") + (construct ? "%%" : "%") + num;
            if (r.wants_desc())
              r.desc(vf::fmt("%s anchor %s, family %s, %zu significant digits, %s notation, pad %zu: parse_data_string(%s)", kind ? "double" : "float", bits_hex(bits, kind ? 8 : 4).c_str(), v.t->family,
                  v.t->d.dg.size(), v.notation ? "scientific" : "positional", v.pad, vf::show(text.size() > 120 ? text.substr(0, 120) + "..." : text).c_str()));
            // reference value (little-endian bit pattern) for the Python stage and for the construction self-check
            uint64_t refbits = 0;
            if (construct) {
              double d = strtod(num.c_str(), nullptr);
              memcpy(&refbits, &d, 8);
            } else {
              float f = strtof(num.c_str(), nullptr);
              uint32_t b32;
              memcpy(&b32, &f, 4);
              refbits = b32;
            }
            if (dat) fprintf(dat, "%c %s %s\n", construct ? 'd' : 'f', num.c_str(), bits_hex(refbits, construct ? 8 : 4).c_str());
            if (construct == kind && v.t->expect >= 0) {
              uint64_t lower = bits, upper = bits + 1;  // the successor of the largest finite value has the bit pattern of +inf
              uint64_t want = v.t->expect == 0 ? lower : v.t->expect == 1 ? upper : ((lower & 1) ? upper : lower);
              want |= neg ? (1ull << (kind ? 63 : 31)) : 0;
              r.xchecked++;
              if (want != refbits) {
                r.fail("reference:strtof-strtod-disagree-with-construction", [&] { return "text " + vf::show(num) + ": reference conversion gives " + bits_hex(refbits, kind ? 8 : 4) + ", by construction (" + v.t->family + ") it must be " + bits_hex(want, kind ? 8 : 4); });
                continue;
              }
            }
            check_parse(r, text, exact, construct ? "double: " : "float: ");
          }
        }
      }
    }
  };
  for (uint32_t b : FLOAT_ANCHORS) anchor(0, b, true);
  for (uint64_t b : DOUBLE_ANCHORS) anchor(1, b, true);
  // binade sweep: the first two and the last value of EVERY float binade (exponent fields 0..254), and of the double
  // binades of an exponent-field ladder, with the reduced token set (tie, shortest / longest tie-breakers, neighbours)
  size_t nsweep_f = 0, nsweep_d = 0;
  for (uint32_t e = 0; e <= 254; e++)
    for (uint32_t f : {0x000000u, 0x000001u, 0x7FFFFFu}) {
      anchor(0, (e << 23) | f, false);
      nsweep_f++;
    }
  for (uint64_t e : {0, 1, 2, 63, 64, 512, 958, 959, 960, 1021, 1022, 1023, 1024, 1025, 1075, 1076, 1077, 1086, 1087, 1534, 2044, 2045, 2046})
    for (uint64_t f : {0x0000000000000ull, 0x0000000000001ull, 0xFFFFFFFFFFFFFull}) {
      anchor(1, (e << 52) | f, false);
      nsweep_d++;
    }

  // integer constructs at the type borders: plain, zero-padded, over-long
  size_t nint = 0;
  for (size_t w = 1; w <= 4; w++) {
    unsigned bits = 8u << (w - 1);
    unsigned __int128 one = 1;
    vector<string> vals = {"0", "1", "9", "10"};
    auto dec = [](unsigned __int128 v) {
      string s;
      do { s.insert(s.begin(), (char)('0' + (int)(v % 10))); v /= 10; } while (v);
      return s;
    };
    for (unsigned __int128 v : {(one << (bits - 1)) - 1, one << (bits - 1), (one << (bits - 1)) + 1, (one << bits) - 2, (one << bits) - 1, one << bits, (one << bits) + 1}) vals.push_back(dec(v));
    for (auto& val : vals)
      for (int neg = 0; neg < 2; neg++)
        for (size_t pad : {0, 1, 2, 19, 20, 21, 64, 400, 5000})
          for (int big = 0; big < 2; big++) {
            nint++;
            if (!r.take()) continue;
            string text = string(big ? "$" : "") + string(w, '#') + (neg ? "-" : "") + string(pad, '0') + val + " 7f";
            if (r.wants_desc()) r.desc(vf::fmt("%zu-byte integer %s%s with %zu leading zeros%s", bits / 8, neg ? "-" : "", val.c_str(), pad, big ? ", big endian" : ""));
            check_parse(r, text, exact, "integer: ");
          }
    // over-long digit strings (value far outside every width): totality only
    for (size_t len : {21, 22, 40, 400, 5000})
      for (char c : {'1', '9'})
        for (int neg = 0; neg < 2; neg++) {
          nint++;
          if (!r.take()) continue;
          string text = string(w, '#') + (neg ? "-" : "") + string(len, c) + " 7f";
          if (r.wants_desc()) r.desc(vf::fmt("%zu-byte integer of %zu digits '%c'", bits / 8, len, c));
          check_parse(r, text, exact, "integer: ");
        }
  }
  if (dat) fclose(dat);
  if (r.shard == 0) {
    r.counters["float_double_tokens"] += ntok;
    r.counters["float_double_texts"] += ntext;
    r.counters["integer_texts"] += nint;
  }
  r.bound = vf::fmt("parse_data_string: %zu float and %zu double anchors (around 1, 2, 2^24 / 2^53, 0.1, 10, 1e10, 1e-10, 1e22, 1e23, 1e30, 1e-30, smallest normal, largest and smallest "
                    "denormals, zero, largest finite; both mantissa parities, both sides of powers of two); per anchor the exact decimal midpoint to the successor: as is and with 1/2/40 "
                    "zeros appended, tie broken upwards by 0..39 zeros and a 1, downwards by -1 unit and 1..40 nines, every prefix of 1..60 digits and of 80, 100, 112, 150, 200, 400, 700, 760, "
                    "767, all-but-one digits (as is and plus one unit in the last place), the exact expansions of both neighbours, 1/20/400 leading zeros on the tie and the shortest / longest "
                    "tie-breakers; x {positional, scientific} x sign x {little, $ big endian} x {%% float, %%%% double}: %zu tokens, %zu texts (this includes a binade sweep with the reduced token set tie / up-1 / up-40 / down-1 / down-40 / neighbours, positional, little endian: the first two and the "
                    "last value of every float binade, exponent fields 0..254 = %zu anchors, and of 23 double binades = %zu anchors); # ## ### #### at 0, 1, 9, 10, 2^(n-1)-1..2^(n-1)+1, "
                    "2^n-2..2^n+1, both signs, 0..5000 leading zeros, both endiannesses, and 21..5000-digit numbers: %zu texts (padded / over-long ones for totality only)",
      sizeof(FLOAT_ANCHORS) / sizeof(FLOAT_ANCHORS[0]), sizeof(DOUBLE_ANCHORS) / sizeof(DOUBLE_ANCHORS[0]), ntok, ntext, nsweep_f, nsweep_d, nint);
}
