// C13 round 2 — boundary coordinate pairs: 8-bit and int16_t coordinates (see C13_pairs.hh).
#include "C13_pairs.hh"
using namespace c13;
VF_SECTION(pairs_8_16, 16, 16, 120) {
  bool th = r.thorough();
  (void)th;
  std::string b;
  // 8-bit: quick uses the boundary alphabet like every other width, thorough every value of the type
  run_pairs<Vector2<int8_t>>(r, th ? all_values<int8_t>() : boundary_alphabet<int8_t>(), 2, b);
  run_pairs<Vector2<uint8_t>>(r, th ? all_values<uint8_t>() : boundary_alphabet<uint8_t>(), 2, b);
  run_pairs<Vector2<int16_t>>(r, boundary_alphabet<int16_t>(), th ? 4 : 2, b);
  r.bound = "every ordered pair (a,b) of the boundary alphabet (2^k-1, 2^k, 2^k+1 for every k up to the width, their negatives, 0, the limits; 8-bit in the thorough tier: all 256 values) as the two coordinate values of a 4-point tree: " + b;
}
