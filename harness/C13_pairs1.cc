// C13 round 2 — boundary coordinate pairs: 8-bit (every value) and int16_t coordinates (see C13_pairs.hh).
#include "C13_pairs.hh"
using namespace c13;
VF_SECTION(pairs_8_16, 16, 16, 120) {
  bool th = r.thorough();
  std::string b;
  run_pairs<Vector2<int8_t>>(r, boundary_alphabet<int8_t>(), th ? 2 : 1, b);
  run_pairs<Vector2<uint8_t>>(r, boundary_alphabet<uint8_t>(), th ? 2 : 1, b);
  run_pairs<Vector2<int16_t>>(r, boundary_alphabet<int16_t>(), th ? 4 : 2, b);
  r.bound = "every ordered pair (a,b) of the boundary alphabet (2^k-1, 2^k, 2^k+1 for every k up to the width, their negatives, 0, the limits; 8-bit: all 256 values) as the two coordinate values of a 4-point tree: " + b;
}
