// C09 round-2: the ParseData command-line tool (src/ParseData.cc, an anchored file of the property) as a multi-step
// scenario: text on a file / stdin -> parse_data_string -> bytes on a file / stdout.  The final bytes are compared with the
// reference evaluator.  The tool's main() is compiled into this TU under another name and run in a forked child whose
// stdin / stdout are redirected to regular files or pipes.
#include "C09_r2.hh"

#define main c09_parsedata_main
#include "ParseData.cc"
#undef main

using namespace c09;

namespace {

string slurp(const char* path) {
  string s;
  FILE* f = fopen(path, "rb");
  if (!f) return s;
  char buf[4096];
  size_t k;
  while ((k = fread(buf, 1, sizeof(buf), f)) > 0) s.append(buf, k);
  fclose(f);
  return s;
}

void spit(const char* path, const string& s) {
  FILE* f = fopen(path, "wb");
  if (!f) return;
  fwrite(s.data(), 1, s.size(), f);
  fclose(f);
}

}  // namespace

VF_SECTION(tool, 4, 4, 180) {
  r.note("ParseData main()");
  ScratchDir sd("tool");
  vector<string> texts = {
      "", "00", "A5fF 7f", "$ ##258 $ ##258", "#255 ##65535 ###4294967295 ####18446744073709551615", "#-1 ##-2 ###-3 ####-4", "%1.5 %%-2.667 $ %1.5",
      "\"a\\\"b\\n\\\\\"", "'ab\\t'", "$ 'a\\r'", "// c 12\n01", "/* c ? $ */ 02", "?00? 11", "%1e999 ####5", "03 ?04? $ ##30 $ ##127 ?\"dark\"? ###-1 'cold' %-1.667 %%-2.667",
      long_hex_text(600), long_hex_text(40000), long_quoted_text(70000)};
  // in: 0 = file named on the command line, 1 = "-" with stdin a regular file, 2 = no arguments with stdin a pipe
  // out: 0 = file named on the command line, 1 = "-" with stdout a regular file, 2 = absent with stdout a pipe
  for (size_t ti = 0; ti < texts.size(); ti++) {
    for (int in = 0; in < 3; in++) {
      for (int out = 0; out < 3; out++) {
        if (in == 2 && out == 0) continue;  // a destination needs a source argument before it
        if (!r.take()) continue;
        const string& text = texts[ti];
        if (r.wants_desc()) r.desc(vf::fmt("ParseData tool: input mode %d, output mode %d, text ", in, out) + abbrev(text));
        Eval e = ref_eval(text);
        spit("in.txt", text);
        unlink("out.bin");
        int ipipe[2] = {-1, -1}, opipe[2] = {-1, -1};
        if (in == 2 && pipe(ipipe) != 0) continue;
        if (out == 2 && pipe(opipe) != 0) continue;
        if (in == 2) fcntl(ipipe[1], F_SETPIPE_SZ, 1 << 20);
        if (out == 2) fcntl(opipe[1], F_SETPIPE_SZ, 1 << 20);
        if (in == 2) {  // the whole text fits the pipe (<= 140 000 bytes < 1 MiB); close the write end so the child sees EOF
          size_t off = 0;
          while (off < text.size()) {
            ssize_t k = write(ipipe[1], text.data() + off, text.size() - off);
            if (k <= 0) break;
            off += (size_t)k;
          }
          close(ipipe[1]);
        }
        fflush(stdout);
        fflush(stderr);
        pid_t pid = fork();
        if (pid == 0) {
          alarm(60);
          int fd;
          if (in == 1) {
            fd = open("in.txt", O_RDONLY);
            dup2(fd, 0);
            close(fd);
          } else if (in == 2) {
            dup2(ipipe[0], 0);
            close(ipipe[0]);
          } else {
            fd = open("/dev/null", O_RDONLY);
            dup2(fd, 0);
            close(fd);
          }
          if (out == 1) {
            fd = open("out.bin", O_WRONLY | O_CREAT | O_TRUNC, 0644);
            dup2(fd, 1);
            close(fd);
          } else if (out == 2) {
            dup2(opipe[1], 1);
            close(opipe[0]);
            close(opipe[1]);
          } else {
            fd = open("/dev/null", O_WRONLY);
            dup2(fd, 1);
            close(fd);
          }
          char a0[] = "ParseData", a_in[] = "in.txt", a_dash[] = "-", a_out[] = "out.bin";
          char* argv[4] = {a0, nullptr, nullptr, nullptr};
          int argc = 1;
          if (in != 2) argv[argc++] = (in == 0) ? a_in : a_dash;
          if (out == 0) argv[argc++] = a_out;
          else if (out == 1 && in != 2) argv[argc++] = a_dash;
          int rc = 99;
          try {
            rc = c09_parsedata_main(argc, argv);
          } catch (...) {
            rc = 98;
          }
          fflush(stdout);
          _exit(rc);
        }
        if (in == 2) close(ipipe[0]);
        string got;
        if (out == 2) {
          close(opipe[1]);
          char buf[4096];
          ssize_t k;
          while ((k = read(opipe[0], buf, sizeof(buf))) > 0) got.append(buf, (size_t)k);
          close(opipe[0]);
        }
        int st = 0;
        while (waitpid(pid, &st, 0) < 0 && errno == EINTR) {}
        if (out != 2) got = slurp("out.bin");
        r.nontriv();
        if (!WIFEXITED(st) || WEXITSTATUS(st) != 0) r.fail("ParseData:tool-fails", [&] { return vf::fmt("ParseData (input mode %d, output mode %d) on text ", in, out) + abbrev(text) + vf::fmt(" ended with wait status 0x%x", st); });
        else if (e.dontcare) r.ok("dont-care text");
        else if (got != e.data && got != e.data_alt) r.fail("ParseData:wrong-bytes", [&] { return vf::fmt("ParseData (input mode %d, output mode %d) on text ", in, out) + abbrev(text) + " wrote " + abbrev_hex(got, 48) + vf::fmt(" (%zu bytes), documented syntax defines ", got.size()) + abbrev_hex(e.data, 48) + vf::fmt(" (%zu bytes)", e.data.size()); });
        else r.ok("tool output == documented bytes");
      }
    }
  }
  unlink("in.txt");
  unlink("out.bin");
  r.bound = vf::fmt("ParseData main() in a forked child on %zu texts (every documented construct, 600 / 40 000 hex pairs, a 70 000-character string) x input {file argument, \"-\" with stdin a file, no argument with stdin a pipe} x output {file argument, \"-\" with stdout a file, stdout a pipe}: exit status 0 and output bytes == reference evaluator", texts.size());
}
