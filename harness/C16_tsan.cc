// C16 (supportive pass) — the same parallel_range* templates, free-running on real std::thread /
// std::atomic under ThreadSanitizer.  A serialising scheduler's hand-offs are happens-before edges
// that would blind a race detector, so data races on non-atomic shared memory are looked for here.
// This pass samples schedules (whatever the OS produces); the exactly-once / true-hit verdict comes
// from the exhaustive E-SCHED section.  The functional oracle is evaluated here as well.
#include <stdint.h>

#include <atomic>
#include <string>
#include <unordered_set>
#include <vector>

#include "Tools.hh"
#include "vf.hh"

namespace {

struct Cfg { int fn; uint64_t start, n, block; size_t threads; int64_t hit; };  // hit: offset of the single true value, -1 none, -2 = every third value true

std::string run(const Cfg& c) {
  // non-atomic per-value slots: two invocations for one value are a data race TSan reports, and
  // the counts are verified after the join
  std::vector<uint32_t> hits(c.n, 0);
  std::vector<uint32_t> tn_seen(c.n, 0);
  std::atomic<uint64_t> outside{0};
  auto truth = [&](uint64_t off) { return c.hit == -2 ? (off % 3 == 1) : ((int64_t)off == c.hit); };
  std::function<bool(uint64_t, size_t)> cb = [&](uint64_t v, size_t tn) {
    if (v < c.start || v - c.start >= c.n) { outside++; return false; }
    hits[v - c.start]++;
    tn_seen[v - c.start] = (uint32_t)tn;
    return truth(v - c.start);
  };
  uint64_t end = c.start + c.n, ret = end;
  std::unordered_set<uint64_t> retset;
  if (c.fn == 0) ret = phosg::parallel_range<uint64_t>(cb, c.start, end, c.threads, nullptr);
  else if (c.fn == 1) ret = phosg::parallel_range_blocks<uint64_t>(cb, c.start, end, c.block, c.threads, nullptr);
  else retset = phosg::parallel_range_blocks_multi<uint64_t>(cb, c.start, end, c.block, c.threads, nullptr);
  if (outside) return "callback invoked outside the range";
  bool any_true = false;
  for (uint64_t i = 0; i < c.n; i++) {
    if (hits[i] > 1) return "value invoked more than once";
    if (tn_seen[i] >= c.threads) return "thread_num out of range";
    any_true |= truth(i);
  }
  if (c.fn == 2) {
    for (uint64_t i = 0; i < c.n; i++) {
      if (hits[i] != 1) return "_multi skipped a value";
      if ((retset.count(c.start + i) != 0) != truth(i)) return "_multi result differs from the true set";
    }
    return "";
  }
  if (!any_true) {
    for (uint64_t i = 0; i < c.n; i++) if (hits[i] != 1) return "no hit, but a value was skipped";
    return ret == end ? "" : "no hit, but the return value is not end_value";
  }
  if (ret < c.start || ret >= end || !truth(ret - c.start)) return "returned value is not one for which the callback returned true";
  return "";
}

}  // namespace

VF_SECTION(tsan_free_running, 4, 8, 300) {
  static const char* names[] = {"parallel_range", "parallel_range_blocks", "parallel_range_blocks_multi"};
  std::vector<uint64_t> ranges = {0, 1, 7, 64, 5000};
  int reps = r.thorough() ? 12 : 2;
  for (int fn = 0; fn < 3; fn++) {
    for (uint64_t n : ranges) {
      std::vector<uint64_t> blocks = {1};
      if (fn != 0) { blocks.clear(); for (uint64_t b : {1ull, 7ull, 8ull, 64ull, 1000ull, 5000ull}) if (n == 0 ? b <= 7 : (b <= n && n % b == 0)) blocks.push_back(b); }
      for (uint64_t b : blocks) {
        for (size_t t = 1; t <= 16; t++) {
          if (!r.thorough() && !(t <= 4 || t == 8 || t == 16)) continue;
          for (int64_t hit : {(int64_t)-1, (int64_t)0, (int64_t)(n / 2), (int64_t)-2}) {
            if (hit >= 0 && (uint64_t)hit >= n) continue;
            for (int rep = 0; rep < reps; rep++) {
              if (!r.take()) continue;
              Cfg c{fn, 1000, n, b, t, hit};
              r.note(names[fn]);
              if (r.wants_desc()) r.desc(vf::fmt("%s(range=[1000,%llu), block=%llu, threads=%zu, hit=%lld) free-running under TSan, repetition %d", names[fn], (unsigned long long)(1000 + n), (unsigned long long)b, t, (long long)hit, rep));
              std::string f = run(c);
              if (t > 1 && n > 1) r.nontriv();
              if (!f.empty()) r.fail(std::string(names[fn]) + ":free-running:" + (f.find("once") != std::string::npos ? "invoked-twice" : f.find("outside") != std::string::npos ? "outside-range" : "oracle"),
                  [&] { return vf::fmt("%s(range=[1000,%llu), block=%llu, threads=%zu, hit=%lld): %s (schedule-dependent; replay may need repetition)", names[fn], (unsigned long long)(1000 + n), (unsigned long long)b, t, (long long)hit, f.c_str()); });
              else r.ok("free-run-ok");
            }
          }
        }
      }
    }
  }
  r.bound = "supportive: free-running executions under ThreadSanitizer over threads 1..16 x ranges {0,1,7,64,5000} x block sizes x hit positions (sampled schedules, not exhaustive)";
}

VF_MAIN()
