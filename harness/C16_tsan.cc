// C16 (supportive pass) — the same parallel_range* templates, free-running on real std::thread /
// std::atomic under ThreadSanitizer.  A serialising scheduler's hand-offs are happens-before edges
// that would blind a race detector, so data races on non-atomic shared memory are looked for here.
// This pass samples schedules (whatever the OS produces); the exactly-once / true-hit verdict comes
// from the exhaustive E-SCHED sections.  The functional oracle is evaluated here as well.
// Round 2: instantiated for signed and narrow IntT too (ranges crossing zero, at the type minimum and
// maximum), with a counting progress_fn as well as nullptr, and with num_threads = 0.
#include <stdint.h>

#include <atomic>
#include <limits>
#include <string>
#include <thread>
#include <unordered_set>
#include <vector>

#include "Tools.hh"
#include "vf.hh"

namespace {

// hit: offset of the single true value, -1 none, -2 = every third value true, -3 = EVERY value true and the first
// min(threads, n) callback invocations wait for each other before returning (rendezvous): at least two workers are then
// inside the "callback returned true" path at once, so an unsynchronised access to the shared result is not left to luck
struct Cfg { int fn; int64_t start; uint64_t n, block; size_t threads; int64_t hit; bool progress; };

template <class IntT>
std::string run(const Cfg& c) {
  // non-atomic per-value slots: two invocations for one value are a data race TSan reports, and
  // the counts are verified after the join
  std::vector<uint32_t> hits(c.n, 0);
  std::vector<uint32_t> tn_seen(c.n, 0);
  std::atomic<uint64_t> outside{0};
  size_t nthreads = c.threads ? c.threads : std::thread::hardware_concurrency();
  auto truth = [&](uint64_t off) { return c.hit == -3 ? true : c.hit == -2 ? (off % 3 == 1) : ((int64_t)off == c.hit); };
  uint64_t start_ext = (uint64_t)c.start;
  std::atomic<uint64_t> entered{0};
  uint64_t rendezvous = c.hit == -3 ? std::min<uint64_t>(nthreads, c.n) : 0;
  std::function<bool(IntT, size_t)> cb = [&](IntT v, size_t tn) {
    uint64_t off = (uint64_t)v - start_ext;
    if (off >= c.n) { outside++; return false; }
    hits[off]++;
    tn_seen[off] = (uint32_t)tn;
    if (rendezvous > 1) {
      entered++;
      // bounded wait (a worker that has already left cannot come back): ~50 ms
      for (int spin = 0; spin < 5000 && entered.load() < rendezvous; spin++) usleep(10);
    }
    return truth(off);
  };
  std::atomic<uint64_t> polls{0};
  std::function<void(IntT, IntT, IntT, uint64_t)> prog = nullptr;
  if (c.progress) prog = [&](IntT, IntT, IntT, uint64_t) { polls++; };
  IntT start = (IntT)c.start, end = (IntT)(c.start + (int64_t)c.n), ret = end;
  std::unordered_set<IntT> retset;
  if (c.fn == 0) ret = phosg::parallel_range<IntT>(cb, start, end, c.threads, prog);
  else if (c.fn == 1) ret = phosg::parallel_range_blocks<IntT>(cb, start, end, (IntT)c.block, c.threads, prog);
  else retset = phosg::parallel_range_blocks_multi<IntT>(cb, start, end, (IntT)c.block, c.threads, prog);
  if (outside) return "callback invoked outside the range";
  bool any_true = false;
  for (uint64_t i = 0; i < c.n; i++) {
    if (hits[i] > 1) return "value invoked more than once";
    if (tn_seen[i] >= nthreads) return "thread_num out of range";
    any_true |= truth(i);
  }
  if (c.fn == 2) {
    for (uint64_t i = 0; i < c.n; i++) {
      if (hits[i] != 1) return "_multi skipped a value";
      if ((retset.count((IntT)(c.start + (int64_t)i)) != 0) != truth(i)) return "_multi result differs from the true set";
    }
    size_t want = 0;
    for (uint64_t i = 0; i < c.n; i++) want += truth(i);
    if (retset.size() != want) return "_multi result differs from the true set";
    return "";
  }
  if (!any_true) {
    for (uint64_t i = 0; i < c.n; i++) if (hits[i] != 1) return "no hit, but a value was skipped";
    return ret == end ? "" : "no hit, but the return value is not end_value";
  }
  uint64_t roff = (uint64_t)ret - start_ext;
  if (roff >= c.n || !truth(roff)) return "returned value is not one for which the callback returned true";
  return "";
}

const char* ty_names[] = {"uint64_t", "int8_t", "int32_t", "int64_t", "uint8_t", "int16_t"};
std::string run_ty(int ty, const Cfg& c) {
  switch (ty) {
    case 0: return run<uint64_t>(c);
    case 1: return run<int8_t>(c);
    case 2: return run<int32_t>(c);
    case 3: return run<int64_t>(c);
    case 4: return run<uint8_t>(c);
    default: return run<int16_t>(c);
  }
}

}  // namespace

VF_SECTION(tsan_free_running, 4, 8, 300) {
  static const char* names[] = {"parallel_range", "parallel_range_blocks", "parallel_range_blocks_multi"};
  int reps = r.thorough() ? 12 : 2;
  // (type, start, n): uint64_t as in round 1; signed and narrow types with ranges crossing zero and touching the type limits
  struct R { int ty; int64_t start; uint64_t n; };
  std::vector<R> ranges = {{0, 1000, 0}, {0, 1000, 1}, {0, 1000, 7}, {0, 1000, 64}, {0, 1000, 5000},
      {1, -128, 255}, {1, -100, 127}, {1, -3, 7}, {2, -2500, 5000}, {2, std::numeric_limits<int32_t>::min(), 64}, {2, std::numeric_limits<int32_t>::max() - 64, 64},
      {3, -3, 5000}, {3, std::numeric_limits<int64_t>::min(), 64}, {3, std::numeric_limits<int64_t>::max() - 7, 7}, {4, 0, 255}, {4, 191, 64}, {5, -32768, 5000}, {5, 32767 - 64, 64}};
  for (int fn = 0; fn < 3; fn++) {
    for (auto& rg : ranges) {
      uint64_t n = rg.n;
      std::vector<uint64_t> blocks = {1};
      if (fn != 0) {
        blocks.clear();
        for (uint64_t b : {1ull, 7ull, 8ull, 64ull, 85ull, 127ull, 1000ull, 5000ull})
          if ((n == 0 ? b <= 7 : (b <= n && n % b == 0)) && (rg.ty != 1 || b <= 127)) blocks.push_back(b);
      }
      for (uint64_t b : blocks) {
        for (size_t t = 0; t <= 16; t++) {
          if (!r.thorough() && !(t <= 4 || t == 8 || t == 16)) continue;
          if (rg.ty != 0 && !(t == 0 || t == 2 || t == 3 || t == 8 || (r.thorough() && t == 16))) continue;
          for (int64_t hit : {(int64_t)-1, (int64_t)0, (int64_t)(n / 2), (int64_t)(n - 1), (int64_t)-2, (int64_t)-3}) {
            if (hit == -3 && (n < 2 || n > 64)) continue;
            if (hit >= 0 && (uint64_t)hit >= n) continue;
            if (hit == (int64_t)(n - 1) && (hit == (int64_t)(n / 2) || hit == 0)) continue;
            for (int prog = 0; prog < 2; prog++) {
              // the real progress loop sleeps for a second per poll: a handful of cases only
              if (prog && !(n == 7 && b == 1 && t == 2 && hit == -1)) continue;
              for (int rep = 0; rep < (prog ? 1 : reps); rep++) {
                if (!r.take()) continue;
                Cfg c{fn, rg.start, n, b, t, hit, (bool)prog};
                r.note(names[fn]);
                std::string d = vf::fmt("%s<%s>(range=[%lld,%lld), block=%llu, threads=%zu, hit=%lld, progress_fn=%s)", names[fn], ty_names[rg.ty], (long long)rg.start, (long long)(rg.start + (int64_t)n),
                    (unsigned long long)b, t, (long long)hit, prog ? "counting" : "nullptr");
                if (r.wants_desc()) r.desc(d + vf::fmt(" free-running under TSan, repetition %d", rep));
                std::string f = run_ty(rg.ty, c);
                if (t != 1 && n > 1) r.nontriv();
                if (!f.empty()) r.fail(std::string(names[fn]) + ":free-running:" + (f.find("once") != std::string::npos ? "invoked-twice" : f.find("outside") != std::string::npos ? "outside-range" : "oracle"),
                    [&] { return d + ": " + f + " (schedule-dependent; replay may need repetition)"; });
                else r.ok("free-run-ok");
              }
            }
          }
        }
      }
    }
  }
  r.bound = "supportive: free-running executions under ThreadSanitizer: uint64_t ranges {0,1,7,64,5000} x threads 0..16 x block sizes x hit positions (none, first, middle, last, every third, and every value true with a rendezvous of the first callbacks so that several workers report a hit at the same time); int8/int16/int32/int64/uint8 ranges crossing zero and at the type minimum/maximum x threads {0,2,3,8}; counting progress_fn on the small ranges (sampled schedules, not exhaustive)";
}

VF_MAIN()
