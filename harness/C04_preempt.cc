// C04, variant "preempt" — concurrent JSON::serialize calls and serialize->parse round trips (harness/preempt_pure.hh).
// Instrumented: src/JSON.cc.
#include "preempt_pure.hh"

#include "JSON.hh"

using namespace phosg;

static std::vector<pp::Call> make_calls() {
  // values are built once, outside the scheduler; serialize() is const
  static const JSON v_list = JSON::list({JSON(int64_t(1)), JSON(-2.5), JSON("a\"b\n"), JSON(true), JSON(nullptr)});
  static const JSON v_dict = JSON::dict({{"k", JSON::list({JSON(int64_t(7))})}, {"z", JSON::dict()}, {"e", JSON(1e20)}});
  static const JSON v_str = JSON(std::string("\x01\x7f\xe9/\\", 5));
  static const JSON v_float = JSON(1.5e-7);
  using O = JSON::SerializeOption;
  struct Opt { const char* name; uint32_t bits; };
  static const Opt opts[] = {{"0", 0}, {"FORMAT|SORT", O::FORMAT | O::SORT_DICT_KEYS}, {"HEX_INTEGERS|ONE_CHARACTER_TRIVIAL", O::HEX_INTEGERS | O::ONE_CHARACTER_TRIVIAL_CONSTANTS}, {"ESCAPE_CONTROLS_ONLY|SORT", O::ESCAPE_CONTROLS_ONLY | O::SORT_DICT_KEYS}};
  std::vector<pp::Call> calls;
  struct Val { const char* name; const JSON* v; };
  static const Val vals[] = {{"[1,-2.5,\"a\\\"b\\n\",true,null]", &v_list}, {"{\"k\":[7],\"z\":{},\"e\":1e20}", &v_dict}, {"\"\\x01\\x7f\\xe9/\\\\\"", &v_str}, {"1.5e-7", &v_float}};
  for (auto& val : vals)
    for (auto& o : opts) {
      const JSON* v = val.v;
      uint32_t bits = o.bits | O::SORT_DICT_KEYS;
      calls.push_back({std::string("serialize(") + val.name + ", " + o.name + ")", "JSON::serialize", pp::guarded([v, bits] { return v->serialize(bits); })});
    }
  for (auto& val : vals) {
    const JSON* v = val.v;
    calls.push_back({std::string("parse(serialize(") + val.name + ")) == value", "JSON round trip", pp::guarded([v] {
                       JSON back = JSON::parse(v->serialize(O::SORT_DICT_KEYS));
                       return std::string(back == *v ? "equal " : "DIFFERENT ") + back.serialize(O::SORT_DICT_KEYS);
                     })});
  }
  return calls;
}

VF_SECTION(concurrent_pairs, 16, 16, 300) {
  std::vector<pp::Call> calls = make_calls();
  pp::run_pairs(r, calls, r.thorough() ? 500 : 200, r.thorough() ? 200 : 0);
  r.bound = "every unordered pair (and every call with itself) of 16 serialize calls (4 values x 4 option sets) and 4 serialize->parse->compare round trips run concurrently: every schedule with <= 2 preemptions for same-kind pairs with <= 200 (thorough 500) scheduling points per call (thorough: cross pairs <= 200 too), <= 1 preemption otherwise; basic-block granularity of JSON.cc";
}

// First calls: each call with itself and with the next call of the same function (thorough: every same-function pair),
// each schedule in a freshly forked process.
VF_SECTION(concurrent_cold, 16, 16, 600) {
  std::vector<pp::Call> calls = make_calls();
  pp::run_pairs_cold(r, calls, r.thorough());
  r.bound = "first calls: every call above with itself and with the next call of the same function (thorough: every same-function pair), each schedule in a freshly forked process that has never called the library: every schedule with <= 1 preemption at basic-block granularity";
}
VF_MAIN()
