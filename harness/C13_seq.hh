// C13_seq.hh — every operation sequence of bounded length on ONE KDTree object (no merging of equal
// structures, no fresh object per step): hidden state carried between calls, reuse after the tree was
// emptied, query-mutate-query on the same object, final observable result of multi-step scenarios.
#pragma once
#include "C13_gen.hh"

namespace c13 {

template <class Pt, class Val>
struct SeqWorld {
  using C = typename PT<Pt>::C;
  std::string name;
  std::vector<std::pair<Pt, Val>> entries;  // alphabet of insert / erase arguments
  std::vector<C> probe_vals;                // at/exists for every tuple over these
  std::vector<C> corner_vals;               // box corners
  int box_mode = 0;                         // 0: all (lo,hi) pairs per axis; 1: lo <= hi plus one inverted; 2: lo < hi, plus one empty and one inverted box
  bool emplace = false;                     // insert through emplace(pt, value)
};

enum { TRV_FIRST = 0, TRV_SECOND, TRV_LAST, TRV_ALL, TRV_ODD, TRV_KINDS };
inline uint64_t trv_mask(int k) {
  switch (k) {
    case TRV_FIRST: return 1;
    case TRV_SECOND: return 2;
    case TRV_LAST: return 1ull << 63;
    case TRV_ALL: return ~0ull;
    default: return 0x2AAAAAAAAAAAAAAAull;
  }
}
inline Style trv_style(int k) { return (k == TRV_FIRST || k == TRV_ALL) ? PRE_ARROW : POST_STAR; }
inline const char* trv_name(int k) {
  static const char* n[] = {"traverse{erase_advance at the first visit}", "traverse{it++ style, erase_advance at the second visit}", "traverse{it++ style, erase_advance at the last visit}",
      "traverse{erase_advance at every visit}", "traverse{it++ style, erase_advance at visits 1,3,5,...}"};
  return n[k];
}

template <class Pt, class Val>
struct SeqRunner {
  using Tree = KDTree<Pt, Val>;
  using Ck = Checker<Pt, Val>;
  vf::Run& r;
  const SeqWorld<Pt, Val>& w;
  Ck ck;
  uint32_t nE, nops;
  size_t core = 0;            // number of leading boxes that have lo <= hi (or the single inverted interval) on every axis
  bool end_core_only = false; // quick tier: the sweep at the end of a phase-A sequence asks the core boxes only

  SeqRunner(vf::Run& run, const SeqWorld<Pt, Val>& world) : r(run), w(world), ck(run) {
    nE = (uint32_t)w.entries.size();
    nops = 2 * nE + TRV_KINDS;
    ck.all_probes(w.probe_vals);
    if (w.box_mode == 2) {
      std::vector<typename PT<Pt>::C> v = w.corner_vals;
      typename PT<Pt>::C lo[4], hi[4], mid[4];
      for (int d = 0; d < PT<Pt>::D; d++) { lo[d] = v.front(); hi[d] = v.back(); mid[d] = v[v.size() / 2]; }
      // proper boxes only (lo < hi on every axis) ...
      std::vector<std::pair<typename PT<Pt>::C, typename PT<Pt>::C>> iv;
      for (size_t a = 0; a < v.size(); a++)
        for (size_t b = a + 1; b < v.size(); b++) iv.emplace_back(v[a], v[b]);
      std::vector<uint32_t> radix((size_t)PT<Pt>::D, (uint32_t)iv.size());
      for (vf::Odometer o(radix); !o.done; o.step()) {
        typename PT<Pt>::C l[4], h[4];
        for (int d = 0; d < PT<Pt>::D; d++) { l[d] = iv[o.d[(size_t)d]].first; h[d] = iv[o.d[(size_t)d]].second; }
        ck.boxes.emplace_back(PT<Pt>::make(l), PT<Pt>::make(h));
      }
      // ... plus one empty (lo == hi) and one inverted box
      ck.boxes.emplace_back(PT<Pt>::make(mid), PT<Pt>::make(mid));
      ck.boxes.emplace_back(PT<Pt>::make(hi), PT<Pt>::make(lo));
    } else {
      // the boxes with lo <= hi on every axis (plus one inverted interval per axis) first: `core` of them;
      // for box_mode 0 the remaining inverted combinations follow
      ck.all_boxes(w.corner_vals, false);
      core = ck.boxes.size();
      if (w.box_mode == 0) {
        std::vector<std::pair<Pt, Pt>> head = ck.boxes;
        ck.boxes.clear();
        ck.all_boxes(w.corner_vals, true);
        std::vector<std::pair<Pt, Pt>> rest;
        for (auto& b : ck.boxes) {
          bool in_head = false;
          for (auto& h : head)
            if (same_pt(h.first, b.first) && same_pt(h.second, b.second)) in_head = true;
          if (!in_head) rest.push_back(b);
        }
        ck.boxes = head;
        ck.boxes.insert(ck.boxes.end(), rest.begin(), rest.end());
      }
    }
    if (core == 0 || core > ck.boxes.size()) core = ck.boxes.size();
  }

  std::string op_name(uint32_t op) const {
    if (op < nE) return std::string(w.emplace ? "emplace(" : "insert(") + show_pt(w.entries[op].first) + "," + show_v(w.entries[op].second) + ")";
    if (op < 2 * nE) return "erase(" + show_pt(w.entries[op - nE].first) + "," + show_v(w.entries[op - nE].second) + ")";
    return trv_name((int)(op - 2 * nE));
  }
  std::string describe(const std::vector<uint32_t>& ops, size_t upto) const {
    std::string s = w.name + ":";
    for (size_t i = 0; i < upto && i < ops.size(); i++) s += " " + op_name(ops[i]);
    return s;
  }

  // one case: the sequence `ops` on one object; sweep_every: full observer sweep after every operation
  // (alternating direction and iteration style), otherwise only after the last one
  void run_case(const std::vector<uint32_t>& ops, bool sweep_every) {
    size_t done = 0;
    ck.hist = [&] { return describe(ops, done) + (sweep_every ? " (observers after every step)" : ""); };
    size_t max_live = 0;
    int64_t tracked_base = Tracked::live();  // the world's own alphabet entries stay alive
    {
      Holder<Tree> h;
      Model<Pt, Val> m;
      bool usable = true;
      if (sweep_every) ck.sweep(*h.t, m, false, PRE_ARROW);
      for (size_t i = 0; i < ops.size() && usable; i++) {
        uint32_t op = ops[i];
        done = i + 1;
        const char* kind;
        r.poison_errno();
        if (op < nE) { ck.insert(*h.t, m, w.entries[op].first, w.entries[op].second, w.emplace); kind = "insert"; }
        else if (op < 2 * nE) { ck.erase(*h.t, m, w.entries[op - nE].first, w.entries[op - nE].second); kind = "erase"; }
        else { int k = (int)(op - 2 * nE); usable = ck.traverse(*h.t, m, trv_mask(k), trv_style(k)); kind = "erase_advance"; }
        if (usable) usable = ck.scan(*h.t, m, kind);
        if (m.items.size() > max_live) max_live = m.items.size();
        if (usable && sweep_every) ck.sweep(*h.t, m, (i & 1) == 0, (Style)(i % 3));
      }
      if (usable && !sweep_every) ck.sweep(*h.t, m, (ops.size() & 1) != 0, (Style)(ops.size() % 3), end_core_only ? core : 0);
      ck.destroy(h);
    }
    if constexpr (std::is_same_v<Val, Tracked>) {
      if (Tracked::live() != tracked_base) {
        int64_t n = Tracked::live() - tracked_base;
        ck.fail("values:live-count", [&] { return vf::fmt("%lld value objects are alive after the tree and the model were destroyed (expected 0: every value constructed is destroyed exactly once)", (long long)n); });
        Tracked::live() = tracked_base;
      }
    }
    (void)tracked_base;
    if (max_live >= 2) r.nontriv();
    r.ok(vf::fmt("%s: %zu operations, %s", w.name.c_str(), ops.size(), sweep_every ? "observers after every step" : "observers at the end"));
    ck.hist = nullptr;
  }

  // all sequences of length 0..La with the oracle at the end, then all of length exactly Lb with the
  // oracle after every step (their prefixes are the shorter ones)
  void run(int La, int Lb) {
    r.note("seq " + w.name);
    std::vector<uint32_t> ops;
    for (int phase = 0; phase < 2; phase++) {
      int lo = phase == 0 ? 0 : Lb, hi = phase == 0 ? La : Lb;
      for (int len = lo; len <= hi; len++) {
        std::vector<uint32_t> radix((size_t)len, nops);
        for (vf::Odometer o(radix); !o.done; o.step()) {
          if (r.take()) {
            // most significant position first: sequences sharing a prefix are neighbours
            ops.assign(o.d.rbegin(), o.d.rend());
            if (r.wants_desc()) r.desc(describe(ops, ops.size()) + (phase ? " (observers after every step)" : " (observers at the end)"));
            run_case(ops, phase == 1);
          }
          if (len == 0) break;
        }
      }
    }
    r.counters["observer_calls_compared"] += ck.calls;
  }
  std::string bound_text(int La, int Lb) const {
    return vf::fmt("%s: every sequence of <= %d operations over %u operations (insert and erase of %u entries, 5 erase-while-iterating traversals) on one object with all observers (%zu points, %zu boxes) at the end; "
                   "every sequence of %d operations with all observers (%zu points, %zu boxes) after every step",
        w.name.c_str(), La, nops, nE, ck.probes.size(), end_core_only ? core : ck.boxes.size(), Lb, ck.probes.size(), ck.boxes.size());
  }
};

template <class Pt, class Val>
void run_world(vf::Run& r, const SeqWorld<Pt, Val>& w, int La, int Lb) {
  SeqRunner<Pt, Val> s(r, w);
  s.end_core_only = !r.thorough();
  s.run(La, Lb);
  r.bound = s.bound_text(La, Lb);
}

}  // namespace c13
