// C09 — helpers shared by C09.cc (round-1 sections) and C09_r2.cc (round-2 sections): exact-size parser input,
// reference evaluator of the documented data-string syntax, round-trip checker, independent hex-dump parser/checker.
#pragma once
#include <inttypes.h>
#include <math.h>
#include <stdio.h>
#include <string.h>
#include <sys/stat.h>
#include <sys/uio.h>
#include <unistd.h>

#include <string>
#include <vector>

#include "Strings.hh"
#include "vf.hh"

using std::string;
using std::vector;

namespace c09 {
namespace {

string hexs(const string& s) {
  string o;
  char b[4];
  for (unsigned char c : s) {
    snprintf(b, sizeof(b), "%02x", c);
    o += b;
  }
  return o;
}
string hexs(const void* p, size_t n) { return hexs(string((const char*)p, n)); }

// ---------- exact-size text for parse_data_string ----------------------------------------------------
// parse_data_string takes a const std::string& and walks c_str().  A real std::string keeps short texts
// in its 16-byte in-object buffer, where a read past the terminator is invisible to ASan.  ExactStr
// builds a libstdc++ std::string representation {pointer, length, capacity} whose character pointer is
// a malloc(len+1) block, so the byte after the terminator is an ASan redzone.  The object is only ever
// used through a const reference and never destroyed as a std::string.  selftest() verifies the layout
// assumption at run time; if it does not hold the harness falls back to ordinary strings and says so.
struct ExactStr {
  alignas(std::string) unsigned char obj[sizeof(std::string)];
  char* buf;
  explicit ExactStr(const string& text) {
    static_assert(sizeof(std::string) == 32, "libstdc++ SSO std::string layout expected");
    buf = (char*)malloc(text.size() + 1);
    memcpy(buf, text.data(), text.size());
    buf[text.size()] = 0;
    struct {
      char* p;
      size_t len;
      size_t cap;
      size_t pad;
    } l{buf, text.size(), text.size(), 0};
    memcpy(obj, &l, sizeof(l));
  }
  ExactStr(const ExactStr&) = delete;
  ~ExactStr() { free(buf); }
  const std::string& str() const { return *reinterpret_cast<const std::string*>(obj); }
  static bool selftest() {
    for (const char* t : {"", "ab", "exactly-15-char", "a text that is longer than the small-string buffer"}) {
      ExactStr e{string(t)};
      const std::string& s = e.str();
      if (s.size() != strlen(t) || s.c_str() != e.buf || s.data() != e.buf || s != string(t)) return false;
    }
    return true;
  }
};

// ---------- reference evaluator of the documented data-string syntax ------------------------------------
// Written from the comments in parse_data_string and the example in StringsTest:
//   hex digit pairs are bytes; blanks and newlines separate; `$` toggles big-endian for what follows
//   (initially little-endian); `#`, `##`, `###`, `####` + decimal number = 8/16/32/64-bit integer
//   (negative = two's complement); `%` + number = float, `%%` = double; "..." = bytes with \n \r \t \"
//   \' \\ escapes; '...' = each character widened to 16 bits; `//` to end of line and `/* */` are
//   comments; `?` toggles the mask for the bytes that follow (initially enabled = 0xFF).
// Everything the documentation does not settle makes the evaluator answer "don't care": a lone hex
// digit, characters that are not part of any construct, numbers that are not plain decimals or do not
// fit the width, unknown escapes, unterminated strings/comments, `/*/`, more than four `#`, `<file>`.
struct Eval {
  bool dontcare = false;
  const char* why = "";
  string data, mask;
  string data_alt;  // == data since round 5 (it used to hold the bytes with floats converted via double, which were accepted too)
};

bool is_hex(char c) { return (c >= '0' && c <= '9') || (c >= 'a' && c <= 'f') || (c >= 'A' && c <= 'F'); }
int hexval(char c) { return (c <= '9') ? c - '0' : ((c | 0x20) - 'a' + 10); }
bool is_dec(char c) { return c >= '0' && c <= '9'; }

Eval ref_eval(const string& t) {
  Eval e;
  bool big = false, mask_on = true;
  size_t i = 0, n = t.size();
  auto dc = [&](const char* why) {
    e.dontcare = true;
    e.why = why;
    return e;
  };
  auto emit = [&](const void* p, size_t k, bool swap_for_big, const void* alt = nullptr) {
    const unsigned char* b = (const unsigned char*)p;
    const unsigned char* a = (const unsigned char*)(alt ? alt : p);
    for (size_t j = 0; j < k; j++) {
      size_t src = (swap_for_big && big) ? (k - 1 - j) : j;  // p is little-endian
      e.data.push_back((char)b[src]);
      e.data_alt.push_back((char)a[src]);
      e.mask.push_back(mask_on ? '\xFF' : '\x00');
    }
  };
  while (i < n) {
    char c = t[i];
    if (c == 0) return dc("embedded NUL");
    if (c == ' ' || c == '\n' || c == '\t' || c == '\r') {
      i++;
    } else if (is_hex(c)) {
      if (i + 1 >= n || !is_hex(t[i + 1])) return dc("lone hex digit");
      unsigned char b = (unsigned char)(hexval(c) * 16 + hexval(t[i + 1]));
      emit(&b, 1, false);
      i += 2;
    } else if (c == '?') {
      mask_on = !mask_on;
      i++;
    } else if (c == '$') {
      big = !big;
      i++;
    } else if (c == '#') {
      size_t k = 0;
      while (i < n && t[i] == '#') {
        k++;
        i++;
      }
      if (k > 4) return dc("more than four #");
      bool neg = false;
      if (i < n && t[i] == '-') {
        neg = true;
        i++;
      }
      size_t d0 = i;
      while (i < n && is_dec(t[i])) i++;
      size_t nd = i - d0;
      if (nd == 0) return dc("# without a decimal number");
      if (nd > 1 && t[d0] == '0') return dc("leading zero (octal?)");
      if (nd > 20) return dc("number too long");
      if (i < n && (t[i] == 'x' || t[i] == 'X') && nd == 1 && t[d0] == '0') return dc("0x prefix");
      unsigned __int128 mag = 0;
      for (size_t j = d0; j < i; j++) mag = mag * 10 + (unsigned)(t[j] - '0');
      unsigned bits = 8u << (k - 1);
      unsigned __int128 lim_pos = (unsigned __int128)1 << bits, lim_neg = (unsigned __int128)1 << (bits - 1);
      if (neg ? (mag > lim_neg) : (mag >= lim_pos)) return dc("number does not fit the width");
      uint64_t v = (uint64_t)mag;
      if (neg) v = (uint64_t)0 - v;
      unsigned char le[8];
      for (unsigned j = 0; j < 8; j++) le[j] = (unsigned char)(v >> (8 * j));
      emit(le, bits / 8, true);
    } else if (c == '%') {
      bool dbl = false;
      i++;
      if (i < n && t[i] == '%') {
        dbl = true;
        i++;
      }
      size_t s0 = i;
      if (i < n && t[i] == '-') i++;
      size_t m0 = i;
      while (i < n && is_dec(t[i])) i++;
      size_t int_digits = i - m0, frac_digits = 0;
      if (i < n && t[i] == '.') {
        size_t f0 = i + 1, j = f0;
        while (j < n && is_dec(t[j])) j++;
        frac_digits = j - f0;
        if (int_digits + frac_digits > 0) i = j;
      }
      if (int_digits + frac_digits == 0) return dc("% without a decimal number");
      if (int_digits > 1 && t[m0] == '0') {
        // fine for floats ("007.5" is decimal), nothing to do
      }
      if (int_digits == 1 && t[m0] == '0' && frac_digits == 0 && i < n && (t[i] == 'x' || t[i] == 'X')) return dc("hex float");
      if (i < n && (t[i] == 'e' || t[i] == 'E')) {
        size_t j = i + 1;
        if (j < n && (t[j] == '-' || t[j] == '+')) j++;
        size_t x0 = j;
        while (j < n && is_dec(t[j])) j++;
        if (j > x0) i = j;  // exponent only counts with digits; otherwise the number ended before the 'e'
      }
      string tok = t.substr(s0, i - s0);
      if (dbl) {
        double v = strtod(tok.c_str(), nullptr);
        emit(&v, 8, true);
      } else {
        // the float nearest to the written decimal (strtof is correctly rounded).  Rounds 1-4 also accepted the result
        // of rounding twice (text -> double -> float); withdrawn in round 5: the syntax defines ONE 32-bit value, and
        // the two differ in the last bit for decimals just off the midpoint of two floats (seed C09-H)
        float v = strtof(tok.c_str(), nullptr);
        emit(&v, 4, true);
      }
    } else if (c == '"' || c == '\'') {
      bool wide = (c == '\'');
      i++;
      for (;;) {
        if (i >= n) return dc("unterminated string");
        char ch = t[i];
        if (ch == 0) return dc("embedded NUL");
        if (ch == c) {
          i++;
          break;
        }
        if (ch == '\\') {
          if (i + 1 >= n) return dc("backslash at end of text");
          char x = t[i + 1];
          if (x == 'n') ch = '\n';
          else if (x == 'r') ch = '\r';
          else if (x == 't') ch = '\t';
          else if (x == '"' || x == '\'' || x == '\\') ch = x;
          else return dc("undocumented escape");
          i += 2;
        } else i++;
        if (wide) {
          if ((unsigned char)ch >= 0x80) return dc("non-ASCII character in a wide string");
          unsigned char le[2] = {(unsigned char)ch, 0};
          emit(le, 2, true);
        } else emit(&ch, 1, false);
      }
    } else if (c == '/') {
      if (i + 1 < n && t[i + 1] == '/') {
        size_t nl = t.find('\n', i);
        i = (nl == string::npos) ? n : nl + 1;
      } else if (i + 1 < n && t[i + 1] == '*') {
        if (i + 2 < n && t[i + 2] == '/') return dc("/*/");
        size_t cl = t.find("*/", i + 2);
        if (cl == string::npos) return dc("unterminated comment");
        i = cl + 2;
      } else return dc("lone slash");
    } else return dc("character outside the documented syntax");
  }
  return e;
}

struct Parsed {
  string oc, what;       // outcome of the call with a mask pointer
  string data, mask;     // result with a mask pointer
  string data_nomask;    // result without
  string oc2;
};

// Runs the real parser on an exact-size copy of the text, with and without a mask pointer.  ambient_errno >= 0: errno is
// set to that value immediately before each of the two calls (the set-up code above may have clobbered what take() set).
Parsed run_parser(const string& text, bool exact, uint64_t flags = 0, bool also_without_mask = true, int ambient_errno = -1) {
  Parsed p;
  p.oc2 = "ok";
  p.mask = "\x55 stale mask";  // the out-parameter is never a fresh string: the parser has to replace whatever it holds
  auto amb = [&] {
    if (ambient_errno >= 0) errno = ambient_errno;
  };
  if (exact) {
    ExactStr es(text);
    p.oc = vf::outcome([&] { amb(); p.data = phosg::parse_data_string(es.str(), &p.mask, flags); }, &p.what);
    if (also_without_mask) p.oc2 = vf::outcome([&] { amb(); p.data_nomask = phosg::parse_data_string(es.str(), nullptr, flags); });
  } else {
    p.oc = vf::outcome([&] { amb(); p.data = phosg::parse_data_string(text, &p.mask, flags); }, &p.what);
    if (also_without_mask) p.oc2 = vf::outcome([&] { amb(); p.data_nomask = phosg::parse_data_string(text, nullptr, flags); });
  }
  return p;
}

// Totality + agreement with the reference evaluator; returns true if the case passed.
bool check_parse(vf::Run& r, const string& text, bool exact, const char* okprefix, uint64_t flags = 0) {
  Parsed p = run_parser(text, exact, flags, true, r.ambient_errno());
  auto ctx = [&] { return "parse_data_string(" + vf::show(text) + ")"; };
  if (p.oc != "ok" || p.oc2 != "ok") {
    r.fail("parse_data_string:throws", [&] { return ctx() + " threw " + (p.oc != "ok" ? p.oc : p.oc2) + " (" + p.what + "); without ALLOW_FILES the parser accepts any text"; });
    return false;
  }
  if (p.data != p.data_nomask) {
    r.fail("parse_data_string:mask-pointer-changes-data", [&] { return ctx() + " returns " + hexs(p.data) + " with a mask pointer and " + hexs(p.data_nomask) + " without"; });
    return false;
  }
  bool mask_ok = p.mask.size() == p.data.size();
  for (unsigned char m : p.mask) mask_ok &= (m == 0x00 || m == 0xFF);
  if (!mask_ok) {
    r.fail("parse_data_string:mask-shape", [&] { return ctx() + vf::fmt(" returns %zu data bytes but mask ", p.data.size()) + hexs(p.mask) + " (must be one 00/FF byte per data byte)"; });
    return false;
  }
  Eval e = ref_eval(text);
  if (e.dontcare) {
    r.ok(string(okprefix) + "dont-care(" + e.why + ")");
    return true;
  }
  r.nontriv();
  if (p.data != e.data && p.data != e.data_alt) {
    r.fail("parse_data_string:wrong-bytes", [&] { return ctx() + " == " + hexs(p.data) + ", documented syntax defines " + hexs(e.data); });
    return false;
  }
  if (p.mask != e.mask) {
    r.fail("parse_data_string:wrong-mask", [&] { return ctx() + " mask == " + hexs(p.mask) + ", documented syntax defines " + hexs(e.mask) + " (data " + hexs(e.data) + ")"; });
    return false;
  }
  r.ok(string(okprefix) + (e.data.empty() ? "documented: no bytes" : "documented: bytes match"));
  return true;
}

// ---------- scratch directory (empty; any attempt to open a file from it fails loudly) ---------------------

struct ScratchDir {
  string path;
  int old_cwd = -1;
  explicit ScratchDir(const char* tag) {
    const char* root = getenv("VF_ROOT");
    string base = string(root ? root : "/tmp") + "/build/scratch";
    mkdir(base.c_str(), 0755);
    base += "/C09";
    mkdir(base.c_str(), 0755);
    path = base + vf::fmt("/%s.%d", tag, (int)getpid());
    mkdir(path.c_str(), 0755);
    old_cwd = open(".", O_RDONLY | O_DIRECTORY);
    if (chdir(path.c_str()) != 0) {
      perror("C09: chdir scratch");
      _exit(3);
    }
  }
  ~ScratchDir() {
    if (old_cwd >= 0) {
      if (fchdir(old_cwd) != 0) {}
      close(old_cwd);
    }
    rmdir(path.c_str());
  }
};

// ---------- format_data_string round trip ----------------------------------------------------------------------

struct RT {
  vf::Run& r;
  bool exact;
};

// on[i]: byte i enabled; full_checks: also run the (pointer, size) overload on exact-size heap copies and the
// reference evaluator as a second reader of the produced text (parts A and C)
void roundtrip_case(RT& c, const string& data, bool with_mask, const vector<bool>& on, bool full_checks) {
  vf::Run& r = c.r;
  string mask;
  if (with_mask) {
    for (size_t i = 0; i < data.size(); i++) {
      static const unsigned char onv[3] = {0x01, 0x80, 0xFF};
      mask.push_back(on[i] ? (char)onv[i % 3] : '\0');
    }
  }
  for (uint64_t flags : {(uint64_t)0, (uint64_t)phosg::FormatDataFlags::HEX_ONLY}) {
    string text, what;
    string oc = vf::outcome([&] { text = phosg::format_data_string(data, with_mask ? &mask : nullptr, flags); }, &what);
    auto ctx = [&] { return "format_data_string(data=" + hexs(data) + ", mask=" + (with_mask ? hexs(mask) : string("none")) + vf::fmt(", flags=%llu)", (unsigned long long)flags); };
    if (oc != "ok") {
      r.fail("format_data_string:throws", [&] { return ctx() + " threw " + oc + " (" + what + ")"; });
      continue;
    }
    if (full_checks) {
      // pointer overload on exact-size heap copies
      char* d = (char*)malloc(data.size() ? data.size() : 1);
      char* m = (char*)malloc(data.size() ? data.size() : 1);
      memcpy(d, data.data(), data.size());
      if (with_mask) memcpy(m, mask.data(), mask.size());
      string text2;
      string oc2 = vf::outcome([&] { text2 = phosg::format_data_string((const void*)d, data.size(), with_mask ? (const void*)m : nullptr, flags); });
      // defaulted arguments (flags = 0, mask = nullptr) of both overloads
      string text3 = text;
      if (oc2 == "ok" && flags == 0) {
        oc2 = vf::outcome([&] {
          if (with_mask) text3 = phosg::format_data_string(data, &mask);
          else text3 = phosg::format_data_string(data);
          if (text3 != text) return;
          if (with_mask) text3 = phosg::format_data_string((const void*)d, data.size(), (const void*)m);
          else text3 = phosg::format_data_string((const void*)d, data.size());
        });
      }
      free(d);
      free(m);
      if (oc2 != "ok" || text2 != text) {
        r.fail("format_data_string:overloads-differ", [&] { return ctx() + " == " + vf::show(text) + " but the (pointer, size) overload gives " + (oc2 == "ok" ? vf::show(text2) : oc2); });
        continue;
      }
      if (text3 != text) {
        r.fail("format_data_string:overloads-differ", [&] { return ctx() + " == " + vf::show(text) + " but the same call with defaulted arguments gives " + vf::show(text3); });
        continue;
      }
    }
    bool quoted = !text.empty() && text[0] == '"';
    if (flags && text.find_first_of("\"'") != string::npos) {
      r.fail("format_data_string:hex-only-ignored", [&] { return ctx() + " == " + vf::show(text) + " contains a quoted string although HEX_ONLY was given"; });
      continue;
    }
    Parsed p = run_parser(text, c.exact, 0, false, r.ambient_errno());
    const char* form = quoted ? "quoted" : "hex";
    if (p.oc != "ok") {
      r.fail(string("parse_data_string:throws-on-formatted-") + form, [&] { return ctx() + " == " + vf::show(text) + "; parsing that threw " + p.oc; });
      continue;
    }
    if (p.data != data) {
      r.fail(string("format_data_string:") + form + "-form-not-lossless", [&] { return ctx() + " == " + vf::show(text) + ", which parses back to " + hexs(p.data) + vf::fmt(" (%zu bytes; the input has %zu)", p.data.size(), data.size()); });
      continue;
    }
    if (with_mask) {
      bool same = p.mask.size() == data.size();
      for (size_t i = 0; same && i < data.size(); i++) same = ((unsigned char)p.mask[i] == (on[i] ? 0xFF : 0x00));
      if (!same) {
        r.fail(string("format_data_string:") + form + "-form-mask-lost", [&] { return ctx() + " == " + vf::show(text) + ", parsed mask " + hexs(p.mask) + " does not classify the bytes as the given mask does"; });
        continue;
      }
    }
    // second opinion: the reference evaluator reads the produced text the same way
    if (full_checks) {
      Eval e = ref_eval(text);
      if (!e.dontcare && e.data == data && (!with_mask || e.mask == p.mask)) r.xchecked++;
      else r.counters["formatted text outside the documented syntax or read differently by the reference evaluator"]++;
    }
    r.ok(string(form) + (with_mask ? " form, mask given" : " form, no mask"));
  }
}

const unsigned char SYM16[16] = {0x00, 'a', '"', '\'', '\\', '\n', '\t', '?', '#', '$', '%', '/', '*', 0x7F, 0x80, 0xFF};

string fill_pattern(int kind, size_t len, size_t metapos, char meta) {
  string s(len, '\0');
  for (size_t i = 0; i < len; i++) {
    switch (kind) {
      case 0: s[i] = (char)('A' + (i * 7) % 58); break;            // printable
      case 1: s[i] = (char)('a' + i % 26); break;                   // printable + one metacharacter
      case 2: s[i] = (char)((i * 37 + 11) & 0xFF); break;           // binary
      case 3: s[i] = 0; break;                                      // zeros
    }
  }
  if (kind == 0) for (size_t i = 0; i < len; i++) if (s[i] == '\\' ) s[i] = '_';  // keep pattern 0 free of metacharacters
  if (kind == 1 && len) s[metapos] = meta;
  return s;
}

// ---------- hex dump: independent parser + checker ---------------------------------------------------------------

struct Cell {
  char c;
  bool red, inv;
};

// Strips terminal escapes; records for every visible character whether bold-red / inverse was active.
bool decolor(const string& line, vector<Cell>& out) {
  bool red = false, inv = false;
  for (size_t i = 0; i < line.size();) {
    if (line[i] == '\033') {
      if (i + 1 >= line.size() || line[i + 1] != '[') return false;
      size_t m = line.find('m', i);
      if (m == string::npos) return false;
      string params = line.substr(i + 2, m - i - 2);
      size_t p = 0;
      while (p <= params.size()) {
        size_t q = params.find(';', p);
        if (q == string::npos) q = params.size();
        string one = params.substr(p, q - p);
        if (one == "0") red = inv = false;
        else if (one == "31") red = true;
        else if (one == "7") inv = true;
        else if (one == "1") {}
        else return false;
        p = q + 1;
      }
      i = m + 1;
    } else {
      out.push_back({line[i], red, inv});
      i++;
    }
  }
  return true;
}

struct Line {
  uint64_t addr = 0;
  size_t addr_digits = 0;
  int hex[16];        // -1 = blank
  bool hex_red[16];
  char ascii[16];
  bool ascii_red[16];
  string fcol[4], dcol[2];
  bool stray_red = false;  // a red character outside the byte / float fields
};

bool is_uhex(char c) { return (c >= '0' && c <= '9') || (c >= 'A' && c <= 'F'); }

// Position-driven parser of one dump line under a given flag set.  Returns "" or what is malformed.
string parse_dump_line(const string& raw, uint64_t flags, Line& L) {
  using namespace phosg;
  vector<Cell> v;
  if (!decolor(raw, v)) return "malformed terminal escape";
  bool skip = flags & PrintDataFlags::SKIP_SEPARATOR;
  size_t p = 0, n = v.size();
  auto lit = [&](const char* s) {
    for (; *s; s++, p++) {
      if (p >= n || v[p].c != *s) return false;
      if (v[p].red) L.stray_red = true;
    }
    return true;
  };
  while (p < n && is_uhex(v[p].c)) {
    if (L.addr_digits >= 16) return "address longer than 16 digits";
    L.addr = (L.addr << 4) | (uint64_t)hexval(v[p].c);
    if (v[p].red) L.stray_red = true;
    L.addr_digits++;
    p++;
  }
  if (L.addr_digits == 0) return "no address";
  if (!skip && !lit(" |")) return "separator after the address";
  for (int i = 0; i < 16; i++) {
    if (p + 3 > n) return "hex column truncated";
    if (v[p].c != ' ') return "hex field does not start with a space";
    char a = v[p + 1].c, b = v[p + 2].c;
    if (a == ' ' && b == ' ') {
      L.hex[i] = -1;
      L.hex_red[i] = false;
      if (v[p + 1].red || v[p + 2].red) L.stray_red = true;
    } else if (is_uhex(a) && is_uhex(b)) {
      L.hex[i] = hexval(a) * 16 + hexval(b);
      if (v[p + 1].red != v[p + 2].red) return "byte half highlighted";
      L.hex_red[i] = v[p + 1].red;
    } else return "hex field is neither blank nor two upper-case hex digits";
    p += 3;
  }
  if (flags & PrintDataFlags::PRINT_ASCII) {
    if (!lit(skip ? " " : " | ")) return "separator before the ASCII column";
    if (p + 16 > n) return "ASCII column truncated";
    for (int i = 0; i < 16; i++, p++) {
      L.ascii[i] = v[p].c;
      L.ascii_red[i] = v[p].red;
    }
  }
  auto fields = [&](string* out, int count) -> const char* {
    if (!lit(skip ? " " : " |")) return "separator before a float column";
    for (int i = 0; i < count; i++) {
      if (p + 13 > n) return "float column truncated";
      for (int k = 0; k < 13; k++, p++) out[i].push_back(v[p].c);
    }
    return nullptr;
  };
  if (flags & PrintDataFlags::PRINT_FLOAT) {
    if (const char* err = fields(L.fcol, 4)) return err;
  }
  if (flags & PrintDataFlags::PRINT_DOUBLE) {
    if (const char* err = fields(L.dcol, 2)) return err;
  }
  if (p != n) return "trailing characters";
  return "";
}

struct DumpCase {
  const uint8_t* data;
  const uint8_t* prev;  // may be null
  size_t size;
  uint64_t start;
  uint64_t flags;
};

string describe_dump(const DumpCase& c) {
  string s = vf::fmt("format_data(%zu bytes %s, start_address=0x%" PRIX64 ", flags=0x%04" PRIX64, c.size, hexs(c.data, c.size > 64 ? 64 : c.size).c_str(), c.start, c.flags);
  if (c.size > 64) s += "...";
  if (c.prev) s += ", prev=" + hexs(c.prev, c.size > 64 ? 64 : c.size);
  return s + ")";
}

// Returns "" when the dump text is a faithful rendering, else "<key>\t<detail>".
string check_dump(const DumpCase& c, const string& out) {
  using namespace phosg;
  auto fail = [](const char* key, const string& d) { return string(key) + "\t" + d; };
  if (c.size == 0) return out.empty() ? "" : fail("format_data:output-for-empty-data", "output " + vf::show(out));
  if (out.empty()) return fail("format_data:no-output", "nothing was printed");
  if (out.back() != '\n') return fail("format_data:unparseable-line", "output does not end with a newline");
  const uint64_t last = c.start + (c.size - 1);  // no wrap for the addresses used
  const uint64_t first_line = c.start & ~(uint64_t)15, last_line = last & ~(uint64_t)15;
  const bool collapse = c.flags & PrintDataFlags::COLLAPSE_ZERO_LINES;
  const bool use_color = c.flags & PrintDataFlags::USE_COLOR;
  const bool big = c.flags & (PrintDataFlags::REVERSE_ENDIAN_FLOATS | PrintDataFlags::BIG_ENDIAN_FLOATS);
  int min_digits = 0;
  if (c.flags & PrintDataFlags::OFFSET_8_BITS) min_digits = 2;
  else if (c.flags & PrintDataFlags::OFFSET_16_BITS) min_digits = 4;
  else if (c.flags & PrintDataFlags::OFFSET_32_BITS) min_digits = 8;
  else if (c.flags & PrintDataFlags::OFFSET_64_BITS) min_digits = 16;

  auto in_range = [&](uint64_t a) { return a >= c.start && a <= last; };
  auto line_is_zero = [&](uint64_t la, const uint8_t* buf) {
    for (int i = 0; i < 16; i++) {
      uint64_t a = la + i;
      if (a < la) break;
      if (in_range(a) && buf[a - c.start]) return false;
    }
    return true;
  };
  // which line addresses may / must be absent
  auto may_omit = [&](uint64_t la) { return collapse && la != first_line && la != last_line && line_is_zero(la, c.data); };
  auto must_omit = [&](uint64_t la) { return may_omit(la) && (!c.prev || line_is_zero(la, c.prev)); };

  uint64_t expect_next = first_line;  // smallest line address not yet accounted for
  bool done = false;
  size_t pos = 0;
  while (pos < out.size()) {
    size_t nl = out.find('\n', pos);
    string raw = out.substr(pos, nl - pos);
    pos = nl + 1;
    Line L;
    string err = parse_dump_line(raw, c.flags, L);
    if (!err.empty()) return fail("format_data:unparseable-line", err + " in line " + vf::show(raw));
    if (done) return fail("format_data:extra-line", "line " + vf::show(raw) + " after the last line");
    if ((L.addr & 15) || L.addr < expect_next || L.addr > last_line) return fail("format_data:line-address", vf::fmt("line address %" PRIX64 " (expected a multiple of 16 in [%" PRIX64 ", %" PRIX64 "])", L.addr, expect_next, last_line));
    for (uint64_t la = expect_next; la != L.addr; la += 16)
      if (!may_omit(la)) return fail("format_data:line-missing", vf::fmt("no line for address %" PRIX64 " although it is %s", la, collapse ? "not an all-zero interior line" : "inside the data and COLLAPSE_ZERO_LINES is off"));
    if (must_omit(L.addr)) return fail("format_data:zero-line-not-collapsed", vf::fmt("all-zero interior line %" PRIX64 " is printed although COLLAPSE_ZERO_LINES is set", L.addr));
    if (L.addr == last_line) done = true;
    else expect_next = L.addr + 16;
    // address width
    int natural = 1;
    for (uint64_t a = L.addr; a >= 16; a >>= 4) natural++;
    if (min_digits && (int)L.addr_digits != (natural > min_digits ? natural : min_digits))
      return fail("format_data:address-width", vf::fmt("address %s printed with %zu digits, OFFSET_*_BITS flag asks for %d", vf::show(raw.substr(0, 20)).c_str(), L.addr_digits, min_digits));
    if (L.stray_red) return fail("format_data:highlight", "address, separator or blank field is highlighted in line " + vf::show(raw));
    // hex + ASCII columns
    for (int i = 0; i < 16; i++) {
      uint64_t a = L.addr + (uint64_t)i;
      bool valid = a >= L.addr && in_range(a);
      if (!valid) {
        if (L.hex[i] != -1) return fail("format_data:hex-column", vf::fmt("byte %02X shown at address %" PRIX64 " which is outside the data", L.hex[i], a));
        if ((c.flags & PrintDataFlags::PRINT_ASCII) && L.ascii[i] != ' ') return fail("format_data:ascii-column", vf::fmt("character '%c' shown at address %" PRIX64 " which is outside the data", L.ascii[i], a));
        continue;
      }
      uint8_t want = c.data[a - c.start];
      if (L.hex[i] != want) return fail("format_data:hex-column", vf::fmt("address %" PRIX64 " shows %s, data byte is %02X", a, L.hex[i] < 0 ? "blank" : vf::fmt("%02X", L.hex[i]).c_str(), want));
      bool differs = c.prev && c.prev[a - c.start] != want;
      bool want_red = use_color && differs;
      if (L.hex_red[i] != want_red) return fail("format_data:highlight", vf::fmt("hex byte at address %" PRIX64 " is %shighlighted but %s the previous buffer", a, L.hex_red[i] ? "" : "not ", differs ? "differs from" : "equals"));
      if (c.flags & PrintDataFlags::PRINT_ASCII) {
        char wc = (want >= 0x20 && want < 0x7F) ? (char)want : ' ';
        if (L.ascii[i] != wc) return fail("format_data:ascii-column", vf::fmt("address %" PRIX64 " shows '%c' in the ASCII column, data byte is %02X", a, L.ascii[i], want));
        if (L.ascii_red[i] != want_red) return fail("format_data:highlight", vf::fmt("ASCII character at address %" PRIX64 " is %shighlighted but %s the previous buffer", a, L.ascii_red[i] ? "" : "not ", differs ? "differs from" : "equals"));
      }
    }
    // float / double columns: blank unless the whole field is inside the data, else a rendering of the value
    // (read in the byte order the flags document) that is numerically right to 5 significant digits
    auto field_check = [&](const string* col, int count, int fsize) -> string {
      for (int f = 0; f < count; f++) {
        uint64_t a0 = L.addr + (uint64_t)(f * fsize), a1 = a0 + (uint64_t)(fsize - 1);
        bool valid = a0 >= L.addr && a1 >= a0 && in_range(a0) && in_range(a1);
        const char* kind = fsize == 4 ? "float" : "double";
        bool blank = col[f].find_first_not_of(' ') == string::npos;
        if (!valid) {
          if (!blank) return vf::fmt("%s field at address %" PRIX64 " shows %s although not all of its bytes are inside the data", kind, a0, vf::show(col[f]).c_str());
          continue;
        }
        uint8_t b[8];
        for (int k = 0; k < fsize; k++) b[k] = c.data[a0 - c.start + (big ? (fsize - 1 - k) : k)];
        double v;
        if (fsize == 4) {
          float fv;
          memcpy(&fv, b, 4);
          v = fv;
        } else memcpy(&v, b, 8);
        bool ok;
        if (blank) ok = false;
        else if (isnan(v)) ok = col[f].find("nan") != string::npos || col[f].find("NAN") != string::npos;
        else {
          char* end = nullptr;
          double g = strtod(col[f].c_str(), &end);
          ok = end && *end == 0 && ((isinf(v) || v == 0) ? (g == v) : (fabs(g - v) <= 1e-4 * fabs(v)));
        }
        if (!ok) return vf::fmt("%s field at address %" PRIX64 " shows %s, the bytes there are the value %.6g", kind, a0, vf::show(col[f]).c_str(), v);
      }
      return "";
    };
    if (c.flags & PrintDataFlags::PRINT_FLOAT) {
      string e = field_check(L.fcol, 4, 4);
      if (!e.empty()) return fail("format_data:float-column", e);
    }
    if (c.flags & PrintDataFlags::PRINT_DOUBLE) {
      string e = field_check(L.dcol, 2, 8);
      if (!e.empty()) return fail("format_data:float-column", e);
    }
  }
  if (!done) {
    for (uint64_t la = expect_next;; la += 16) {
      if (!may_omit(la)) return fail("format_data:line-missing", vf::fmt("no line for address %" PRIX64, la));
      if (la == last_line) break;
    }
  }
  return "";
}

void report_dump(vf::Run& r, const DumpCase& c, const string& out, const char* okclass) {
  string res = check_dump(c, out);
  if (res.empty()) {
    r.ok(okclass);
    return;
  }
  size_t tab = res.find('\t');
  string key = res.substr(0, tab), detail = res.substr(tab + 1);
  r.fail(key, [&] { return describe_dump(c) + ": " + detail + "\n--- output ---\n" + (out.size() > 900 ? out.substr(0, 900) + "..." : out); });
}

uint64_t dump_flag_combo(unsigned idx) {  // idx in [0, 640)
  using namespace phosg;
  static const uint64_t endian[4] = {0, PrintDataFlags::REVERSE_ENDIAN_FLOATS, PrintDataFlags::BIG_ENDIAN_FLOATS, PrintDataFlags::LITTLE_ENDIAN_FLOATS};
  static const uint64_t width[5] = {0, PrintDataFlags::OFFSET_8_BITS, PrintDataFlags::OFFSET_16_BITS, PrintDataFlags::OFFSET_32_BITS, PrintDataFlags::OFFSET_64_BITS};
  uint64_t f = 0;
  unsigned cols = idx % 8;
  idx /= 8;
  if (cols & 1) f |= PrintDataFlags::PRINT_ASCII;
  if (cols & 2) f |= PrintDataFlags::PRINT_FLOAT;
  if (cols & 4) f |= PrintDataFlags::PRINT_DOUBLE;
  f |= endian[idx % 4];
  idx /= 4;
  if (idx % 2) f |= PrintDataFlags::COLLAPSE_ZERO_LINES;
  idx /= 2;
  if (idx % 2) f |= PrintDataFlags::SKIP_SEPARATOR;
  idx /= 2;
  f |= width[idx % 5];
  return f;
}

vector<uint8_t> dump_pattern(int kind, size_t n) {
  vector<uint8_t> d(n ? n : 1, 0);
  static const uint8_t edge[8] = {0x00, 0x1F, 0x20, 0x7E, 0x7F, 0x80, 0xFF, 0x7C};
  for (size_t i = 0; i < n; i++) {
    switch (kind) {
      case 0: d[i] = (uint8_t)(0x1B + i * 13); break;          // mixed printable / binary
      case 1: d[i] = (uint8_t)(0x20 + (i * 29 + 92) % 95); break;  // printable incl. '|' and space
      case 2: d[i] = 0; break;                                  // zeros
      case 3: d[i] = edge[(i + i / 8) % 8]; break;              // boundary values of the printable test
    }
  }
  return d;
}

// every way to cut n bytes into k consecutive (possibly empty) parts
void compositions(size_t n, size_t k, const std::function<void(const vector<size_t>&)>& fn) {
  vector<size_t> parts(k, 0);
  std::function<void(size_t, size_t)> rec = [&](size_t i, size_t left) {
    if (i + 1 == k) {
      parts[i] = left;
      fn(parts);
      return;
    }
    for (size_t x = 0; x <= left; x++) {
      parts[i] = x;
      rec(i + 1, left - x);
    }
  };
  rec(0, n);
}

// iovecs over separate exact-size heap blocks (empty parts get a null base)
struct IovSet {
  vector<struct iovec> iov;
  vector<void*> blocks;
  IovSet(const uint8_t* data, const vector<size_t>& parts) {
    size_t off = 0;
    for (size_t len : parts) {
      struct iovec v;
      v.iov_len = len;
      v.iov_base = nullptr;
      if (len) {
        v.iov_base = malloc(len);
        memcpy(v.iov_base, data + off, len);
        blocks.push_back(v.iov_base);
      }
      iov.push_back(v);
      off += len;
    }
  }
  IovSet(const IovSet&) = delete;
  ~IovSet() {
    for (void* b : blocks) free(b);
  }
};

string via_memstream(const std::function<void(FILE*)>& fn) {
  char* buf = nullptr;
  size_t len = 0;
  FILE* f = open_memstream(&buf, &len);
  fn(f);
  fclose(f);
  string s(buf, len);
  free(buf);
  return s;
}

}  // namespace
}  // namespace c09
