// C05 round-2 sections (same oracle as C05.cc: c05::Judge / c05::check_text).
//
//   allbytes : every byte value 0x00..0xFF (and every ordered pair of byte values) in each syntactic position of a set of
//              template documents: raw inside strings and keys, after a backslash, in \u00XX, as a token, between tokens, in
//              comments, in numbers
//   bounds   : boundary arguments: integers 2^k-1, 2^k, 2^k+1 (k = 0..64, both signs) in decimal / hexadecimal / fraction /
//              exponent spelling; numbers of up to 400 digits; strings, keys, whitespace runs and comments up to 64 KiB + 1;
//              containers up to 65 537 elements
//   hist     : call histories: every ordered pair and every A-B-A / ordered triple of (text, entry point, mode) steps over a
//              set of texts that differ in size class, shape, alphabet and in how they are rejected; every call is compared
//              with the memoryless reference, every earlier result is re-examined at the end
//   soak     : one (text, entry, mode) step repeated N times, then every accepted text through every entry x mode; plus one
//              long round-robin history over all steps
//   contexts : the corpus parsed inside a catch handler, in destructors during unwinding, below noexcept, through
//              std::function, on a second thread, with each ambient errno value, through readers built by every constructor
//   streams  : several values read one after the other from ONE reader (final position and every value compared)
#include "C05_common.hh"

using namespace phosg;
using namespace c05;

namespace {

// ---- allbytes ----------------------------------------------------------------------------------------------------

std::string fill(const std::string& tpl, int b, int c) {
  std::string s;
  for (char ch : tpl) {
    if (ch == '\x01') s += (char)b;
    else if (ch == '\x02') s += (char)c;
    else s += ch;
  }
  return s;
}

const std::vector<std::string> ONE_HOLE = {
    "\"\x01\"", "\"a\x01z\"", "\"\x01\x01\"", "{\"\x01\":1}", "{\"k\x01\":\"v\x01\"}", "[\"\x01\",1]", "\x01", "1\x01", "\x01" "1", "[1\x01" "2]", "[1,\x01" "2]", "[1\x01,2]",
    "{\"a\"\x01:1}", "{\"a\":\x01" "1}", "{\"a\":1\x01}", "//\x01\n1", "1 //\x01", "[1,//\x01\n2]", "\"\\\x01\"", "\"\\u00\x01" "1\"", "\"\\u00e\x01\"", "\"\\u\x01" "041\"", "\"\\u0\x01" "41\"", "-\x01", "0\x01" "1",
    "1e\x01" "1", "1.\x01", "0x\x01", "0x1\x01", "[1,\x01]", "{\"a\":1,\x01}", "tru\x01", "n\x01", "\x01true", "\x01[]", "[]\x01", "{}\x01", "\"a\"\x01", "[\x01]", "{\x01}",
    "1 \x01", "[] \x01", "\"a\"\n\x01", "{}\t\x01 ", "\x01 1", "1 //c\n\x01"};
const std::vector<std::string> TWO_HOLE_Q = {"\"\x01\x02\"", "\x01\x02", "\"\\u00\x01\x02\"", "{\"\x01\x02\":0}"};
const std::vector<std::string> TWO_HOLE_T = {"[\x01\x02]", "0x\x01\x02", "1\x01\x02", "\"\\\x01\x02\"", "\"\\u\x01\x02" "41\"", "[1\x01\x02" "2]", "//\x01\x02\n1", "{\"a\"\x01\x02" "1}"};

}  // namespace

VF_SECTION(allbytes, 16, 16, 120) {
  FILE* dat = jref::dat_open(r.section, r.shard);
  r.note("JSON::parse");
  for (auto& t : ONE_HOLE)
    for (int b = 0; b < 256; b++) {
      if (!r.take()) continue;
      text_case(r, fill(t, b, 0), dat, ES_FULL);
    }
  std::vector<std::string> two = TWO_HOLE_Q;
  if (r.thorough()) two.insert(two.end(), TWO_HOLE_T.begin(), TWO_HOLE_T.end());
  for (auto& t : two)
    for (int b = 0; b < 256; b++)
      for (int c = 0; c < 256; c++) {
        if (!r.take()) continue;
        text_case(r, fill(t, b, c), dat, ES_CORE);
      }
  if (dat) fclose(dat);
  r.bound = vf::fmt("every byte value 0x00-0xFF in the hole of %zu one-hole templates (string/key content, escape character, \\u digits, token start, between tokens, "
                    "comment content, number characters; all entries) and every ordered pair of byte values in %zu two-hole templates (core entries)", ONE_HOLE.size(), two.size());
}

// ---- bounds ------------------------------------------------------------------------------------------------------

namespace {

std::string dec128(unsigned __int128 v) {
  if (v == 0) return "0";
  std::string s;
  while (v) { s.insert(s.begin(), (char)('0' + (int)(v % 10))); v /= 10; }
  return s;
}
std::string hex128(unsigned __int128 v, bool upper) {
  if (v == 0) return "0";
  const char* H = upper ? "0123456789ABCDEF" : "0123456789abcdef";
  std::string s;
  while (v) { s.insert(s.begin(), H[(int)(v & 15)]); v >>= 4; }
  return s;
}

std::string digits(size_t n, const char* cycle) {
  std::string s;
  size_t l = strlen(cycle);
  for (size_t i = 0; i < n; i++) s += cycle[i % l];
  return s;
}

// every text of the section, simplest first (cheap to build except the long ones, which are built lazily by index)
struct BoundTexts {
  std::vector<std::function<std::string()>> make;
  void add(const std::string& s) { make.push_back([s] { return s; }); }
  void lazy(std::function<std::string()> f) { make.push_back(std::move(f)); }
};

void build_bounds(BoundTexts& B, bool thorough) {
  // A. integers around every power of two, in every spelling, alone and inside containers
  for (int k = 0; k <= 64; k++) {
    for (int d = -1; d <= 1; d++) {
      unsigned __int128 m = ((unsigned __int128)1 << k) + d;
      for (int neg = 0; neg < 2; neg++) {
        std::string sg = neg ? "-" : "";
        std::vector<std::string> forms = {sg + dec128(m), sg + "0x" + hex128(m, true), sg + "0x" + hex128(m, false), sg + "0x0000" + hex128(m, true),
            sg + "0x" + std::string(20, '0') + hex128(m, false), sg + dec128(m) + ".0", sg + dec128(m) + "e0", sg + dec128(m) + "E+0", sg + dec128(m) + ".5e-0",
            sg + dec128(m) + "e00000000"};
        for (auto& f : forms) {
          B.add(f);
          B.add("[" + f + "]");
          B.add("{\"a\":" + f + "}");
          B.add(" " + f + " ");
        }
      }
    }
  }
  // B. long numbers
  for (size_t L : {15, 16, 17, 18, 19, 20, 21, 22, 50, 100, 200, 299, 300, 307, 308, 309, 310, 330, 400}) {
    std::string ones = "1" + std::string(L - 1, '0'), nines(L, '9'), zeros(L - 1, '0');
    std::vector<std::string> forms = {
        ones, nines, ones + ".0", ones + ".5", nines + ".9", "0." + zeros + "1", "0." + zeros + "1e" + std::to_string(L), "0." + zeros + "1E+" + std::to_string(L),
        ones + "e-" + std::to_string(L - 1), "0." + digits(L, "1234567890"), "3." + digits(L, "14159265358979323846"), "1." + std::string(L, '0'),
        "1." + zeros + "1", "1e" + zeros + "1", "1e-" + zeros + "1", "1E+" + zeros + "2", "0e" + nines.substr(0, L > 6 ? 6 : L), "0.0e-" + nines.substr(0, L > 6 ? 6 : L),
        std::string(L, '0') + "1", "0." + nines, digits(L, "123456789") + "." + digits(L, "987654321"), "1." + digits(L, "9") + "e" + std::to_string(L > 300 ? 300 : L),
        "0." + zeros + "1e-" + std::to_string(L > 300 ? 1 : 300 - L)};
    for (auto& f : forms) {
      B.add(f);
      B.add("-" + f);
      B.add("[" + f + ",1]");
      B.add("{\"a\":" + f + "}");
    }
  }
  for (int e : {0, 1, 2, 9, 10, 11, 99, 100, 101, 299, 300, 307, 308, 309, 310, 323, 324, 325, 400, 999, 1000, 99999, 999999}) {
    for (const char* m : {"1", "1.0", "9.99", "0", "0.0", "2.2250738585072014", "1.7976931348623157", "4.9"})
      for (const char* sg : {"e", "e+", "e-", "E", "E-"}) B.add(std::string(m) + sg + std::to_string(e));
  }
  // C. long strings, as value / key / list element
  static const size_t LENS[] = {0, 1, 2, 15, 16, 17, 22, 23, 24, 31, 32, 255, 256, 257, 4095, 4096, 4097, 65535, 65536, 65537};
  for (size_t n : LENS) {
    if (!thorough && n > 65536) continue;
    for (int kind = 0; kind < 6; kind++) {
      auto body = [n, kind]() {
        std::string s;
        switch (kind) {
          case 0: s = std::string(n, 'a'); break;
          case 1: for (size_t i = 0; s.size() < n; i++) { unsigned char c = 0x20 + i % 0xE0; if (c != '"' && c != '\\') s += (char)c; } break;  // every raw byte 0x20..0xFF
          case 2: s = rep("\\n", n); break;
          case 3: s = rep("\\u00e9", n); break;
          case 4: for (size_t i = 0; i < n; i++) { static const char* piece[] = {"x", "\\\"", "\xC3\xA9", "\\\\", "\\u00FF", "/", "\\/", "\\t"}; s += piece[i % 8]; } break;
          case 5: s = std::string(n, '\xFF'); break;
        }
        return s;
      };
      B.lazy([body] { return "\"" + body() + "\""; });
      B.lazy([body] { return "{\"" + body() + "\":1}"; });
      B.lazy([body] { return "[\"" + body() + "\",\"" + body() + "\"]"; });
      B.lazy([body] { return "{\"a\":\"" + body() + "\",\"b\":\"\"}"; });
    }
  }
  // D. long whitespace runs and comments at every kind of position
  for (size_t n : {1, 2, 255, 256, 4096, 65536}) {
    for (const char* w : {" ", "\t", "\n", "\r", " \t\r\n"}) {
      std::string ws = rep(w, n / strlen(w) + (n % strlen(w) ? 1 : 0));
      B.lazy([ws] { return ws + "1"; });
      B.lazy([ws] { return "1" + ws; });
      B.lazy([ws] { return "[" + ws + "1" + ws + "," + ws + "2" + ws + "]" + ws; });
      B.lazy([ws] { return "{" + ws + "\"a\"" + ws + ":" + ws + "1" + ws + "}"; });
      B.lazy([ws] { return "[" + ws + "]"; });
      B.lazy([ws] { return "{" + ws + "}"; });
      B.lazy([ws] { return "1" + ws + "x"; });
    }
    for (int kind = 0; kind < 3; kind++) {
      std::string body = kind == 0 ? std::string(n, 'c') : kind == 1 ? rep("\"[{/", n / 4 + 1) : std::string(n, '\xFF');
      for (const char* nl : {"\n", "\r\n"}) {
        std::string c = "//" + body + nl;
        B.lazy([c] { return c + "1"; });
        B.lazy([c] { return "1" + c; });
        B.lazy([c] { return "[" + c + "1" + c + "," + c + "2" + c + "]" + c; });
        B.lazy([c] { return "{" + c + "\"a\"" + c + ":" + c + "1" + c + "}"; });
        B.lazy([c] { return c + c + c + "[]"; });
      }
      B.lazy([body] { return "1//" + body; });
      B.lazy([body] { return "[1]\n//" + body; });
    }
  }
  // E. container sizes
  for (size_t n : {0, 1, 2, 3, 255, 256, 257, 4096, 65535, 65536, 65537}) {
    if (!thorough && n > 4096 && n != 65536) continue;
    int item_no = 0;
    for (const char* item : {"1", "\"a\"", "[]", "{\"a\":null}", "-1.5e0"}) {
      if (!thorough && n > 4096 && item_no++ >= 2) continue;
      std::string it = item;
      B.lazy([n, it] { std::string s = "["; for (size_t i = 0; i < n; i++) { if (i) s += ','; s += it; } return s + "]"; });
      if (n) B.lazy([n, it] { std::string s = "["; for (size_t i = 0; i < n; i++) { s += it; s += ','; } return s + "]"; });  // trailing comma
      B.lazy([n, it] { std::string s = "[ "; for (size_t i = 0; i < n; i++) { if (i) s += " ,\n"; s += it; } return s + " ]"; });
    }
    if (n <= 4096) {
      for (const char* item : {"1", "{}", "\"v\""}) {
        std::string it = item;
        B.lazy([n, it] { std::string s = "{"; for (size_t i = 0; i < n; i++) { if (i) s += ','; s += "\"k" + std::to_string(i) + "\":" + it; } return s + "}"; });
        if (n) B.lazy([n, it] { std::string s = "{"; for (size_t i = 0; i < n; i++) { s += "\"k" + std::to_string(i) + "\":" + it + ","; } return s + "}"; });
        B.lazy([n, it] { std::string s = "{\n"; for (size_t i = 0; i < n; i++) { if (i) s += " ,\n"; s += "\"" + std::string(i % 40, 'k') + std::to_string(i) + "\" : " + it; } return s + "\n}"; });
      }
    }
  }
}

}  // namespace

VF_SECTION(bounds, 16, 16, 180) {
  FILE* dat = jref::dat_open(r.section, r.shard);
  r.note("JSON::parse");
  BoundTexts B;
  build_bounds(B, r.thorough());
  for (auto& mk : B.make) {
    if (!r.take()) continue;
    text_case(r, mk(), dat, ES_FULL);
  }
  if (dat) fclose(dat);
  r.counters["texts"] += r.shard == 0 ? B.make.size() : 0;
  r.bound = "integers 2^k-1, 2^k, 2^k+1 for k = 0..64, both signs, x 10 spellings (decimal, 0x upper/lower/leading zeros, .0, e0, E+0, .5e-0, e00000000) x 4 placements; "
            "19 digit counts 15..400 x 23 long-number shapes x 4 placements; 23 exponents 0..999999 x 8 mantissas x 5 exponent markers; strings of 20 lengths 0..65537 x 6 "
            "contents x 4 placements (value, key, list, two members); whitespace runs and // comments of 1..65536 bytes at every position; lists of 0..65537 and dictionaries "
            "of 0..4096 elements (plain, trailing comma, padded)";
}

// ---- hist / soak -------------------------------------------------------------------------------------------------

namespace {

struct HText {
  Judge J;
  bool core = false, deep = false;
};

const std::vector<HText>& hist_texts(bool thorough) {
  static std::vector<HText> v;
  if (!v.empty()) return v;
  auto add = [&](const std::string& s, bool core, bool deep = false) {
    HText h;
    h.J = Judge(s);
    h.core = core;
    h.deep = deep;
    v.push_back(std::move(h));
  };
  const std::string big = "\"" + std::string(40, 'x') + "\"";
  // accepted in both modes
  add("1", true); add("-0", false); add("5e-1", true); add("9223372036854775807", false); add("1.7976931348623157e308", false); add("\"a\"", true); add("\"\"", false);
  add("\"\\u00e9\\n\"", false); add(big, true); add("true", false); add("false", false); add("null", true); add("[]", true); add("{}", false); add("[1,2]", true);
  add("{\"a\":1,\"b\":[true,null]}", true); add("[[[[1]]]]", false); add(" [ 1 , 2 ] ", false); add("{\"" + std::string(30, 'k') + "\":" + big + "}", false);
  // documented extensions (default accepts, strict rejects)
  add("0x1F", true); add("-0x10", false); add("n", true); add("t", false); add("f", false); add("[1,]", true); add("{\"a\":1,}", false); add("// c\n1", true);
  add("[1, // c\n 2]", false); add("1 // c", false);
  // rejected, one per way of failing
  for (auto& s : rejected_corpus()) add(s, s == "[1," || s == "\"abc" || s == "x" || s == "{\"a\":1 \"b\":2}");
  // deep: valid, truncated, broken in the middle
  // (unwinding an exception through 500 parser frames costs milliseconds under ASan, so the quick tier keeps one text per kind)
  add(rep("[", 500) + rep("]", 500), false, true);
  add(rep("{\"a\":", 500) + "1" + rep("}", 500), false, true);
  add(rep("[", 500), false, true);                                  // out_of_range thrown 500 levels down
  add(rep("[", 500) + "1" + rep("]", 499), false, true);            // out_of_range thrown at level 1 after 499 levels returned
  add(rep("[{\"k\":", 250) + "0x" + rep("}]", 250), false, true);  // strict: parse_error thrown 500 levels down
  if (thorough) {
    add(rep("[", 500) + "x", false, true);
    add(rep("{\"a\":", 300), false, true);
  }
  return v;
}

// one buffer whose start address is the same for every step of a history; the unused tail is poisoned for ASan
struct Arena {
  char* base;
  size_t cap;
  explicit Arena(size_t c) : base((char*)malloc(c ? c : 1)), cap(c ? c : 1) {}
  ~Arena() {
    ASAN_UNPOISON_MEMORY_REGION(base, cap);
    free(base);
  }
  const char* put(const std::string& s) {
    ASAN_UNPOISON_MEMORY_REGION(base, cap);
    memset(base, '7', cap);
    if (!s.empty()) memcpy(base, s.data(), s.size());
    ASAN_POISON_MEMORY_REGION(base + s.size(), cap - s.size());
    return base;
  }
};

struct Step {
  int t;
  int entry;  // E_READER / E_PTR / E_STRING
  int strict;
};

struct HistRunner {
  vf::Run& r;
  const std::vector<HText>& T;
  Arena arena;
  std::string hs;  // the one std::string object every E_STRING step parses
  explicit HistRunner(vf::Run& run) : r(run), T(hist_texts(run.thorough())), arena(max_len(hist_texts(run.thorough())) + 16) { env().run = &r; }
  static size_t max_len(const std::vector<HText>& t) {
    size_t m = 0;
    for (auto& h : t) m = h.J.s.size() > m ? h.J.s.size() : m;
    return m;
  }

  Obs exec(const Step& st) {
    const std::string& s = T[st.t].J.s;
    r.transitions++;
    return observe([&](Obs& o) {
      switch (st.entry) {
        case E_READER: {
          StringReader rd(arena.put(s), s.size());
          parse_reader(o, rd, st.strict, false);
          break;
        }
        case E_PTR: {
          const char* p = arena.put(s);
          set_errno_for_call();
          o.value = JSON::parse(p, s.size(), st.strict);
          break;
        }
        default:
          hs.assign(s);
          set_errno_for_call();
          o.value = JSON::parse(hs, st.strict);
          break;
      }
    });
  }

  std::string show_steps(const std::vector<Step>& h, size_t upto) {
    std::string d;
    for (size_t k = 0; k < h.size() && k <= upto; k++)
      d += vf::fmt("%s(%zu) parse(%s) via %s, %s", k ? "; " : "", k + 1, brief(T[h[k].t].J.s).c_str(), entry_name((Entry)h[k].entry), h[k].strict ? "strict" : "default");
    return d;
  }

  // executes the history, judging every call; returns false after the first failing call
  bool run(const std::vector<Step>& h) {
    std::vector<Obs> obs;
    obs.reserve(h.size());
    for (size_t k = 0; k < h.size(); k++) {
      obs.push_back(exec(h[k]));
      const Judge& J = T[h[k].t].J;
      const jref::Result* ref = nullptr;
      const char* expect = nullptr;
      std::string key = J.verdict(obs[k], (Entry)h[k].entry, h[k].strict, &ref, &expect);
      if (!key.empty()) {
        r.fail(key, [&] { return "history on one thread, same buffer address: " + show_steps(h, k) + " -> call " + std::to_string(k + 1) + ": " + describe_failure(J, obs[k], (Entry)h[k].entry, h[k].strict, ref, expect); });
        return false;
      }
    }
    // results returned earlier must still be what they were (no state shared with later calls)
    for (size_t k = 0; k + 1 < h.size(); k++) {
      if (obs[k].status) continue;
      std::string key = T[h[k].t].J.verdict(obs[k], (Entry)h[k].entry, h[k].strict);
      if (!key.empty()) {
        r.fail("history:earlier-result-changed", [&] { return "history: " + show_steps(h, h.size()) + ": the value returned by call " + std::to_string(k + 1) + " no longer matches its reference after the later calls (" + key + "): now " + show_obs(obs[k]); });
        return false;
      }
    }
    return true;
  }
};

std::vector<Step> step_variants(const std::vector<HText>& T, bool core_only, bool with_deep, bool deep_reduced) {
  std::vector<Step> v;
  for (size_t t = 0; t < T.size(); t++) {
    if (core_only && !T[t].core) continue;
    if (T[t].deep && !with_deep) continue;
    for (int e = 0; e < 3; e++)
      for (int m = 0; m < 2; m++) {
        if (T[t].deep && deep_reduced && !((e == E_READER && m == 0) || (e == E_STRING && m == 1))) continue;
        v.push_back({(int)t, e, m});
      }
  }
  return v;
}

}  // namespace

VF_SECTION(hist, 16, 16, 180) {
  r.note("JSON::parse histories");
  HistRunner H(r);
  const auto& T = H.T;
  // self-check of the poisoning (an over-read of a history step must be an ASan report)
  {
    const char* p = H.arena.put("12345");
    if (!__asan_address_is_poisoned(p + 5) || __asan_address_is_poisoned(p + 4)) r.notes.push_back("arena tail poisoning not effective at byte granularity");
    H.arena.put("");
  }
  // deep texts take part through two entry/mode combinations (reader+default, std::string+strict)
  std::vector<Step> all = step_variants(T, false, true, true), core = step_variants(T, true, false, false);
  std::vector<Step> wide = r.thorough() ? step_variants(T, false, false, false) : core;  // thorough: every text that is not deep
  if (r.shard == 0 && r.only < 0) {
    FILE* dat = jref::dat_open(r.section, r.shard);
    for (auto& t : T) jref::dat_line(dat, t.J.s, t.J.st);
    if (dat) fclose(dat);
  }
  auto hist_case = [&](const std::vector<Step>& h) {
    if (r.wants_desc()) r.desc("history " + H.show_steps(h, h.size()));
    r.nontriv();
    if (H.run(h)) r.ok(vf::fmt("history-of-%zu:every-call-as-memoryless-reference", h.size()));
  };
  // every ordered pair (including a step after itself)
  for (auto& a : all)
    for (auto& b : all) {
      if (!r.take()) continue;
      hist_case({a, b});
    }
  // A-B-A
  for (auto& a : all)
    for (auto& b : all) {
      if (!r.take()) continue;
      hist_case({a, b, a});
    }
  // every ordered triple
  for (auto& a : wide)
    for (auto& b : wide)
      for (auto& c : wide) {
        if (!r.take()) continue;
        hist_case({a, b, c});
      }
  size_t ntext = 0, ncore = 0, ndeep = 0;
  for (auto& t : T) { ntext++; ncore += t.core; ndeep += t.deep; }
  r.bound = vf::fmt("steps = %zu texts (19 standard, 10 extension, %zu rejected in distinct ways, %zu nested 500 deep) x {reader, ptr+size, std::string} x {default, strict} (deep texts: "
                    "reader+default and std::string+strict) = %zu; every ordered pair and every A-B-A history over all steps; every ordered triple over %zu steps (%s); same buffer address and "
                    "same std::string object for every call of a history",
      ntext, rejected_corpus().size(), ndeep, all.size(), wide.size(), r.thorough() ? "all texts that are not deep" : vf::fmt("%zu core texts x 6", ncore).c_str());
}

VF_SECTION(soak, 16, 16, 300) {
  r.note("JSON::parse long histories");
  HistRunner H(r);
  const auto& T = H.T;
  std::vector<Step> all = step_variants(T, false, true, true);
  std::vector<Step> accepted;  // the calls whose result is fully determined
  for (auto& s : all)
    if (T[s.t].J.ex.accepted) accepted.push_back(s);
  const size_t N = r.thorough() ? 200000 : 20000, N_DEEP = N / 100;
  auto verify = [&](const Step& s, const std::vector<Step>& before, size_t reps) {
    Obs o = H.exec(s);
    const Judge& J = T[s.t].J;
    const jref::Result* ref = nullptr;
    const char* expect = nullptr;
    std::string key = J.verdict(o, (Entry)s.entry, s.strict, &ref, &expect);
    if (key.empty()) return true;
    r.fail(key, [&] { return vf::fmt("after %zu x [", reps) + H.show_steps(before, before.size()) + "] on the same thread: " + describe_failure(J, o, (Entry)s.entry, s.strict, ref, expect); });
    return false;
  };
  // (a) one step repeated N times, then every accepted text through every entry x mode
  for (auto& s : all) {
    if (!r.take()) continue;
    size_t n = T[s.t].deep ? N_DEEP : N;
    if (r.wants_desc()) r.desc(vf::fmt("%zu x [", n) + H.show_steps({s}, 1) + "], then every accepted text x entry x mode");
    r.nontriv();
    bool good = true;
    for (size_t i = 0; i < n && good; i++) {
      good = verify(s, {s}, i);
      if ((i & 1023) == 0) r.beat();
    }
    for (size_t k = 0; k < accepted.size() && good; k++) good = verify(accepted[k], {s}, n);
    if (good) r.ok("repeated-step-then-all-accepted-texts:every-call-as-memoryless-reference");
  }
  // (b) round-robin over all steps, in both directions
  for (int dir = 0; dir < 2; dir++) {
    if (!r.take()) continue;
    size_t rounds = r.thorough() ? 400 : 40;
    if (r.wants_desc()) r.desc(vf::fmt("%zu rounds over all %zu steps, %s order", rounds, all.size(), dir ? "descending" : "ascending"));
    r.nontriv();
    bool good = true;
    for (size_t round = 0; round < rounds && good; round++) {
      for (size_t k = 0; k < all.size() && good; k++) {
        const Step& s = all[dir ? all.size() - 1 - k : k];
        Obs o = H.exec(s);
        const jref::Result* ref = nullptr;
        const char* expect = nullptr;
        std::string key = T[s.t].J.verdict(o, (Entry)s.entry, s.strict, &ref, &expect);
        if (!key.empty()) {
          good = false;
          r.fail(key, [&] { return vf::fmt("round-robin history over all %zu steps (%s order), round %zu, step %zu: ", all.size(), dir ? "descending" : "ascending", round + 1, k + 1) + describe_failure(T[s.t].J, o, (Entry)s.entry, s.strict, ref, expect); });
        }
      }
      r.beat();
    }
    if (good) r.ok("round-robin:every-call-as-memoryless-reference");
  }
  r.bound = vf::fmt("each of %zu steps (text x entry x mode) repeated %zu times (%zu for the 500-deep texts) and followed by all %zu accepted steps; 2 round-robin histories of %d rounds over "
                    "all steps; one thread, same buffer address", all.size(), N, N_DEEP, accepted.size(), r.thorough() ? 400 : 40);
}

// ---- contexts ----------------------------------------------------------------------------------------------------

VF_SECTION(contexts, 16, 16, 180) {
  FILE* dat = jref::dat_open(r.section, r.shard);
  r.note("JSON::parse in contexts");
  std::vector<std::string> texts = std_corpus();
  texts.insert(texts.end(), ext_corpus().begin(), ext_corpus().end());
  texts.insert(texts.end(), rejected_corpus().begin(), rejected_corpus().end());
  for (const char* x : {"0x7fffffffffffffff", "1e308", "1e-307", "123456789012345678901.5", "[1.0E-2,-0.0,0e0]", "\"\\u00FF\\u0000\"", "\"\xFF\x80\"", "{\"\xC3\xA9\":[n,t,f,]}"}) texts.push_back(x);
  texts.push_back(rep("[", 500) + rep("]", 500));
  texts.push_back(rep("{\"a\":", 500) + "1" + rep("}", 500));
  texts.push_back(rep("[", 500));
  static const int ERRNOS[] = {0, ERANGE, EINVAL, EINTR, ENOMEM, EDOM};
  struct Restore {
    ~Restore() { env().ctx = CX_PLAIN; env().errno_mode = -1; }
  } restore;
  for (auto& t : texts) {
    for (int c = 0; c < N_CTX; c++) {
      if (!r.take()) continue;
      env().ctx = c;
      env().errno_mode = -1;
      if (r.wants_desc()) r.desc(std::string("called from: ") + ctx_name(c));
      text_case(r, t, c == 0 ? dat : nullptr, ES_ALL);
      env().ctx = CX_PLAIN;
    }
    for (int e : ERRNOS) {
      if (!r.take()) continue;
      env().errno_mode = e;
      if (r.wants_desc()) r.desc(vf::fmt("errno = %d before every call", e));
      text_case(r, t, nullptr, ES_ALL);
      env().errno_mode = -1;
    }
  }
  if (dat) fclose(dat);
  r.counters["texts"] += r.shard == 0 ? texts.size() : 0;
  r.bound = vf::fmt("%zu texts (standard, extension, rejected, boundary numbers, 500-deep) x {8 calling contexts: plain, catch handler, destructor during unwinding, nested unwinding, "
                    "noexcept frame, std::function, second thread, unwinding on a second thread; 6 ambient errno values} x 11 entries (3 entry points, defaulted mode argument, readers at "
                    "offsets 1 and 10, sub-reader window, readers built from std::string and shared_ptr<string>) x {default, strict}", texts.size());
}

// ---- streams -----------------------------------------------------------------------------------------------------

namespace {

struct SVal {
  std::string text;
  bool ext;
};
const std::vector<SVal> STREAM_VALUES = {{"1", false}, {"-1.5e2", false}, {"\"a b\"", false}, {"\"\"", false}, {"[]", false}, {"{}", false}, {"[1,[2]]", false},
    {"{\"a\":{\"b\":null}}", false}, {"true", false}, {"null", false}, {"0x1F", true}, {"t", true}, {"[1,]", true}, {"\"//\"", false}};
const std::vector<std::string> SEPS = {" ", "\n", "\t \r\n", ",", " , ", " //c\n", "\n// [\"\n\n"};

}  // namespace

VF_SECTION(streams, 8, 16, 120) {
  FILE* dat = jref::dat_open(r.section, r.shard);
  r.note("JSON::parse(StringReader&) streams");
  env().run = &r;
  const int maxk = r.thorough() ? 4 : 3;
  for (int k = 2; k <= maxk; k++) {
    std::vector<uint32_t> radix(k, (uint32_t)STREAM_VALUES.size());
    for (vf::Odometer od(radix); !od.done; od.step()) {
      for (size_t si = 0; si < SEPS.size(); si++) {
        for (int strict = 0; strict < 2; strict++) {
          for (int lead = 0; lead < 2; lead++) {
            if (!r.take()) continue;
            const std::string& sep = SEPS[si];
            std::string text = lead ? "\n " : "";
            for (int i = 0; i < k; i++) {
              if (i) text += sep;
              text += STREAM_VALUES[od.d[i]].text;
            }
            text += lead ? " \n" : "";
            if (r.wants_desc()) r.desc(vf::fmt("stream %s read value by value through one reader, %s mode", vf::show(text).c_str(), strict ? "strict" : "default"));
            r.nontriv();
            ExactBuf buf(text);
            StringReader rd(buf.p, buf.n);
            bool good = true, stopped = false;
            int nvalues = 0;
            for (int i = 0; i < k + 1 && good && !stopped; i++) {
              size_t start = rd.where();
              // the caller consumes a comma separator itself (as a list reader would)
              if (i && i < k) {
                size_t q = start;
                while (q < text.size() && (text[q] == ' ')) q++;
                if (q < text.size() && text[q] == ',') { rd.go(q + 1); start = q + 1; }
              }
              Judge J(text.substr(start));
              if (k <= 3) jref::dat_line(dat, J.s, J.st);
              Obs o = observe([&](Obs& ob) { parse_reader(ob, rd, strict, false); });
              r.transitions++;
              if (o.status == 0) o.where -= start;  // verdict() measures from the start of its text
              const jref::Result* ref = nullptr;
              const char* expect = nullptr;
              std::string key = J.verdict(o, E_READER, strict, &ref, &expect);
              if (!key.empty()) {
                good = false;
                r.fail(key, [&] { return vf::fmt("stream %s, %s mode, value %d read through the same reader from offset %zu: ", vf::show(text).c_str(), strict ? "strict" : "default", i + 1, start) + describe_failure(J, o, E_READER, strict, ref, expect); });
              }
              if (o.status) stopped = true;
              else nvalues++;
            }
            if (!good) continue;
            r.ok(nvalues == k ? "stream:all-values-and-positions-as-reference,then-end-of-input-reported" : "stream:stopped-at-a-construct-the-mode-does-not-read(as reference)");
          }
        }
      }
    }
  }
  if (dat) fclose(dat);
  r.bound = vf::fmt("every sequence of 2..%d values out of %zu (10 standard, 4 using extensions) x %zu separators (whitespace kinds, comma consumed by the caller, comments) x "
                    "{default, strict} x {no, with} surrounding whitespace, read value by value from one StringReader until it reports the end", maxk, STREAM_VALUES.size(), SEPS.size());
}
