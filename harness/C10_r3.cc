// C10, round 3 — renderings judged on digest VALUES, and input byte VALUES.
//
// bin() and hex() are functions of the digest words only (the structs have nothing but their public state words).
// A digest made of special octets (all printable, all white space, all NUL, a zero word, ...) practically never
// comes out of an input sweep (an all-printable MD5 value has probability 2e-7, SHA-256 4e-14), so section
// `renderings` enumerates the VALUE space directly: a digest object is built by the real constructor, its public words
// are set to the algorithm-defined encoding of an n-octet image (MD5: little-endian words a0..d0; SHA-1/SHA-256:
// big-endian words h[i]) and bin() must return exactly the image, hex() the 2n hexadecimal digits of the image.
// Every case is a self-contained history on ONE persistent object (image A, then one more word complemented at
// every step until the object holds the complement, then A again) plus a fresh object, a const reference and a copy.
// Inputs whose real digest is all-printable (found by an offline search, verified with OpenSSL at run time) close
// the loop from inputs to such values.
//
// Section `content` is the same idea on the input side: every octet value 0..255 at the first / middle / last
// position of inputs around the padding boundaries (and every 1- and 2-octet string), every function and overload.
#include <algorithm>

#include "C10_common.hh"

using namespace c10;

namespace {

constexpr size_t MAXN = 32;
struct Image {
  uint8_t b[MAXN];
};

// ---- the algorithm-defined word encodings (written on their own; words() of C10_common.hh is the inverse) --------
inline uint32_t load_le(const uint8_t* m) { return uint32_t(m[0]) | (uint32_t(m[1]) << 8) | (uint32_t(m[2]) << 16) | (uint32_t(m[3]) << 24); }
inline uint32_t load_be(const uint8_t* m) { return uint32_t(m[3]) | (uint32_t(m[2]) << 8) | (uint32_t(m[1]) << 16) | (uint32_t(m[0]) << 24); }
inline void set_words(phosg::MD5& d, const uint8_t* m) {  // RFC 1321 3.5: A, B, C, D, each low-order byte first
  d.a0 = load_le(m);
  d.b0 = load_le(m + 4);
  d.c0 = load_le(m + 8);
  d.d0 = load_le(m + 12);
}
inline void set_words(phosg::SHA1& d, const uint8_t* m) {  // FIPS 180-4: H0..H4, big-endian
  for (int i = 0; i < 5; i++) d.h[i] = load_be(m + 4 * i);
}
inline void set_words(phosg::SHA256& d, const uint8_t* m) {  // FIPS 180-4: H0..H7, big-endian
  for (int i = 0; i < 8; i++) d.h[i] = load_be(m + 4 * i);
}

inline std::string hex_upper(const uint8_t* p, size_t n) {
  static const char* d = "0123456789ABCDEF";
  std::string s;
  for (size_t i = 0; i < n; i++) {
    s += d[p[i] >> 4];
    s += d[p[i] & 15];
  }
  return s;
}

// lane alphabet: the octet classes a rendering could tell apart (NUL, control, the three "text" controls, both ends
// of the printable range, quote / apostrophe / backslash, both ends of the digit and hex-letter ranges in both
// cases, DEL, first and last high octets)
const std::vector<uint8_t> kLane = {0x00, 0x01, 0x09, 0x0A, 0x0D, 0x1F, 0x20, 0x22, 0x27, 0x2F, 0x30, 0x39, 0x3A, 0x41, 0x46, 0x47, 0x5C, 0x61, 0x66, 0x67, 0x7E, 0x7F, 0x80, 0x9F, 0xA0, 0xFF};
const char* const kLaneText = "{00,01,09,0A,0D,1F,20,22,27,2F,30,39,3A,41,46,47,5C,61,66,67,7E,7F,80,9F,A0,FF}";

// Every image of the bound, simplest first; emit(image, family).  Deterministic; identical in every shard.
template <class F>
void for_each_image(size_t n, bool thorough, bool per_byte_classes, F&& emit) {
  const size_t nw = n / 4;
  Image im;
  auto uniform = [&](uint8_t v) { memset(im.b, v, MAXN); };
  // F1 all octets equal: every value
  for (int v = 0; v < 256; v++) {
    uniform(static_cast<uint8_t>(v));
    emit(im, "all octets equal");
  }
  // F2 one octet different, at every position
  for (uint8_t base : kLane)
    for (size_t p = 0; p < n; p++)
      for (uint8_t v : kLane) {
        if (v == base) continue;
        uniform(base);
        im.b[p] = v;
        emit(im, "one octet different");
      }
  // F3 one word different, every word
  for (uint8_t base : kLane)
    for (size_t w = 0; w < nw; w++)
      for (uint8_t v : kLane) {
        if (v == base) continue;
        uniform(base);
        memset(im.b + 4 * w, v, 4);
        emit(im, "one word different");
      }
  // F4 word values at the powers of two (zero padding of each printed word), in every word
  {
    std::vector<uint32_t> vals;
    for (int k = 0; k <= 32; k++)
      for (int d = -1; d <= 1; d++) {
        uint32_t v = static_cast<uint32_t>(((uint64_t(1) << k) + d) & 0xFFFFFFFFull);
        if (std::find(vals.begin(), vals.end(), v) == vals.end()) vals.push_back(v);
      }
    for (uint32_t bw : {0x00000000u, 0xFFFFFFFFu, 0x41424344u, 0x80818283u})
      for (size_t w = 0; w < nw; w++)
        for (uint32_t v : vals) {
          for (size_t i = 0; i < nw; i++)
            for (int j = 0; j < 4; j++) im.b[4 * i + j] = static_cast<uint8_t>(bw >> (8 * (3 - j)));
          for (int j = 0; j < 4; j++) im.b[4 * w + j] = static_cast<uint8_t>(v >> (8 * (3 - j)));
          emit(im, "one word at a power of two (-1, +0, +1)");
        }
  }
  // F5 every nibble value at every nibble position
  for (uint8_t base : {uint8_t(0x00), uint8_t(0xFF), uint8_t(0x44), uint8_t(0x88)})
    for (size_t q = 0; q < 2 * n; q++)
      for (int v = 0; v < 16; v++) {
        uniform(base);
        uint8_t& c = im.b[q / 2];
        c = (q & 1) ? static_cast<uint8_t>((c & 0xF0) | v) : static_cast<uint8_t>((c & 0x0F) | (v << 4));
        emit(im, "one nibble different");
      }
  // F6 octet classes: every octet from one class, all octets different where the class allows
  auto cycle = [&](const std::vector<uint8_t>& cls, const std::vector<size_t>& strides, const char* family) {
    for (size_t k : strides)
      for (size_t s = 0; s < cls.size(); s++) {
        for (size_t i = 0; i < n; i++) im.b[i] = cls[(s + i * k) % cls.size()];
        emit(im, family);
      }
  };
  {
    std::vector<uint8_t> printable, text, white = {0x09, 0x0A, 0x0D, 0x20}, high, control, hexdigits, alnum, all;
    for (int c = 0x20; c <= 0x7E; c++) printable.push_back(static_cast<uint8_t>(c));
    text = printable;
    text.insert(text.end(), {0x09, 0x0A, 0x0D});
    for (int c = 0x80; c <= 0xFF; c++) high.push_back(static_cast<uint8_t>(c));
    for (int c = 0; c < 0x20; c++) control.push_back(static_cast<uint8_t>(c));
    control.push_back(0x7F);
    for (char c : std::string("0123456789ABCDEFabcdef")) hexdigits.push_back(static_cast<uint8_t>(c));
    for (char c : std::string("0123456789ABCDEFGHIJKLMNOPQRSTUVWXYZabcdefghijklmnopqrstuvwxyz")) alnum.push_back(static_cast<uint8_t>(c));
    for (int c = 0; c < 256; c++) all.push_back(static_cast<uint8_t>(c));
    cycle(printable, {1, 7, 94}, "all octets printable ASCII");
    cycle(text, {1, 5}, "all octets printable ASCII or tab / line feed / carriage return");
    cycle(white, {1, 3}, "all octets white space");
    cycle(hexdigits, {1, 5}, "all octets ASCII hexadecimal digits");
    cycle(alnum, {1, 11}, "all octets ASCII letters or digits");
    cycle(control, {1, 5}, "all octets control characters");
    cycle(high, {1, 37}, "all octets >= 0x80");
    cycle(all, {1, 17, 255, 128}, "counting octets");
  }
  // F7 one class per word, every assignment
  {
    const int ncls = (n == 32 && !thorough) ? 3 : 4;
    size_t total = 1;
    for (size_t w = 0; w < nw; w++) total *= ncls;
    for (size_t a = 0; a < total; a++) {
      size_t x = a;
      for (size_t w = 0; w < nw; w++, x /= ncls)
        for (size_t j = 0; j < 4; j++) {
          const size_t i = 4 * w + j;
          switch (x % ncls) {
            case 0: im.b[i] = static_cast<uint8_t>(0x21 + (i * 7) % 94); break;  // printable, no blank
            case 1: im.b[i] = static_cast<uint8_t>(0x80 + (i * 5) % 128); break;  // high
            case 2: im.b[i] = 0x00; break;
            default: im.b[i] = "\x09\x0A\x0D\x20"[j]; break;  // white space
          }
        }
      emit(im, "one octet class per word (printable / high / NUL / white space)");
    }
  }
  // F8 two octets different
  for (uint8_t base : {uint8_t(0x00), uint8_t(0x41), uint8_t(0xFF)})
    for (size_t p = 0; p < n; p++)
      for (size_t q = p + 1; q < n; q++)
        for (uint8_t v1 : {uint8_t(0x0A), uint8_t(0x22), uint8_t(0x5C), uint8_t(0x80)})
          for (uint8_t v2 : {uint8_t(0x0A), uint8_t(0x22), uint8_t(0x5C), uint8_t(0x80)}) {
            uniform(base);
            im.b[p] = v1;
            im.b[q] = v2;
            emit(im, "two octets different");
          }
  // F9 printable or not, chosen per octet: every assignment (2^n)
  if (per_byte_classes)
    for (uint64_t mask = 0; mask < (uint64_t(1) << n); mask++) {
      for (size_t i = 0; i < n; i++) {
        static const uint8_t np[4] = {0x00, 0x7F, 0x80, 0xFF};
        im.b[i] = ((mask >> i) & 1) ? static_cast<uint8_t>(0x41 + i) : static_cast<uint8_t>(np[i % 4] == 0x80 ? 0x80 + i : np[i % 4]);
      }
      emit(im, "printable or not, chosen per octet");
    }
  // F10 (thorough) one octet different with every value on one side
  if (thorough)
    for (int side = 0; side < 2; side++)
      for (uint8_t l : kLane)
        for (size_t p = 0; p < n; p++)
          for (int v = 0; v < 256; v++) {
            const uint8_t base = side ? static_cast<uint8_t>(v) : l, other = side ? l : static_cast<uint8_t>(v);
            if (base == other) continue;
            uniform(base);
            im.b[p] = other;
            emit(im, "one octet different (every value against the lane alphabet)");
          }
}

const uint8_t kAbc[3] = {'a', 'b', 'c'};

template <class D>
Obs observe_hex_first(const D& d) {
  Obs o;
  o.hex = d.hex();
  o.bin = d.bin();
  o.state = words(d);
  return o;
}

// One case: a history on one persistent object (same address in every case of the process).  It is set to image A,
// then word after word is complemented (each step changes exactly ONE word of the previous value, so a rendering
// that looks at only some of the words, or remembers an earlier answer, shows at the step that changes a word it
// ignores); after the last word the object holds the complement of A; then A again.  Every step is judged, bin-first
// and hex-first alternating.  Then a fresh object, a const reference to it and a copy.
template <class D>
void check_value(vf::Run& r, int fn, const Image& A, size_t n, const char* family) {
  alignas(D) static unsigned char mem[sizeof(D)];
  static D* P = new (mem) D(kAbc, sizeof(kAbc));
  const std::string name = fn_name[fn];
  const size_t nw = n / 4, steps = nw + 2;
  Image v[MAXN / 4 + 2];
  v[0] = A;
  for (size_t k = 0; k < nw; k++) {
    v[k + 1] = v[k];
    for (size_t j = 0; j < 4; j++) v[k + 1].b[4 * k + j] = static_cast<uint8_t>(~v[k].b[4 * k + j]);
  }
  v[nw + 1] = A;
  auto step_name = [&](size_t s) { return s == 0 ? std::string("the value") : s == nw + 1 ? std::string("the value again") : s == nw ? std::string("last word complemented too: the complement of the value") : vf::fmt("word %zu complemented too", s - 1); };
  if (r.wants_desc())
    r.desc(vf::fmt("%s value %s (%s): bin(), hex() of one object set to the value, then complemented word by word, then the value again; a fresh object; a copy", name.c_str(), hex_upper(A.b, n).c_str(), family));
  r.nontriv();
  r.poison_errno();
  bool good = true;
  Obs first;
  for (size_t s = 0; s < steps; s++) {
    set_words(*P, v[s].b);
    Obs o = (s & 1) ? observe_hex_first(*P) : observe(*P);
    const std::string img(reinterpret_cast<const char*>(v[s].b), n);
    if (o.state != img) {  // the harness's two encodings disagree: not the library's fault
      fprintf(stderr, "C10: set_words / words disagree\n");
      _exit(3);
    }
    if (s == 0) first = o;
    good = judge(r, fn, OV_PTR, o, img, [&] {
      return vf::fmt("%s object whose state words hold the digest value %s (step %zu of the history on one object: %s; case value %s, family: %s): expected bin() = these %zu octets and hex() = %s", name.c_str(),
          hex_upper(v[s].b, n).c_str(), s + 1, step_name(s).c_str(), hex_upper(A.b, n).c_str(), family, n, hex_upper(v[s].b, n).c_str());
    }) && good;
    if (s == nw + 1 && !(o == first)) {
      good = false;
      r.fail(name + ":render-unstable", [&] {
        return vf::fmt("%s object set to %s, then complemented word by word, then set to %s again: rendered ", name.c_str(), hex_upper(A.b, n).c_str(), hex_upper(A.b, n).c_str()) + hex_lower(first.bin) + " / " + vf::show(first.hex) + " the first time and " +
            hex_lower(o.bin) + " / " + vf::show(o.hex) + " the second time";
      });
    }
  }
  // a fresh object (real constructor, then the words), seen through a const reference, and a copy of it
  D fresh(kAbc, sizeof(kAbc));
  set_words(fresh, A.b);
  const D& cref = fresh;
  Obs of = observe_hex_first(cref);
  D copy(fresh);
  memset(static_cast<void*>(&fresh), 0xA5, sizeof(D));
  Obs oc = observe(copy);
  if (!(of == first) || !(oc == first)) {
    good = false;
    r.fail(name + ":render-unstable", [&] {
      return vf::fmt("%s value %s (%s): the persistent object rendered ", name.c_str(), hex_upper(A.b, n).c_str(), family) + hex_lower(first.bin) + " / " + vf::show(first.hex) + ", a fresh object with the same words " + hex_lower(of.bin) + " / " +
          vf::show(of.hex) + ", a copy of it " + hex_lower(oc.bin) + " / " + vf::show(oc.hex);
    });
  }
  if (good) {
    bool upper = true, lower = true;
    for (char ch : first.hex) {
      if (ch >= 'a' && ch <= 'f') upper = false;
      if (ch >= 'A' && ch <= 'F') lower = false;
    }
    r.counters[upper ? (lower ? "hex_without_letters" : "hex_upper_case") : (lower ? "hex_lower_case" : "hex_mixed_case")]++;
    r.ok(name + ":value renders as itself (bin) and as its 2n hex digits: " + family);
  }
}

bool all_text(const std::string& s) {
  for (unsigned char c : s)
    if (!(c == 9 || c == 10 || c == 13 || (c >= 0x20 && c <= 0x7E))) return false;
  return !s.empty();
}

struct WitnessInput {
  int fn;
  const char* text;
};
// Inputs whose digest consists only of printable ASCII octets.  "phosg-<n>": offline search over n = 0, 1, 2, ... with
// OpenSSL (MD5: n < 3e7, 4 hits; SHA-1: n < 1.2e9, first hit listed; SHA-256 is out of reach at 4e-14 per input); "C10-hex-<n>": the inputs named in the round-3 report.  Each is verified
// at run time (the reference digest must be all-printable, otherwise the table is wrong and the harness stops).
const WitnessInput kWitnessInputs[] = {
    {F_MD5, "phosg-7095342"},
    {F_MD5, "phosg-8654425"},
    {F_MD5, "phosg-11328348"},
    {F_MD5, "phosg-17380689"},
    {F_MD5, "C10-hex-10056762"},
    {F_MD5, "C10-hex-10307661"},
    {F_MD5, "C10-hex-12310078"},
    {F_MD5, "C10-hex-13298878"},
    {F_SHA1, "phosg-720317140"},  // 333371442C77304953216C6A60557E264267483C = "33qD,w0IS!lj`U~&BgH<"
};

}  // namespace

VF_SECTION(renderings, 16, 16, 300) {
  for (int fn = 0; fn <= F_SHA256; fn++) {
    const size_t n = digest_len(fn);
    const bool per_byte = fn == F_MD5 || (fn == F_SHA1 && r.thorough());
    r.note(std::string(fn_name[fn]) + "-value-rendering");
    for_each_image(n, r.thorough(), per_byte, [&](const Image& im, const char* family) {
      if (!r.take()) return;
      if (fn == F_MD5) check_value<phosg::MD5>(r, fn, im, n, family);
      else if (fn == F_SHA1) check_value<phosg::SHA1>(r, fn, im, n, family);
      else check_value<phosg::SHA256>(r, fn, im, n, family);
    });
  }
  // inputs whose real digest is all-printable
  Cache c;
  size_t nwit = 0;
  for (const WitnessInput& w : kWitnessInputs) {
    nwit++;
    for (int ov = 0; ov < NOV; ov++) {
      if (!r.take()) continue;
      r.note(std::string(fn_name[w.fn]) + "-printable-digest-input");
      const size_t len = strlen(w.text);
      Buf b(len, P_ZERO);
      memcpy(b.p, w.text, len);
      const std::string ref = ref_value(w.fn, b.p, b.n);
      if (!all_text(ref)) {
        fprintf(stderr, "C10: witness input table is wrong for %s\n", w.text);
        _exit(3);
      }
      if (r.wants_desc()) r.desc(vf::fmt("%s%s of \"%s\", whose digest %s consists of printable ASCII octets only", fn_name[w.fn], ov_name[ov], w.text, hex_upper(reinterpret_cast<const uint8_t*>(ref.data()), ref.size()).c_str()));
      r.nontriv();
      r.xchecked++;
      r.poison_errno();
      Held h;
      Obs o = call_any(w.fn, ov, b.p, b.n, &h);
      bool good = judge(r, w.fn, ov, o, ref, [&] { return vf::fmt("%s%s of the %zu-byte input \"%s\" (its digest consists of printable ASCII octets only)", fn_name[w.fn], ov_name[ov], len, w.text); });
      if (good && !(h.obs_reversed() == o)) {
        good = false;
        r.fail(std::string(fn_name[w.fn]) + ":render-unstable", [&] { return vf::fmt("%s%s of \"%s\": second rendering (hex first) differs from the first", fn_name[w.fn], ov_name[ov], w.text); });
      }
      if (good) r.ok(std::string(fn_name[w.fn]) + ":input with an all-printable digest: equals reference (state, bin, hex)");
    }
  }
  r.bound = vf::fmt("MD5 / SHA1 / SHA256 objects whose public state words are set to the encoding of an n-octet digest value (n = 16 / 20 / 32): all octets equal (256 values); one octet different at every "
                    "position and one word different in every word, base and other octet from the lane alphabet %s%s; every word at 2^k-1, 2^k, 2^k+1 (k = 0..32) against 4 backgrounds; every nibble value at "
                    "every nibble position against 4 backgrounds; every octet from one class (printable, printable + tab/LF/CR, white space, hex digits, letters/digits, control, >= 0x80, counting) at every "
                    "phase; one of %s classes per word, every assignment; two octets different at every position pair (3 bases x 16 value pairs); printable-or-not chosen per octet, all 2^16 assignments "
                    "for MD5%s.  Each case: one persistent object set to the value, then complemented one word per step (every step judged; consecutive values differ in exactly one word) down "
                    "to the complement, then the value again (bin-first and hex-first alternating), a fresh object through a const reference, a copy.  Plus %zu inputs whose real digest is all-printable x 2 overloads",
      kLaneText, r.thorough() ? " (thorough: every octet value 0..255 against the lane alphabet, both ways round)" : "", r.thorough() ? "4" : "4 (SHA256: 3)", r.thorough() ? " and all 2^20 for SHA1" : "", nwit);
}

// ---- input octet values --------------------------------------------------------------------------------------
VF_SECTION(content, 16, 16, 300) {
  std::vector<size_t> lens = {1, 2, 55, 56, 63, 64, 65, 120};
  if (r.thorough()) lens = {1, 2, 3, 4, 5, 7, 8, 9, 16, 31, 32, 33, 54, 55, 56, 57, 62, 63, 64, 65, 118, 119, 120, 121, 127, 128, 129, 192, 256};
  std::vector<uint8_t> bases = {0x00, 0xFF};
  if (r.thorough()) bases = {0x00, 0xFF, 0x41, 0x80};
  for (int fn = 0; fn < NFN; fn++)
    for (int ov = 0; ov < n_ov(fn); ov++)
      for (size_t len : lens) {
        std::vector<size_t> pos;
        if (r.thorough()) {
          for (size_t p = 0; p < len; p++) pos.push_back(p);
        } else {
          for (size_t p : {size_t(0), len / 2, len - 1})
            if (std::find(pos.begin(), pos.end(), p) == pos.end()) pos.push_back(p);
        }
        for (uint8_t base : bases)
          for (size_t p : pos)
            for (int v = 0; v < 256; v++) {
              if (v == base && !(p == 0 && base == bases[0])) continue;  // the uniform input once
              if (!r.take()) continue;
              r.note(std::string(fn_name[fn]) + "-octet-value");
              if (r.wants_desc()) r.desc(vf::fmt("%s%s on %zu octets %02X with octet %02X at position %zu", fn_name[fn], ov_name[ov], len, base, v, p));
              Buf b(len, P_ZERO);
              memset(b.p, base, len);
              b.p[p] = static_cast<uint8_t>(v);
              const std::string ref = ref_value(fn, b.p, b.n);
              r.xchecked += fn <= F_CRC32;
              r.nontriv();
              r.poison_errno();
              Obs o = call_any(fn, ov, b.p, b.n);
              if (judge(r, fn, ov, o, ref, [&] { return vf::fmt("%s%s of %zu octets %02X with octet %02X at position %zu", fn_name[fn], ov_name[ov], len, base, v, p); }))
                r.ok(std::string(fn_name[fn]) + ":every octet value at a position: equals reference");
            }
      }
  // every 2-octet string (thorough)
  if (r.thorough())
    for (int fn = 0; fn < NFN; fn++)
      for (int ov = 0; ov < n_ov(fn); ov++)
        for (int x = 0; x < 65536; x++) {
          if (!r.take()) continue;
          r.note(std::string(fn_name[fn]) + "-two-octets");
          if (r.wants_desc()) r.desc(vf::fmt("%s%s on the two octets %02X %02X", fn_name[fn], ov_name[ov], x >> 8, x & 0xFF));
          Buf b(2, P_ZERO);
          b.p[0] = static_cast<uint8_t>(x >> 8);
          b.p[1] = static_cast<uint8_t>(x & 0xFF);
          const std::string ref = ref_value(fn, b.p, b.n);
          r.xchecked += fn <= F_CRC32;
          r.nontriv();
          r.poison_errno();
          Obs o = call_any(fn, ov, b.p, b.n);
          if (judge(r, fn, ov, o, ref, [&] { return vf::fmt("%s%s of the two octets %02X %02X", fn_name[fn], ov_name[ov], x >> 8, x & 0xFF); })) r.ok(std::string(fn_name[fn]) + ":every 2-octet string: equals reference");
        }
  r.bound = r.thorough() ? "6 functions x overloads x 29 lengths 1..256 around the padding boundaries x backgrounds {00, FF, 41, 80} x EVERY position x every octet value 0..255; every 2-octet string"
                         : "6 functions x overloads x lengths {1, 2, 55, 56, 63, 64, 65, 120} x backgrounds {00, FF} x positions {first, middle, last} x every octet value 0..255 (includes every 1-octet string)";
}
