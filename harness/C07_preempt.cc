// C07 / C06, variant "preempt" — concurrent canvas operations and codec calls on SEPARATE Image objects (harness/preempt_pure.hh).
// Instrumented: src/Image.cc.  Every call builds its own canvases, so nothing is shared by the caller: a result that
// differs under concurrency means the library shares state between calls.
#include "preempt_pure.hh"

#include "Image.hh"

using namespace phosg;

static Image coded(size_t w, size_t h, bool alpha, int salt) {
  Image im(w, h, alpha);
  for (size_t y = 0; y < h; y++)
    for (size_t x = 0; x < w; x++) im.write_pixel(x, y, (x * 40 + salt) & 0xFF, (y * 50 + salt * 3) & 0xFF, (x + y * 3 + salt * 7) & 0xFF, alpha ? ((x + y) & 1 ? 0xFF : 0x7F) : 0xFF);
  return im;
}
static std::string dump(const Image& im) {
  return vf::fmt("%zux%zu a=%d ", im.get_width(), im.get_height(), im.get_has_alpha() ? 1 : 0) + vf::show(im.get_data(), im.get_data_size());
}

static std::vector<pp::Call> make_calls() {
  std::vector<pp::Call> calls;
  auto add = [&](const char* name, const char* group, std::function<std::string()> f) { calls.push_back({name, group, pp::guarded(f)}); };
  add("fill_rect(1,0,2,2, opaque) on 3x3", "fill_rect", [] { Image d = coded(3, 3, false, 1); d.fill_rect(1, 0, 2, 2, 9, 8, 7, 0xFF); return dump(d); });
  add("fill_rect(-1,1,3,5, alpha 0x80) on 3x2 rgba", "fill_rect", [] { Image d = coded(3, 2, true, 2); d.fill_rect(-1, 1, 3, 5, 200, 100, 50, 0x80); return dump(d); });
  add("blit 2x2 from (1,0) to (-1,1) on 3x3", "blit", [] { Image d = coded(3, 3, false, 3), s = coded(3, 2, false, 4); d.blit(s, -1, 1, 2, 2, 1, 0); return dump(d); });
  add("blit rgba->rgb whole source", "blit", [] { Image d = coded(2, 3, false, 5), s = coded(2, 2, true, 6); d.blit(s, 0, 1, -1, -1, 0, 0); return dump(d); });
  add("mask_blit colour key", "mask_blit", [] { Image d = coded(3, 3, false, 7), s = coded(2, 2, false, 8); s.write_pixel(0, 0, 1, 2, 3); d.mask_blit(s, 1, 1, 2, 2, 0, 0, 1, 2, 3); return dump(d); });
  add("blend_blit with source_alpha 0x40", "blend_blit", [] { Image d = coded(2, 2, false, 9), s = coded(2, 2, true, 10); d.blend_blit(s, 0, 0, 2, 2, 0, 0, 0x40); return dump(d); });
  add("draw_line (0,0)-(2,1) on 3x3", "draw_line", [] { Image d = coded(3, 3, false, 11); d.draw_line(0, 0, 2, 1, 255, 0, 0, 255); return dump(d); });
  add("draw_text \"Aj\" at (-1,0) on 8x8", "draw_text", [] { Image d = coded(8, 8, false, 12); d.draw_text(-1, 0, 0xFFFFFFFF, 0x00000080, "Aj"); return dump(d); });
  add("draw_text \"1\\n\" at (2,-3) on 8x8", "draw_text", [] { Image d = coded(8, 8, false, 13); d.draw_text(2, -3, 0x10FF20FF, 0x00000000, "1\n"); return dump(d); });
  add("invert + reverse_horizontal on 3x2 rgba", "transform", [] { Image d = coded(3, 2, true, 14); d.invert(); d.reverse_horizontal(); return dump(d); });
  add("set_has_alpha(true) then (false) on 2x2", "transform", [] { Image d = coded(2, 2, false, 15); d.set_has_alpha(true); d.set_has_alpha(false); return dump(d); });
  add("copy-assign 2x2 over 3x3", "assign", [] { Image d = coded(3, 3, false, 16), s = coded(2, 2, true, 17); d = s; return dump(d); });
  add("save(PPM) -> load 3x2", "codec", [] { Image s = coded(3, 2, false, 18); std::string f = s.save(Image::Format::COLOR_PPM); FILE* m = fmemopen(f.data(), f.size(), "rb"); Image b(m); fclose(m); return dump(b) + " file " + vf::show(f); });
  add("save(BMP) -> load 3x2 rgba", "codec", [] { Image s = coded(3, 2, true, 19); std::string f = s.save(Image::Format::WINDOWS_BITMAP); FILE* m = fmemopen(f.data(), f.size(), "rb"); Image b(m); fclose(m); return dump(b) + " file " + vf::show(f); });
  add("save(PNG) -> load 2x2", "codec", [] { Image s = coded(2, 2, false, 20); std::string f = s.save(Image::Format::PNG); FILE* m = fmemopen(f.data(), f.size(), "rb"); Image b(m); fclose(m); return dump(b) + " file " + vf::show(f); });
  return calls;
}

VF_SECTION(concurrent_pairs, 16, 16, 300) {
  std::vector<pp::Call> calls = make_calls();
  pp::run_pairs(r, calls, r.thorough() ? 600 : 250, r.thorough() ? 250 : 0);
  r.bound = "every unordered pair (and every call with itself) of 15 canvas operations / codec round trips on separate Image objects run concurrently: every schedule with <= 2 preemptions for same-operation pairs with <= 250 (thorough 600) scheduling points per call (thorough: cross pairs <= 250 too), <= 1 preemption otherwise; basic-block granularity of Image.cc";
}

// First calls: each call with itself and with the next call of the same function (thorough: every same-function pair),
// each schedule in a freshly forked process.
VF_SECTION(concurrent_cold, 16, 16, 600) {
  std::vector<pp::Call> calls = make_calls();
  pp::run_pairs_cold(r, calls, r.thorough());
  r.bound = "first calls: every call above with itself and with the next call of the same function (thorough: every same-function pair), each schedule in a freshly forked process that has never called the library: every schedule with <= 1 preemption at basic-block granularity";
}
VF_MAIN()
