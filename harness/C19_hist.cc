// C19 (part): state carried between calls, exception objects in non-initial states, boundary sites/arguments.
//   histories : every ordered pair (and triple) of helper calls from a 30-step boundary set x execution contexts;
//               each call must give the verdict, site and message it gives alone, and every exception object caught
//               earlier must still carry what it carried (cooperating sites: the final observable state is compared)
//   objects   : expectation_failed objects copied / assigned / moved onto objects already holding another failure,
//               outliving the exception they were copied from, rethrown, transported to another thread
//   boundary  : expect_generic / expect_raises_fn called directly with boundary line numbers, file names and messages;
//               macro call sites at lines 1, 65535, 65536, 2^24+1, INT_MAX (#line); empty std::function as fn
#include <memory>

#include "C19_common.hh"
#include "C19_sites.hh"

using namespace phosg;
using namespace c19;

namespace {

struct Step {
  std::string name;    // rendering
  std::string key;     // helper name (key prefix)
  bool must_fail;
  Res (*run)(Site&);   // performs the call in the current context and fills in the call site
  std::vector<std::string> parts;
};

// one shared call site whose verdict depends on the arguments: a result remembered per site is visible
Res eq_site(int a, int b, Site& s) {
  s.file = __FILE__;
  // clang-format off
  return probe([&] { s.line = __LINE__; expect_eq(a, b); });
  // clang-format on
}
void hist_behave(int beh) {
  switch (beh) {
    case 1: throw std::runtime_error("r");
    case 2: throw std::logic_error("a logic_error with a what() text that is longer than any small-string buffer");
    case 3: throw 42;
    case 4: throw std::out_of_range("o");
    case 5: throw expectation_failed("inner", "inner.cc", 7);
    case 6: expect_eq(3, 4); break;
  }
}
template <class E>
Res raises_site(int beh, Site& s) {
  s.file = __FILE__;
  // clang-format off
  return probe([&] { s.line = __LINE__; expect_raises(E, [&] { hist_behave(beh); }); });
  // clang-format on
}

#define STEP(NAME, KEY, MUSTFAIL, PARTS, ...) \
  v.push_back(Step{NAME, KEY, MUSTFAIL, [](Site& s) { s.file = __FILE__; return probe([&] { s.line = __LINE__; __VA_ARGS__; }); }, PARTS});
#define P(...) std::vector<std::string> { __VA_ARGS__ }

const std::vector<Step>& steps() {
  static const std::vector<Step> sv = [] {
    std::vector<Step> v;
    // clang-format off
    v.push_back(Step{"expect_eq(1, 1) at the shared site", "expect_eq", false, [](Site& s) { return eq_site(1, 1, s); }, P("a", "b")});
    v.push_back(Step{"expect_eq(1, 2) at the shared site", "expect_eq", true, [](Site& s) { return eq_site(1, 2, s); }, P("a", "b")});
    STEP("expect_ne(5, 5)", "expect_ne", true, P("5"), expect_ne(5, 5))
    STEP("expect_gt(2, 1)", "expect_gt", false, P(), expect_gt(2, 1))
    STEP("expect_lt(string b, string a)", "expect_lt", true, P("std::string(\"b\")", "std::string(\"a\")"), expect_lt(std::string("b"), std::string("a")))
    STEP("expect_lt(string a, string b)", "expect_lt", false, P(), expect_lt(std::string("a"), std::string("b")))
    STEP("expect_ge(NaN, 1.0)", "expect_ge", true, P("__builtin_nan(\"\")", "1.0"), expect_ge(__builtin_nan(""), 1.0))
    STEP("expect_le(1.0, 1.0)", "expect_le", false, P(), expect_le(1.0, 1.0))
    STEP("expect(false)", "expect", true, P("false"), expect(false))
    STEP("expect(true)", "expect", false, P(), expect(true))
    STEP("expect_msg(false, first)", "expect_msg", true, P("first custom message"), expect_msg(false, "first custom message"))
    STEP("expect_msg(false, second)", "expect_msg", true, P("second custom message, long enough not to fit any small-string buffer of a std::string"), expect_msg(false, "second custom message, long enough not to fit any small-string buffer of a std::string"))
    STEP("expect_msg(true, x)", "expect_msg", false, P(), expect_msg(true, "x"))
    STEP("expect_msg(false, text built at run time)", "expect_msg", true, P("built at run time: 12345678901234567890"), expect_msg(false, (std::string("built at run time: ") + std::to_string(12345678901234567890ull)).c_str()))
    v.push_back(Step{"expect_raises<runtime_error>(returns) at the shared site", "expect_raises<E>", true, [](Site& s) { return raises_site<std::runtime_error>(0, s); }, P()});
    v.push_back(Step{"expect_raises<runtime_error>(throws runtime_error) at the shared site", "expect_raises<E>", false, [](Site& s) { return raises_site<std::runtime_error>(1, s); }, P()});
    v.push_back(Step{"expect_raises<runtime_error>(throws logic_error) at the shared site", "expect_raises<E>", true, [](Site& s) { return raises_site<std::runtime_error>(2, s); }, P()});
    v.push_back(Step{"expect_raises<runtime_error>(throws int) at the shared site", "expect_raises<E>", true, [](Site& s) { return raises_site<std::runtime_error>(3, s); }, P()});
    v.push_back(Step{"expect_raises<std::exception>(returns) at the shared site", "expect_raises<std::exception>", true, [](Site& s) { return raises_site<std::exception>(0, s); }, P()});
    v.push_back(Step{"expect_raises<std::exception>(throws out_of_range) at the shared site", "expect_raises<std::exception>", false, [](Site& s) { return raises_site<std::exception>(4, s); }, P()});
    v.push_back(Step{"expect_raises<std::exception>(throws int) at the shared site", "expect_raises<std::exception>", true, [](Site& s) { return raises_site<std::exception>(3, s); }, P()});
    v.push_back(Step{"expect_raises<std::exception>(fails an inner expect_eq)", "expect_raises<std::exception>", false, [](Site& s) { return raises_site<std::exception>(6, s); }, P()});
    v.push_back(Step{"expect_raises<expectation_failed>(returns)", "expect_raises<E>", true, [](Site& s) { return raises_site<expectation_failed>(0, s); }, P()});
    v.push_back(Step{"expect_raises<expectation_failed>(throws expectation_failed)", "expect_raises<E>", false, [](Site& s) { return raises_site<expectation_failed>(5, s); }, P()});
    v.push_back(Step{"expect_raises<expectation_failed>(throws runtime_error)", "expect_raises<E>", true, [](Site& s) { return raises_site<expectation_failed>(1, s); }, P()});
    v.push_back(Step{"expect_raises<logic_error>(returns)", "expect_raises<E>", true, [](Site& s) { return raises_site<std::logic_error>(0, s); }, P()});
    v.push_back(Step{"expect_raises<logic_error>(fails an inner expect_eq)", "expect_raises<E>", false, [](Site& s) { return raises_site<std::logic_error>(6, s); }, P()});
    v.push_back(Step{"expect_raises<logic_error>(throws runtime_error)", "expect_raises<E>", true, [](Site& s) { return raises_site<std::logic_error>(1, s); }, P()});
    STEP("expect_raises<out_of_range>(throws logic_error)", "expect_raises<E>", true, P(), expect_raises(std::out_of_range, [] { throw std::logic_error("x"); }))
    STEP("expect_raises<out_of_range>(throws out_of_range)", "expect_raises<E>", false, P(), expect_raises(std::out_of_range, [] { throw std::out_of_range("x"); }))
    // clang-format on
    return v;
  }();
  return sv;
}

struct Elem {
  int step, ctx;
};

// Runs the elements in order; every call is judged like a call made alone, and at the end every exception object
// caught on the way is inspected again.
void run_history(vf::Run& r, const std::vector<Elem>& h) {
  const auto& S = steps();
  auto dh = [&] {
    std::string o = "history";
    for (size_t i = 0; i < h.size(); i++) o += vf::fmt("%s %s [%s]", i ? " ;" : ":", S[h[i].step].name.c_str(), ctx_tag(h[i].ctx));
    return o;
  };
  if (r.wants_desc()) r.desc(dh());
  std::vector<Res> results;
  bool good = true;
  for (size_t i = 0; i < h.size(); i++) {
    const Step& st = S[h[i].step];
    Site site;
    Res res = run_ctx(h[i].ctx, r.ambient_errno(), [&] { return st.run(site); });
    auto d = [&] { return dh() + vf::fmt("; call #%zu, %s", i + 1, st.name.c_str()); };
    good = judge(r, st.key, h[i].ctx, st.must_fail, res, site, st.parts, nullptr, d) && good;
    results.push_back(std::move(res));
  }
  for (size_t i = 0; i < h.size(); i++) {
    const Step& st = S[h[i].step];
    auto d = [&] { return dh() + vf::fmt("; the exception caught from call #%zu, inspected after the last call", i + 1); };
    good = judge_held(r, st.key, results[i], d) && good;
  }
  r.nontriv();
  if (good) r.ok(vf::fmt("history of %zu calls: every call as if made alone", h.size()));
}

}  // namespace

VF_SECTION(histories, 8, 16, 120) {
  r.note("histories");
  const auto& S = steps();
  int n = (int)S.size();
  // singles (reference: each step alone, in every context)
  for (int c : all_ctx())
    for (int i = 0; i < n; i++) {
      if (!r.take()) continue;
      run_history(r, {{i, c}});
    }
  // ordered pairs over (step x context)
  const auto& PC = r.thorough() ? all_ctx() : main_ctx();
  std::vector<Elem> el;
  for (int c : PC)
    for (int i = 0; i < n; i++) el.push_back({i, c});
  for (auto& a : el)
    for (auto& b : el) {
      if (!r.take()) continue;
      run_history(r, {a, b});
    }
  // ordered triples (A-B-A included): plain code; thorough also with the destructor-during-unwinding context
  std::vector<Elem> e3;
  for (int i = 0; i < n; i++) e3.push_back({i, PLAIN});
  if (r.thorough())
    for (int i = 0; i < n; i++) e3.push_back({i, UNWINDING});
  for (auto& a : e3)
    for (auto& b : e3)
      for (auto& c : e3) {
        if (!r.take()) continue;
        run_history(r, {a, b, c});
      }
  r.bound = vf::fmt("%d steps (each relation macro true and false, run-time built message, expect_raises<runtime_error/std::exception/expectation_failed/logic_error/out_of_range> x returns / matching / wrong std type / non-std / inner failing expectation; several steps share one call site): every step alone x 10 contexts; every ordered pair over steps x %zu contexts (%zu^2); every ordered triple over steps x %s (%zu^3); all exception objects re-inspected after the last call",
      n, PC.size(), el.size(), r.thorough() ? "{plain, destructor during unwinding}" : "{plain}", e3.size());
}

// ---- exception objects in non-initial states ---------------------------------------------------------------
namespace {

struct Payload {
  std::string file, msg, what;
  uint64_t line = 0;
};

// Produces a heap copy of the failure of source `src`, made inside the handler; the thrown object itself is
// gone when this returns (a test runner collecting failures: failures.push_back(e)).
const int NSRC = 6;
const char* src_name[NSRC] = {"expect_eq(1, 2)", "expect_msg(false, literal)", "expect_msg(false, run-time text)", "expect_raises<runtime_error>(returns)", "expect_raises<runtime_error>(throws logic_error)",
    "expectation_failed(msg, file, 2^63) constructed directly"};
std::unique_ptr<expectation_failed> make_failure(int src, Site& site) {
  std::unique_ptr<expectation_failed> out;
  site.file = __FILE__;
  try {
    // clang-format off
    switch (src) {
      case 0: site.line = __LINE__; expect_eq(1, 2); break;
      case 1: site.line = __LINE__; expect_msg(false, "a literal message"); break;
      case 2: site.line = __LINE__; expect_msg(false, (std::string("run-time text, longer than a small-string buffer: ") + std::to_string(site.line)).c_str()); break;
      case 3: site.line = __LINE__; expect_raises(std::runtime_error, [] {}); break;
      case 4: site.line = __LINE__; expect_raises(std::runtime_error, [] { throw std::logic_error("what() of the wrong exception, longer than a small-string buffer"); }); break;
      case 5: site.file = "direct.cc"; site.line = 1ull << 63; throw expectation_failed("directly constructed", "direct.cc", 1ull << 63);
    }
    // clang-format on
  } catch (const expectation_failed& e) {
    out.reset(new expectation_failed(e));
  }
  return out;
}

bool inspect(vf::Run& r, const std::string& what_op, const expectation_failed& e, const Site& site, const std::string* want_what, const std::function<std::string()>& d0) {
  Res now;
  capture(now, e, false);
  auto d = [&] { return d0() + ": " + what_op; };
  if (!judge_payload(r, "expectation_failed", now, site, {}, nullptr, d)) return false;
  if (want_what && now.what != *want_what) {
    r.fail("expectation_failed:object-state", [&] { return d() + ": what() is " + vf::show(now.what.substr(0, 300)) + ", the source object's was " + vf::show(want_what->substr(0, 300)); });
    return false;
  }
  return true;
}

}  // namespace

VF_SECTION(objects, 1, 1, 120) {
  r.note("objects");
  for (int a = 0; a < NSRC; a++) {
    for (int b = 0; b < NSRC; b++) {
      for (int op = 0; op < 9; op++) {
        if (op >= 5 && a != 0) continue;  // unary operations: once per source b
        if (!r.take()) continue;
        static const char* ops[] = {"copy-construct, then destroy the source", "copy-assign onto an object holding another failure, then destroy the source", "move-construct, then destroy the source",
            "move-assign onto an object holding another failure, then destroy the source", "assign a = b; b = a (both alive)", "self-assignment", "catch by value, rethrow, catch as std::exception&",
            "rethrow with `throw;` from a nested handler", "std::exception_ptr rethrown on a second thread after the handler ended"};
        auto d = [&] { return vf::fmt("%s; a = failure of %s, b = failure of %s", ops[op], src_name[a], src_name[b]); };
        std::function<std::string()> df = d;
        if (r.wants_desc()) r.desc(d());
        Site sa, sb;
        auto pa = make_failure(a, sa);
        auto pb = make_failure(b, sb);
        r.nontriv();
        if (!pa || !pb) {
          r.fail("expectation_failed:object-state", [&] { return d() + ": the source helper did not throw expectation_failed"; });
          continue;
        }
        bool good = inspect(r, "heap copy of b made in the handler, inspected after the handler", *pb, sb, nullptr, df);
        if (!good) continue;
        std::string what_b = pb->what(), what_a = pa->what();
        auto check_res = [&](const Res& x, const char* label) {
          if (x.kind != Res::FAILED) {
            r.fail("expectation_failed:object-state", [&] { return d() + ": " + label + " is not an expectation_failed"; });
            return false;
          }
          if (!judge_payload(r, "expectation_failed", x, sb, {}, nullptr, [&] { return d() + ": " + label; })) return false;
          if (x.what != what_b) {
            r.fail("expectation_failed:object-state", [&] { return d() + ": " + label + ": what() is " + vf::show(x.what.substr(0, 300)) + ", the source object's was " + vf::show(what_b.substr(0, 300)); });
            return false;
          }
          return true;
        };
        switch (op) {
          case 0: {
            auto c = std::make_unique<expectation_failed>(*pb);
            pb.reset();
            good = inspect(r, "copy after the source is destroyed", *c, sb, &what_b, df);
            break;
          }
          case 1:
            *pa = *pb;
            pb.reset();
            good = inspect(r, "assigned-to object after the source is destroyed", *pa, sb, &what_b, df);
            break;
          case 2: {
            auto c = std::make_unique<expectation_failed>(std::move(*pb));
            pb.reset();
            good = inspect(r, "move-constructed object after the source is destroyed", *c, sb, &what_b, df);
            break;
          }
          case 3:
            *pa = std::move(*pb);
            pb.reset();
            good = inspect(r, "move-assigned object after the source is destroyed", *pa, sb, &what_b, df);
            break;
          case 4: {
            expectation_failed keep_a(*pa);
            *pa = *pb;
            *pb = keep_a;
            good = inspect(r, "a after a = b", *pa, sb, &what_b, df) && inspect(r, "b after b = old a", *pb, sa, &what_a, df);
            break;
          }
          case 5: {
            expectation_failed& ref = *pb;
            *pb = ref;
            good = inspect(r, "object after self-assignment", *pb, sb, &what_b, df);
            break;
          }
          case 6: {
            try {
              try {
                throw expectation_failed(*pb);
              } catch (expectation_failed byval) {
                good = inspect(r, "caught by value", byval, sb, &what_b, df);
                throw;
              }
            } catch (const std::exception& se) {
              if (what_b != se.what()) {
                good = false;
                r.fail("expectation_failed:object-state", [&] { return d() + ": what() seen through std::exception& differs from what() of the object"; });
              }
              if (!dynamic_cast<const expectation_failed*>(&se)) {
                good = false;
                r.fail("expectation_failed:object-state", [&] { return d() + ": object caught as std::exception& is not an expectation_failed"; });
              }
            }
            break;
          }
          case 7: {
            Res inner = probe([&] {
              try {
                throw expectation_failed(*pb);
              } catch (const expectation_failed&) {
                try {
                  throw;
                } catch (const std::exception&) {
                  throw;
                }
              }
            });
            good = check_res(inner, "rethrown object");
            break;
          }
          case 8: {
            std::exception_ptr ep;
            try {
              throw expectation_failed(*pb);
            } catch (...) {
              ep = std::current_exception();
            }
            pb.reset();
            Res there;
            std::thread t([&] {
              try {
                std::rethrow_exception(ep);
              } catch (const expectation_failed& e) {
                capture(there, e, false);
              } catch (...) {
                there.kind = Res::OTHER;
              }
            });
            t.join();
            good = check_res(there, "object rethrown from the exception_ptr on the second thread");
            break;
          }
        }
        if (good) r.ok(ops[op]);
      }
    }
  }
  r.bound = "failures of 6 sources (relation macro, literal message, run-time message, expect_raises none-raised / wrong-type, direct construction with line 2^63) x {copy-construct, copy-assign, move-construct, move-assign onto every other source's failure, swap by assignment; self-assignment, catch by value / as std::exception&, rethrow, exception_ptr on a second thread}; the source object is destroyed before the target is inspected";
}

// ---- boundary arguments and sites ----------------------------------------------------------------------------
namespace {

void boundary_behave(int beh) {
  switch (beh) {
    case 1: throw std::runtime_error("r");
    case 2: throw std::logic_error("l");
    case 3: throw 42;
    case 4: throw std::logic_error(std::string(70000, 'W') + " 100% %s %n");
  }
}

}  // namespace

VF_SECTION(boundary, 4, 4, 300) {
  r.note("boundary: expect_generic");
  const std::vector<uint64_t> lines = {0, 1, 255, 256, 65535, 65536, 0x7FFFFFFFull, 0x80000000ull, 0xFFFFFFFFull, 0x100000000ull, 0x7FFFFFFFFFFFFFFFull, 0x8000000000000000ull, UINT64_MAX - 1, UINT64_MAX};
  const std::vector<std::string> files = {"f.cc", "", "dir with blanks/f.cc", "100%s %n %d %%.cc", std::string(5000, 'd') + "/f.cc", "\xc3\xa9\xff.cc"};
  std::vector<std::string> msgs = {"m", "", "100% %s %n %d %%", std::string(255, 'x'), std::string(256, 'x'), std::string(4096, 'y'), std::string(65536, 'z'), "\xc3\xa9\xff\x01"};
  if (r.thorough()) msgs.push_back(std::string(8u << 20, 'B'));
  const std::vector<int> ctxs = {PLAIN, UNWINDING, THREAD};
  // (a) expect_generic(pred, msg, file, line) - the funnel behind every macro - called with boundary arguments
  for (int ctx : ctxs)
    for (int pred = 0; pred < 2; pred++)
      for (size_t mi = 0; mi < msgs.size(); mi++)
        for (size_t fi = 0; fi < files.size(); fi++)
          for (size_t li = 0; li < lines.size(); li++) {
            if (!r.take()) continue;
            const std::string &m = msgs[mi], &f = files[fi];
            uint64_t line = lines[li];
            auto d = [&] { return vf::fmt("expect_generic(%s, msg of %zu bytes %s, file %s, line %llu)", pred ? "true" : "false", m.size(), vf::show(m.substr(0, 40)).c_str(), vf::show(f.substr(0, 40)).c_str(), (unsigned long long)line); };
            if (r.wants_desc()) r.desc(d() + " [" + ctx_name(ctx) + "]");
            Site site{f.c_str(), line};
            Res res = run_ctx(ctx, r.ambient_errno(), [&] { return probe([&] { expect_generic(pred, m.c_str(), f.c_str(), line); }); });
            r.nontriv();
            judge(r, "expect_generic", ctx, !pred, res, site, {}, &m, d);
          }
  // (b) expect_raises_fn<E>(file, line, fn) called directly
  r.note("boundary: expect_raises_fn");
  for (int ctx : ctxs)
    for (int e = 0; e < 3; e++)
      for (int beh = 0; beh < 5; beh++)
        for (size_t fi = 0; fi < files.size(); fi++)
          for (size_t li = 0; li < lines.size(); li++) {
            if (!r.take()) continue;
            static const char* en[] = {"std::exception", "std::runtime_error", "expectation_failed"};
            static const char* bn[] = {"returns", "throws runtime_error", "throws logic_error", "throws int", "throws logic_error with a 70000-byte what() containing printf conversions"};
            const std::string& f = files[fi];
            uint64_t line = lines[li];
            auto d0 = [&] { return vf::fmt("expect_raises_fn<%s>(file %s, line %llu, fn that %s)", en[e], vf::show(f.substr(0, 40)).c_str(), (unsigned long long)line, bn[beh]); };
            if (r.wants_desc()) r.desc(d0() + " [" + ctx_name(ctx) + "]");
            Site site{f.c_str(), line};
            Res res = run_ctx(ctx, r.ambient_errno(), [&] {
              return probe([&] {
                std::function<void()> fn = [&] { boundary_behave(beh); };
                if (e == 0) expect_raises_fn<std::exception>(f.c_str(), line, fn);
                else if (e == 1) expect_raises_fn<std::runtime_error>(f.c_str(), line, fn);
                else expect_raises_fn<expectation_failed>(f.c_str(), line, fn);
              });
            });
            bool succeed = (beh == 1 && e <= 1) || ((beh == 2 || beh == 4) && e == 0);
            r.nontriv();
            judge(r, e == 0 ? "expect_raises<std::exception>" : "expect_raises<E>", ctx, !succeed, res, site, {}, nullptr, [&] { return d0() + (succeed ? " (must succeed)" : " (must fail)"); });
          }
  // (c) macro call sites at extreme lines / odd file names
  r.note("boundary: #line sites");
  for (int ctx : all_ctx())
    for (auto& sc : site_calls()) {
      for (int fail = 0; fail < 2; fail++) {
        if (!r.take()) continue;
        auto d = [&] { return vf::fmt("relation macro at %s, relation %s", sc.name, fail ? "false" : "true"); };
        if (r.wants_desc()) r.desc(d() + " [" + ctx_name(ctx) + "]");
        Site site;
        Res res = run_ctx(ctx, r.ambient_errno(), [&] { return sc.rel(fail, site); });
        r.nontriv();
        judge(r, "expect_*", ctx, fail, res, site, {}, nullptr, d);
      }
      for (int beh = 0; beh < 4 && sc.raises; beh++) {
        if (!r.take()) continue;
        static const char* bn[] = {"returns", "throws runtime_error", "throws logic_error", "throws int"};
        auto d = [&] { return vf::fmt("expect_raises at %s, fn %s", sc.name, bn[beh]); };
        if (r.wants_desc()) r.desc(d() + " [" + ctx_name(ctx) + "]");
        Site site;
        Res res = run_ctx(ctx, r.ambient_errno(), [&] { return sc.raises(beh, site); });
        bool must_fail = beh == 0 || beh == 3 || (beh == 2 && !sc.raises_std_exception);
        r.nontriv();
        judge(r, sc.raises_std_exception ? "expect_raises<std::exception>" : "expect_raises<E>", ctx, must_fail, res, site, {}, nullptr, d);
      }
    }
  // (d) fn that is an empty std::function / nullptr: calling it throws std::bad_function_call
  r.note("boundary: empty fn");
  for (int ctx : all_ctx())
    for (int e = 0; e < 4; e++)
      for (int form = 0; form < 2; form++) {
        if (!r.take()) continue;
        static const char* en[] = {"std::exception", "std::bad_function_call", "std::runtime_error", "expectation_failed"};
        auto d = [&] { return vf::fmt("expect_raises<%s>(%s)", en[e], form ? "nullptr" : "empty std::function"); };
        if (r.wants_desc()) r.desc(d() + " [" + ctx_name(ctx) + "]");
        Site site;
        site.file = __FILE__;
        std::function<void()> empty;
        Res res = run_ctx(ctx, r.ambient_errno(), [&] {
          return probe([&] {
            // clang-format off
            switch (e * 2 + form) {
              case 0: site.line = __LINE__; expect_raises(std::exception, empty); break;
              case 1: site.line = __LINE__; expect_raises(std::exception, nullptr); break;
              case 2: site.line = __LINE__; expect_raises(std::bad_function_call, empty); break;
              case 3: site.line = __LINE__; expect_raises(std::bad_function_call, nullptr); break;
              case 4: site.line = __LINE__; expect_raises(std::runtime_error, empty); break;
              case 5: site.line = __LINE__; expect_raises(std::runtime_error, nullptr); break;
              case 6: site.line = __LINE__; expect_raises(expectation_failed, empty); break;
              case 7: site.line = __LINE__; expect_raises(expectation_failed, nullptr); break;
            }
            // clang-format on
          });
        });
        r.nontriv();
        judge(r, e == 0 ? "expect_raises<std::exception>" : "expect_raises<E>", ctx, e >= 2, res, site, {}, nullptr, d);
      }
  r.bound = vf::fmt("expect_generic(pred, msg, file, line) x pred {true,false} x %zu messages (empty, printf conversions, 255/256/4096/65536%s bytes, non-ASCII) x 6 file names (empty, blanks, printf conversions, 5000 characters, non-ASCII) x 14 line numbers (0, 1, 2^8, 2^16, 2^31, 2^32, 2^63 boundaries, 2^64-1) x 3 contexts; expect_raises_fn<std::exception / runtime_error / expectation_failed> x 5 behaviours x 6 files x 14 lines x 3 contexts; macro sites at lines 1, 65535, 65536, 2^24+1, 2^31-2, 2^31-1 under odd file names x 10 contexts; empty std::function / nullptr as fn x 4 expected types x 10 contexts",
      msgs.size(), r.thorough() ? "/8 MiB" : "");
}
