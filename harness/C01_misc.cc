// C01 (part, round 2):
//   pairs   : STATE CARRIED BETWEEN CALLS — every ordered pair of calls from a set of ~200 probe calls (reads of
//             every kind/shape on three readers of different size classes, appends/positional writes on two
//             StringWriters, a BufferWriter and a StringReader sharing one buffer, two BitWriters, two BitReaders),
//             executed as A, B, A on persistent objects; every result compared with the model (thorough: every
//             ordered triple A, B, C).
//   context : the same multi-step round trip executed in a catch handler, in a destructor during stack unwinding,
//             nested, and on a second thread.
//   far     : boundary offsets and sizes far from the usual: 2^31 / 2^32 byte offsets on a sparse 4 GiB mapping
//             (StringReader, BufferWriter), 2^31 / 2^32 bit offsets (BitReader), 2^k-1 / 2^k / 2^k+1 offsets up to
//             2^16, 64 KiB..1 MiB (16 MiB thorough) zero-extension gaps and blocks on StringWriter, 64 Ki-bit BitWriter
//             contents, huge out-of-range offsets and sizes.
#include <sys/mman.h>

#include <thread>

#include "C01_common.hh"

using namespace phosg;
using namespace c01;

namespace {

typedef std::vector<uint8_t> Bits;
std::string pack_bits(const Bits& b) {
  std::string s((b.size() + 7) / 8, '\0');
  for (size_t i = 0; i < b.size(); i++)
    if (b[i]) s[i / 8] = (char)((uint8_t)s[i / 8] + (uint8_t)(128 >> (i % 8)));
  return s;
}
uint64_t bits_value(const Bits& b, size_t off, size_t n) {
  uint64_t v = 0;
  for (size_t i = 0; i < n; i++) v = v * 2 + b[off + i];
  return v;
}
std::string hx(uint64_t v) { return vf::fmt("0x%llX", (unsigned long long)v); }

// =====================================================================================================================
// pairs
// =====================================================================================================================
const uint8_t B5[5] = {0xA5, 0x0F, 0xF0, 0x81, 0x7E};

struct World {
  Exact c0{3}, c1{9}, c2{40};
  StringReader rd[3];
  const uint8_t* m[3];
  size_t n[3] = {3, 9, 40};
  StringWriter w[2];
  Bytes mw[2];
  Exact bb{32, 0};
  Bytes mb;
  size_t bcur = 0;
  BufferWriter bw;
  StringReader rb;
  BitWriter t[2];
  Bits mt[2];
  Exact bits{5};
  BitReader br[2];
  Bits mbr[2];
  World() : bw(bb.p, 32) {
    memcpy(c0.p, "hi\0", 3);
    static const uint8_t C1[9] = {0x80, 0x01, 0xFF, 0x7F, 0x00, 0xFE, 0x0A, 0x81, 0x0A};
    memcpy(c1.p, C1, 9);
    for (size_t i = 0; i < 40; i++) c2.p[i] = (uint8_t)(0x81 + i * 7);
    c2.p[17] = 0;
    c2.p[30] = '\n';
    c2.p[39] = 0;
    Exact* cs[3] = {&c0, &c1, &c2};
    for (int i = 0; i < 3; i++) {
      rd[i] = StringReader(cs[i]->p, n[i]);
      m[i] = cs[i]->p;
    }
    memcpy(bb.p, "xyzw", 4);
    mb.assign(bb.p, bb.p + 32);
    rb = StringReader(bb.p, 32);
    memcpy(bits.p, B5, 5);
    br[0] = BitReader(bits.p, 40);
    br[1] = BitReader(bits.p, 13);
    for (int j = 0; j < 2; j++) {
      size_t nb = j ? 13 : 40;
      mbr[j].resize(nb);
      for (size_t i = 0; i < nb; i++) mbr[j][i] = (B5[i / 8] >> (7 - i % 8)) & 1;
    }
  }
};

struct Probe {
  std::string name, key;
  // performs the call on the world's persistent objects; false (+ got/want) when the result is not the model's
  std::function<bool(World&, std::string*, std::string*)> run;
};

std::string s_or_throw(const std::function<std::string()>& f) {
  try {
    return f();
  } catch (const std::exception& e) { return std::string("<exception ") + e.what() + ">"; }
}

std::vector<Probe> build_probes() {
  std::vector<Probe> ps;
  auto cmp = [](const std::string& g, const std::string& w, std::string* got, std::string* want) {
    if (g == w) return true;
    *got = g;
    *want = w;
    return false;
  };
  // ---- readers of three size classes ------------------------------------------------------------------------------
  for (int i = 0; i < 3; i++) {
    for (size_t o : {(size_t)0, (size_t)1}) {
      auto rname = [i, o](const char* f) { return vf::fmt("reader%d(%s).%s at %zu", i, i == 0 ? "3 bytes" : i == 1 ? "9 bytes" : "40 bytes", f, o); };
      auto model_c = [i, o](World& w) { std::string s; return model_cstr(w.m[i], w.n[i], o, &s) ? s : std::string("<exception"); };
      auto model_l = [i, o](World& w) { std::string s; size_t np; return model_line(w.m[i], w.n[i], o, &s, &np) ? s : std::string("<exception"); };
      auto pre = [](const std::string& g, const std::string& w) { return w == "<exception" ? g.compare(0, 10, "<exception") == 0 : g == w; };
      ps.push_back({rname("pget_cstr"), "pget_cstr", [=](World& w, std::string* g, std::string* e) { std::string got = s_or_throw([&] { return w.rd[i].pget_cstr(o); }), want = model_c(w); if (pre(got, want)) return true; *g = got; *e = want; return false; }});
      ps.push_back({rname("get_cstr(false)"), "get_cstr", [=](World& w, std::string* g, std::string* e) { w.rd[i].go(o); std::string got = s_or_throw([&] { return w.rd[i].get_cstr(false); }), want = model_c(w); if (pre(got, want) && w.rd[i].where() == o) return true; *g = got; *e = want; return false; }});
      ps.push_back({rname("get_line(false)"), "get_line", [=](World& w, std::string* g, std::string* e) { w.rd[i].go(o); std::string got = s_or_throw([&] { return w.rd[i].get_line(false); }), want = model_l(w); if (pre(got, want) && w.rd[i].where() == o) return true; *g = got; *e = want; return false; }});
      ps.push_back({rname("get_line()"), "get_line", [=](World& w, std::string* g, std::string* e) { w.rd[i].go(o); std::string got = s_or_throw([&] { return w.rd[i].get_line(); }), want = model_l(w); if (pre(got, want)) return true; *g = got; *e = want; return false; }});
      ps.push_back({rname("pread(4)"), "pread", [=](World& w, std::string* g, std::string* e) { return cmp(w.rd[i].pread(o, 4), model_read(w.m[i], w.n[i], o, 4), g, e); }});
      ps.push_back({rname("preadx(2)"), "preadx", [=](World& w, std::string* g, std::string* e) { return cmp(w.rd[i].preadx(o, 2), model_read(w.m[i], w.n[i], o, 2), g, e); }});
      ps.push_back({rname("pread(buf, 9)"), "pread_buf", [=](World& w, std::string* g, std::string* e) { Exact b(9); size_t c = w.rd[i].pread(o, b.p, 9); return cmp(std::string((const char*)b.p, c <= 9 ? c : 0), model_read(w.m[i], w.n[i], o, 9), g, e); }});
      ps.push_back({rname("preadx(buf, 2)"), "preadx_buf", [=](World& w, std::string* g, std::string* e) { Exact b(2); w.rd[i].preadx(o, b.p, 2); return cmp(std::string((const char*)b.p, 2), model_read(w.m[i], w.n[i], o, 2), g, e); }});
      ps.push_back({rname("read(5, false)"), "read", [=](World& w, std::string* g, std::string* e) { w.rd[i].go(o); return cmp(w.rd[i].read(5, false), model_read(w.m[i], w.n[i], o, 5), g, e); }});
      ps.push_back({rname("readx(2)"), "readx", [=](World& w, std::string* g, std::string* e) { w.rd[i].go(o); bool ok = cmp(w.rd[i].readx(2), model_read(w.m[i], w.n[i], o, 2), g, e); return ok && w.rd[i].where() == o + 2; }});
      ps.push_back({rname("peek(2)"), "peek", [=](World& w, std::string* g, std::string* e) { w.rd[i].go(o); return cmp(std::string(w.rd[i].peek(2), 2), model_read(w.m[i], w.n[i], o, 2), g, e); }});
      ps.push_back({rname("sub(o, 3).read(3)"), "sub", [=](World& w, std::string* g, std::string* e) { return cmp(w.rd[i].sub(o, 3).read(3), model_read(w.m[i], w.n[i], o, std::min<size_t>(3, w.n[i] - o)), g, e); }});
    }
    ps.push_back({vf::fmt("reader%d.all()", i), "all", [=](World& w, std::string* g, std::string* e) { return cmp(w.rd[i].all(), std::string((const char*)w.m[i], w.n[i]), g, e); }});
    size_t sizes[3] = {3, 9, 40};
    for (auto& k : kinds()) {
      if ((size_t)k.w + 1 > sizes[i]) continue;
      const Kind* kp = &k;
      ps.push_back({vf::fmt("reader%d.pget_%s(1)", i, k.name), kname("pget", k), [=](World& w, std::string* g, std::string* e) { return cmp(hx(kp->pget(w.rd[i], 1)), hx(kp->expect(dec(w.m[i] + 1, kp->w, kp->e))), g, e); }});
      if (i == 1) ps.push_back({vf::fmt("reader1.get_%s() at 0", k.name), kname("get", k), [=](World& w, std::string* g, std::string* e) { w.rd[1].go(0); bool ok = cmp(hx(kp->get(w.rd[1], true)), hx(kp->expect(dec(w.m[1], kp->w, kp->e))), g, e); return ok && w.rd[1].where() == (size_t)kp->w; }});
    }
  }
  // ---- two StringWriters ----------------------------------------------------------------------------------------------
  for (int j = 0; j < 2; j++) {
    auto wcheck = [j, cmp](World& w, std::string* g, std::string* e) { return cmp(hexb(w.w[j].str().data(), w.w[j].size()), hexb(w.mw[j].data(), w.mw[j].size()), g, e); };
    auto addw = [&](const std::string& nm, const std::string& key, std::function<void(World&)> act) {
      ps.push_back({vf::fmt("writer%d.", j) + nm, key, [=](World& w, std::string* g, std::string* e) { act(w); return wcheck(w, g, e); }});
    };
    addw("put_u8(0x80)", "put_u8", [j](World& w) { w.w[j].put_u8(0x80); w.mw[j].push_back(0x80); });
    addw("put_u16b(0x8001)", "put_u16b", [j](World& w) { w.w[j].put_u16b(0x8001); w.mw[j].push_back(0x80); w.mw[j].push_back(0x01); });
    addw("put_u64l(0x8001020304050607)", "put_u64l", [j](World& w) { w.w[j].put_u64l(0x8001020304050607ull); uint8_t b[8]; enc(b, 0x8001020304050607ull, 8, LE); w.mw[j].insert(w.mw[j].end(), b, b + 8); });
    addw("put_f32b(NaN payload)", "put_f32b", [j](World& w) { w.w[j].put_f32b(from_bits<float>(0x7FC00001)); uint8_t b[4]; enc(b, 0x7FC00001, 4, BE); w.mw[j].insert(w.mw[j].end(), b, b + 4); });
    addw("write(\"abc\")", "write", [j](World& w) { w.w[j].write("abc");  /* string literal: binds to write(const std::string&) */ for (char ch : std::string("abc")) w.mw[j].push_back(ch); });
    addw("write(17 bytes)", "write", [j](World& w) { w.w[j].write("0123456789ABCDEFG", 17); for (char ch : std::string("0123456789ABCDEFG")) w.mw[j].push_back(ch); });
    addw("pput_u32l(0, 0xDEADBEEF)", "pput_u32l", [j](World& w) { w.w[j].pput_u32l(0, 0xDEADBEEF); if (w.mw[j].size() < 4) w.mw[j].resize(4, 0); uint8_t b[4]; enc(b, 0xDEADBEEF, 4, LE); memcpy(w.mw[j].data(), b, 4); });
    addw("pput_u16b(size+2, 0xBEEF)", "pput_u16b", [j](World& w) { size_t o = w.mw[j].size() + 2; w.w[j].pput_u16b(o, 0xBEEF); w.mw[j].resize(o + 2, 0); w.mw[j][o] = 0xBE; w.mw[j][o + 1] = 0xEF; });
    addw("reset()", "reset", [j](World& w) { w.w[j].reset(); w.mw[j].clear(); });
  }
  // ---- a BufferWriter and a StringReader over the same 32 bytes ------------------------------------------------------
  {
    auto bcheck = [cmp](World& w, std::string* g, std::string* e) { return cmp(hexb(w.bb.p, 32), hexb(w.mb.data(), 32), g, e); };
    auto addb = [&](const std::string& nm, const std::string& key, std::function<void(World&)> act) {
      ps.push_back({"buffer writer." + nm, key, [=](World& w, std::string* g, std::string* e) { act(w); return bcheck(w, g, e); }});
    };
    addb("put_u16l(0x8001)", "bw_put_u16l", [](World& w) { if (w.bcur + 2 > 32) return; w.bw.put_u16l(0x8001); w.mb[w.bcur] = 0x01; w.mb[w.bcur + 1] = 0x80; w.bcur += 2; });
    addb("put_u8(0x41)", "bw_put_u8", [](World& w) { if (w.bcur + 1 > 32) return; w.bw.put_u8(0x41); w.mb[w.bcur] = 0x41; w.bcur += 1; });
    addb("pput_u8(1, 0x00)", "bw_pput_u8", [](World& w) { w.bw.pput_u8(1, 0); w.mb[1] = 0; });
    addb("pput_u8(1, 0x51)", "bw_pput_u8", [](World& w) { w.bw.pput_u8(1, 0x51); w.mb[1] = 0x51; });
    addb("pwrite(2, \"\\n!\")", "pwrite_str", [](World& w) { w.bw.pwrite(2, "\n!");  /* string literal: binds to pwrite(size_t, const std::string&) */ w.mb[2] = '\n'; w.mb[3] = '!'; });
    addb("pput_u32b(28, 0x80FF7F01)", "bw_pput_u32b", [](World& w) { w.bw.pput_u32b(28, 0x80FF7F01); uint8_t b[4]; enc(b, 0x80FF7F01, 4, BE); memcpy(w.mb.data() + 28, b, 4); });
    // the reader over the same memory must see what the bytes are NOW
    ps.push_back({"reader over the writer's buffer.pget_cstr(0)", "pget_cstr", [=](World& w, std::string* g, std::string* e) { std::string want; model_cstr(w.mb.data(), 32, 0, &want); return cmp(s_or_throw([&] { return w.rb.pget_cstr(0); }), want, g, e); }});
    ps.push_back({"reader over the writer's buffer.get_line(false) at 0", "get_line", [=](World& w, std::string* g, std::string* e) { std::string want; size_t np; model_line(w.mb.data(), 32, 0, &want, &np); w.rb.go(0); return cmp(s_or_throw([&] { return w.rb.get_line(false); }), want, g, e); }});
    ps.push_back({"reader over the writer's buffer.pget_u24l(0)", "pget_u24l", [=](World& w, std::string* g, std::string* e) { return cmp(hx(w.rb.pget_u24l(0)), hx(dec(w.mb.data(), 3, LE)), g, e); }});
    ps.push_back({"reader over the writer's buffer.pget_s48b(0)", "pget_s48b", [=](World& w, std::string* g, std::string* e) { return cmp(hx((uint64_t)w.rb.pget_s48b(0)), hx(sext(dec(w.mb.data(), 6, BE), 6)), g, e); }});
    ps.push_back({"reader over the writer's buffer.pget_u32b(28)", "pget_u32b", [=](World& w, std::string* g, std::string* e) { return cmp(hx(w.rb.pget_u32b(28)), hx(dec(w.mb.data() + 28, 4, BE)), g, e); }});
    ps.push_back({"reader over the writer's buffer.pread(0, 6)", "pread", [=](World& w, std::string* g, std::string* e) { return cmp(w.rb.pread(0, 6), std::string((const char*)w.mb.data(), 6), g, e); }});
  }
  // ---- two BitWriters, two BitReaders -----------------------------------------------------------------------------------
  for (int j = 0; j < 2; j++) {
    auto tcheck = [j, cmp](World& w, std::string* g, std::string* e) {
      std::string want = pack_bits(w.mt[j]);
      return cmp(vf::fmt("%zu bits ", w.t[j].size()) + hexb(w.t[j].str().data(), w.t[j].str().size()), vf::fmt("%zu bits ", w.mt[j].size()) + hexb(want.data(), want.size()), g, e);
    };
    auto addt = [&](const std::string& nm, const std::string& key, std::function<void(World&)> act) {
      ps.push_back({vf::fmt("bit writer%d.", j) + nm, key, [=](World& w, std::string* g, std::string* e) { act(w); return tcheck(w, g, e); }});
    };
    addt("write(1)", "BitWriter_write", [j](World& w) { w.t[j].write(true); w.mt[j].push_back(1); });
    addt("write(0)", "BitWriter_write", [j](World& w) { w.t[j].write(false); w.mt[j].push_back(0); });
    addt("write 10110", "BitWriter_write", [j](World& w) { for (char c : std::string("10110")) { w.t[j].write(c == '1'); w.mt[j].push_back(c == '1'); } });
    addt("truncate(size/2)", "BitWriter_truncate", [j](World& w) { w.t[j].truncate(w.mt[j].size() / 2); w.mt[j].resize(w.mt[j].size() / 2); });
    addt("reset()", "BitWriter_reset", [j](World& w) { w.t[j].reset(); w.mt[j].clear(); });
    ps.push_back({vf::fmt("bit reader%d.pread(3, 5)", j), "BitReader_pread", [=](World& w, std::string* g, std::string* e) { return cmp(hx(w.br[j].pread(3, 5)), hx(bits_value(w.mbr[j], 3, 5)), g, e); }});
    ps.push_back({vf::fmt("bit reader%d.pread(0, 13)", j), "BitReader_pread", [=](World& w, std::string* g, std::string* e) { return cmp(hx(w.br[j].pread(0, 13)), hx(bits_value(w.mbr[j], 0, 13)), g, e); }});
    ps.push_back({vf::fmt("bit reader%d.read(8, false) at 2", j), "BitReader_read", [=](World& w, std::string* g, std::string* e) { w.br[j].go(2); bool ok = cmp(hx(w.br[j].read(8, false)), hx(bits_value(w.mbr[j], 2, 8)), g, e); return ok && w.br[j].where() == 2; }});
    ps.push_back({vf::fmt("bit reader%d.read() at 4", j), "BitReader_read", [=](World& w, std::string* g, std::string* e) { w.br[j].go(4); bool ok = cmp(hx(w.br[j].read()), hx(bits_value(w.mbr[j], 4, 1)), g, e); return ok && w.br[j].where() == 5; }});
  }
  return ps;
}

// =====================================================================================================================
// context
// =====================================================================================================================
// One complete multi-step round trip; returns "" or "<key>|<description>".
std::string scenario(uint64_t seed) {
  try {
    auto val = [&](size_t i) { return (seed << (i % 61)) ^ (seed >> (64 - (i % 61) - 1)) ^ (0x9E3779B97F4A7C15ull * (i + 1)); };
    StringWriter sw;
    Bytes m;
    size_t total = 0;
    for (auto& k : kinds()) total += k.w;
    Exact bbuf(total + 4);
    BufferWriter bw(bbuf.p, bbuf.n);
    size_t i = 0;
    for (auto& k : kinds()) {
      uint64_t v = val(i++);
      uint8_t b[8];
      enc(b, v, k.w, k.e);
      k.sw_put(sw, v);
      k.bw_put(bw, v);
      m.insert(m.end(), b, b + k.w);
    }
    sw.write("ctx", 4);
    bw.write(std::string("ctx\0", 4));  // the buffer is exactly full now
    for (char c : std::string("ctx\0", 4)) m.push_back(c);
    // back-patch: positional writes at the front while the cursor is at the very end
    sw.pput_u32b(1, 0x80FF7F01);
    bw.pput_u32b(1, 0x80FF7F01);
    enc(m.data() + 1, 0x80FF7F01, 4, BE);
    if (sw.size() != m.size() || memcmp(sw.str().data(), m.data(), m.size())) return "writer:bytes|StringWriter holds " + hexb(sw.str().data(), sw.size()) + ", model " + hexb(m.data(), m.size());
    if (memcmp(bbuf.p, m.data(), m.size())) return "bw:bytes|BufferWriter buffer holds " + hexb(bbuf.p, bbuf.n) + ", model " + hexb(m.data(), m.size());
    // a read that cannot be satisfied, caught here, must not disturb what follows
    StringReader rd(bbuf.p, bbuf.n);
    rd.go(bbuf.n - 3);
    bool threw = false;
    try {
      rd.get_u64l();
    } catch (const std::out_of_range&) { threw = true; }
    if (!threw) return "reader:returns-without-data|get_u64l with 3 bytes left returned";
    rd.go(0);
    size_t pos = 0;
    for (auto& k : kinds()) {
      uint64_t want = k.expect(dec(m.data() + pos, k.w, k.e));
      uint64_t g0 = k.pget(rd, pos), g1 = k.get(rd, true);
      pos += k.w;
      if (g0 != want || g1 != want || rd.where() != pos) return std::string("reader:value|get_") + k.name + " returned " + hx(g1) + " / pget " + hx(g0) + ", decoder says " + hx(want) + vf::fmt(", cursor %zu (expected %zu)", rd.where(), pos);
    }
    if (rd.get_cstr() != "ctx" || !rd.eof()) return "reader:cstr|trailing C string not read back";
    // bits
    BitWriter bits;
    Bits mb;
    for (int j = 0; j < 19; j++) {
      bool b = (seed >> j) & 1;
      bits.write(b);
      mb.push_back(b);
    }
    bits.truncate(11);
    mb.resize(11);
    for (int j = 0; j < 3; j++) {
      bool b = (seed >> (40 + j)) & 1;
      bits.write(b);
      mb.push_back(b);
    }
    if (bits.size() != 14 || bits.str() != pack_bits(mb)) return "bits:bytes|BitWriter holds " + hexb(bits.str().data(), bits.str().size()) + ", model " + hexb(pack_bits(mb).data(), 2);
    BitReader br(bits.str());
    if (br.read(14) != bits_value(mb, 0, 14) || br.pread(3, 9) != bits_value(mb, 3, 9)) return "bits:value|BitReader read back different bits";
  } catch (const std::exception& e) {
    return std::string("scenario:throws|unexpected exception ") + e.what();
  }
  return "";
}

struct AtExit {
  std::function<void()> f;
  ~AtExit() { f(); }
};
const char* ctx_name[] = {"plain", "inside a catch handler (harness exception)", "inside the catch handler of a StringReader out_of_range", "destructor during stack unwinding", "destructor during unwinding, started inside a catch handler", "second thread", "second thread, destructor during unwinding"};
const int NCTX = 7;

std::string run_in_context(int ctx, uint64_t seed) {
  std::string res = "scenario:not-run|the scenario did not run";
  auto body = [&] { res = scenario(seed); };
  auto unwinding = [&] {
    try {
      AtExit g{body};
      throw std::runtime_error("unwind");
    } catch (const std::runtime_error&) {}
  };
  switch (ctx) {
    case 0: body(); break;
    case 1:
      try {
        throw std::logic_error("x");
      } catch (const std::logic_error&) { body(); }
      break;
    case 2:
      try {
        StringReader rd("ab", 2);
        rd.get_u32l();
      } catch (const std::out_of_range&) { body(); }
      break;
    case 3: unwinding(); break;
    case 4:
      try {
        throw std::logic_error("x");
      } catch (const std::logic_error&) { unwinding(); }
      break;
    case 5: {
      std::thread t(body);
      t.join();
      break;
    }
    default: {
      std::thread t(unwinding);
      t.join();
      break;
    }
  }
  return res;
}

// =====================================================================================================================
// far
// =====================================================================================================================
struct Sparse {
  uint8_t* p = nullptr;
  size_t n = 0;
  explicit Sparse(size_t n_) : n(n_) {
    void* q = mmap(nullptr, n, PROT_READ | PROT_WRITE, MAP_PRIVATE | MAP_ANONYMOUS | MAP_NORESERVE, -1, 0);
    p = q == MAP_FAILED ? nullptr : (uint8_t*)q;
  }
  ~Sparse() {
    if (p) munmap(p, n);
  }
};
uint8_t pat(uint64_t i) { return (uint8_t)(((i * 0x9E3779B97F4A7C15ull) >> 29) ^ (i >> 3)); }

}  // namespace

VF_SECTION(pairs, 16, 16, 180) {
  auto probes = build_probes();
  const size_t N = probes.size();
  r.note("call pairs");
  auto run_seq = [&](std::initializer_list<size_t> seq) {
    World w;
    size_t step = 0;
    for (size_t pi : seq) {
      step++;
      std::string got, want, exc;
      bool ok;
      try {
        ok = probes[pi].run(w, &got, &want);
      } catch (const std::exception& e) {
        ok = false;
        got = std::string("<exception ") + e.what() + ">";
        want = "(no exception)";
      }
      r.transitions++;
      if (!ok) {
        r.fail(probes[pi].key + ":after-other-calls", [&] {
          std::string s = "call sequence [";
          size_t j = 0;
          for (size_t q : seq) s += (j++ ? "; " : "") + probes[q].name;
          return s + vf::fmt("] :: call %zu returned / left %s, model %s", step, vf::show(got).c_str(), vf::show(want).c_str());
        });
        return false;
      }
    }
    return true;
  };
  for (size_t a = 0; a < N; a++) {
    for (size_t b = 0; b < N; b++) {
      if (!r.thorough()) {
        if (!r.take()) continue;
        if (r.wants_desc()) r.desc("A, B, A with A = " + probes[a].name + ", B = " + probes[b].name);
        r.nontriv();
        if (run_seq({a, b, a})) r.ok("aba-ok");
      } else {
        for (size_t c = 0; c < N; c++) {
          if (!r.take()) continue;
          if (r.wants_desc()) r.desc("A, B, C with A = " + probes[a].name + ", B = " + probes[b].name + ", C = " + probes[c].name);
          r.nontriv();
          if (run_seq({a, b, c})) r.ok("abc-ok");
        }
      }
    }
  }
  r.bound = vf::fmt("%zu probe calls on persistent objects (three StringReaders over 3/9/40 bytes: pget_cstr, get_cstr, get_line, pread/preadx/read/readx in string and buffer forms, peek, sub, all, pget of every kind that fits, get of all 42 kinds; two StringWriters: put/write/pput/reset; a BufferWriter and a StringReader sharing one 32-byte buffer: positional writes that change what the reader must see; two BitWriters; two BitReaders): %s, every result compared with the model", N, r.thorough() ? "every ordered triple A, B, C" : "every ordered pair executed as A, B, A");
}

VF_SECTION(context, 4, 4, 180) {
  std::vector<uint64_t> seeds = structured_values(8);
  seeds.resize(r.thorough() ? seeds.size() : 48);
  r.note("contexts");
  for (uint64_t seed : seeds) {
    for (int ctx = 0; ctx < NCTX; ctx++) {
      if (!r.take()) continue;
      if (r.wants_desc()) r.desc(vf::fmt("round trip of all 42 kinds + C string + back-patch + bits, seed 0x%016llX, context: %s", (unsigned long long)seed, ctx_name[ctx]));
      r.nontriv();
      r.poison_errno();
      std::string res = run_in_context(ctx, seed);
      if (res.empty()) {
        r.ok(std::string("context-ok/") + ctx_name[ctx]);
      } else {
        size_t bar = res.find('|');
        r.fail("context:" + res.substr(0, bar), [&] { return vf::fmt("seed 0x%016llX in context '%s': ", (unsigned long long)seed, ctx_name[ctx]) + res.substr(bar + 1); });
      }
    }
  }
  r.bound = vf::fmt("%zu seeds x 7 execution contexts (plain, two kinds of catch handler, destructor during unwinding, nested, second thread, second thread unwinding): all 42 kinds appended to a StringWriter and to an exactly-full BufferWriter, C string, positional back-patch with the cursor at the end, a failing read caught and recovered from, sequential + positional read-back, BitWriter write/truncate/write + BitReader", seeds.size());
}

// BlockStringWriter: the fourth writer of Strings.hh (blocks kept apart until close()); typed values appended with
// put<T>, raw blocks with the three write overloads; close() must give the concatenation in order, close(sep) the
// blocks joined by sep.
VF_SECTION(block_writer, 4, 4, 180) {
  struct BOp { const char* name; int t; };
  static const BOp ops[] = {{"put<be_uint16_t>(0x8001)", 0}, {"put<le_uint32_t>(0x80010203)", 1}, {"put<S3>", 2}, {"put<double>(-0.0)", 3}, {"put<uint8_t>(0)", 4},
      {"write(ptr, 3)", 5}, {"write(const std::string&) with a NUL", 6}, {"write(std::string&&) of 17 bytes", 7}, {"write(\"\")", 8}, {"write_printf(\"%d|%s\", -7, \"x\")", 9}};
  const size_t NOPS = sizeof(ops) / sizeof(ops[0]);
  const size_t depth = r.thorough() ? 5 : 4;
  r.note("BlockStringWriter histories");
  for (size_t len = 0; len <= depth; len++) {
    std::vector<uint32_t> seq(len, 0);
    bool more = true;
    while (more) {
      if (r.take()) {
        auto hd = [&] {
          std::string s = "BlockStringWriter history [";
          for (size_t i = 0; i < seq.size(); i++) s += (i ? "; " : "") + std::string(ops[seq[i]].name);
          return s + "]";
        };
        if (r.wants_desc()) r.desc(hd());
        r.nontriv();
        r.states++;
        try {
          BlockStringWriter w;
          std::vector<std::string> blocks;
          for (uint32_t oi : seq) {
            r.transitions++;
            uint8_t ref[16];
            switch (ops[oi].t) {
              case 0: w.put<be_uint16_t>(be_uint16_t(0x8001)); enc(ref, 0x8001, 2, BE); blocks.emplace_back((const char*)ref, 2); break;
              case 1: w.put<le_uint32_t>(le_uint32_t(0x80010203)); enc(ref, 0x80010203, 4, LE); blocks.emplace_back((const char*)ref, 4); break;
              case 2: { S3 x = make_S3(0x80F1E2, ref); w.put<S3>(x); blocks.emplace_back((const char*)ref, 3); break; }
              case 3: w.put<double>(-0.0); enc(ref, 0x8000000000000000ull, 8, LE); blocks.emplace_back((const char*)ref, 8); break;
              case 4: w.put<uint8_t>(0); blocks.emplace_back(1, '\0'); break;
              case 5: w.write("xyz", 3); blocks.emplace_back("xyz"); break;
              case 6: { std::string s("a\0b", 3); w.write(s); blocks.push_back(s); break; }
              case 7: { std::string s("0123456789ABCDEFG"); w.write(std::move(s)); blocks.emplace_back("0123456789ABCDEFG"); break; }
              case 8: w.write(std::string()); blocks.emplace_back(); break;
              default: w.write_printf("%d|%s", -7, "x"); blocks.emplace_back("-7|x"); break;
            }
          }
          std::string cat, joined;
          for (size_t i = 0; i < blocks.size(); i++) {
            cat += blocks[i];
            joined += (i ? "\x1F|" : "") + blocks[i];
          }
          std::string g0 = w.close(), g1 = w.close(""), g2 = w.close("\x1F|");
          if (g0 != cat || g1 != cat) r.fail("BlockStringWriter_close:bytes", [&] { return hd() + " :: close() gives " + hexb(g0.data(), g0.size()) + " / close(\"\") " + hexb(g1.data(), g1.size()) + ", concatenation of what was appended is " + hexb(cat.data(), cat.size()); });
          else if (g2 != joined) r.fail("BlockStringWriter_close:separator", [&] { return hd() + " :: close(sep) gives " + hexb(g2.data(), g2.size()) + ", blocks joined by the separator are " + hexb(joined.data(), joined.size()); });
          else {
            // the typed values must read back from the concatenation
            StringReader rd(g0);
            bool good = true;
            for (uint32_t oi : seq) {
              switch (ops[oi].t) {
                case 0: good = good && rd.get_u16b() == 0x8001; break;
                case 1: good = good && rd.get_u32l() == 0x80010203u; break;
                case 2: { const S3& x = rd.get<S3>(); good = good && x.a == 0x80 && (uint16_t)x.b == 0xF1E2; break; }
                case 3: good = good && to_bits<double>(rd.get<double>()) == 0x8000000000000000ull; break;
                case 4: good = good && rd.get_u8() == 0; break;
                case 5: good = good && rd.readx(3) == "xyz"; break;
                case 6: good = good && rd.readx(3) == std::string("a\0b", 3); break;
                case 7: good = good && rd.readx(17) == "0123456789ABCDEFG"; break;
                case 8: break;
                default: good = good && rd.readx(4) == "-7|x"; break;
              }
            }
            if (!good || !rd.eof()) r.fail("BlockStringWriter_close:readback", [&] { return hd() + " :: the values appended do not read back in order from close()"; });
            else r.ok(vf::fmt("block-writer-ok/len%zu", len));
          }
        } catch (const std::exception& e) {
          std::string wh = e.what();
          r.fail("BlockStringWriter:throws", [&] { return hd() + " :: unexpected exception " + wh; });
        }
      }
      size_t i = len;
      for (;;) {
        if (i == 0) { more = false; break; }
        i--;
        if (++seq[i] < NOPS) break;
        seq[i] = 0;
      }
    }
  }
  r.bound = vf::fmt("all operation sequences of length 0..%zu over %zu BlockStringWriter operations (put<T> with endian wrappers, a packed struct, double, uint8_t; write(ptr,len), write(const std::string&), write(std::string&&), empty block, write_printf); close(), close(\"\") and close(separator) compared with the concatenation / join of the appended bytes, then read back with StringReader", depth, NOPS);
}

VF_SECTION(far, 1, 1, 300) {
  const size_t HUGE[] = {0x7FFFFFFFFFFFFFFFull, 0x8000000000000000ull, ~(size_t)0 - 1, ~(size_t)0};
  const size_t G4 = 0x100000000ull, G2 = 0x80000000ull;
  // ---- A/B: StringReader and BufferWriter over a sparse 4 GiB + 64 KiB mapping ---------------------------------------
  r.note("4 GiB sparse mapping");
  {
    Sparse sp(G4 + 65536);
    if (!sp.p) {
      r.exhaustive = false;
      r.notes.push_back("far: could not map 4 GiB of address space; the 2^31/2^32 offset cases were skipped");
    } else {
      for (size_t base : {G2, G4})
        for (size_t i = base - 32; i < base + 48; i++) sp.p[i] = pat(i);
      for (size_t i = sp.n - 32; i < sp.n; i++) sp.p[i] = pat(i);
      for (size_t base : {G2, G4}) {
        for (int d = -9; d <= 9; d++) {
          size_t off = base + d;
          if (!r.take()) continue;
          if (r.wants_desc()) r.desc(vf::fmt("StringReader/BufferWriter over a 4 GiB + 64 KiB buffer at offset %zu (2^%d%+d)", off, base == G2 ? 31 : 32, d));
          r.nontriv();
          bool good = true;
          auto bad = [&](const std::string& key, const std::string& what) {
            if (good) r.fail(key, [&] { return vf::fmt("buffer of %zu bytes, offset %zu: ", sp.n, off) + what; });
            good = false;
          };
          try {
            const StringReader rd(sp.p, sp.n);
            for (auto& k : kinds()) {
              uint64_t want = k.expect(dec(sp.p + off, k.w, k.e));
              uint64_t g0 = k.pget(rd, off);
              StringReader q(sp.p, sp.n, off);
              uint64_t g1 = k.get(q, false), g2 = k.get(q, true);
              size_t w2 = q.where();
              StringReader q2(sp.p, sp.n);
              q2.go(off - 5);
              q2.skip(5);
              uint64_t g3 = k.get(q2, true);
              StringReader s1 = rd.sub(off - 1);
              s1.skip(1);
              uint64_t g4 = k.pget(rd.subx(off - 1, 16), 1), g5 = k.get(s1, true);
              if (g5 != want || s1.where() != 1 + (size_t)k.w || s1.size() != sp.n - off + 1) g4 = ~want;
              if (g0 != want || g1 != want || g2 != want || g3 != want || g4 != want) bad(std::string("far_") + (g0 != want ? "pget" : "get") + ":value", vf::fmt("%s: pget %s, get %s / %s, after go+skip %s, through subx %s; decoder says %s", k.name, hx(g0).c_str(), hx(g1).c_str(), hx(g2).c_str(), hx(g3).c_str(), hx(g4).c_str(), hx(want).c_str()));
              if (w2 != off + k.w || q2.where() != off + k.w || q.remaining() != sp.n - off - k.w || q.eof()) bad("far_get:advance", vf::fmt("get_%s: cursor %zu (expected %zu), remaining %zu", k.name, w2, off + k.w, q.remaining()));
            }
            {
              StringReader q(sp.p, sp.n, off);
              std::string want((const char*)sp.p + off, 7);
              Exact b(7);
              if (q.read(7, false) != want || q.readx(7, false) != want || rd.pread(off, 7) != want || rd.preadx(off, 7) != want || q.read(b.p, 7, false) != 7 || memcmp(b.p, want.data(), 7) || (const uint8_t*)q.peek(7) != sp.p + off || (const uint8_t*)rd.pgetv(off, 7) != sp.p + off) bad("far_read:value", "read/readx/pread/preadx/read(buf)/peek/pgetv of 7 bytes differ from the buffer");
              if (q.read(7) != want || q.where() != off + 7) bad("far_read:advance", vf::fmt("read(7): cursor %zu", q.where()));
              std::string cw;
              if (model_cstr(sp.p, off + 64, off, &cw)) {
                q.go(off);
                if (q.get_cstr() != cw || rd.pget_cstr(off) != cw || q.where() != off + cw.size() + 1) bad("far_cstr:value", "get_cstr/pget_cstr differ from the model, or wrong cursor");
              }
              std::string lw;
              size_t np;
              // line: bounded by the LF the pattern contains within the initialised window, if any
              size_t lf = off;
              while (lf < base + 48 && sp.p[lf] != '\n') lf++;
              if (lf < base + 48 && model_line(sp.p, sp.n, off, &lw, &np)) {
                q.go(off);
                if (q.get_line() != lw || q.where() != np) bad("far_line:value", "get_line differs from the model, or wrong cursor");
              }
            }
            // BufferWriter: positional writes of every kind at this offset (a scratch copy of the bytes is restored)
            {
              uint8_t save[8];
              memcpy(save, sp.p + off, 8);
              BufferWriter bw(sp.p, sp.n);
              size_t i = 0;
              for (auto& k : kinds()) {
                uint64_t v = 0x8142C3A4E5F60718ull * (++i) + d;
                uint8_t e[8];
                enc(e, v, k.w, k.e);
                k.bw_pput(bw, off, v);
                if (memcmp(sp.p + off, e, k.w) || sp.p[off - 1] != pat(off - 1) || sp.p[off + 8] != pat(off + 8)) bad(kname("far_bw_pput", k) + ":bytes", "bytes at the offset are " + hexb(sp.p + off, k.w) + ", reference " + hexb(e, k.w) + " (or a neighbour changed)");
                if (k.expect(dec(e, k.w, k.e)) != k.pget(rd, off)) bad("far_pget:value", std::string("value written with pput_") + k.name + " not read back");
                memcpy(sp.p + off, save, 8);
              }
              bw.pwrite(off, std::string("\x80\x00\x7F", 3));
              if (memcmp(sp.p + off, "\x80\x00\x7F", 3)) bad("far_bw_pwrite:bytes", "pwrite(std::string) landed elsewhere");
              memcpy(sp.p + off, save, 8);
            }
          } catch (const std::exception& e) {
            bad("far:throws", std::string("unexpected exception ") + e.what());
          }
          if (good) r.ok("far-4G-ok");
        }
      }
      // the last bytes of the buffer, and offsets beyond any buffer
      if (r.take()) {
        if (r.wants_desc()) r.desc("4 GiB + 64 KiB buffer: reads ending exactly at the end; offsets 2^63-1 .. SIZE_MAX");
        r.nontriv();
        bool good = true;
        auto bad = [&](const std::string& key, const std::string& what) {
          if (good) r.fail(key, [&] { return what; });
          good = false;
        };
        try {
          for (auto& k : kinds()) {
            StringReader q(sp.p, sp.n, sp.n - k.w);
            uint64_t want = k.expect(dec(sp.p + sp.n - k.w, k.w, k.e));
            if (k.get(q, true) != want || q.where() != sp.n || !q.eof() || q.remaining() != 0) bad("far_get:value", std::string("last ") + k.name + " of the 4 GiB buffer not read / cursor wrong");
            bool t1 = false, t2 = false;
            try { k.get(q, true); } catch (const std::out_of_range&) { t1 = true; }
            try { k.pget(q, sp.n - k.w + 1); } catch (const std::out_of_range&) { t2 = true; }
            if (!t1 || !t2) bad("far_get:returns-without-data", std::string("get_/pget_") + k.name + " past the end of the 4 GiB buffer returned");
            for (size_t h : HUGE) {
              bool t = false;
              try { k.pget(q, h); } catch (const std::out_of_range&) { t = true; }
              StringReader q3(sp.p, sp.n, h);
              bool t3 = false;
              try { k.get(q3, true); } catch (const std::out_of_range&) { t3 = true; }
              if (!t || !t3 || q3.where() != h || !q3.eof()) bad("far_get:returns-without-data", vf::fmt("pget_/get_%s at offset %zu returned (or where()/eof() wrong)", k.name, h));
            }
          }
          const StringReader rd(sp.p, sp.n);
          for (size_t h : HUGE) {
            bool t = false, t2 = false, t3 = false;
            try { rd.preadx(h, 1); } catch (const std::out_of_range&) { t = true; }
            try { rd.pgetv(h, 0); } catch (const std::out_of_range&) { t2 = true; }
            try { rd.preadx(8, h); } catch (const std::out_of_range&) { t3 = true; }
            Exact b(4);
            if (!t || !t2 || !t3 || !rd.pread(h, 4).empty() || rd.pread(h, b.p, 4) != 0 || rd.sub(h).size() != 0 || rd.sub(h, h).size() != 0) bad("far_read:returns-without-data", vf::fmt("pread/preadx/pgetv/sub at offset %zu found data", h));
          }
          StringReader tail(sp.p, sp.n, sp.n - 5);
          std::string want((const char*)sp.p + sp.n - 5, 5);
          for (size_t h : HUGE)
            if (tail.read(h, false) != want || rd.pread(sp.n - 5, h) != want || rd.sub(sp.n - 5, h).all() != want) bad("far_read:value", vf::fmt("read/pread/sub with size %zu did not return the 5 remaining bytes", h));
          if (tail.read(~(size_t)0) != want || tail.where() != sp.n) bad("far_read:advance", "read(SIZE_MAX) at the tail did not move to the end");
        } catch (const std::exception& e) {
          bad("far:throws", std::string("unexpected exception ") + e.what());
        }
        if (good) r.ok("far-4G-end-ok");
      }
    }
  }
  // ---- C: BitReader at bit offsets 2^31 and 2^32 ----------------------------------------------------------------------
  r.note("bit offsets 2^31 / 2^32");
  {
    const size_t NB = (G4 >> 3) + 128;
    Sparse sp(NB);
    if (!sp.p) {
      r.exhaustive = false;
      r.notes.push_back("far: could not map 512 MiB of address space; the 2^31/2^32 bit offset cases were skipped");
    } else {
      for (size_t base : {G2 >> 3, G4 >> 3})
        for (size_t i = base - 16; i < base + 32; i++) sp.p[i] = pat(i);
      auto bit = [&](size_t i) { return (uint64_t)((sp.p[i >> 3] >> (7 - (i & 7))) & 1); };
      for (size_t base : {G2, G4}) {
        for (int d = -9; d <= 9; d++) {
          size_t off = base + d;
          if (!r.take()) continue;
          if (r.wants_desc()) r.desc(vf::fmt("BitReader over 2^32 + 1024 bits at bit offset %zu", off));
          r.nontriv();
          bool good = true;
          for (size_t sz : {(size_t)1, (size_t)7, (size_t)8, (size_t)13, (size_t)33, (size_t)64}) {
            uint64_t want = 0;
            for (size_t i = 0; i < sz; i++) want = (want << 1) | bit(off + i);
            BitReader br(sp.p, NB * 8);
            uint64_t g0 = br.pread(off, (uint8_t)sz);
            br.go(off);
            uint64_t g1 = br.read((uint8_t)sz, false), g2 = br.read((uint8_t)sz);
            size_t w2 = br.where();
            BitReader b2(sp.p, NB * 8, off - 3);
            b2.skip(3);
            uint64_t g3 = b2.read((uint8_t)sz);
            if (good && (g0 != want || g1 != want || g2 != want || g3 != want || w2 != off + sz || b2.where() != off + sz || br.remaining() != NB * 8 - off - sz || br.eof())) {
              r.fail("far_bits:value", [&] { return vf::fmt("bit offset %zu, %zu bits: pread %s, read %s / %s, after ctor offset + skip %s, model %s; cursor %zu (expected %zu)", off, sz, hx(g0).c_str(), hx(g1).c_str(), hx(g2).c_str(), hx(g3).c_str(), hx(want).c_str(), w2, off + sz); });
              good = false;
            }
          }
          if (good) r.ok("far-bits-ok");
        }
      }
    }
  }
  // ---- D: offsets 2^k-1, 2^k, 2^k+1 up to 2^16; long C strings, lines, blocks -------------------------------------------
  r.note("2^k offsets");
  {
    const size_t N = 65536 + 600;
    Exact buf(N);
    for (size_t i = 0; i < N; i++) buf.p[i] = pat(i) | 1;  // no NUL
    for (size_t i = 0; i < N; i++)
      if (buf.p[i] == '\n' || buf.p[i] == '\r') buf.p[i] = 'n';  // no line structure except where a case puts it
    const StringReader rd(buf.p, N);
    for (int k = 1; k <= 16; k++) {
      for (int d = -1; d <= 1; d++) {
        size_t off = ((size_t)1 << k) + d;
        if (!r.take()) continue;
        if (r.wants_desc()) r.desc(vf::fmt("reader over %zu bytes: every kind at offset 2^%d%+d", N, k, d));
        r.nontriv();
        bool good = true;
        for (auto& kd : kinds()) {
          uint64_t want = kd.expect(dec(buf.p + off, kd.w, kd.e));
          StringReader q(buf.p, N, off);
          uint64_t g0 = kd.pget(rd, off), g1 = kd.get(q, true);
          if (good && (g0 != want || g1 != want || q.where() != off + kd.w)) {
            r.fail(kname("get", kd) + ":value", [&] { return vf::fmt("offset %zu of %zu: pget %s, get %s (cursor %zu), decoder says %s", off, N, hx(g0).c_str(), hx(g1).c_str(), q.where(), hx(want).c_str()); });
            good = false;
          }
        }
        if (good) r.ok("pow2-offset-ok");
      }
    }
    // long C strings / lines / blocks: terminator at distance L from the start offset
    for (size_t L : {(size_t)255, (size_t)256, (size_t)257, (size_t)4095, (size_t)4096, (size_t)65535, (size_t)65536, (size_t)65537}) {
      if (!r.take()) continue;
      if (r.wants_desc()) r.desc(vf::fmt("C string / line / raw block of %zu bytes", L));
      r.nontriv();
      bool good = true;
      size_t start = 3;
      uint8_t saved = buf.p[start + L];
      std::string want((const char*)buf.p + start, L);
      StringReader q(buf.p, N, start);
      buf.p[start + L] = 0;
      std::string c0 = q.get_cstr(false), c1 = rd.pget_cstr(start), c2 = q.get_cstr();
      size_t wc = q.where();
      buf.p[start + L] = '\n';
      q.go(start);
      std::string l0 = q.get_line(false), l1 = q.get_line();
      size_t wl = q.where();
      buf.p[start + L] = saved;
      q.go(start);
      std::string b0 = q.read(L, false), b1 = q.readx(L), b2 = rd.pread(start, L), b3 = rd.preadx(start, L);
      Exact tmp(L);
      size_t cnt = rd.pread(start, tmp.p, L);
      if (c0 != want || c1 != want || c2 != want || wc != start + L + 1) { r.fail("get_cstr:long", [&] { return vf::fmt("C string of %zu bytes at 3: lengths %zu/%zu/%zu, cursor %zu", L, c0.size(), c1.size(), c2.size(), wc); }); good = false; }
      if (l0 != want || l1 != want || wl != start + L + 1) { r.fail("get_line:long", [&] { return vf::fmt("line of %zu bytes at 3: lengths %zu/%zu, cursor %zu", L, l0.size(), l1.size(), wl); }); good = false; }
      if (b0 != want || b1 != want || b2 != want || b3 != want || cnt != L || memcmp(tmp.p, want.data(), L) || q.where() != start + L) { r.fail("read:long", [&] { return vf::fmt("block of %zu bytes at 3 not read back (cursor %zu)", L, q.where()); }); good = false; }
      if (good) r.ok("long-block-ok");
    }
  }
  // ---- E: StringWriter — far positional writes, big extensions and blocks ------------------------------------------------
  r.note("StringWriter far pput");
  {
    std::vector<size_t> gaps = {255, 256, 257, 4095, 4096, 65535, 65536, 65537, (size_t)1 << 20};
    if (r.thorough()) gaps.push_back(((size_t)1 << 24) + 1);
    for (size_t gap : gaps) {
      for (int form = 0; form < 4; form++) {
        if (!r.take()) continue;
        static const char* fn[] = {"pput_u32b(size+gap)", "extend_by(gap, 0x5C); put_u16l", "extend_to(size+gap); pput_u64l straddling the end", "write(block of gap bytes); pput_u8(size+gap)"};
        if (r.wants_desc()) r.desc(vf::fmt("StringWriter holding 5 bytes: %s with gap %zu", fn[form], gap));
        r.nontriv();
        try {
          StringWriter sw;
          sw.write("\x81\x82\x83\x84\x85", 5);
          Bytes m = {0x81, 0x82, 0x83, 0x84, 0x85};
          switch (form) {
            case 0:
              sw.pput_u32b(5 + gap, 0x80FF7F01);
              m.resize(5 + gap + 4, 0);
              enc(m.data() + 5 + gap, 0x80FF7F01, 4, BE);
              break;
            case 1:
              sw.extend_by(gap, 0x5C);
              sw.put_u16l(0x8001);
              m.resize(5 + gap, 0x5C);
              m.push_back(0x01);
              m.push_back(0x80);
              break;
            case 2:
              sw.extend_to(5 + gap);
              sw.pput_u64l(5 + gap - 3, 0x8877665544332211ull);
              m.resize(5 + gap - 3 + 8, 0);
              enc(m.data() + 5 + gap - 3, 0x8877665544332211ull, 8, LE);
              break;
            default: {
              std::string blk(gap, '\0');
              for (size_t i = 0; i < gap; i++) blk[i] = (char)pat(i);
              sw.write(blk);
              sw.pput_u8(5 + 2 * gap, 0xC3);
              m.insert(m.end(), blk.begin(), blk.end());
              m.resize(5 + 2 * gap + 1, 0);
              m.back() = 0xC3;
              break;
            }
          }
          const std::string& s = sw.str();
          if (sw.size() != m.size() || s.size() != m.size() || memcmp(s.data(), m.data(), m.size())) {
            size_t diff = 0;
            while (diff < std::min(s.size(), m.size()) && (uint8_t)s[diff] == m[diff]) diff++;
            r.fail("far_pput:bytes", [&] { return vf::fmt("StringWriter holding 5 bytes, %s with gap %zu: size %zu (model %zu), first difference at %zu", fn[form], gap, s.size(), m.size(), diff); });
          } else {
            StringReader rd(s.data(), s.size());
            size_t off = form == 0 ? 5 + gap : form == 1 ? 5 + gap : form == 2 ? 5 + gap - 3 : 5 + 2 * gap;
            uint64_t got = form == 0 ? rd.pget_u32b(off) : form == 1 ? rd.pget_u16l(off) : form == 2 ? rd.pget_u64l(off) : rd.pget_u8(off);
            uint64_t want = form == 0 ? 0x80FF7F01u : form == 1 ? 0x8001u : form == 2 ? 0x8877665544332211ull : 0xC3u;
            if (got != want) r.fail("far_pget:value", [&] { return vf::fmt("value written %zu bytes in not read back: %s", off, hx(got).c_str()); });
            else r.ok("far-pput-ok");
          }
        } catch (const std::exception& e) {
          std::string w = e.what();
          r.fail("far_pput:throws", [&] { return vf::fmt("StringWriter, %s with gap %zu: unexpected exception ", fn[form], gap) + w; });
        }
      }
    }
    // don't-care: positional writes no string can hold (executed; must not crash)
    if (r.take()) {
      if (r.wants_desc()) r.desc("don't-care: StringWriter pput at 2^63-1 .. SIZE_MAX");
      std::string outs;
      for (size_t h : HUGE) {
        StringWriter sw;
        sw.put_u8(1);
        outs += "/" + vf::outcome([&] { sw.pput_u16b(h, 0xBEEF); });
      }
      r.ok("executed-not-compared" + outs);
    }
  }
  // ---- don't-care: size arguments nothing can satisfy (executed; outcome recorded, not compared) -----------------------------
  if (r.take()) {
    if (r.wants_desc()) r.desc("don't-care: truncate / extend_by / extend_to / skip / BitWriter::truncate with 2^63-1 .. SIZE_MAX");
    std::string outs;
    for (size_t h : HUGE) {
      Exact b(8);
      StringReader rd(b.p, 8, 3);
      BitReader br(b.p, 64, 3);
      StringWriter sw;
      sw.put_u8(1);
      BitWriter bw;
      bw.write(true);
      outs += "/" + vf::outcome([&] { rd.truncate(h); }) + "," + vf::outcome([&] { rd.skip(h); }) + "," + vf::outcome([&] { br.truncate(h); }) + "," + vf::outcome([&] { sw.extend_by(h); }) + "," + vf::outcome([&] { sw.extend_to(h); }) + "," + vf::outcome([&] { bw.truncate(h); });
      if (rd.size() != 8 || br.size() != 64 || bw.size() != 1 || bw.str() != "\x80") r.fail("far:refused-call-changed-object", [&] { return vf::fmt("a refused truncate(%zu) changed the object: reader size %zu, bit reader size %zu, bit writer size %zu", h, rd.size(), br.size(), bw.size()); });
    }
    r.ok("executed-not-compared" + outs);
  }
  // ---- F: long BitWriter contents -------------------------------------------------------------------------------------------
  r.note("long BitWriter");
  for (size_t L : {(size_t)255, (size_t)256, (size_t)257, (size_t)2047, (size_t)2048, (size_t)2049, (size_t)65535, (size_t)65536, (size_t)65537}) {
    if (!r.take()) continue;
    if (r.wants_desc()) r.desc(vf::fmt("BitWriter with %zu bits: size/str, truncate + append, BitReader at 2^k bit offsets", L));
    r.nontriv();
    bool good = true;
    try {
      Bits m(L);
      BitWriter bw;
      for (size_t i = 0; i < L; i++) {
        m[i] = (pat(i >> 3) >> (i & 7)) & 1;
        bw.write(m[i]);
      }
      if (bw.size() != L || bw.str() != pack_bits(m)) { r.fail("BitWriter_write:long", [&] { return vf::fmt("%zu bits written: size() %zu, str() of %zu bytes differs from the packing", L, bw.size(), bw.str().size()); }); good = false; }
      BitReader br(bw.str().data(), L);
      for (int k = 3; k <= 16 && good; k++) {
        for (int d = -1; d <= 1 && good; d++) {
          size_t off = ((size_t)1 << k) + d;
          for (size_t sz : {(size_t)1, (size_t)9, (size_t)64}) {
            if (off + sz > L) continue;
            br.go(off);
            uint64_t want = bits_value(m, off, sz), g0 = br.pread(off, (uint8_t)sz), g1 = br.read((uint8_t)sz);
            if (g0 != want || g1 != want || br.where() != off + sz) { r.fail("BitReader_pread:long", [&] { return vf::fmt("%zu bits, offset %zu size %zu: pread %s read %s model %s cursor %zu", L, off, sz, hx(g0).c_str(), hx(g1).c_str(), hx(want).c_str(), br.where()); }); good = false; break; }
          }
        }
      }
      for (size_t k : {L - 1, L - 7, L - 8, L - 9, L / 2, (size_t)1, (size_t)0}) {
        if (!good) break;
        BitWriter c = bw;
        c.truncate(k);
        Bits m2(m.begin(), m.begin() + k);
        for (char ch : std::string("0110100101")) {
          c.write(ch == '1');
          m2.push_back(ch == '1');
        }
        if (c.size() != m2.size() || c.str() != pack_bits(m2)) { r.fail("BitWriter_truncate:long", [&] { return vf::fmt("%zu bits, truncate(%zu) + 10 bits: size() %zu (model %zu) or bytes differ", L, k, c.size(), m2.size()); }); good = false; }
      }
    } catch (const std::exception& e) {
      std::string w = e.what();
      r.fail("BitWriter:long-throws", [&] { return vf::fmt("%zu bits: unexpected exception ", L) + w; });
      good = false;
    }
    if (good) r.ok("long-bits-ok");
  }
  r.bound = "StringReader (every kind: pget, get with constructor offset, go+skip, sub/subx; raw/cstr/line reads) and BufferWriter (pput of every kind, pwrite) at byte offsets 2^31-9..2^31+9 and 2^32-9..2^32+9 of a sparse 4 GiB + 64 KiB buffer, its last bytes, offsets and sizes 2^63-1, 2^63, SIZE_MAX-1, SIZE_MAX; BitReader at bit offsets 2^31+-9, 2^32+-9 with sizes 1..64; every kind at offsets 2^k-1, 2^k, 2^k+1 (k <= 16); C strings, lines and blocks of 255..65537 bytes; StringWriter pput / extend_by / extend_to / write with gaps 255..2^20 (2^24+1 thorough); BitWriter contents of 255..65537 bits with truncate + append and BitReader at 2^k bit offsets";
}
