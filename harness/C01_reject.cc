// C01 (part, round 5): histories in which some calls are REJECTED (throw) and the object is used afterwards.
//
// Blind spot closed here: every earlier history section sized the BufferWriter's buffer to "exactly the furthest byte
// any operation touches" and issued StringWriter / BitWriter operations only with arguments that succeed, so no
// history contained a failed call followed by further use of the same object.  The round trip of the statement is
// over "any sequence of typed values appended": an append that the writer refuses (it does not fit) is not part of
// that sequence, so the values appended before AND AFTER it must still sit back to back and read back unchanged.
//
// Oracle (all sections): a boring model decides for every call whether it can be performed (fits / lies inside the
// data / can be represented).  Performed calls change the model; refused calls must throw and must leave EVERY
// observable of the object exactly as the model says: the bytes, size(), the append cursor (BufferWriter: observed by
// a probe byte appended through a copy of the writer), where()/remaining()/eof() of readers — and all later calls of
// the history must behave as if the refused call had never been made.  At the end everything is read back.
//
//   rej_bw_kinds  every typed BufferWriter append (42 kinds) refused with every possible amount of space left
//                 (0 .. width-1 bytes), followed by every typed append (42 kinds; accepted iff it fits), the tail
//                 filled with single bytes, one more refused byte, read-back
//   rej_bw        every BufferWriter history up to a depth over every capacity 0..K: appends of every width,
//                 write(string), write(ptr,len), empty write, C string, put<T>, positional writes at the end / across
//                 the end / past the end / at wrapping offsets, a second writer over the buffer, copy
//   rej_sw        StringWriter histories with positional writes no string can hold and refused extend_to
//   rej_bits      BitWriter histories with refused truncate() (beyond the size, into the unset bits of the last byte,
//                 SIZE_MAX) and BitReader histories with refused truncate / reads of more than 64 bits
//   rej_rd        StringReader histories over every small content length: every typed get (42 kinds), untyped reads,
//                 template reads with explicit sizes, C strings, lines; refused positional reads / subx / truncate
#include "C01_hist.hh"

using namespace phosg;
using namespace c01;

namespace {

// =====================================================================================================================
// BufferWriter
// =====================================================================================================================
enum BwT { B_PUT, B_PUT_T, B_WRITE_STR, B_WRITE_PTR, B_CSTR, B_PPUT, B_PPUT_T, B_PWRITE_STR, B_PWRITE_PTR, B_REBIND, B_COPY };
struct BwOp {
  BwT t;
  const Kind* k = nullptr;
  const TForm* tf = nullptr;
  uint64_t v = 0;
  std::string block;
  int offmode = 0;  // positional: see bw_offset
  std::string name, key;
};
static const char* bw_offmode_name[] = {"0", "cursor", "cap-w", "cap-w+1", "cap", "SIZE_MAX-w+1", "SIZE_MAX", "cursor+1"};
size_t bw_offset(int mode, size_t cap, size_t cur, size_t w) {
  switch (mode) {
    case 0: return 0;
    case 1: return cur;
    case 2: return cap - w;  // exactly at the end of the buffer; wraps to a huge offset when the buffer is smaller than w
    case 3: return cap - w + 1;  // straddles the end of the buffer
    case 4: return cap;
    case 5: return ~(size_t)0 - w + 1;  // offset + w wraps to 0
    case 6: return ~(size_t)0;
    default: return cur + 1;
  }
}
size_t bw_width(const BwOp& o) {
  switch (o.t) {
    case B_PUT:
    case B_PPUT: return o.k->w;
    case B_PUT_T:
    case B_PPUT_T: return o.tf->size;
    case B_CSTR: return o.block.size() + 1;
    case B_WRITE_STR:
    case B_WRITE_PTR:
    case B_PWRITE_STR:
    case B_PWRITE_PTR: return o.block.size();
    default: return 0;
  }
}
void bw_bytes(const BwOp& o, uint8_t* out) {
  switch (o.t) {
    case B_PUT:
    case B_PPUT: enc(out, o.v, o.k->w, o.k->e); break;
    case B_PUT_T:
    case B_PPUT_T: memcpy(out, o.tf->ref, o.tf->size); break;
    case B_CSTR: memcpy(out, o.block.c_str(), o.block.size() + 1); break;
    default: memcpy(out, o.block.data(), o.block.size()); break;
  }
}
bool bw_is_append(const BwOp& o) { return o.t == B_PUT || o.t == B_PUT_T || o.t == B_WRITE_STR || o.t == B_WRITE_PTR || o.t == B_CSTR; }
bool bw_is_positional(const BwOp& o) { return o.t == B_PPUT || o.t == B_PPUT_T || o.t == B_PWRITE_STR || o.t == B_PWRITE_PTR; }

BwOp bo_put(const char* kn, uint64_t v) {
  BwOp o;
  o.t = B_PUT;
  o.k = kind(kn);
  o.v = v;
  o.key = o.k->readonly ? "write_enc" : "put";
  o.name = kname(o.k->readonly ? "write_enc" : "put", *o.k) + "(" + hexv(v, o.k->w) + ")";
  return o;
}
BwOp bo_put_t(const char* tn) {
  BwOp o;
  o.t = B_PUT_T;
  o.tf = tform(tn);
  o.key = "put<T>";
  o.name = std::string("put<") + tn + ">(" + hexb(o.tf->ref, o.tf->size) + ")";
  return o;
}
BwOp bo_write(const std::string& b, bool ptr) {
  BwOp o;
  o.t = ptr ? B_WRITE_PTR : B_WRITE_STR;
  o.block = b;
  o.key = ptr ? "write_ptr" : "write_str";
  o.name = "write(" + vf::show(b) + (ptr ? ", len)" : " as std::string)");
  return o;
}
BwOp bo_cstr(const std::string& b) {
  BwOp o;
  o.t = B_CSTR;
  o.block = b;
  o.key = "write_ptr";
  o.name = "write(" + vf::show(b) + " + NUL)";
  return o;
}
BwOp bo_pput(const char* kn, uint64_t v, int mode) {
  BwOp o;
  o.t = B_PPUT;
  o.k = kind(kn);
  o.v = v;
  o.offmode = mode;
  o.key = "pput";
  o.name = kname("pput", *o.k) + "(" + bw_offmode_name[mode] + ", " + hexv(v, o.k->w) + ")";
  return o;
}
BwOp bo_pput_t(const char* tn, int mode) {
  BwOp o;
  o.t = B_PPUT_T;
  o.tf = tform(tn);
  o.offmode = mode;
  o.key = "pput<T>";
  o.name = std::string("pput<") + tn + ">(" + bw_offmode_name[mode] + ", " + hexb(o.tf->ref, o.tf->size) + ")";
  return o;
}
BwOp bo_pwrite(const std::string& b, int mode, bool ptr) {
  BwOp o;
  o.t = ptr ? B_PWRITE_PTR : B_PWRITE_STR;
  o.block = b;
  o.offmode = mode;
  o.key = ptr ? "pwrite_ptr" : "pwrite_str";
  o.name = std::string("pwrite(") + bw_offmode_name[mode] + ", " + vf::show(b) + (ptr ? ", len)" : " as std::string)");
  return o;
}
BwOp bo_simple(BwT t, const char* key, const char* name) {
  BwOp o;
  o.t = t;
  o.key = key;
  o.name = name;
  return o;
}

// full alphabet (depth <= 3 quick) and the reduced one for the deeper level
std::vector<BwOp> bw_alphabet(bool reduced) {
  std::vector<BwOp> a;
  a.push_back(bo_put("u8", 0x80));
  a.push_back(bo_put("u16b", 0x8001));
  a.push_back(bo_put("u32l", 0x80010203));
  a.push_back(bo_put("f64b", 0x7FF8000000000001ull));
  a.push_back(bo_write("", false));  // zero bytes always fit, also into a full buffer
  a.push_back(bo_write("xy", true));
  a.push_back(bo_put_t("S3"));
  a.push_back(bo_pput("u16l", 0xBEEF, 3));  // straddles the end of the buffer: always refused
  a.push_back(bo_pput("u8", 0xC3, 1));      // at the cursor: refused iff the buffer is full
  a.push_back(bo_simple(B_REBIND, "rebind", "BufferWriter(buf, cap) again"));
  if (reduced) return a;
  a.push_back(bo_put("s8", 0xFE));
  a.push_back(bo_put("s16l", 0x80FF));
  a.push_back(bo_put("u16", 0x0102));
  a.push_back(bo_put("s32r", 0x80000001));
  a.push_back(bo_put("f32b", 0x7FC00001));
  a.push_back(bo_put("u64l", 0x8001020304050607ull));
  a.push_back(bo_put("s24l", 0x800102));
  a.push_back(bo_put("u48b", 0x800102030405ull));
  a.push_back(bo_put_t("S5"));
  a.push_back(bo_put_t("le_uint32_t"));
  a.push_back(bo_write(std::string("ab\0c", 4), false));
  a.push_back(bo_write("", true));
  a.push_back(bo_cstr("hi"));
  a.push_back(bo_pput("u32b", 0xDEADBEEF, 2));               // exactly at the end of the buffer (refused when cap < 4: offset wraps)
  a.push_back(bo_pput("u8", 0xEE, 4));                       // at cap: one past the last byte
  a.push_back(bo_pput("u64b", 0x1122334455667788ull, 5));    // offset + 8 wraps to 0
  a.push_back(bo_pput("u16b", 0xBEEF, 6));                   // SIZE_MAX
  a.push_back(bo_pput("u16b", 0xCAFE, 0));                   // at 0: refused iff cap < 2
  a.push_back(bo_pput_t("S5", 3));
  a.push_back(bo_pput_t("be_int16_t", 7));                   // cursor+1
  a.push_back(bo_pwrite("pq", 2, false));                    // exactly at the end
  a.push_back(bo_pwrite(std::string("x\0y", 3), 3, true));   // straddles the end
  a.push_back(bo_pwrite("", 4, true));                       // nothing at cap: fits
  a.push_back(bo_pwrite("z", 4, false));                     // one byte at cap: refused
  a.push_back(bo_simple(B_COPY, "copy", "c = BufferWriter(w); w = c"));
  return a;
}

std::string bw_seq_name(const std::vector<BwOp>& alpha, const std::vector<uint32_t>& seq) {
  std::string s;
  for (size_t i = 0; i < seq.size(); i++) s += (i ? "; " : "") + alpha[seq[i]].name;
  return s;
}

// Cursor probe: BufferWriter has no accessor for its cursor.  A copy of the writer appends one byte, which must land
// at the model's cursor (and nowhere else); with a full buffer the probe must be refused and change nothing.  Restores
// the buffer.  Returns "" when fine, otherwise what was seen.
std::string bw_probe(const BufferWriter& bw, uint8_t* buf, const Bytes& m, size_t cap, size_t cur) {
  BufferWriter probe = bw;
  bool threw = false;
  std::string exc;
  uint8_t pv = (uint8_t)((cur < cap ? m[cur] : 0) ^ 0x5F);
  try {
    probe.put_u8(pv);
  } catch (const std::exception& e) {
    threw = true;
    exc = e.what();
  }
  size_t landed = cap;
  size_t ndiff = 0;
  for (size_t i = 0; i < cap; i++)
    if (buf[i] != m[i]) {
      if (!ndiff) landed = i;
      ndiff++;
    }
  if (cap) memcpy(buf, m.data(), cap);
  if (cur == cap) {
    if (!threw) return "the buffer is full, yet one more appended byte was accepted" + (ndiff ? vf::fmt(" and written at %zu", landed) : std::string(" (written nowhere inside the buffer)"));
    if (ndiff) return vf::fmt("the refused probe byte changed the buffer at %zu", landed);
    return "";
  }
  if (threw) return vf::fmt("%zu of %zu bytes are free, yet appending one byte is refused (", cap - cur, cap) + exc + ")";
  if (ndiff != 1 || landed != cur || false) return ndiff == 0 ? vf::fmt("the next appended byte was written nowhere; the cursor should be at %zu", cur) : vf::fmt("the next appended byte lands at %zu (%zu bytes changed), the cursor should be at %zu", landed, ndiff, cur);
  return "";
}

// one history on a BufferWriter over a buffer of exactly `cap` bytes
void history_bw_cap(vf::Run& r, const std::vector<BwOp>& alpha, const std::vector<uint32_t>& seq, size_t cap) {
  auto hdesc = [&] { return vf::fmt("BufferWriter over %zu bytes, history [", cap) + bw_seq_name(alpha, seq) + "]"; };
  Exact buf(cap, 0xEE);
  BufferWriter bw(buf.p, cap);
  Bytes m(cap, 0xEE);
  size_t cur = 0;
  std::vector<Item> items;
  size_t nrejected = 0;
  for (uint32_t oi : seq) {
    const BwOp& o = alpha[oi];
    r.transitions++;
    uint8_t b[32];
    size_t w = bw_width(o);
    bool fits = true;
    size_t off = 0;
    // ---- model ----
    if (bw_is_append(o)) {
      bw_bytes(o, b);
      fits = w <= cap - cur;
      if (fits) {
        if (w) memcpy(m.data() + cur, b, w);
        ItemType it = o.t == B_PUT ? IT_TYPED : o.t == B_PUT_T ? IT_TFORM : o.t == B_CSTR ? IT_CSTR : IT_RAW;
        items.push_back({it, o.k, cur, o.t == B_CSTR ? w - 1 : w, true, o.tf});
        cur += w;
      }
    } else if (bw_is_positional(o)) {
      bw_bytes(o, b);
      off = bw_offset(o.offmode, cap, cur, w);
      fits = model_fits(cap, off, w);
      if (fits) {
        if (w) memcpy(m.data() + off, b, w);
        ItemType it = o.t == B_PPUT ? IT_TYPED : o.t == B_PPUT_T ? IT_TFORM : IT_RAW;
        items.push_back({it, o.k, off, w, false, o.tf});
      }
    } else if (o.t == B_REBIND) {
      cur = 0;
      for (auto& it : items) it.tiling = false;
    }
    // ---- real ----
    bool threw = false;
    std::string exc;
    try {
      switch (o.t) {
        case B_PUT: o.k->bw_put(bw, o.v); break;
        case B_PUT_T: o.tf->bw_put(bw); break;
        case B_WRITE_STR: bw.write(o.block); break;
        case B_WRITE_PTR: bw.write(o.block.data(), o.block.size()); break;
        case B_CSTR: bw.write(o.block.c_str(), o.block.size() + 1); break;
        case B_PPUT: o.k->bw_pput(bw, off, o.v); break;
        case B_PPUT_T: o.tf->bw_pput(bw, off); break;
        case B_PWRITE_STR: bw.pwrite(off, o.block); break;
        case B_PWRITE_PTR: bw.pwrite(off, o.block.data(), o.block.size()); break;
        case B_REBIND: bw = BufferWriter(buf.p, cap); break;
        case B_COPY: {
          BufferWriter c(bw);
          bw = c;
          break;
        }
      }
    } catch (const std::exception& e) {
      threw = true;
      exc = e.what();
    }
    const char* after = nrejected ? " (after an earlier refused call)" : "";
    if (fits && threw) {
      r.fail("bw_" + o.key + (nrejected ? ":throws-after-refused-call" : ":throws"), [&] { return hdesc() + " :: " + o.name + vf::fmt(" fits (cursor %zu, offset %zu, %zu bytes, capacity %zu)%s, yet it was refused: ", cur - (bw_is_append(o) ? w : 0), off, w, cap, after) + exc; });
      return;
    }
    if (!fits && !threw) {
      r.fail("bw_" + o.key + ":accepts-what-does-not-fit", [&] { return hdesc() + " :: " + o.name + vf::fmt(" does not fit (cursor %zu, offset %zu, %zu bytes, capacity %zu), yet no exception", cur, off, w, cap); });
      return;
    }
    if (!fits) nrejected++;
    if (cap && memcmp(buf.p, m.data(), cap)) {
      r.fail("bw_" + o.key + (!fits ? ":refused-call-wrote" : nrejected ? ":bytes-after-refused-call" : ":bytes"), [&] { return hdesc() + " :: after " + o.name + (fits ? "" : " (refused)") + ": buffer holds " + hexb(buf.p, cap) + ", model " + hexb(m.data(), cap); });
      return;
    }
    std::string pr = bw_probe(bw, buf.p, m, cap, cur);
    if (!pr.empty()) {
      r.fail("bw_" + o.key + (!fits ? ":refused-call-moved-cursor" : nrejected ? ":advance-after-refused-call" : ":advance"), [&] { return hdesc() + " :: after " + o.name + (fits ? "" : " (refused)") + ": " + pr; });
      return;
    }
  }
  r.counters["histories-with-refused-calls"] += nrejected ? 1 : 0;
  r.counters["refused-calls"] += nrejected;
  if (read_back(r, buf.p, cap, m, items, cur, hdesc)) r.ok(vf::fmt("history-ok/len%zu/%s", seq.size(), nrejected ? "with-refused-calls" : "all-accepted"));
}

template <class F>
void enumerate_seqs(size_t nalpha, size_t minlen, size_t maxlen, F&& f) {
  for (size_t len = minlen; len <= maxlen; len++) {
    std::vector<uint32_t> seq(len, 0);
    bool more = true;
    while (more) {
      f(seq);
      size_t i = len;
      for (;;) {
        if (i == 0) { more = false; break; }
        i--;
        if (++seq[i] < nalpha) break;
        seq[i] = 0;
      }
    }
  }
}

// value with the top bit set and all lanes distinct for a kind of width w
uint64_t kind_value(const Kind& k, int salt) {
  uint64_t v = (0x8A91A2B3C4D5E6F7ull ^ (0x0101010101010101ull * (uint64_t)salt)) >> (64 - 8 * k.w);
  return v;
}

}  // namespace

VF_SECTION(rej_bw_kinds, 4, 4, 180) {
  r.note("BufferWriter: refused typed append, then every typed append");
  const auto& K = kinds();
  for (size_t pre : {(size_t)0, (size_t)3}) {
    for (const Kind& kr : K) {
      for (size_t space = 0; space < (size_t)kr.w; space++) {
        for (const Kind& kn : K) {
          if (!r.take()) continue;
          const size_t cap = pre + space;
          auto hdesc = [&] { return vf::fmt("BufferWriter over %zu bytes: write(%zu bytes); %s (refused: %zu bytes left); %s; put_u8 until full; put_u8 (refused)", cap, pre, kname(kr.readonly ? "write_enc" : "put", kr).c_str(), space, kname(kn.readonly ? "write_enc" : "put", kn).c_str()); };
          if (r.wants_desc()) r.desc(hdesc());
          r.nontriv();
          Exact buf(cap, 0xEE);
          BufferWriter bw(buf.p, cap);
          Bytes m(cap, 0xEE);
          size_t cur = 0;
          std::vector<Item> items;
          bool good = true;
          auto bad = [&](const std::string& key, const std::string& what) {
            r.fail(key, [&] { return hdesc() + " :: " + what; });
            good = false;
          };
          auto check = [&](const std::string& key, const std::string& opname, bool refused) {
            if (cap && memcmp(buf.p, m.data(), cap)) return bad(key + (refused ? ":refused-call-wrote" : ":bytes-after-refused-call"), "after " + opname + ": buffer holds " + hexb(buf.p, cap) + ", model " + hexb(m.data(), cap));
            std::string pr = bw_probe(bw, buf.p, m, cap, cur);
            if (!pr.empty()) return bad(key + (refused ? ":refused-call-moved-cursor" : ":advance-after-refused-call"), "after " + opname + ": " + pr);
          };
          // step: performs a typed append, model first
          auto step = [&](const Kind& k, uint64_t v, const std::string& key) {
            bool fits = (size_t)k.w <= cap - cur;
            if (fits) {
              enc(m.data() + cur, v, k.w, k.e);
              items.push_back({IT_TYPED, &k, cur, (size_t)k.w, true});
              cur += k.w;
            }
            bool threw = false;
            std::string exc;
            try {
              k.bw_put(bw, v);
            } catch (const std::exception& e) {
              threw = true;
              exc = e.what();
            }
            r.transitions++;
            std::string opname = kname(k.readonly ? "write_enc" : "put", k) + "(" + hexv(v, k.w) + ")";
            if (fits && threw) return bad(key + ":throws-after-refused-call", opname + vf::fmt(" fits (%zu bytes left), yet it was refused: ", cap - cur + k.w) + exc);
            if (!fits && !threw) return bad(key + ":accepts-what-does-not-fit", opname + vf::fmt(" does not fit (%zu bytes left), yet no exception", cap - cur));
            check(key, opname, !fits);
          };
          if (pre) {
            std::string blk = "\x01\x80\xFF";
            memcpy(m.data(), blk.data(), 3);
            items.push_back({IT_RAW, nullptr, 0, 3, true});
            cur = 3;
            bw.write(blk);
          }
          step(kr, kind_value(kr, 1), "bw_put");            // refused: `space` < width
          if (good) step(kn, kind_value(kn, 2), "bw_put");  // accepted iff it fits into `space`
          while (good && cur < cap) step(K[0], 0xA0 + cur, "bw_put");
          if (good) step(K[1], 0x99, "bw_put");  // buffer full: refused
          if (good && read_back(r, buf.p, cap, m, items, cur, hdesc)) r.ok(space >= (size_t)kn.w ? "refused-then-accepted-ok" : "refused-twice-ok");
        }
      }
    }
  }
  r.bound = "every typed BufferWriter append (42 kinds incl. the 24/48-bit encodings written with write()) refused with every amount of space left (0 .. width-1 bytes; buffer empty or holding 3 bytes), followed by every typed append (42 kinds: accepted iff it fits into the space left), single bytes until the buffer is full and one more refused byte; after every call the whole buffer and the append cursor (probe byte through a copy of the writer) are compared with the model, then everything is read back";
}

VF_SECTION(rej_bw, 16, 16, 180) {
  r.note("BufferWriter histories with refused calls");
  auto full = bw_alphabet(false), red = bw_alphabet(true);
  const size_t d_full = r.thorough() ? 4 : 3, d_red = r.thorough() ? 5 : 4;
  std::vector<size_t> caps = {0, 1, 2, 3, 4, 5, 6, 7, 8, 9, 11, 13};
  if (r.thorough()) caps = {0, 1, 2, 3, 4, 5, 6, 7, 8, 9, 10, 11, 12, 13};
  for (size_t cap : caps) {
    enumerate_seqs(full.size(), 1, d_full, [&](const std::vector<uint32_t>& seq) {
      if (!r.take()) return;
      if (r.wants_desc()) r.desc(vf::fmt("capacity %zu [", cap) + bw_seq_name(full, seq) + "]");
      r.nontriv();
      r.states++;
      history_bw_cap(r, full, seq, cap);
    });
  }
  // deeper level over the reduced alphabet (only the lengths the first pass did not reach)
  for (size_t cap : caps) {
    enumerate_seqs(red.size(), d_full + 1, d_red, [&](const std::vector<uint32_t>& seq) {
      if (!r.take()) return;
      if (r.wants_desc()) r.desc(vf::fmt("capacity %zu [", cap) + bw_seq_name(red, seq) + "]");
      r.nontriv();
      r.states++;
      history_bw_cap(r, red, seq, cap);
    });
  }
  r.bound = vf::fmt("every BufferWriter history of length 1..%zu over %zu operations and of length %zu..%zu over %zu operations, each over a caller buffer of every capacity in {", d_full, full.size(), d_full + 1, d_red, red.size());
  for (size_t i = 0; i < caps.size(); i++) r.bound += vf::fmt("%s%zu", i ? "," : "", caps[i]);
  r.bound += "} bytes (so every operation is refused in some histories and accepted in others, at every position of the history): typed appends of width 1/2/3/4/6/8, put<T> with packed structs and a wrapper, write(std::string) / write(ptr,len) incl. empty blocks, a C string, positional writes (pput, pput<T>, both pwrite overloads) at 0, the cursor, cursor+1, exactly at the end, across the end, at the capacity, at SIZE_MAX-w+1 (offset + width wraps) and SIZE_MAX, a second BufferWriter over the buffer, copy construction + assignment; a call is performed iff it lies inside the buffer, otherwise it must throw and leave bytes and cursor untouched";
}

// =====================================================================================================================
// StringWriter: calls that cannot be performed (positional writes no string can hold, extend_to beyond max_size)
// =====================================================================================================================
namespace {

enum SwT { S_PUT, S_WRITE, S_PPUT_STRADDLE, S_RESET, S_PPUT_BAD, S_PPUT_T_BAD, S_EXTEND_TO_BAD, S_EXTEND_BY1 };
struct SwOp {
  SwT t;
  const Kind* k = nullptr;
  const TForm* tf = nullptr;
  uint64_t v = 0;
  std::string block;
  int offmode = 0;  // *_BAD: 0 -> max_size-w+1, 1 -> max_size, 2 -> SIZE_MAX-w+1, 3 -> SIZE_MAX, 4 -> 2^63 (extend_to: 0 -> max_size+1, 3 -> SIZE_MAX)
  std::string name, key;
};
size_t sw_bad_offset(int mode, size_t w) {
  const size_t mx = std::string().max_size();
  switch (mode) {
    case 0: return mx - w + 1;
    case 1: return mx;
    case 2: return ~(size_t)0 - w + 1;
    case 3: return ~(size_t)0;
    default: return mx + 1;
  }
}
static const char* sw_badname[] = {"max_size-w+1", "max_size", "SIZE_MAX-w+1", "SIZE_MAX", "max_size+1"};

std::vector<SwOp> sw_alphabet() {
  std::vector<SwOp> a;
  auto put = [&](const char* kn, uint64_t v) {
    SwOp o;
    o.t = S_PUT;
    o.k = kind(kn);
    o.v = v;
    o.key = "put";
    o.name = kname("put", *o.k) + "(" + hexv(v, o.k->w) + ")";
    a.push_back(o);
  };
  put("u8", 0x80);
  put("u16b", 0x8001);
  put("u64l", 0x8001020304050607ull);
  {
    SwOp o;
    o.t = S_WRITE;
    o.block = "0123456789ABCDEFG";  // 17 bytes: leaves the small-string buffer
    o.key = "write";
    o.name = "write(17 bytes)";
    a.push_back(o);
  }
  {
    SwOp o;
    o.t = S_PPUT_STRADDLE;
    o.k = kind("u16l");
    o.v = 0xBEEF;
    o.key = "pput";
    o.name = "pput_u16l(size-1, 0xBEEF)";
    a.push_back(o);
  }
  {
    SwOp o;
    o.t = S_EXTEND_BY1;
    o.key = "extend_by";
    o.name = "extend_by(1, 0xAB)";
    a.push_back(o);
  }
  {
    SwOp o;
    o.t = S_RESET;
    o.key = "reset";
    o.name = "reset()";
    a.push_back(o);
  }
  auto bad = [&](const char* kn, uint64_t v, int mode) {
    SwOp o;
    o.t = S_PPUT_BAD;
    o.k = kind(kn);
    o.v = v;
    o.offmode = mode;
    o.key = "pput";
    o.name = kname("pput", *o.k) + "(" + sw_badname[mode] + ", " + hexv(v, o.k->w) + ")";
    a.push_back(o);
  };
  bad("u8", 0xEE, 1);
  bad("u8", 0xEE, 3);
  bad("u16b", 0xBEEF, 0);
  bad("u32l", 0xDEADBEEF, 2);  // offset + 4 wraps to 0
  bad("u64b", 0x1122334455667788ull, 4);
  bad("f64", 0x7FF8000000000001ull, 2);
  bad("s16r", 0x80FF, 3);
  for (auto [tn, mode] : {std::pair<const char*, int>{"S5", 0}, {"S12", 2}, {"be_int16_t", 1}}) {
    SwOp o;
    o.t = S_PPUT_T_BAD;
    o.tf = tform(tn);
    o.offmode = mode;
    o.key = "pput<T>";
    o.name = std::string("pput<") + tn + ">(" + sw_badname[mode] + ")";
    a.push_back(o);
  }
  for (int mode : {4, 3}) {
    SwOp o;
    o.t = S_EXTEND_TO_BAD;
    o.offmode = mode;
    o.key = "extend_to";
    o.name = std::string("extend_to(") + sw_badname[mode] + ")";
    a.push_back(o);
  }
  return a;
}

void history_sw_rej(vf::Run& r, const std::vector<SwOp>& alpha, const std::vector<uint32_t>& seq) {
  auto hdesc = [&] {
    std::string s = "StringWriter history [";
    for (size_t i = 0; i < seq.size(); i++) s += (i ? "; " : "") + alpha[seq[i]].name;
    return s + "]";
  };
  StringWriter sw;
  Bytes m;
  std::vector<Item> items;
  size_t nrejected = 0;
  for (uint32_t oi : seq) {
    const SwOp& o = alpha[oi];
    r.transitions++;
    bool refuse = false;  // the model says the call cannot be performed
    bool threw = false;
    std::string exc;
    try {
      switch (o.t) {
        case S_PUT: {
          uint8_t b[8];
          enc(b, o.v, o.k->w, o.k->e);
          items.push_back({IT_TYPED, o.k, m.size(), (size_t)o.k->w, true});
          m.insert(m.end(), b, b + o.k->w);
          o.k->sw_put(sw, o.v);
          break;
        }
        case S_WRITE:
          items.push_back({IT_RAW, nullptr, m.size(), o.block.size(), true});
          m.insert(m.end(), o.block.begin(), o.block.end());
          sw.write(o.block);
          break;
        case S_PPUT_STRADDLE: {
          size_t old = m.size(), off = old ? old - 1 : 0;
          if (m.size() < off + 2) m.resize(off + 2, 0);
          enc(m.data() + off, o.v, 2, o.k->e);
          if (m.size() > old) items.push_back({IT_RAW, nullptr, old, m.size() - old, true});
          items.push_back({IT_TYPED, o.k, off, 2, false});
          o.k->sw_pput(sw, off, o.v);
          break;
        }
        case S_EXTEND_BY1:
          items.push_back({IT_RAW, nullptr, m.size(), 1, true});
          m.push_back(0xAB);
          sw.extend_by(1, (char)0xAB);
          break;
        case S_RESET:
          m.clear();
          items.clear();
          sw.reset();
          break;
        case S_PPUT_BAD:
          refuse = true;
          o.k->sw_pput(sw, sw_bad_offset(o.offmode, o.k->w), o.v);
          break;
        case S_PPUT_T_BAD:
          refuse = true;
          o.tf->sw_pput(sw, sw_bad_offset(o.offmode, o.tf->size));
          break;
        case S_EXTEND_TO_BAD:
          refuse = true;
          sw.extend_to(sw_bad_offset(o.offmode, 0));
          break;
      }
    } catch (const std::exception& e) {
      threw = true;
      exc = e.what();
    }
    if (!refuse && threw) {
      r.fail("sw_" + o.key + (nrejected ? ":throws-after-refused-call" : ":throws"), [&] { return hdesc() + " :: " + o.name + " unexpectedly threw " + exc; });
      return;
    }
    if (refuse && !threw) {
      r.fail("sw_" + o.key + ":accepts-impossible-size", [&] { return hdesc() + " :: " + o.name + vf::fmt(": no string can hold that (max_size %zu), yet no exception; size() now %zu", std::string().max_size(), sw.size()); });
      return;
    }
    if (refuse) nrejected++;
    const std::string& s = sw.str();
    if (sw.size() != m.size() || s.size() != m.size()) {
      r.fail("sw_" + o.key + (refuse ? ":refused-call-changed-size" : ":size"), [&] { return hdesc() + " :: after " + o.name + (refuse ? " (refused: " + exc + ")" : "") + vf::fmt(": writer size %zu, model %zu", sw.size(), m.size()); });
      return;
    }
    if (m.size() && memcmp(s.data(), m.data(), m.size())) {
      r.fail("sw_" + o.key + (refuse ? ":refused-call-wrote" : ":bytes"), [&] { return hdesc() + " :: after " + o.name + ": writer holds " + hexb(s.data(), s.size()) + ", model " + hexb(m.data(), m.size()); });
      return;
    }
  }
  r.counters["refused-calls"] += nrejected;
  const std::string& s = sw.str();
  Exact copy(m.size());
  if (m.size()) memcpy(copy.p, s.data(), m.size());
  if (read_back(r, copy.p, m.size(), m, items, m.size(), hdesc)) r.ok(vf::fmt("history-ok/len%zu/%s", seq.size(), nrejected ? "with-refused-calls" : "all-accepted"));
}

}  // namespace

VF_SECTION(rej_sw, 8, 8, 180) {
  r.note("StringWriter histories with refused calls");
  auto alpha = sw_alphabet();
  const size_t depth = r.thorough() ? 5 : 4;
  enumerate_seqs(alpha.size(), 1, depth, [&](const std::vector<uint32_t>& seq) {
    if (!r.take()) return;
    if (r.wants_desc()) {
      std::string s;
      for (size_t i = 0; i < seq.size(); i++) s += (i ? "; " : "") + alpha[seq[i]].name;
      r.desc("[" + s + "]");
    }
    r.nontriv();
    r.states++;
    history_sw_rej(r, alpha, seq);
  });
  r.bound = vf::fmt("every StringWriter history of length 1..%zu over %zu operations: appends of width 1/2/8, a 17-byte block, a positional write straddling the end, extend_by(1, fill), reset(), and calls that cannot be performed — pput of seven kinds and pput<T> of three types at max_size-w+1, max_size, max_size+1, SIZE_MAX-w+1 (offset + width wraps), SIZE_MAX, extend_to(max_size+1 | SIZE_MAX) — which must throw and leave size() and the bytes untouched; read-back at the end", depth, alpha.size());
}

// =====================================================================================================================
// BitWriter / BitReader
// =====================================================================================================================
namespace {

typedef std::vector<uint8_t> Bits;
std::string pack_bits(const Bits& b) {
  std::string s((b.size() + 7) / 8, '\0');
  for (size_t i = 0; i < b.size(); i++)
    if (b[i]) s[i / 8] = (char)((uint8_t)s[i / 8] + (uint8_t)(128 >> (i % 8)));
  return s;
}
std::string bits_str(const Bits& b) {
  std::string s;
  for (auto x : b) s += x ? '1' : '0';
  return s.empty() ? "(no bits)" : s;
}

struct BitOp {
  int t;  // 0 write pattern, 1 truncate (accepted target), 2 truncate (target beyond the size: refused), 3 reset, 4 copy round trip
  std::string pattern;
  int mode = 0;
  std::string name;
};
// targets beyond the size; 0 means "not beyond for this size" (then the call is an accepted no-op truncate(size))
size_t bit_bad_target(int mode, size_t size) {
  switch (mode) {
    case 0: return size + 1;
    case 1: return (size + 8) & ~(size_t)7;          // the next byte boundary above the size (size+8 when already aligned)
    case 2: return ((size + 7) & ~(size_t)7);        // the end of the last byte: beyond the size iff bits of it are unset
    case 3: return ~(size_t)0;
    default: return size + 64;
  }
}
std::vector<BitOp> bit_alphabet() {
  std::vector<BitOp> a;
  for (const char* p : {"1", "0", "10111", "11111111"}) a.push_back({0, p, 0, std::string("write ") + p});
  a.push_back({1, "", 0, "truncate(size-1)"});
  a.push_back({1, "", 1, "truncate(size&~7)"});
  static const char* bn[] = {"truncate(size+1)", "truncate(next byte boundary above size)", "truncate(end of the last byte)", "truncate(SIZE_MAX)", "truncate(size+64)"};
  for (int mode = 0; mode < 5; mode++) a.push_back({2, "", mode, bn[mode]});
  a.push_back({3, "", 0, "reset()"});
  a.push_back({4, "", 0, "c = w; w = c"});
  return a;
}

void history_bits_rej(vf::Run& r, const std::vector<BitOp>& alpha, const std::vector<uint32_t>& seq) {
  auto hdesc = [&] {
    std::string s = "BitWriter history [";
    for (size_t i = 0; i < seq.size(); i++) s += (i ? "; " : "") + alpha[seq[i]].name;
    return s + "]";
  };
  BitWriter bw;
  Bits m;
  size_t nrejected = 0;
  for (uint32_t oi : seq) {
    const BitOp& o = alpha[oi];
    r.transitions++;
    bool refuse = false, threw = false;
    std::string exc;
    size_t target = 0;
    try {
      switch (o.t) {
        case 0:
          for (char c : o.pattern) {
            m.push_back(c == '1');
            bw.write(c == '1');
          }
          break;
        case 1:
          target = o.mode == 0 ? (m.size() ? m.size() - 1 : 0) : (m.size() & ~(size_t)7);
          m.resize(target);
          bw.truncate(target);
          break;
        case 2:
          target = bit_bad_target(o.mode, m.size());
          refuse = target > m.size();
          bw.truncate(target);
          break;
        case 3:
          m.clear();
          bw.reset();
          break;
        default: {
          BitWriter c = bw;
          bw = c;
          break;
        }
      }
    } catch (const std::exception& e) {
      threw = true;
      exc = e.what();
    }
    if (!refuse && threw) {
      r.fail(std::string("BitWriter:") + (nrejected ? "throws-after-refused-call" : "throws"), [&] { return hdesc() + " :: " + o.name + " unexpectedly threw " + exc; });
      return;
    }
    if (refuse && !threw) {
      r.fail("BitWriter_truncate:extends", [&] { return hdesc() + " :: " + o.name + vf::fmt(" = truncate(%zu) on a writer holding %zu bits did not throw; size() now %zu, str() %s", target, m.size(), bw.size(), hexb(bw.str().data(), bw.str().size()).c_str()); });
      return;
    }
    if (refuse) nrejected++;
    std::string want = pack_bits(m);
    if (bw.size() != m.size() || bw.str() != want) {
      r.fail(std::string("BitWriter") + (refuse ? "_truncate:refused-call-changed-object" : nrejected ? ":state-after-refused-call" : ":state"), [&] { return hdesc() + " :: after " + o.name + (refuse ? " (refused)" : "") + vf::fmt(": size() %zu str() %s, model %zu bits ", bw.size(), hexb(bw.str().data(), bw.str().size()).c_str(), m.size()) + bits_str(m) + " = " + hexb(want.data(), want.size()); });
      return;
    }
  }
  r.counters["refused-calls"] += nrejected;
  // read back bit by bit, with refused BitReader calls in between: they must not move the cursor or change the size
  const std::string& s = bw.str();
  Exact buf(s.size());
  if (s.size()) memcpy(buf.p, s.data(), s.size());
  BitReader br(buf.p, bw.size());
  for (size_t i = 0; i <= m.size(); i++) {
    if (i % 3 == 0) {
      bool t1 = false, t2 = false, t3 = false;
      try { br.truncate(m.size() + 1 + i); } catch (const std::exception&) { t1 = true; }
      try { br.read(65); } catch (const std::exception&) { t2 = true; }
      try { br.pread(i, 200); } catch (const std::exception&) { t3 = true; }
      if (!t1 || !t2 || !t3 || br.size() != m.size() || br.where() != i || br.remaining() != m.size() - i || br.eof() != (i >= m.size())) {
        r.fail("BitReader:refused-call-changed-object", [&] { return hdesc() + vf::fmt(" :: BitReader over the %zu bits at cursor %zu: truncate(%zu) / read(65) / pread(%zu, 200) threw %d/%d/%d; afterwards size() %zu where() %zu remaining() %zu eof() %d", m.size(), i, m.size() + 1 + i, i, (int)t1, (int)t2, (int)t3, br.size(), br.where(), br.remaining(), (int)br.eof()); });
        return;
      }
    }
    if (i == m.size()) break;
    uint64_t b = br.read();
    if (b != m[i] || br.where() != i + 1) {
      r.fail("BitReader_read:value-after-refused-call", [&] { return hdesc() + vf::fmt(" :: read() #%zu returned %llu (cursor %zu), the bit written there is %u", i, (unsigned long long)b, br.where(), m[i]); });
      return;
    }
  }
  r.ok(vf::fmt("history-ok/len%zu/%s", seq.size(), nrejected ? "with-refused-calls" : "all-accepted"));
}

}  // namespace

VF_SECTION(rej_bits, 8, 8, 180) {
  r.note("BitWriter histories with refused truncate");
  auto alpha = bit_alphabet();
  const size_t depth = r.thorough() ? 5 : 4;
  enumerate_seqs(alpha.size(), 1, depth, [&](const std::vector<uint32_t>& seq) {
    if (!r.take()) return;
    if (r.wants_desc()) {
      std::string s;
      for (size_t i = 0; i < seq.size(); i++) s += (i ? "; " : "") + alpha[seq[i]].name;
      r.desc("[" + s + "]");
    }
    r.nontriv();
    r.states++;
    history_bits_rej(r, alpha, seq);
  });
  r.bound = vf::fmt("every BitWriter history of length 1..%zu over %zu operations: write of 1 / 0 / 10111 / 11111111, truncate(size-1), truncate(size&~7), reset(), copy + assignment, and truncate to size+1, to the next byte boundary above the size, to the end of the last byte (beyond the size iff the last byte has unset bits), to size+64 and to SIZE_MAX — refused targets must throw and leave size()/str() untouched; read-back through BitReader with refused truncate(size+k) / read(65) / pread(i, 200) before every third bit, which must leave size/where/remaining/eof untouched", depth, alpha.size());
}

// =====================================================================================================================
// StringReader: reads that find nothing complete at the cursor, then more reads
// =====================================================================================================================
namespace {

struct RdSt {
  size_t n, p;
};
struct RdOp {
  std::string name, key;
  // model: returns false when nothing complete is encoded there (the call must throw and change nothing);
  // otherwise fills val and advances s.  *dontcare = true: execute, do not judge, do not go on.
  std::function<bool(const uint8_t* m, RdSt& s, std::string& val, bool* dontcare)> model;
  std::function<std::string(StringReader& rd, const RdSt& before)> real;
};

std::string hx64(uint64_t v) { return vf::fmt("0x%llX", (unsigned long long)v); }

std::vector<RdOp> rd_alphabet() {
  std::vector<RdOp> a;
  for (const Kind& k : kinds()) {
    const Kind* kp = &k;
    a.push_back({kname("get", k) + "()", "get",
        [kp](const uint8_t* m, RdSt& s, std::string& val, bool*) {
          if (!model_fits(s.n, s.p, kp->w)) return false;
          val = hx64(kp->expect(dec(m + s.p, kp->w, kp->e)));
          s.p += kp->w;
          return true;
        },
        [kp](StringReader& rd, const RdSt&) { return hx64(kp->get(rd, true)); }});
  }
  for (const char* kn : {"u8", "u16b", "u24l", "s32l", "s48b", "f64b"}) {
    const Kind* kp = kind(kn);
    a.push_back({kname("get", *kp) + "(advance=false)", "get",
        [kp](const uint8_t* m, RdSt& s, std::string& val, bool*) {
          if (!model_fits(s.n, s.p, kp->w)) return false;
          val = hx64(kp->expect(dec(m + s.p, kp->w, kp->e)));
          return true;
        },
        [kp](StringReader& rd, const RdSt&) { return hx64(kp->get(rd, false)); }});
  }
  auto raw = [&](const std::string& name, const std::string& key, size_t k, bool adv, std::function<std::string(StringReader&)> real) {
    a.push_back({name, key,
        [k, adv](const uint8_t* m, RdSt& s, std::string& val, bool*) {
          if (!model_fits(s.n, s.p, k)) return false;
          val.assign((const char*)m + s.p, k);
          if (adv) s.p += k;
          return true;
        },
        [real](StringReader& rd, const RdSt&) { return real(rd); }});
  };
  raw("getv(2)", "getv", 2, true, [](StringReader& rd) { return std::string((const char*)rd.getv(2), 2); });
  raw("getv(5, advance=false)", "getv", 5, false, [](StringReader& rd) { return std::string((const char*)rd.getv(5, false), 5); });
  raw("peek(3)", "peek", 3, false, [](StringReader& rd) { return std::string(rd.peek(3), 3); });
  raw("readx(4)", "readx", 4, true, [](StringReader& rd) { return rd.readx(4); });
  raw("readx(2, advance=false)", "readx", 2, false, [](StringReader& rd) { return rd.readx(2, false); });
  raw("readx(buf, 3)", "readx_buf", 3, true, [](StringReader& rd) {
    Exact b(3);
    rd.readx(b.p, 3);
    return std::string((const char*)b.p, 3);
  });
  raw("get<S5>()", "get<T>", 5, true, [](StringReader& rd) {
    const S5& x = rd.get<S5>();
    return std::string((const char*)&x, 5);
  });
  // explicit size larger than the type: the reference is to the first sizeof(T) bytes, the check and the advance use the size
  a.push_back({"get<le_uint32_t>(true, 6)", "get<T>(advance,size)",
      [](const uint8_t* m, RdSt& s, std::string& val, bool*) {
        if (!model_fits(s.n, s.p, 6)) return false;
        val = hx64(dec(m + s.p, 4, LE));
        s.p += 6;
        return true;
      },
      [](StringReader& rd, const RdSt&) { return hx64((uint32_t)rd.get<le_uint32_t>(true, 6)); }});
  a.push_back({"get<be_int16_t>(false, 3)", "get<T>(advance,size)",
      [](const uint8_t* m, RdSt& s, std::string& val, bool*) {
        if (!model_fits(s.n, s.p, 3)) return false;
        val = hx64(sext(dec(m + s.p, 2, BE), 2));
        return true;
      },
      [](StringReader& rd, const RdSt&) { return hx64((uint64_t)(int64_t)(int16_t)rd.get<be_int16_t>(false, 3)); }});
  // clamping read: never refused
  a.push_back({"read(4)", "read",
      [](const uint8_t* m, RdSt& s, std::string& val, bool*) {
        val = model_read(m, s.n, s.p, 4);
        s.p += val.size();
        return true;
      },
      [](StringReader& rd, const RdSt&) { return rd.read(4); }});
  for (bool adv : {true, false})
    a.push_back({adv ? "get_cstr()" : "get_cstr(advance=false)", "get_cstr",
        [adv](const uint8_t* m, RdSt& s, std::string& val, bool*) {
          if (!model_cstr(m, s.n, s.p, &val)) return false;
          if (adv) s.p += val.size() + 1;
          return true;
        },
        [adv](StringReader& rd, const RdSt&) { return rd.get_cstr(adv); }});
  a.push_back({"get_line()", "get_line",
      [](const uint8_t* m, RdSt& s, std::string& val, bool*) {
        size_t np;
        if (!model_line(m, s.n, s.p, &val, &np)) return false;
        s.p = np;
        return true;
      },
      [](StringReader& rd, const RdSt&) { return rd.get_line(); }});
  // positional reads that lie outside the data: always refused; const, nothing may change
  auto never = [&](const std::string& name, const std::string& key, std::function<void(StringReader&, const RdSt&)> real) {
    a.push_back({name, key, [](const uint8_t*, RdSt&, std::string&, bool*) { return false; },
        [real](StringReader& rd, const RdSt& b) {
          real(rd, b);
          return std::string("(returned)");
        }});
  };
  never("pget_u32l(size-3)", "pget", [](StringReader& rd, const RdSt& b) { rd.pget_u32l(b.n >= 3 ? b.n - 3 : 0); });
  never("pget_u48b(size)", "pget", [](StringReader& rd, const RdSt& b) { rd.pget_u48b(b.n); });
  never("pget_s24l(SIZE_MAX-1)", "pget", [](StringReader& rd, const RdSt&) { rd.pget_s24l(~(size_t)0 - 1); });
  never("preadx(size, 1)", "preadx", [](StringReader& rd, const RdSt& b) { rd.preadx(b.n, 1); });
  never("pgetv(cursor, remaining+1)", "pgetv", [](StringReader& rd, const RdSt& b) { rd.pgetv(b.p, b.n - b.p + 1); });
  never("pget_cstr(size)", "pget_cstr", [](StringReader& rd, const RdSt& b) { rd.pget_cstr(b.n); });
  never("subx(size+1)", "subx", [](StringReader& rd, const RdSt& b) { rd.subx(b.n + 1); });
  never("subx(cursor, remaining+1)", "subx", [](StringReader& rd, const RdSt& b) { rd.subx(b.p, b.n - b.p + 1); });
  // truncate beyond the size: whether it throws is the library's rule; if it throws, nothing may have changed
  a.push_back({"truncate(size+1)", "truncate",
      [](const uint8_t*, RdSt&, std::string&, bool*) { return false; },
      [](StringReader& rd, const RdSt& b) {
        rd.truncate(b.n + 1);
        return std::string("(returned)");
      }});
  a.push_back({"go(0)", "go", [](const uint8_t*, RdSt& s, std::string&, bool*) { s.p = 0; return true; }, [](StringReader& rd, const RdSt&) { rd.go(0); return std::string(); }});
  a.push_back({"go(size)", "go", [](const uint8_t*, RdSt& s, std::string&, bool*) { s.p = s.n; return true; }, [](StringReader& rd, const RdSt& b) { rd.go(b.n); return std::string(); }});
  a.push_back({"skip(1)", "skip",
      [](const uint8_t*, RdSt& s, std::string&, bool* dc) {
        if (!model_fits(s.n, s.p, 1)) { *dc = true; return true; }  // skip beyond the end: statement silent (the library throws and parks the cursor at the end)
        s.p += 1;
        return true;
      },
      [](StringReader& rd, const RdSt&) { rd.skip(1); return std::string(); }});
  return a;
}

struct RdCtx {
  vf::Run& r;
  const std::vector<RdOp>& ops;
  const uint8_t* m;
  size_t n;
  std::vector<int> path;
  std::vector<bool> path_refused;
  std::vector<size_t> last_ops;  // quick tier: the calls tried at the third level (empty = all)
  bool good = true;
  std::string pathname() const {
    std::string p = "reader over " + hexb(m, n) + ": ";
    for (size_t i = 0; i < path.size(); i++) p += (i ? "; " : "") + ops[path[i]].name + (path_refused[i] ? " [refused]" : "");
    return p;
  }
};

// executes op `oi` on a copy of rd; returns whether to go on below it
void rd_dfs(RdCtx& cx, const StringReader& rd, const RdSt& st, int depth, bool any_refused, int first_op);
void rd_apply(RdCtx& cx, const StringReader& rd, const RdSt& st, int depth, bool any_refused, size_t oi) {
  const RdOp& o = cx.ops[oi];
  StringReader q = rd;
  RdSt s = st;
  std::string want, got, exc;
  bool dontcare = false, threw = false;
  bool performed = o.model(cx.m, s, want, &dontcare);
  cx.path.push_back((int)oi);
  cx.path_refused.push_back(!performed);
  cx.r.transitions++;
  try {
    got = o.real(q, st);
  } catch (const std::exception& e) {
    threw = true;
    exc = e.what();
  }
  bool go_on = false;
  if (dontcare) {
    cx.r.hist[o.key + "/executed-not-compared"]++;
  } else if (performed && threw) {
    cx.r.fail("rd_" + o.key + (any_refused ? ":throws-after-refused-call" : ":throws"), [&] { return cx.pathname() + vf::fmt(" :: with size %zu and cursor %zu the model reads %s, the call threw ", st.n, st.p, vf::show(want).c_str()) + exc; });
    cx.good = false;
  } else if (!performed && !threw && o.key != "truncate") {
    cx.r.fail("rd_" + o.key + ":returns-without-data", [&] { return cx.pathname() + vf::fmt(" :: with size %zu and cursor %zu nothing complete is encoded there, yet the call returned %s", st.n, st.p, vf::show(got).c_str()); });
    cx.good = false;
  } else if (!performed && !threw) {
    cx.r.hist[o.key + "/executed-not-compared"]++;  // truncate beyond the size that does not throw: don't-care
  } else if (performed && got != want) {
    cx.r.fail("rd_" + o.key + (any_refused ? ":value-after-refused-call" : ":value"), [&] { return cx.pathname() + vf::fmt(" :: with size %zu and cursor %zu returned %s, model %s", st.n, st.p, vf::show(got).c_str(), vf::show(want).c_str()); });
    cx.good = false;
  } else if (q.size() != s.n || q.where() != s.p || q.remaining() != s.n - s.p || q.eof() != (s.p >= s.n)) {
    cx.r.fail("rd_" + o.key + (!performed ? ":refused-call-changed-object" : ":advance"), [&] { return cx.pathname() + vf::fmt(" :: state (size %zu, cursor %zu) became size()=%zu where()=%zu remaining()=%zu eof()=%d, model size %zu cursor %zu", st.n, st.p, q.size(), q.where(), q.remaining(), (int)q.eof(), s.n, s.p); });
    cx.good = false;
  } else {
    cx.r.hist[o.key + (performed ? "/value+state-ok" : "/refused-unchanged")]++;
    go_on = true;
  }
  if (go_on && depth > 1) rd_dfs(cx, q, s, depth - 1, any_refused || !performed, -1);
  cx.path.pop_back();
  cx.path_refused.pop_back();
}
void rd_dfs(RdCtx& cx, const StringReader& rd, const RdSt& st, int depth, bool any_refused, int first_op) {
  if (first_op >= 0) return rd_apply(cx, rd, st, depth, any_refused, (size_t)first_op);
  if (depth == 1 && cx.path.size() >= 2 && !cx.last_ops.empty()) {
    for (size_t oi : cx.last_ops) rd_apply(cx, rd, st, depth, any_refused, oi);
    return;
  }
  for (size_t oi = 0; oi < cx.ops.size(); oi++) rd_apply(cx, rd, st, depth, any_refused, oi);
}

}  // namespace

VF_SECTION(rej_rd, 16, 16, 180) {
  r.note("StringReader histories with refused reads");
  static const uint8_t content[] = {0x80, 0x01, 0x00, 0xFF, 0x0A, 0x7F, 0x00, 0xFE, 0x02, 0x0D, 0x0A, 0x81, 0x00, 0x41, 0x0A, 0xC3, 0x7E};
  auto ops = rd_alphabet();
  const int depth = 3;
  const size_t maxn = r.thorough() ? 17 : 12;
  // quick: the third call of a history only has to observe what the first two left behind: one typed read per width,
  // an untyped one, a C string, a line, a clamping read
  std::vector<size_t> last_ops;
  if (!r.thorough())
    for (size_t i = 0; i < ops.size(); i++)
      for (const char* nm : {"get_u8()", "get_u16b()", "get_u24l()", "get_s32l()", "get_u48b()", "get_f64b()", "getv(2)", "readx(4)", "get_cstr()", "get_line()", "read(4)"})
        if (ops[i].name == nm) last_ops.push_back(i);
  for (size_t n = 0; n <= maxn; n++) {
    std::vector<size_t> starts = {0};
    if (n / 2) starts.push_back(n / 2);
    for (size_t start : starts) {
      for (size_t oi = 0; oi < ops.size(); oi++) {
        if (!r.take()) continue;
        if (r.wants_desc()) r.desc(vf::fmt("reader over the first %zu bytes of ", n) + hexb(content, sizeof(content)) + vf::fmt(", cursor %zu: ", start) + ops[oi].name + vf::fmt(" then every sequence of <= %d further calls", depth - 1));
        r.nontriv();
        r.states++;
        Exact buf(n);
        if (n) memcpy(buf.p, content, n);
        StringReader rd(buf.p, n, start);
        RdCtx cx{r, ops, content, n, {}, {}, last_ops, true};
        rd_dfs(cx, rd, RdSt{n, start}, depth, false, (int)oi);
        if (cx.good) r.ok("read-tree-ok");
      }
    }
  }
  r.bound = vf::fmt("readers over the first n bytes (n = 0..%zu) of a 17-byte content with NUL / LF / CR / top-bit bytes, initial cursor 0 and n/2; every sequence of <= %d calls from %zu (quick: the third call from %zu of them) : get of all 42 typed kinds, six with advance=false, getv / peek / readx (string and buffer forms), get<S5>, get<T>(advance, size) with size > sizeof(T), read(4) (clamps), get_cstr, get_line, positional reads outside the data (pget_u32l(size-3), pget_u48b(size), pget_s24l(SIZE_MAX-1), preadx(size,1), pgetv(cursor, remaining+1), pget_cstr(size), subx(size+1), subx(cursor, remaining+1)), truncate(size+1), go(0), go(size), skip(1); a call that finds nothing complete must throw and leave size/where/remaining/eof untouched, every later call must return the model's value", maxn, depth, ops.size(), last_ops.empty() ? ops.size() : last_ops.size());
}
