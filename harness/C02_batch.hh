// C02_batch.hh — runs batches of risky calls in forked children with per-call crash attribution.
//
// Almost every call C02 makes is allowed to be fatal on a defective tree (out-of-bounds read or
// write under ASan / against a guard page).  A batch is a list of calls that share their setup;
// the child publishes the index of the call it is about to make in shared memory, together with
// the finding key and description to use if it dies there, executes it, and stores its verdict.
// When the child dies the parent attributes the death to the published call, records it, and
// forks again for the remaining calls.  On a correct tree that is one fork per batch.
#pragma once
#include <errno.h>
#include <fcntl.h>
#include <signal.h>
#include <stdint.h>
#include <stdio.h>
#include <string.h>
#include <sys/mman.h>
#include <sys/wait.h>
#include <unistd.h>

#include <functional>
#include <string>

#include "vf.hh"

namespace c02 {

static volatile int g_in_child = 0;

enum Code : int32_t { NOT_RUN = 0, OK = 1, FAIL = 2, DIED = 3, SKIPPED = 4 };

// A tree on which thousands of calls are fatal costs one fork per death.  After this many deaths in one
// shard process the rest of a batch in which a further call dies is skipped and the section reports
// exhaustive:false (the violations found so far are reported as usual).
constexpr uint64_t DEATH_CAP = 400;

struct CaseResult {
  int32_t code;
  uint64_t a, b;      // call-specific outputs (post-state of cursor operations)
  char cls[64];       // outcome class (histogram) when OK
  char key[96];       // finding key: preset to the key to use if the call is fatal, overwritten on FAIL
  char msg[900];      // preset to the call description; on FAIL: description + observed vs expected
  void set(char* dst, size_t cap, const std::string& s) {
    size_t n = s.size() < cap - 1 ? s.size() : cap - 1;
    memcpy(dst, s.data(), n);
    dst[n] = 0;
  }
  // before the risky call
  void arm(const std::string& fatal_key, const std::string& desc) {
    code = NOT_RUN;
    set(key, sizeof(key), fatal_key);
    set(msg, sizeof(msg), desc);
  }
  // cheap variant for high-volume sections: only the key to use if the call is fatal
  void arm_key(const char* fatal_key) {
    code = NOT_RUN;
    size_t n = strlen(fatal_key);
    if (n > sizeof(key) - 1) n = sizeof(key) - 1;
    memcpy(key, fatal_key, n);
    key[n] = 0;
  }
  void ok(const std::string& c) {
    code = OK;
    set(cls, sizeof(cls), c);
  }
  void fail(const std::string& k, const std::string& what) {
    std::string d = std::string(msg) + " :: " + what;
    code = FAIL;
    set(key, sizeof(key), k);
    set(msg, sizeof(msg), d);
  }
};

constexpr size_t MAXB = 4352;
struct Shared {
  volatile uint32_t progress;
  CaseResult res[MAXB];
};

inline Shared* shared() {
  static Shared* s = nullptr;
  if (!s) {
    void* p = mmap(nullptr, sizeof(Shared), PROT_READ | PROT_WRITE, MAP_SHARED | MAP_ANONYMOUS, -1, 0);
    if (p == MAP_FAILED) { perror("mmap shared"); _exit(3); }
    s = (Shared*)p;
  }
  return s;
}

struct BatchStats {
  uint64_t forks = 0, deaths = 0, skipped = 0;
};
inline BatchStats& stats() {
  static BatchStats s;
  return s;
}

// Runs fn(i, result) for i in [0, count) in forked children.  Returns the shared result array.
// `describe(i)` (optional) supplies the description of call i on the parent side when the child
// died before writing one (sections with very many cheap calls arm only the key, not the text).
// errno is set to a deterministic value before every call (ambient state owned by the harness).
inline CaseResult* run_batch(vf::Run& r, size_t count, const std::function<void(size_t, CaseResult&)>& fn,
    const std::function<std::string(size_t)>& describe = nullptr) {
  if (count > MAXB) { fprintf(stderr, "batch too large\n"); _exit(3); }
  Shared* sh = shared();
  for (size_t i = 0; i < count; i++) {
    sh->res[i].code = NOT_RUN;
    sh->res[i].a = sh->res[i].b = 0;
    sh->res[i].cls[0] = sh->res[i].key[0] = sh->res[i].msg[0] = 0;
  }
  size_t start = 0;
  while (start < count) {
    sh->progress = (uint32_t)start;
    fflush(stdout);
    fflush(stderr);
    stats().forks++;
    pid_t p = fork();
    if (p < 0) { perror("fork"); _exit(3); }
    if (p == 0) {
      g_in_child = 1;
      int dn = open("/dev/null", O_WRONLY);
      if (dn >= 0) dup2(dn, 2);  // ASan banners of expected deaths would flood the shard log
      alarm(20);
      for (size_t i = start; i < count; i++) {
        sh->progress = (uint32_t)i;
        static const int kErr[4] = {EINTR, 0, ERANGE, EINVAL};
        errno = kErr[(i + r.cur) & 3];
        fn(i, sh->res[i]);
      }
      _exit(0);
    }
    int st = 0;
    while (waitpid(p, &st, 0) < 0 && errno == EINTR) {}
    r.beat();
    if (WIFEXITED(st) && WEXITSTATUS(st) == 0) break;
    size_t i = sh->progress;
    stats().deaths++;
    std::string how;
    if (WIFEXITED(st) && WEXITSTATUS(st) == 77) how = "AddressSanitizer report (out-of-bounds access, guard-page fault or impossible allocation)";
    else if (WIFSIGNALED(st) && WTERMSIG(st) == SIGALRM) how = "no result within 20 s (hang)";
    else if (WIFSIGNALED(st)) how = vf::fmt("killed by signal %d", WTERMSIG(st));
    else how = vf::fmt("exit status %d", WEXITSTATUS(st));
    CaseResult& c = sh->res[i];
    if (!c.msg[0] && describe) c.set(c.msg, sizeof(c.msg), describe(i));
    std::string d = std::string(c.msg) + " :: process died: " + how;
    c.code = DIED;
    c.set(c.msg, sizeof(c.msg), d);
    start = i + 1;
    if (stats().deaths > DEATH_CAP && start < count) {
      for (size_t j = start; j < count; j++) sh->res[j].code = SKIPPED;
      stats().skipped += count - start;
      if (r.exhaustive) r.notes.push_back(vf::fmt("more than %llu fatal calls in this shard: the remaining calls of every batch in which a further call is fatal are skipped", (unsigned long long)DEATH_CAP));
      r.exhaustive = false;
      break;
    }
  }
  return sh->res;
}

// Folds the results of a batch into the Run (parent side).
inline void fold(vf::Run& r, const CaseResult* res, size_t count) {
  for (size_t i = 0; i < count; i++) {
    const CaseResult& c = res[i];
    if (c.code == OK) r.ok(c.cls);
    else if (c.code == FAIL || c.code == DIED) {
      if (c.code == DIED) r.counters["calls that killed the process"]++;
      r.fail(c.key, [&] { return std::string(c.msg); });
    } else if (c.code == SKIPPED) r.counters["calls skipped after the death cap"]++;
    else r.fail("engine:case-not-run", [&] { return std::string("batch case without result: ") + c.msg; });
  }
}

}  // namespace c02

// ASan calls this before it prints a report.  In a batch child the report is not needed (the
// parent attributes the death to the published call), so leave immediately with a marker status.
extern "C" void __asan_on_error() {
  if (c02::g_in_child) _exit(77);
}
