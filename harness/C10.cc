// C10 — MD5 / SHA-1 / SHA-256 / CRC-32 / FNV-1a equal their published definitions and chain.
//
// E-ENUM.  Inputs: every length in a range x 6 fill patterns (00, FF, counter, LCG, all-high-bit, ASCII) plus
// block-boundary sizes up to 1 MiB + 1.  Round-2 sections (call histories, seeds, contexts, storage, huge inputs)
// live in C10_r2.cc; shared helpers in C10_common.hh.  Oracle: OpenSSL EVP (MD5, SHA-1, SHA-256) and zlib crc32
// linked into the harness as independent implementations; FNV-1a by the published recurrence.
// Every input is an exact-size heap copy (ASan red zone directly behind the last byte).
// The sections also write (function, length, pattern, reference, observed) lines into VF_OUTDIR;
// oracles/C10.py re-derives the references with Python hashlib / zlib on independently
// regenerated inputs.
#include "C10_common.hh"

using namespace c10;

namespace {

struct Out {
  FILE* f = nullptr;
  void open(vf::Run& r) {
    const char* d = getenv("VF_OUTDIR");
    if (r.only >= 0 || !d) return;
    std::string path = vf::fmt("%s/%s.%llu.dat", d, r.section.c_str(), (unsigned long long)r.shard);
    f = fopen(path.c_str(), "a");
  }
  void line(const char* fn, size_t len, int pat, const std::string& ref_hex, const std::string& got_hex) {
    if (f) fprintf(f, "%s %zu %s %s %s\n", fn, len, pat_name[pat], ref_hex.c_str(), got_hex.c_str());
  }
  ~Out() {
    if (f) fclose(f);
  }
};

// A digest struct's result: public state words, bin(), hex() of the (ptr,size) constructor; the same three of the
// std::string constructor; the implicit conversion from std::string (copy-initialisation); a copy of the object;
// renderings asked a second time in the opposite order.
template <class D>
void check_digest(vf::Run& r, Out& out, int fn, const Buf& b, int pat) {
  const std::string name = fn_name[fn];
  const std::string ref = ref_value(fn, b.p, b.n);
  r.xchecked++;
  auto where = [&] { return vf::fmt("%s of %zu bytes (%s fill)", name.c_str(), b.n, pat_name[pat]); };
  r.poison_errno();
  D d(b.p, b.n);
  Obs o = observe(d);
  out.line(name.c_str(), b.n, pat, hex_lower(ref), hex_lower(o.bin));
  r.nontriv();
  bool good = judge(r, fn, OV_PTR, o, ref, where);
  // std::string overload on the same bytes: explicit construction and implicit conversion
  const std::string as_string = b.str();
  r.poison_errno();
  D d2(as_string);
  Obs o2 = observe(d2);
  good = judge(r, fn, OV_STR, o2, ref, [&] { return where() + ", constructor from std::string"; }) && good;
  D d3 = as_string;
  Obs o3 = observe(d3);
  if (!(o3 == o2)) {
    good = false;
    r.fail(name + ":string-overload", [&] { return where() + ": copy-initialisation from std::string gives " + hex_lower(o3.state) + " / bin " + hex_lower(o3.bin) + " / hex " + o3.hex + ", direct construction " + hex_lower(o2.state); });
  }
  // a copy renders the same; asking the first object again (hex first this time) gives the same answers
  D c(d);
  Obs oc = observe(c);
  Obs again;
  again.hex = d.hex();
  again.bin = d.bin();
  again.state = words(d);
  if (!(oc == o) || !(again == o)) {
    good = false;
    r.fail(name + ":render-unstable", [&] { return where() + ": first rendering " + hex_lower(o.bin) + " / " + o.hex + ", copy renders " + hex_lower(oc.bin) + " / " + oc.hex + ", second rendering of the same object " + hex_lower(again.bin) + " / " + again.hex; });
  }
  if (good) {
    // vacuity guard for the hex format: digests with a word that starts with a zero nibble exercise the zero padding
    for (size_t w = 0; w < ref.size(); w += 4)
      if ((static_cast<unsigned char>(ref[w]) >> 4) == 0) {
        r.counters["digests_with_a_leading_zero_nibble_word"]++;
        break;
      }
    r.ok(name + ":equals-reference(state,bin,hex; ptr, string, implicit-string, copy, re-render)");
  }
}

void check_one(vf::Run& r, Out& out, int fn, size_t len, int pat) {
  Buf b(len, pat);
  r.note(fn_name[fn]);
  if (r.wants_desc()) r.desc(vf::fmt("%s on %zu bytes, %s fill", fn_name[fn], len, pat_name[pat]));
  switch (fn) {
    case F_MD5: check_digest<phosg::MD5>(r, out, fn, b, pat); break;
    case F_SHA1: check_digest<phosg::SHA1>(r, out, fn, b, pat); break;
    case F_SHA256: check_digest<phosg::SHA256>(r, out, fn, b, pat); break;
    case F_CRC32: {
      uint32_t ref = ref_crc32(b.p, b.n);
      r.xchecked++;
      r.poison_errno();
      uint32_t got = phosg::crc32(b.p, b.n);
      uint32_t got0 = phosg::crc32(b.p, b.n, 0);
      out.line("crc32", len, pat, vf::fmt("%08x", ref), vf::fmt("%08x", got));
      r.nontriv();
      if (got != ref || got0 != ref) r.fail("crc32:wrong-value", [&] { return vf::fmt("crc32 of %zu bytes (%s fill) = %08X (explicit seed 0: %08X), zlib gives %08X", len, pat_name[pat], got, got0, ref); });
      else r.ok("crc32:equals-zlib(default and explicit 0 seed)");
      break;
    }
    case F_FNV32: {
      uint32_t ref = ref_fnv32(b.p, b.n);
      r.poison_errno();
      uint32_t got = phosg::fnv1a32(b.p, b.n);
      uint32_t got_e = phosg::fnv1a32(b.p, b.n, phosg::FNV1A32_START);
      std::string as_string = b.str();
      uint32_t got_s = phosg::fnv1a32(as_string);
      uint32_t got_se = phosg::fnv1a32(as_string, phosg::FNV1A32_START);
      out.line("fnv1a32", len, pat, vf::fmt("%08x", ref), vf::fmt("%08x", got));
      r.nontriv();
      if (got != ref || got_e != ref) r.fail("fnv1a32:wrong-value", [&] { return vf::fmt("fnv1a32 of %zu bytes (%s fill) = %08X (explicit FNV1A32_START: %08X), recurrence gives %08X", len, pat_name[pat], got, got_e, ref); });
      else if (got_s != ref || got_se != ref) r.fail("fnv1a32:string-overload", [&] { return vf::fmt("fnv1a32(std::string of %zu bytes, %s fill) = %08X (explicit FNV1A32_START: %08X), recurrence gives %08X", len, pat_name[pat], got_s, got_se, ref); });
      else r.ok("fnv1a32:equals-recurrence(ptr, string; default and explicit start)");
      break;
    }
    default: {
      uint64_t ref = ref_fnv64(b.p, b.n);
      r.poison_errno();
      uint64_t got = phosg::fnv1a64(b.p, b.n);
      uint64_t got_e = phosg::fnv1a64(b.p, b.n, phosg::FNV1A64_START);
      std::string as_string = b.str();
      uint64_t got_s = phosg::fnv1a64(as_string);
      uint64_t got_se = phosg::fnv1a64(as_string, phosg::FNV1A64_START);
      out.line("fnv1a64", len, pat, vf::fmt("%016llx", (unsigned long long)ref), vf::fmt("%016llx", (unsigned long long)got));
      r.nontriv();
      if (got != ref || got_e != ref) r.fail("fnv1a64:wrong-value", [&] { return vf::fmt("fnv1a64 of %zu bytes (%s fill) = %016llX (explicit FNV1A64_START: %016llX), recurrence gives %016llX", len, pat_name[pat], (unsigned long long)got, (unsigned long long)got_e, (unsigned long long)ref); });
      else if (got_s != ref || got_se != ref) r.fail("fnv1a64:string-overload", [&] { return vf::fmt("fnv1a64(std::string of %zu bytes, %s fill) = %016llX (explicit FNV1A64_START: %016llX), recurrence gives %016llX", len, pat_name[pat], (unsigned long long)got_s, (unsigned long long)got_se, (unsigned long long)ref); });
      else r.ok("fnv1a64:equals-recurrence(ptr, string; default and explicit start)");
      break;
    }
  }
}

void run_lengths(vf::Run& r, const std::vector<size_t>& lens, const std::vector<int>& pats = {P_ZERO, P_FF, P_COUNTER, P_LCG, P_HIGH, P_ASCII}) {
  Out out;
  out.open(r);
  for (size_t len : lens)
    for (int pat : pats)
      for (int fn = 0; fn < NFN; fn++) {
        if (!r.take()) continue;
        check_one(r, out, fn, len, pat);
      }
}

// chaining at every split point of one input: every combination of overloads for (prefix call, suffix call)
void run_chain(vf::Run& r, const std::vector<size_t>& lens) {
  for (size_t len : lens)
    for (int pat = 0; pat < NPAT; pat++)
      for (size_t k = 0; k <= len; k++)
        for (int fn = F_CRC32; fn <= F_FNV64; fn++) {
          if (!r.take()) continue;
          Buf whole(len, pat);
          // prefix and suffix live in their own exact-size allocations
          Buf a(k, P_ZERO), b(len - k, P_ZERO);
          if (k) memcpy(a.p, whole.p, k);
          if (len - k) memcpy(b.p, whole.p + k, len - k);
          r.note(std::string(fn_name[fn]) + "-chain");
          if (r.wants_desc()) r.desc(vf::fmt("%s chained over %zu + %zu bytes (%s fill)", fn_name[fn], k, len - k, pat_name[pat]));
          r.nontriv();
          const uint64_t ref = ref_u_seeded(fn, whole.p, len, start_of(fn));
          if (ref_u_seeded(fn, b.p, len - k, ref_u_seeded(fn, a.p, k, start_of(fn))) != ref) {  // the reference chains with itself
            fprintf(stderr, "C10: reference chaining disagrees with itself\n");
            _exit(3);
          }
          if (fn == F_CRC32) r.xchecked++;
          bool good = true;
          r.poison_errno();
          for (int ova = 0; ova < n_ov(fn); ova++)
            for (int ovb = 0; ovb < n_ov(fn); ovb++) {
              uint64_t mid = call_u(fn, ova, a.p, k);
              uint64_t got = call_u_seeded(fn, ovb, b.p, len - k, mid);
              if (got == ref) continue;
              good = false;
              r.fail(std::string(fn_name[fn]) + (ova == OV_PTR && ovb == OV_PTR ? ":chain" : ":chain-string-overload"), [&] {
                return vf::fmt("%s(b %s of %zu bytes, seed = %s(a %s of %zu bytes) = %s) = %s but the %zu-byte concatenation (%s fill) hashes to %s", fn_name[fn], ov_name[ovb], len - k,
                    fn_name[fn], ov_name[ova], k, show_u(fn, mid).c_str(), show_u(fn, got).c_str(), len, pat_name[pat], show_u(fn, ref).c_str());
              });
            }
          if (good) r.ok(std::string(fn_name[fn]) + ":chain-equals-whole(every overload combination)");
        }
}

}  // namespace

VF_SECTION(lengths, 16, 16, 120) {
  std::vector<size_t> lens;
  size_t top = r.thorough() ? 4096 : 300;
  for (size_t n = 0; n <= top; n++) lens.push_back(n);
  run_lengths(r, lens);
  r.bound = vf::fmt("6 functions x every length 0..%zu x 6 fill patterns (00, FF, counter, LCG, all-high-bit, ASCII); digests via state words, bin(), hex() of the (ptr,size) and std::string constructors, implicit conversion, copy, re-rendering; fnv with default and explicit start", top);
}

VF_SECTION(boundaries, 16, 16, 180) {
  std::vector<size_t> lens = {511, 512, 513, 1023, 1024, 1025, 4095, 4096, 4097, 65535, 65536, 65537, (1u << 20) - 1, 1u << 20, (1u << 20) + 1};
  run_lengths(r, lens);
  r.bound = "6 functions x block-boundary sizes {511..513, 1023..1025, 4095..4097, 65535..65537, 2^20-1..2^20+1} x 6 fill patterns";
}

// 16 MiB inputs around the padding cases (every overload; content with high-bit bytes)
VF_SECTION(big16m, 16, 16, 600) {
  const size_t M = size_t(1) << 24;
  std::vector<size_t> lens = {M + 55, M + 56, M + 63, M + 64};
  if (r.thorough()) lens.insert(lens.end(), {M - 1, M, M + 1, M + 119, M + 120});
  run_lengths(r, lens, {P_HIGH, P_LCG});
  r.bound = r.thorough() ? "6 functions x sizes 2^24 + {-1, 0, 1, 55, 56, 63, 64, 119, 120} x 2 fill patterns (all-high-bit, LCG), every overload as in lengths"
                         : "6 functions x sizes 2^24 + {55, 56, 63, 64} x 2 fill patterns (all-high-bit, LCG), every overload as in lengths";
}

VF_SECTION(chain, 16, 16, 120) {
  std::vector<size_t> lens;
  for (size_t n = 0; n <= (r.thorough() ? 300u : 96u); n++) lens.push_back(n);
  if (r.thorough()) lens.push_back(1025);
  run_chain(r, lens);
  r.bound = r.thorough() ? "crc32, fnv1a32, fnv1a64 (pointer and std::string overloads): every split point of every input of length 0..300 and 1025 x 6 fill patterns, all overload combinations (prefix call, suffix call)"
                         : "crc32, fnv1a32, fnv1a64 (pointer and std::string overloads): every split point of every input of length 0..96 x 6 fill patterns, all overload combinations (prefix call, suffix call)";
}

VF_MAIN()
