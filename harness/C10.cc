// C10 — MD5 / SHA-1 / SHA-256 / CRC-32 / FNV-1a equal their published definitions and chain.
//
// E-ENUM.  Inputs: every length in a range x 4 fill patterns (00, FF, counter, LCG) plus
// block-boundary sizes up to 1 MiB + 1.  Oracle: OpenSSL EVP (MD5, SHA-1, SHA-256) and zlib crc32
// linked into the harness as independent implementations; FNV-1a by the published recurrence.
// Every input is an exact-size heap copy (ASan red zone directly behind the last byte).
// The sections also write (function, length, pattern, reference, observed) lines into VF_OUTDIR;
// oracles/C10.py re-derives the references with Python hashlib / zlib on independently
// regenerated inputs.
#include <openssl/evp.h>
#include <string.h>
#include <zlib.h>

#include <memory>
#include <string>
#include <vector>

#include "Hash.hh"
#include "vf.hh"

namespace {

enum Pattern { P_ZERO, P_FF, P_COUNTER, P_LCG, NPAT };
const char* pat_name[NPAT] = {"zero", "ff", "counter", "lcg"};

// Exact-size heap buffer (no terminator, no slack).
struct Buf {
  uint8_t* p;
  size_t n;
  Buf(size_t len, int pat) : p(static_cast<uint8_t*>(malloc(len))), n(len) {  // malloc(0): valid pointer, zero accessible bytes
    if (!p) {
      fprintf(stderr, "C10: malloc failed\n");
      _exit(3);
    }
    uint32_t x = 0x12345678u + static_cast<uint32_t>(len);
    for (size_t i = 0; i < len; i++) {
      switch (pat) {
        case P_ZERO: p[i] = 0x00; break;
        case P_FF: p[i] = 0xFF; break;
        case P_COUNTER: p[i] = static_cast<uint8_t>(i & 0xFF); break;
        default:
          x = x * 1103515245u + 12345u;
          p[i] = static_cast<uint8_t>((x >> 16) & 0xFF);
          break;
      }
    }
  }
  Buf(const Buf&) = delete;
  ~Buf() { free(p); }
};

std::string hex_lower(const std::string& b) {
  static const char* d = "0123456789abcdef";
  std::string s;
  for (unsigned char c : b) {
    s += d[c >> 4];
    s += d[c & 15];
  }
  return s;
}
std::string to_lower(std::string s) {
  for (auto& c : s)
    if (c >= 'A' && c <= 'Z') c = static_cast<char>(c - 'A' + 'a');
  return s;
}

std::string evp(const EVP_MD* md, const void* data, size_t n) {
  EVP_MD_CTX* ctx = EVP_MD_CTX_new();
  unsigned char out[EVP_MAX_MD_SIZE];
  unsigned int outl = 0;
  if (!ctx || EVP_DigestInit_ex(ctx, md, nullptr) != 1 || EVP_DigestUpdate(ctx, data, n) != 1 || EVP_DigestFinal_ex(ctx, out, &outl) != 1) {
    fprintf(stderr, "C10: OpenSSL EVP digest failed\n");
    _exit(3);
  }
  EVP_MD_CTX_free(ctx);
  return std::string(reinterpret_cast<char*>(out), outl);
}

uint32_t ref_crc32(const void* data, size_t n, uint32_t seed = 0) {
  // zlib takes uInt lengths; feed in chunks
  const Bytef* p = static_cast<const Bytef*>(data);
  uLong c = seed;
  while (n) {
    uInt k = n > 0x40000000u ? 0x40000000u : static_cast<uInt>(n);
    c = ::crc32(c, p, k);
    p += k;
    n -= k;
  }
  return static_cast<uint32_t>(c);
}
// FNV-1a, published recurrence: hash = offset_basis; for each octet: hash ^= octet; hash *= prime.
uint32_t ref_fnv32(const uint8_t* p, size_t n) {
  uint32_t h = 2166136261u;
  for (size_t i = 0; i < n; i++) {
    h ^= p[i];
    h *= 16777619u;
  }
  return h;
}
uint64_t ref_fnv64(const uint8_t* p, size_t n) {
  uint64_t h = 14695981039346656037ull;
  for (size_t i = 0; i < n; i++) {
    h ^= p[i];
    h *= 1099511628211ull;
  }
  return h;
}

std::string le32(uint32_t v) {
  std::string s(4, 0);
  for (int i = 0; i < 4; i++) s[i] = static_cast<char>((v >> (8 * i)) & 0xFF);
  return s;
}
std::string be32(uint32_t v) {
  std::string s(4, 0);
  for (int i = 0; i < 4; i++) s[i] = static_cast<char>((v >> (8 * (3 - i))) & 0xFF);
  return s;
}

enum Fn { F_MD5, F_SHA1, F_SHA256, F_CRC32, F_FNV32, F_FNV64, NFN };
const char* fn_name[NFN] = {"MD5", "SHA1", "SHA256", "crc32", "fnv1a32", "fnv1a64"};

struct Out {
  FILE* f = nullptr;
  void open(vf::Run& r) {
    const char* d = getenv("VF_OUTDIR");
    if (r.only >= 0 || !d) return;
    std::string path = vf::fmt("%s/%s.%llu.dat", d, r.section.c_str(), (unsigned long long)r.shard);
    f = fopen(path.c_str(), "a");
  }
  void line(const char* fn, size_t len, int pat, const std::string& ref_hex, const std::string& got_hex) {
    if (f) fprintf(f, "%s %zu %s %s %s\n", fn, len, pat_name[pat], ref_hex.c_str(), got_hex.c_str());
  }
  ~Out() {
    if (f) fclose(f);
  }
};

// A digest struct's result three ways: from its public state words, bin(), hex().
template <class D>
void check_digest(vf::Run& r, Out& out, int fn, const Buf& b, int pat, const EVP_MD* md, size_t digest_len,
    const std::function<std::string(const D&)>& state_bytes) {
  const char* name = fn_name[fn];
  std::string ref = evp(md, b.p, b.n);
  r.xchecked++;
  D d(b.p, b.n);
  std::string st = state_bytes(d);
  std::string bin = d.bin();
  std::string hex = d.hex();
  // std::string overload on the same bytes
  std::string as_string(reinterpret_cast<const char*>(b.p), b.n);
  D d2(as_string);
  std::string bin2 = d2.bin();
  out.line(name, b.n, pat, hex_lower(ref), hex_lower(bin));
  r.nontriv();
  auto where = [&] { return vf::fmt("%s of %zu bytes (%s fill)", name, b.n, pat_name[pat]); };
  if (ref.size() != digest_len) {
    fprintf(stderr, "C10: reference digest has unexpected size\n");
    _exit(3);
  }
  if (st != ref) r.fail(std::string(name) + ":wrong-digest", [&] { return where() + ": state words give " + hex_lower(st) + ", OpenSSL gives " + hex_lower(ref); });
  else if (bin != ref) r.fail(std::string(name) + ":bin-render", [&] { return where() + ": bin() = " + hex_lower(bin) + " (" + std::to_string(bin.size()) + " bytes), digest is " + hex_lower(ref); });
  else if (hex.size() != 2 * digest_len || to_lower(hex) != hex_lower(ref)) r.fail(std::string(name) + ":hex-render", [&] { return where() + ": hex() = " + vf::show(hex) + ", digest is " + hex_lower(ref); });
  else if (bin2 != ref) r.fail(std::string(name) + ":string-overload", [&] { return where() + ": " + name + "(std::string).bin() = " + hex_lower(bin2) + ", digest is " + hex_lower(ref); });
  else r.ok(std::string(name) + ":equals-reference(state,bin,hex,string-overload)");
}

void check_one(vf::Run& r, Out& out, int fn, size_t len, int pat) {
  Buf b(len, pat);
  r.note(fn_name[fn]);
  if (r.wants_desc()) r.desc(vf::fmt("%s on %zu bytes, %s fill", fn_name[fn], len, pat_name[pat]));
  switch (fn) {
    case F_MD5:
      check_digest<phosg::MD5>(r, out, fn, b, pat, EVP_md5(), 16, [](const phosg::MD5& d) { return le32(d.a0) + le32(d.b0) + le32(d.c0) + le32(d.d0); });
      break;
    case F_SHA1:
      check_digest<phosg::SHA1>(r, out, fn, b, pat, EVP_sha1(), 20, [](const phosg::SHA1& d) {
        std::string s;
        for (int i = 0; i < 5; i++) s += be32(d.h[i]);
        return s;
      });
      break;
    case F_SHA256:
      check_digest<phosg::SHA256>(r, out, fn, b, pat, EVP_sha256(), 32, [](const phosg::SHA256& d) {
        std::string s;
        for (int i = 0; i < 8; i++) s += be32(d.h[i]);
        return s;
      });
      break;
    case F_CRC32: {
      uint32_t ref = ref_crc32(b.p, b.n);
      r.xchecked++;
      uint32_t got = phosg::crc32(b.p, b.n);
      uint32_t got0 = phosg::crc32(b.p, b.n, 0);
      out.line("crc32", len, pat, vf::fmt("%08x", ref), vf::fmt("%08x", got));
      r.nontriv();
      if (got != ref || got0 != ref) r.fail("crc32:wrong-value", [&] { return vf::fmt("crc32 of %zu bytes (%s fill) = %08X (explicit seed 0: %08X), zlib gives %08X", len, pat_name[pat], got, got0, ref); });
      else r.ok("crc32:equals-zlib");
      break;
    }
    case F_FNV32: {
      uint32_t ref = ref_fnv32(b.p, b.n);
      uint32_t got = phosg::fnv1a32(b.p, b.n);
      std::string as_string(reinterpret_cast<const char*>(b.p), b.n);
      uint32_t got_s = phosg::fnv1a32(as_string);
      out.line("fnv1a32", len, pat, vf::fmt("%08x", ref), vf::fmt("%08x", got));
      r.nontriv();
      if (got != ref) r.fail("fnv1a32:wrong-value", [&] { return vf::fmt("fnv1a32 of %zu bytes (%s fill) = %08X, recurrence gives %08X", len, pat_name[pat], got, ref); });
      else if (got_s != ref) r.fail("fnv1a32:string-overload", [&] { return vf::fmt("fnv1a32(std::string of %zu bytes, %s fill) = %08X, recurrence gives %08X", len, pat_name[pat], got_s, ref); });
      else r.ok("fnv1a32:equals-recurrence");
      break;
    }
    default: {
      uint64_t ref = ref_fnv64(b.p, b.n);
      uint64_t got = phosg::fnv1a64(b.p, b.n);
      std::string as_string(reinterpret_cast<const char*>(b.p), b.n);
      uint64_t got_s = phosg::fnv1a64(as_string);
      out.line("fnv1a64", len, pat, vf::fmt("%016llx", (unsigned long long)ref), vf::fmt("%016llx", (unsigned long long)got));
      r.nontriv();
      if (got != ref) r.fail("fnv1a64:wrong-value", [&] { return vf::fmt("fnv1a64 of %zu bytes (%s fill) = %016llX, recurrence gives %016llX", len, pat_name[pat], (unsigned long long)got, (unsigned long long)ref); });
      else if (got_s != ref) r.fail("fnv1a64:string-overload", [&] { return vf::fmt("fnv1a64(std::string of %zu bytes, %s fill) = %016llX, recurrence gives %016llX", len, pat_name[pat], (unsigned long long)got_s, (unsigned long long)ref); });
      else r.ok("fnv1a64:equals-recurrence");
      break;
    }
  }
}

void run_lengths(vf::Run& r, const std::vector<size_t>& lens) {
  Out out;
  out.open(r);
  for (size_t len : lens)
    for (int pat = 0; pat < NPAT; pat++)
      for (int fn = 0; fn < NFN; fn++) {
        if (!r.take()) continue;
        check_one(r, out, fn, len, pat);
      }
}

// chaining at every split point of one input
void run_chain(vf::Run& r, const std::vector<size_t>& lens) {
  for (size_t len : lens)
    for (int pat = 0; pat < NPAT; pat++)
      for (size_t k = 0; k <= len; k++)
        for (int fn = F_CRC32; fn <= F_FNV64; fn++) {
          if (!r.take()) continue;
          Buf whole(len, pat);
          // prefix and suffix live in their own exact-size allocations
          Buf a(k, P_ZERO), b(len - k, P_ZERO);
          if (k) memcpy(a.p, whole.p, k);
          if (len - k) memcpy(b.p, whole.p + k, len - k);
          r.note(std::string(fn_name[fn]) + "-chain");
          if (r.wants_desc()) r.desc(vf::fmt("%s chained over %zu + %zu bytes (%s fill)", fn_name[fn], k, len - k, pat_name[pat]));
          r.nontriv();
          if (fn == F_CRC32) {
            uint32_t ref = ref_crc32(whole.p, len);
            uint32_t refc = ref_crc32(b.p, len - k, ref_crc32(a.p, k));  // zlib's own chaining agrees with its one-shot value
            if (refc != ref) { fprintf(stderr, "C10: zlib chaining disagrees with itself\n"); _exit(3); }
            r.xchecked++;
            uint32_t got = phosg::crc32(b.p, len - k, phosg::crc32(a.p, k));
            if (got != ref) r.fail("crc32:chain", [&] { return vf::fmt("crc32(b, %zu, crc32(a, %zu)) = %08X but crc32 of the %zu-byte concatenation (%s fill) is %08X (zlib)", len - k, k, got, len, pat_name[pat], ref); });
            else r.ok("crc32:chain-equals-whole");
          } else if (fn == F_FNV32) {
            uint32_t ref = ref_fnv32(whole.p, len);
            uint32_t got = phosg::fnv1a32(b.p, len - k, phosg::fnv1a32(a.p, k));
            std::string sa(reinterpret_cast<const char*>(a.p), k), sb(reinterpret_cast<const char*>(b.p), len - k);
            uint32_t got_s = phosg::fnv1a32(sb, phosg::fnv1a32(sa));
            if (got == ref && got_s != ref) r.fail("fnv1a32:chain-string-overload", [&] { return vf::fmt("fnv1a32(std::string b (%zu bytes), fnv1a32(std::string a (%zu bytes))) = %08X but the concatenation (%s fill) hashes to %08X", len - k, k, got_s, pat_name[pat], ref); });
            else if (got != ref) r.fail("fnv1a32:chain", [&] { return vf::fmt("fnv1a32(b, %zu, fnv1a32(a, %zu)) = %08X but the %zu-byte concatenation (%s fill) hashes to %08X", len - k, k, got, len, pat_name[pat], ref); });
            else r.ok("fnv1a32:chain-equals-whole");
          } else {
            uint64_t ref = ref_fnv64(whole.p, len);
            uint64_t got = phosg::fnv1a64(b.p, len - k, phosg::fnv1a64(a.p, k));
            std::string sa(reinterpret_cast<const char*>(a.p), k), sb(reinterpret_cast<const char*>(b.p), len - k);
            uint64_t got_s = phosg::fnv1a64(sb, phosg::fnv1a64(sa));
            if (got == ref && got_s != ref) r.fail("fnv1a64:chain-string-overload", [&] { return vf::fmt("fnv1a64(std::string b (%zu bytes), fnv1a64(std::string a (%zu bytes))) = %016llX but the concatenation (%s fill) hashes to %016llX", len - k, k, (unsigned long long)got_s, pat_name[pat], (unsigned long long)ref); });
            else if (got != ref) r.fail("fnv1a64:chain", [&] { return vf::fmt("fnv1a64(b, %zu, fnv1a64(a, %zu)) = %016llX but the %zu-byte concatenation (%s fill) hashes to %016llX", len - k, k, (unsigned long long)got, len, pat_name[pat], (unsigned long long)ref); });
            else r.ok("fnv1a64:chain-equals-whole");
          }
        }
}

}  // namespace

VF_SECTION(lengths, 16, 16, 120) {
  std::vector<size_t> lens;
  size_t top = r.thorough() ? 4096 : 300;
  for (size_t n = 0; n <= top; n++) lens.push_back(n);
  run_lengths(r, lens);
  r.bound = vf::fmt("6 functions x every length 0..%zu x 4 fill patterns (00, FF, counter, LCG); digests via state words, bin(), hex(), std::string overload", top);
}

VF_SECTION(boundaries, 16, 16, 180) {
  std::vector<size_t> lens = {511, 512, 513, 1023, 1024, 1025, 4095, 4096, 4097, 65535, 65536, 65537, (1u << 20) - 1, 1u << 20, (1u << 20) + 1};
  run_lengths(r, lens);
  r.bound = "6 functions x block-boundary sizes {511..513, 1023..1025, 4095..4097, 65535..65537, 2^20-1..2^20+1} x 4 fill patterns";
}

VF_SECTION(chain, 16, 16, 120) {
  std::vector<size_t> lens;
  for (size_t n = 0; n <= (r.thorough() ? 300u : 96u); n++) lens.push_back(n);
  if (r.thorough()) lens.push_back(1025);
  run_chain(r, lens);
  r.bound = r.thorough() ? "crc32, fnv1a32, fnv1a64 (pointer and std::string overloads): every split point of every input of length 0..300 and 1025 x 4 fill patterns"
                         : "crc32, fnv1a32, fnv1a64 (pointer and std::string overloads): every split point of every input of length 0..96 x 4 fill patterns";
}

VF_MAIN()
