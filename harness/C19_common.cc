// C19: the non-template part of the harness (execution contexts, verdicts, the relation sweep) and main().
#include "C19_common.hh"

namespace c19 {

static Res noexcept_frame(const Body& body) noexcept { return body(); }

static Res unwinding_body(const Body& body, int amb) {
  Res res;
  try {
    OnExit g{[&] { errno = amb; res = body(); }};
    // the exception in flight is an earlier *failure* - the realistic case ("let the first failure win")
    throw expectation_failed("outer failure in flight", "outer.cc", 1);
  } catch (const expectation_failed&) {
  }
  return res;
}

Res run_ctx(int ctx, int amb, const Body& body) {
  Res res;
  switch (ctx) {
    case PLAIN:
      errno = amb;
      res = body();
      break;
    case IN_CATCH:
      try {
        throw std::runtime_error("outer");
      } catch (const std::runtime_error&) {
        errno = amb;
        res = body();
      }
      break;
    case UNWINDING:
      res = unwinding_body(body, amb);
      break;
    case CATCH_UNWINDING:
      try {
        throw std::runtime_error("outer");
      } catch (const std::runtime_error&) {
        try {
          OnExit g{[&] { errno = amb; res = body(); }};
          throw OuterFailure();
        } catch (const OuterFailure&) {
        }
      }
      break;
    case DOUBLE_UNWINDING:
      try {
        OnExit g1{[&] {
          try {
            OnExit g2{[&] { errno = amb; res = body(); }};
            throw std::logic_error("second exception in flight");
          } catch (const std::logic_error&) {
          }
        }};
        throw std::runtime_error("first exception in flight");
      } catch (const std::runtime_error&) {
      }
      break;
    case STD_FUNCTION: {
      std::function<void()> f = [&]() noexcept(false) { errno = amb; res = body(); };
      f();
      break;
    }
    case NOEXCEPT_FRAME:
      errno = amb;
      res = noexcept_frame(body);
      break;
    case THREAD: {
      std::thread t([&] { errno = amb; res = body(); });
      t.join();
      break;
    }
    case THREAD_FROM_UNWINDING:
      try {
        OnExit g{[&] {
          std::thread t([&] { errno = amb; res = body(); });
          t.join();
        }};
        throw std::runtime_error("outer");
      } catch (const std::runtime_error&) {
      }
      break;
    case THREAD_UNWINDING: {
      std::thread t([&] { res = unwinding_body(body, amb); });
      t.join();
      break;
    }
  }
  return res;
}

const std::string kDangling = "expectation_failed:msg-dangling";

bool judge_payload(vf::Run& r, const std::string& k, const Res& res, const Site& site, const std::vector<std::string>& msg_parts, const std::string* exact_msg, const Desc& d) {
  if (res.msg_dangling || res.file_dangling) {
    r.fail(kDangling, [&] { return d() + vf::fmt(": the expectation_failed carries a %s pointer into memory that is already freed when the handler runs; what()=", res.msg_dangling ? "msg" : "file") + vf::show(res.what.substr(0, 200)); });
    return false;
  }
  if (res.msg_null || res.file_null) {
    r.fail(k + ":message", [&] { return d() + ": msg/file pointer is null"; });
    return false;
  }
  if (res.file != site.file || res.line != site.line) {
    r.fail(k + ":call-site", [&] { return d() + vf::fmt(": carries %s:%llu, the call site is %s:%llu (msg=%s)", vf::show(res.file.substr(0, 200)).c_str(), (unsigned long long)res.line, vf::show(std::string(site.file).substr(0, 200)).c_str(), (unsigned long long)site.line, vf::show(res.msg.substr(0, 200)).c_str()); });
    return false;
  }
  bool msg_ok = exact_msg ? (res.msg == *exact_msg) : !res.msg.empty();
  for (auto& p : msg_parts) msg_ok = msg_ok && contains(res.msg, p);
  // what() is what a test runner prints: it has to name the site and the message
  msg_ok = msg_ok && contains(res.what, res.msg) && contains(res.what, res.file) && contains(res.what, std::to_string(res.line));
  if (!msg_ok) {
    r.fail(k + ":message", [&] {
      std::string want = exact_msg ? vf::show(exact_msg->substr(0, 200)) : std::string("a non-empty text");
      for (auto& p : msg_parts) want += " containing " + vf::show(p);
      return d() + ": msg=" + vf::show(res.msg.substr(0, 300)) + " what()=" + vf::show(res.what.substr(0, 400)) + "; expected msg " + want + " and what() naming file, line and msg";
    });
    return false;
  }
  return true;
}

bool judge_ctx(vf::Run& r, int ctx, const Res& res, const Desc& d) {
  if (res.seen_uncaught != ctx_uncaught(ctx) || res.seen_current != ctx_current(ctx)) {
    r.fail("harness:context-not-established", [&] { return d() + vf::fmt(": uncaught_exceptions()=%d current_exception=%d, context needs %d/%d", res.seen_uncaught, (int)res.seen_current, ctx_uncaught(ctx), (int)ctx_current(ctx)); });
    return false;
  }
  return true;
}

bool judge(vf::Run& r, const std::string& k, int ctx, bool must_fail, const Res& res, const Site& site, const std::vector<std::string>& msg_parts, const std::string* exact_msg, const Desc& d0) {
  Desc d = [&] {
    std::string did = res.kind == Res::SILENT ? "did not throw" : res.kind == Res::FAILED ? "threw expectation_failed" : "threw " + res.other;
    return d0() + vf::fmt(" [%s]: relation is %s, helper %s", ctx_name(ctx), must_fail ? "false" : "true", did.c_str());
  };
  if (!judge_ctx(r, ctx, res, d)) return false;
  if (res.ill_formed == 2) {
    r.fail(k + ":ill-formed-for-these-types", [&] { return d0() + ": the macro call does not compile for these operand / predicate types although the relation itself is a valid C++ expression whose value converts implicitly to bool (feature test with a requires-expression; the call was not made)"; });
    return false;
  }
  if (res.ill_formed == 1) {
    r.ok("not applicable: the relation's value converts to bool only explicitly, the call is ill-formed on this tree (not made)");
    return true;
  }
  if (res.kind == Res::OTHER) {
    r.fail(k + ":wrong-exception-type", d);
    return false;
  }
  if (must_fail && res.kind == Res::SILENT) {
    r.fail(k + ":silent-on-false", d);
    return false;
  }
  if (!must_fail && res.kind == Res::FAILED) {
    r.fail(k + ":throws-on-true", d);
    return false;
  }
  if (must_fail && !judge_payload(r, k, res, site, msg_parts, exact_msg, d)) return false;
  r.ok(std::string(ctx_tag(ctx)) + (must_fail ? ": throws-on-false" : ": silent-on-true"));
  return true;
}

bool judge_held(vf::Run& r, const std::string& k, const Res& then, const Desc& d) {
  if (!then.held) return true;
  Res now;
  try {
    std::rethrow_exception(then.held);
  } catch (const expectation_failed& e) {
    capture(now, e, false);
  } catch (...) {
    now.kind = Res::OTHER;
  }
  if (now.kind != Res::FAILED) {
    r.fail(k + ":held-exception-changed", [&] { return d() + ": the stored exception is no longer an expectation_failed"; });
    return false;
  }
  if (now.msg_dangling || now.file_dangling) {
    if (then.msg_dangling || then.file_dangling) return false;  // already reported when it was caught
    r.fail(k + ":held-exception-changed", [&] { return d() + ": msg/file of the exception object kept alive by std::exception_ptr was valid when it was caught and points into freed memory after later helper calls (was msg=" + vf::show(then.msg.substr(0, 200)) + ")"; });
    return false;
  }
  if (then.msg_dangling || then.file_dangling) return false;
  if (now.msg != then.msg || now.file != then.file || now.line != then.line || now.what != then.what) {
    r.fail(k + ":held-exception-changed", [&] {
      return d() + ": an exception object kept alive changed after later helper calls: was " + vf::show(then.file.substr(0, 100)) + ":" + std::to_string(then.line) + " msg=" + vf::show(then.msg.substr(0, 200)) + " what=" + vf::show(then.what.substr(0, 300)) +
          ", now " + vf::show(now.file.substr(0, 100)) + ":" + std::to_string(now.line) + " msg=" + vf::show(now.msg.substr(0, 200)) + " what=" + vf::show(now.what.substr(0, 300));
    });
    return false;
  }
  return true;
}

const char* const rel_names[8] = {"expect", "expect_eq", "expect_ne", "expect_msg", "expect_gt", "expect_ge", "expect_lt", "expect_le"};
const std::string kCustomMsg = "custom message: a and b differ (100% sure)";
const std::vector<std::string>& rel_parts(int rel) {
  static const std::vector<std::string> ab = {"a", "b"}, eq = {"a == b"}, none = {};
  return rel == 0 ? eq : rel == 3 ? none : ab;
}

void sweep_relations(vf::Run& r, const RelSweep& s, const std::vector<int>& ctxs) {
  r.note(std::string("relations ") + s.tname);
  for (int ctx : ctxs) {
    for (int rel = 0; rel < s.nrel; rel++) {
      for (size_t i = 0; i < s.na; i++) {
        for (size_t j = 0; j < s.nb; j++) {
          if (!r.take()) continue;
          Desc d = [&] { return vf::fmt("%s<%s>(%s, %s)", rel_names[rel], s.tname, s.show_a(i).c_str(), s.show_b(j).c_str()); };
          if (r.wants_desc()) r.desc(d() + " [" + ctx_name(ctx) + "]");
          bool truth = false;
          Site site;
          Res res = run_ctx(ctx, r.ambient_errno(), [&] { return s.call(rel, i, j, truth, site); });
          r.nontriv();
          judge(r, rel_names[rel], ctx, !truth, res, site, rel_parts(rel), rel == 3 ? &kCustomMsg : nullptr, d);
        }
      }
    }
  }
}

void sweep_predicates(vf::Run& r, const PredSweep& s, const std::vector<int>& ctxs) {
  r.note(std::string("predicates ") + s.tname);
  static const char* forms[] = {"expect", "expect_msg", "expect_generic", "expect(!v)"};
  static const std::string m1 = "value is zero: 50% of %s", m2 = "generic %d%n";
  // forms that do not compile for this predicate type: one case each
  for (int form = 0; form < 4; form++) {
    if (s.wf[form]) continue;
    if (!r.take()) continue;
    if (r.wants_desc()) r.desc(vf::fmt("%s<%s>: the call is ill-formed", forms[form], s.tname));
    r.nontriv();
    if (s.implicit_bool) r.fail(std::string(form == 3 ? "expect" : forms[form]) + ":ill-formed-for-these-types", [&] { return vf::fmt("%s with a predicate of type %s does not compile although the type converts implicitly to bool (feature test with a requires-expression; the call was not made)", forms[form], s.tname); });
    else r.ok("not applicable: the predicate type converts to bool only contextually, the call is ill-formed on this tree (not made)");
  }
  for (int ctx : ctxs) {
    for (int form = 0; form < 4; form++) {
      if (!s.wf[form]) continue;
      for (size_t i = 0; i < s.n; i++) {
        if (!r.take()) continue;
        Desc d = [&] { return vf::fmt("%s<%s>(%s)", forms[form], s.tname, s.show(i).c_str()); };
        if (r.wants_desc()) r.desc(d() + " [" + ctx_name(ctx) + "]");
        bool truth = false;
        Site site;
        Res res = run_ctx(ctx, r.ambient_errno(), [&] { return s.call(form, i, truth, site); });
        r.nontriv();
        static const std::vector<std::string> p0 = {"v"}, none = {}, p3 = {"!v"};
        judge(r, form == 3 ? "expect" : forms[form], ctx, !truth, res, site, form == 0 ? p0 : form == 3 ? p3 : none, form == 1 ? &m1 : form == 2 ? &m2 : nullptr, d);
      }
    }
  }
}

}  // namespace c19

VF_MAIN()
