// C03 (part): the 8-bit wrappers - operation histories, write paths on objects that already hold a value,
// conversions from other arithmetic types.  Same machinery as for the wider wrappers (C03_hist.hh,
// C03_pairs.hh, C03_conv.hh).  See C03_w8.cc for why the 8-bit instantiations are part of the check.
#define C03_NO_FORCE_INLINE
#include "C03_conv.hh"
#include "C03_hist.hh"
#include "C03_pairs.hh"

VF_SECTION(w8hist, 16, 16, 120) {
#define X(W, T, O) drive_hist<W, T>(r, #W, O);
  C03_W8(X)
#undef X
  r.bound = std::string(r.thorough() ? "[thorough: 6 boundary values instead of 5 and EVERY defined shift count 0..31: 218^3 histories per type] " : "") +
      "6 8-bit wrapper types x every history of 3 operations on 2 objects over ({store, converted_endian::operator=, w = v, store_raw, ctor} x 5 boundary values {0, 1, 0xFF, 0x80, 0x08} + += 1, -= 1, *= 2, *= -1, /= 2, %= 3, &= 0x0F, |= 0x80, ^= 0xFF, <<= c and >>= c for c in {1, 7, 8, 31} + ++x, x++, --x, x-- + copy from the other object + self-assignment): 96^3 histories per type; both objects compared with native shadows after every step";
}

VF_SECTION(w8write, 8, 8, 120) {
  Arena ar;
#define X(W, T, O)                                                     \
  {                                                                    \
    auto pv = pair_values<T>();                                        \
    drive_pairs<W, T>(r, ar, #W, O, pv, pv, NSETTINGS);                \
    std::vector<T> all;                                                \
    for (unsigned x = 0; x < 0x100; x++) all.push_back(from_bits<T>(x)); \
    drive_pairs<W, T>(r, ar, #W, O, all, all, 1);                      \
    drive_conv_all<W, T>(r, #W, O);                                    \
  }
  C03_W8(X)
#undef X
  r.bound = "6 8-bit wrapper types x 11 write paths x all ordered (held value, written value) pairs of the boundary set x 12 placements/contexts; ALL 256 x 256 (held, written) pairs x 11 write paths at one placement; {W(s), w = s, converted_endian::operator=(s), store(s)} x 12 source types x every 2^k-1, 2^k, 2^k+1 and negative of the source type (43 boundary values for float/double sources)";
}
