// C09 — data strings (format_data_string <-> parse_data_string) and hex dumps (format_data/print_data)
// decode back.
//
// E-ENUM over the real functions:
//   roundtrip   format_data_string -> parse_data_string over all <=2-byte strings x every mask x flags,
//               3..5-byte strings over a 16-symbol metacharacter set, long patterns up to 600 bytes
//   total       parse_data_string on *every* text up to length 5/6 over a 24-symbol alphabet, text held in
//               an exact-size NUL-terminated heap block (ASan = out-of-bounds oracle, supervisor = hang
//               oracle), compared with a reference evaluator of the documented syntax where it applies
//   constructs  sequences of documented constructs vs the reference evaluator
//   dump*       format_data / print_data decoded by an independent dump parser (address, hex, ASCII,
//               float/double columns, colour highlighting, zero-line collapsing, iovec partitions)
#include <inttypes.h>
#include <math.h>
#include <stdio.h>
#include <string.h>
#include <sys/stat.h>
#include <sys/uio.h>
#include <unistd.h>

#include <string>
#include <vector>

#include "Strings.hh"
#include "vf.hh"

using std::string;
using std::vector;

namespace {

string hexs(const string& s) {
  string o;
  char b[4];
  for (unsigned char c : s) {
    snprintf(b, sizeof(b), "%02x", c);
    o += b;
  }
  return o;
}
string hexs(const void* p, size_t n) { return hexs(string((const char*)p, n)); }

// ---------- exact-size text for parse_data_string ----------------------------------------------------
// parse_data_string takes a const std::string& and walks c_str().  A real std::string keeps short texts
// in its 16-byte in-object buffer, where a read past the terminator is invisible to ASan.  ExactStr
// builds a libstdc++ std::string representation {pointer, length, capacity} whose character pointer is
// a malloc(len+1) block, so the byte after the terminator is an ASan redzone.  The object is only ever
// used through a const reference and never destroyed as a std::string.  selftest() verifies the layout
// assumption at run time; if it does not hold the harness falls back to ordinary strings and says so.
struct ExactStr {
  alignas(std::string) unsigned char obj[sizeof(std::string)];
  char* buf;
  explicit ExactStr(const string& text) {
    static_assert(sizeof(std::string) == 32, "libstdc++ SSO std::string layout expected");
    buf = (char*)malloc(text.size() + 1);
    memcpy(buf, text.data(), text.size());
    buf[text.size()] = 0;
    struct {
      char* p;
      size_t len;
      size_t cap;
      size_t pad;
    } l{buf, text.size(), text.size(), 0};
    memcpy(obj, &l, sizeof(l));
  }
  ExactStr(const ExactStr&) = delete;
  ~ExactStr() { free(buf); }
  const std::string& str() const { return *reinterpret_cast<const std::string*>(obj); }
  static bool selftest() {
    for (const char* t : {"", "ab", "exactly-15-char", "a text that is longer than the small-string buffer"}) {
      ExactStr e{string(t)};
      const std::string& s = e.str();
      if (s.size() != strlen(t) || s.c_str() != e.buf || s.data() != e.buf || s != string(t)) return false;
    }
    return true;
  }
};

// ---------- reference evaluator of the documented data-string syntax ------------------------------------
// Written from the comments in parse_data_string and the example in StringsTest:
//   hex digit pairs are bytes; blanks and newlines separate; `$` toggles big-endian for what follows
//   (initially little-endian); `#`, `##`, `###`, `####` + decimal number = 8/16/32/64-bit integer
//   (negative = two's complement); `%` + number = float, `%%` = double; "..." = bytes with \n \r \t \"
//   \' \\ escapes; '...' = each character widened to 16 bits; `//` to end of line and `/* */` are
//   comments; `?` toggles the mask for the bytes that follow (initially enabled = 0xFF).
// Everything the documentation does not settle makes the evaluator answer "don't care": a lone hex
// digit, characters that are not part of any construct, numbers that are not plain decimals or do not
// fit the width, unknown escapes, unterminated strings/comments, `/*/`, more than four `#`, `<file>`.
struct Eval {
  bool dontcare = false;
  const char* why = "";
  string data, mask;
  string data_alt;  // identical except floats converted via double (both conversions are accepted)
};

bool is_hex(char c) { return (c >= '0' && c <= '9') || (c >= 'a' && c <= 'f') || (c >= 'A' && c <= 'F'); }
int hexval(char c) { return (c <= '9') ? c - '0' : ((c | 0x20) - 'a' + 10); }
bool is_dec(char c) { return c >= '0' && c <= '9'; }

Eval ref_eval(const string& t) {
  Eval e;
  bool big = false, mask_on = true;
  size_t i = 0, n = t.size();
  auto dc = [&](const char* why) {
    e.dontcare = true;
    e.why = why;
    return e;
  };
  auto emit = [&](const void* p, size_t k, bool swap_for_big, const void* alt = nullptr) {
    const unsigned char* b = (const unsigned char*)p;
    const unsigned char* a = (const unsigned char*)(alt ? alt : p);
    for (size_t j = 0; j < k; j++) {
      size_t src = (swap_for_big && big) ? (k - 1 - j) : j;  // p is little-endian
      e.data.push_back((char)b[src]);
      e.data_alt.push_back((char)a[src]);
      e.mask.push_back(mask_on ? '\xFF' : '\x00');
    }
  };
  while (i < n) {
    char c = t[i];
    if (c == 0) return dc("embedded NUL");
    if (c == ' ' || c == '\n' || c == '\t' || c == '\r') {
      i++;
    } else if (is_hex(c)) {
      if (i + 1 >= n || !is_hex(t[i + 1])) return dc("lone hex digit");
      unsigned char b = (unsigned char)(hexval(c) * 16 + hexval(t[i + 1]));
      emit(&b, 1, false);
      i += 2;
    } else if (c == '?') {
      mask_on = !mask_on;
      i++;
    } else if (c == '$') {
      big = !big;
      i++;
    } else if (c == '#') {
      size_t k = 0;
      while (i < n && t[i] == '#') {
        k++;
        i++;
      }
      if (k > 4) return dc("more than four #");
      bool neg = false;
      if (i < n && t[i] == '-') {
        neg = true;
        i++;
      }
      size_t d0 = i;
      while (i < n && is_dec(t[i])) i++;
      size_t nd = i - d0;
      if (nd == 0) return dc("# without a decimal number");
      if (nd > 1 && t[d0] == '0') return dc("leading zero (octal?)");
      if (nd > 20) return dc("number too long");
      if (i < n && (t[i] == 'x' || t[i] == 'X') && nd == 1 && t[d0] == '0') return dc("0x prefix");
      unsigned __int128 mag = 0;
      for (size_t j = d0; j < i; j++) mag = mag * 10 + (unsigned)(t[j] - '0');
      unsigned bits = 8u << (k - 1);
      unsigned __int128 lim_pos = (unsigned __int128)1 << bits, lim_neg = (unsigned __int128)1 << (bits - 1);
      if (neg ? (mag > lim_neg) : (mag >= lim_pos)) return dc("number does not fit the width");
      uint64_t v = (uint64_t)mag;
      if (neg) v = (uint64_t)0 - v;
      unsigned char le[8];
      for (unsigned j = 0; j < 8; j++) le[j] = (unsigned char)(v >> (8 * j));
      emit(le, bits / 8, true);
    } else if (c == '%') {
      bool dbl = false;
      i++;
      if (i < n && t[i] == '%') {
        dbl = true;
        i++;
      }
      size_t s0 = i;
      if (i < n && t[i] == '-') i++;
      size_t m0 = i;
      while (i < n && is_dec(t[i])) i++;
      size_t int_digits = i - m0, frac_digits = 0;
      if (i < n && t[i] == '.') {
        size_t f0 = i + 1, j = f0;
        while (j < n && is_dec(t[j])) j++;
        frac_digits = j - f0;
        if (int_digits + frac_digits > 0) i = j;
      }
      if (int_digits + frac_digits == 0) return dc("% without a decimal number");
      if (int_digits > 1 && t[m0] == '0') {
        // fine for floats ("007.5" is decimal), nothing to do
      }
      if (int_digits == 1 && t[m0] == '0' && frac_digits == 0 && i < n && (t[i] == 'x' || t[i] == 'X')) return dc("hex float");
      if (i < n && (t[i] == 'e' || t[i] == 'E')) {
        size_t j = i + 1;
        if (j < n && (t[j] == '-' || t[j] == '+')) j++;
        size_t x0 = j;
        while (j < n && is_dec(t[j])) j++;
        if (j > x0) i = j;  // exponent only counts with digits; otherwise the number ended before the 'e'
      }
      string tok = t.substr(s0, i - s0);
      if (dbl) {
        double v = strtod(tok.c_str(), nullptr);
        emit(&v, 8, true);
      } else {
        float v = strtof(tok.c_str(), nullptr);
        float v2 = (float)strtod(tok.c_str(), nullptr);
        emit(&v, 4, true, &v2);
      }
    } else if (c == '"' || c == '\'') {
      bool wide = (c == '\'');
      i++;
      for (;;) {
        if (i >= n) return dc("unterminated string");
        char ch = t[i];
        if (ch == 0) return dc("embedded NUL");
        if (ch == c) {
          i++;
          break;
        }
        if (ch == '\\') {
          if (i + 1 >= n) return dc("backslash at end of text");
          char x = t[i + 1];
          if (x == 'n') ch = '\n';
          else if (x == 'r') ch = '\r';
          else if (x == 't') ch = '\t';
          else if (x == '"' || x == '\'' || x == '\\') ch = x;
          else return dc("undocumented escape");
          i += 2;
        } else i++;
        if (wide) {
          if ((unsigned char)ch >= 0x80) return dc("non-ASCII character in a wide string");
          unsigned char le[2] = {(unsigned char)ch, 0};
          emit(le, 2, true);
        } else emit(&ch, 1, false);
      }
    } else if (c == '/') {
      if (i + 1 < n && t[i + 1] == '/') {
        size_t nl = t.find('\n', i);
        i = (nl == string::npos) ? n : nl + 1;
      } else if (i + 1 < n && t[i + 1] == '*') {
        if (i + 2 < n && t[i + 2] == '/') return dc("/*/");
        size_t cl = t.find("*/", i + 2);
        if (cl == string::npos) return dc("unterminated comment");
        i = cl + 2;
      } else return dc("lone slash");
    } else return dc("character outside the documented syntax");
  }
  return e;
}

struct Parsed {
  string oc, what;       // outcome of the call with a mask pointer
  string data, mask;     // result with a mask pointer
  string data_nomask;    // result without
  string oc2;
};

// Runs the real parser on an exact-size copy of the text, with and without a mask pointer.
Parsed run_parser(const string& text, bool exact, uint64_t flags = 0, bool also_without_mask = true) {
  Parsed p;
  p.oc2 = "ok";
  if (exact) {
    ExactStr es(text);
    p.oc = vf::outcome([&] { p.data = phosg::parse_data_string(es.str(), &p.mask, flags); }, &p.what);
    if (also_without_mask) p.oc2 = vf::outcome([&] { p.data_nomask = phosg::parse_data_string(es.str(), nullptr, flags); });
  } else {
    p.oc = vf::outcome([&] { p.data = phosg::parse_data_string(text, &p.mask, flags); }, &p.what);
    if (also_without_mask) p.oc2 = vf::outcome([&] { p.data_nomask = phosg::parse_data_string(text, nullptr, flags); });
  }
  return p;
}

// Totality + agreement with the reference evaluator; returns true if the case passed.
bool check_parse(vf::Run& r, const string& text, bool exact, const char* okprefix) {
  Parsed p = run_parser(text, exact);
  auto ctx = [&] { return "parse_data_string(" + vf::show(text) + ")"; };
  if (p.oc != "ok" || p.oc2 != "ok") {
    r.fail("parse_data_string:throws", [&] { return ctx() + " threw " + (p.oc != "ok" ? p.oc : p.oc2) + " (" + p.what + "); without ALLOW_FILES the parser accepts any text"; });
    return false;
  }
  if (p.data != p.data_nomask) {
    r.fail("parse_data_string:mask-pointer-changes-data", [&] { return ctx() + " returns " + hexs(p.data) + " with a mask pointer and " + hexs(p.data_nomask) + " without"; });
    return false;
  }
  bool mask_ok = p.mask.size() == p.data.size();
  for (unsigned char m : p.mask) mask_ok &= (m == 0x00 || m == 0xFF);
  if (!mask_ok) {
    r.fail("parse_data_string:mask-shape", [&] { return ctx() + vf::fmt(" returns %zu data bytes but mask ", p.data.size()) + hexs(p.mask) + " (must be one 00/FF byte per data byte)"; });
    return false;
  }
  Eval e = ref_eval(text);
  if (e.dontcare) {
    r.ok(string(okprefix) + "dont-care(" + e.why + ")");
    return true;
  }
  r.nontriv();
  if (p.data != e.data && p.data != e.data_alt) {
    r.fail("parse_data_string:wrong-bytes", [&] { return ctx() + " == " + hexs(p.data) + ", documented syntax defines " + hexs(e.data); });
    return false;
  }
  if (p.mask != e.mask) {
    r.fail("parse_data_string:wrong-mask", [&] { return ctx() + " mask == " + hexs(p.mask) + ", documented syntax defines " + hexs(e.mask) + " (data " + hexs(e.data) + ")"; });
    return false;
  }
  r.ok(string(okprefix) + (e.data.empty() ? "documented: no bytes" : "documented: bytes match"));
  return true;
}

// ---------- scratch directory (empty; any attempt to open a file from it fails loudly) ---------------------

struct ScratchDir {
  string path;
  int old_cwd = -1;
  explicit ScratchDir(const char* tag) {
    const char* root = getenv("VF_ROOT");
    string base = string(root ? root : "/tmp") + "/build/scratch";
    mkdir(base.c_str(), 0755);
    base += "/C09";
    mkdir(base.c_str(), 0755);
    path = base + vf::fmt("/%s.%d", tag, (int)getpid());
    mkdir(path.c_str(), 0755);
    old_cwd = open(".", O_RDONLY | O_DIRECTORY);
    if (chdir(path.c_str()) != 0) {
      perror("C09: chdir scratch");
      _exit(3);
    }
  }
  ~ScratchDir() {
    if (old_cwd >= 0) {
      if (fchdir(old_cwd) != 0) {}
      close(old_cwd);
    }
    rmdir(path.c_str());
  }
};

// ---------- format_data_string round trip ----------------------------------------------------------------------

struct RT {
  vf::Run& r;
  bool exact;
};

// on[i]: byte i enabled; full_checks: also run the (pointer, size) overload on exact-size heap copies and the
// reference evaluator as a second reader of the produced text (parts A and C)
void roundtrip_case(RT& c, const string& data, bool with_mask, const vector<bool>& on, bool full_checks) {
  vf::Run& r = c.r;
  string mask;
  if (with_mask) {
    for (size_t i = 0; i < data.size(); i++) {
      static const unsigned char onv[3] = {0x01, 0x80, 0xFF};
      mask.push_back(on[i] ? (char)onv[i % 3] : '\0');
    }
  }
  for (uint64_t flags : {(uint64_t)0, (uint64_t)phosg::FormatDataFlags::HEX_ONLY}) {
    string text, what;
    string oc = vf::outcome([&] { text = phosg::format_data_string(data, with_mask ? &mask : nullptr, flags); }, &what);
    auto ctx = [&] { return "format_data_string(data=" + hexs(data) + ", mask=" + (with_mask ? hexs(mask) : string("none")) + vf::fmt(", flags=%llu)", (unsigned long long)flags); };
    if (oc != "ok") {
      r.fail("format_data_string:throws", [&] { return ctx() + " threw " + oc + " (" + what + ")"; });
      continue;
    }
    if (full_checks) {
      // pointer overload on exact-size heap copies
      char* d = (char*)malloc(data.size() ? data.size() : 1);
      char* m = (char*)malloc(data.size() ? data.size() : 1);
      memcpy(d, data.data(), data.size());
      if (with_mask) memcpy(m, mask.data(), mask.size());
      string text2;
      string oc2 = vf::outcome([&] { text2 = phosg::format_data_string((const void*)d, data.size(), with_mask ? (const void*)m : nullptr, flags); });
      free(d);
      free(m);
      if (oc2 != "ok" || text2 != text) {
        r.fail("format_data_string:overloads-differ", [&] { return ctx() + " == " + vf::show(text) + " but the (pointer, size) overload gives " + (oc2 == "ok" ? vf::show(text2) : oc2); });
        continue;
      }
    }
    bool quoted = !text.empty() && text[0] == '"';
    if (flags && text.find_first_of("\"'") != string::npos) {
      r.fail("format_data_string:hex-only-ignored", [&] { return ctx() + " == " + vf::show(text) + " contains a quoted string although HEX_ONLY was given"; });
      continue;
    }
    Parsed p = run_parser(text, c.exact, 0, false);
    const char* form = quoted ? "quoted" : "hex";
    if (p.oc != "ok") {
      r.fail(string("parse_data_string:throws-on-formatted-") + form, [&] { return ctx() + " == " + vf::show(text) + "; parsing that threw " + p.oc; });
      continue;
    }
    if (p.data != data) {
      r.fail(string("format_data_string:") + form + "-form-not-lossless", [&] { return ctx() + " == " + vf::show(text) + ", which parses back to " + hexs(p.data) + vf::fmt(" (%zu bytes; the input has %zu)", p.data.size(), data.size()); });
      continue;
    }
    if (with_mask) {
      bool same = p.mask.size() == data.size();
      for (size_t i = 0; same && i < data.size(); i++) same = ((unsigned char)p.mask[i] == (on[i] ? 0xFF : 0x00));
      if (!same) {
        r.fail(string("format_data_string:") + form + "-form-mask-lost", [&] { return ctx() + " == " + vf::show(text) + ", parsed mask " + hexs(p.mask) + " does not classify the bytes as the given mask does"; });
        continue;
      }
    }
    // second opinion: the reference evaluator reads the produced text the same way
    if (full_checks) {
      Eval e = ref_eval(text);
      if (!e.dontcare && e.data == data && (!with_mask || e.mask == p.mask)) r.xchecked++;
      else r.counters["formatted text outside the documented syntax or read differently by the reference evaluator"]++;
    }
    r.ok(string(form) + (with_mask ? " form, mask given" : " form, no mask"));
  }
}

const unsigned char SYM16[16] = {0x00, 'a', '"', '\'', '\\', '\n', '\t', '?', '#', '$', '%', '/', '*', 0x7F, 0x80, 0xFF};

string fill_pattern(int kind, size_t len, size_t metapos, char meta) {
  string s(len, '\0');
  for (size_t i = 0; i < len; i++) {
    switch (kind) {
      case 0: s[i] = (char)('A' + (i * 7) % 58); break;            // printable
      case 1: s[i] = (char)('a' + i % 26); break;                   // printable + one metacharacter
      case 2: s[i] = (char)((i * 37 + 11) & 0xFF); break;           // binary
      case 3: s[i] = 0; break;                                      // zeros
    }
  }
  if (kind == 0) for (size_t i = 0; i < len; i++) if (s[i] == '\\' ) s[i] = '_';  // keep pattern 0 free of metacharacters
  if (kind == 1 && len) s[metapos] = meta;
  return s;
}

// ---------- hex dump: independent parser + checker ---------------------------------------------------------------

struct Cell {
  char c;
  bool red, inv;
};

// Strips terminal escapes; records for every visible character whether bold-red / inverse was active.
bool decolor(const string& line, vector<Cell>& out) {
  bool red = false, inv = false;
  for (size_t i = 0; i < line.size();) {
    if (line[i] == '\033') {
      if (i + 1 >= line.size() || line[i + 1] != '[') return false;
      size_t m = line.find('m', i);
      if (m == string::npos) return false;
      string params = line.substr(i + 2, m - i - 2);
      size_t p = 0;
      while (p <= params.size()) {
        size_t q = params.find(';', p);
        if (q == string::npos) q = params.size();
        string one = params.substr(p, q - p);
        if (one == "0") red = inv = false;
        else if (one == "31") red = true;
        else if (one == "7") inv = true;
        else if (one == "1") {}
        else return false;
        p = q + 1;
      }
      i = m + 1;
    } else {
      out.push_back({line[i], red, inv});
      i++;
    }
  }
  return true;
}

struct Line {
  uint64_t addr = 0;
  size_t addr_digits = 0;
  int hex[16];        // -1 = blank
  bool hex_red[16];
  char ascii[16];
  bool ascii_red[16];
  string fcol[4], dcol[2];
  bool stray_red = false;  // a red character outside the byte / float fields
};

bool is_uhex(char c) { return (c >= '0' && c <= '9') || (c >= 'A' && c <= 'F'); }

// Position-driven parser of one dump line under a given flag set.  Returns "" or what is malformed.
string parse_dump_line(const string& raw, uint64_t flags, Line& L) {
  using namespace phosg;
  vector<Cell> v;
  if (!decolor(raw, v)) return "malformed terminal escape";
  bool skip = flags & PrintDataFlags::SKIP_SEPARATOR;
  size_t p = 0, n = v.size();
  auto lit = [&](const char* s) {
    for (; *s; s++, p++) {
      if (p >= n || v[p].c != *s) return false;
      if (v[p].red) L.stray_red = true;
    }
    return true;
  };
  while (p < n && is_uhex(v[p].c)) {
    if (L.addr_digits >= 16) return "address longer than 16 digits";
    L.addr = (L.addr << 4) | (uint64_t)hexval(v[p].c);
    if (v[p].red) L.stray_red = true;
    L.addr_digits++;
    p++;
  }
  if (L.addr_digits == 0) return "no address";
  if (!skip && !lit(" |")) return "separator after the address";
  for (int i = 0; i < 16; i++) {
    if (p + 3 > n) return "hex column truncated";
    if (v[p].c != ' ') return "hex field does not start with a space";
    char a = v[p + 1].c, b = v[p + 2].c;
    if (a == ' ' && b == ' ') {
      L.hex[i] = -1;
      L.hex_red[i] = false;
      if (v[p + 1].red || v[p + 2].red) L.stray_red = true;
    } else if (is_uhex(a) && is_uhex(b)) {
      L.hex[i] = hexval(a) * 16 + hexval(b);
      if (v[p + 1].red != v[p + 2].red) return "byte half highlighted";
      L.hex_red[i] = v[p + 1].red;
    } else return "hex field is neither blank nor two upper-case hex digits";
    p += 3;
  }
  if (flags & PrintDataFlags::PRINT_ASCII) {
    if (!lit(skip ? " " : " | ")) return "separator before the ASCII column";
    if (p + 16 > n) return "ASCII column truncated";
    for (int i = 0; i < 16; i++, p++) {
      L.ascii[i] = v[p].c;
      L.ascii_red[i] = v[p].red;
    }
  }
  auto fields = [&](string* out, int count) -> const char* {
    if (!lit(skip ? " " : " |")) return "separator before a float column";
    for (int i = 0; i < count; i++) {
      if (p + 13 > n) return "float column truncated";
      for (int k = 0; k < 13; k++, p++) out[i].push_back(v[p].c);
    }
    return nullptr;
  };
  if (flags & PrintDataFlags::PRINT_FLOAT) {
    if (const char* err = fields(L.fcol, 4)) return err;
  }
  if (flags & PrintDataFlags::PRINT_DOUBLE) {
    if (const char* err = fields(L.dcol, 2)) return err;
  }
  if (p != n) return "trailing characters";
  return "";
}

struct DumpCase {
  const uint8_t* data;
  const uint8_t* prev;  // may be null
  size_t size;
  uint64_t start;
  uint64_t flags;
};

string describe_dump(const DumpCase& c) {
  string s = vf::fmt("format_data(%zu bytes %s, start_address=0x%" PRIX64 ", flags=0x%04" PRIX64, c.size, hexs(c.data, c.size > 64 ? 64 : c.size).c_str(), c.start, c.flags);
  if (c.size > 64) s += "...";
  if (c.prev) s += ", prev=" + hexs(c.prev, c.size > 64 ? 64 : c.size);
  return s + ")";
}

// Returns "" when the dump text is a faithful rendering, else "<key>\t<detail>".
string check_dump(const DumpCase& c, const string& out) {
  using namespace phosg;
  auto fail = [](const char* key, const string& d) { return string(key) + "\t" + d; };
  if (c.size == 0) return out.empty() ? "" : fail("format_data:output-for-empty-data", "output " + vf::show(out));
  if (out.empty()) return fail("format_data:no-output", "nothing was printed");
  if (out.back() != '\n') return fail("format_data:unparseable-line", "output does not end with a newline");
  const uint64_t last = c.start + (c.size - 1);  // no wrap for the addresses used
  const uint64_t first_line = c.start & ~(uint64_t)15, last_line = last & ~(uint64_t)15;
  const bool collapse = c.flags & PrintDataFlags::COLLAPSE_ZERO_LINES;
  const bool use_color = c.flags & PrintDataFlags::USE_COLOR;
  const bool big = c.flags & (PrintDataFlags::REVERSE_ENDIAN_FLOATS | PrintDataFlags::BIG_ENDIAN_FLOATS);
  int min_digits = 0;
  if (c.flags & PrintDataFlags::OFFSET_8_BITS) min_digits = 2;
  else if (c.flags & PrintDataFlags::OFFSET_16_BITS) min_digits = 4;
  else if (c.flags & PrintDataFlags::OFFSET_32_BITS) min_digits = 8;
  else if (c.flags & PrintDataFlags::OFFSET_64_BITS) min_digits = 16;

  auto in_range = [&](uint64_t a) { return a >= c.start && a <= last; };
  auto line_is_zero = [&](uint64_t la, const uint8_t* buf) {
    for (int i = 0; i < 16; i++) {
      uint64_t a = la + i;
      if (a < la) break;
      if (in_range(a) && buf[a - c.start]) return false;
    }
    return true;
  };
  // which line addresses may / must be absent
  auto may_omit = [&](uint64_t la) { return collapse && la != first_line && la != last_line && line_is_zero(la, c.data); };
  auto must_omit = [&](uint64_t la) { return may_omit(la) && (!c.prev || line_is_zero(la, c.prev)); };

  uint64_t expect_next = first_line;  // smallest line address not yet accounted for
  bool done = false;
  size_t pos = 0;
  while (pos < out.size()) {
    size_t nl = out.find('\n', pos);
    string raw = out.substr(pos, nl - pos);
    pos = nl + 1;
    Line L;
    string err = parse_dump_line(raw, c.flags, L);
    if (!err.empty()) return fail("format_data:unparseable-line", err + " in line " + vf::show(raw));
    if (done) return fail("format_data:extra-line", "line " + vf::show(raw) + " after the last line");
    if ((L.addr & 15) || L.addr < expect_next || L.addr > last_line) return fail("format_data:line-address", vf::fmt("line address %" PRIX64 " (expected a multiple of 16 in [%" PRIX64 ", %" PRIX64 "])", L.addr, expect_next, last_line));
    for (uint64_t la = expect_next; la != L.addr; la += 16)
      if (!may_omit(la)) return fail("format_data:line-missing", vf::fmt("no line for address %" PRIX64 " although it is %s", la, collapse ? "not an all-zero interior line" : "inside the data and COLLAPSE_ZERO_LINES is off"));
    if (must_omit(L.addr)) return fail("format_data:zero-line-not-collapsed", vf::fmt("all-zero interior line %" PRIX64 " is printed although COLLAPSE_ZERO_LINES is set", L.addr));
    if (L.addr == last_line) done = true;
    else expect_next = L.addr + 16;
    // address width
    int natural = 1;
    for (uint64_t a = L.addr; a >= 16; a >>= 4) natural++;
    if (min_digits && (int)L.addr_digits != (natural > min_digits ? natural : min_digits))
      return fail("format_data:address-width", vf::fmt("address %s printed with %zu digits, OFFSET_*_BITS flag asks for %d", vf::show(raw.substr(0, 20)).c_str(), L.addr_digits, min_digits));
    if (L.stray_red) return fail("format_data:highlight", "address, separator or blank field is highlighted in line " + vf::show(raw));
    // hex + ASCII columns
    for (int i = 0; i < 16; i++) {
      uint64_t a = L.addr + (uint64_t)i;
      bool valid = a >= L.addr && in_range(a);
      if (!valid) {
        if (L.hex[i] != -1) return fail("format_data:hex-column", vf::fmt("byte %02X shown at address %" PRIX64 " which is outside the data", L.hex[i], a));
        if ((c.flags & PrintDataFlags::PRINT_ASCII) && L.ascii[i] != ' ') return fail("format_data:ascii-column", vf::fmt("character '%c' shown at address %" PRIX64 " which is outside the data", L.ascii[i], a));
        continue;
      }
      uint8_t want = c.data[a - c.start];
      if (L.hex[i] != want) return fail("format_data:hex-column", vf::fmt("address %" PRIX64 " shows %s, data byte is %02X", a, L.hex[i] < 0 ? "blank" : vf::fmt("%02X", L.hex[i]).c_str(), want));
      bool differs = c.prev && c.prev[a - c.start] != want;
      bool want_red = use_color && differs;
      if (L.hex_red[i] != want_red) return fail("format_data:highlight", vf::fmt("hex byte at address %" PRIX64 " is %shighlighted but %s the previous buffer", a, L.hex_red[i] ? "" : "not ", differs ? "differs from" : "equals"));
      if (c.flags & PrintDataFlags::PRINT_ASCII) {
        char wc = (want >= 0x20 && want < 0x7F) ? (char)want : ' ';
        if (L.ascii[i] != wc) return fail("format_data:ascii-column", vf::fmt("address %" PRIX64 " shows '%c' in the ASCII column, data byte is %02X", a, L.ascii[i], want));
        if (L.ascii_red[i] != want_red) return fail("format_data:highlight", vf::fmt("ASCII character at address %" PRIX64 " is %shighlighted but %s the previous buffer", a, L.ascii_red[i] ? "" : "not ", differs ? "differs from" : "equals"));
      }
    }
    // float / double columns: blank unless the whole field is inside the data, else a rendering of the value
    // (read in the byte order the flags document) that is numerically right to 5 significant digits
    auto field_check = [&](const string* col, int count, int fsize) -> string {
      for (int f = 0; f < count; f++) {
        uint64_t a0 = L.addr + (uint64_t)(f * fsize), a1 = a0 + (uint64_t)(fsize - 1);
        bool valid = a0 >= L.addr && a1 >= a0 && in_range(a0) && in_range(a1);
        const char* kind = fsize == 4 ? "float" : "double";
        bool blank = col[f].find_first_not_of(' ') == string::npos;
        if (!valid) {
          if (!blank) return vf::fmt("%s field at address %" PRIX64 " shows %s although not all of its bytes are inside the data", kind, a0, vf::show(col[f]).c_str());
          continue;
        }
        uint8_t b[8];
        for (int k = 0; k < fsize; k++) b[k] = c.data[a0 - c.start + (big ? (fsize - 1 - k) : k)];
        double v;
        if (fsize == 4) {
          float fv;
          memcpy(&fv, b, 4);
          v = fv;
        } else memcpy(&v, b, 8);
        bool ok;
        if (blank) ok = false;
        else if (isnan(v)) ok = col[f].find("nan") != string::npos || col[f].find("NAN") != string::npos;
        else {
          char* end = nullptr;
          double g = strtod(col[f].c_str(), &end);
          ok = end && *end == 0 && ((isinf(v) || v == 0) ? (g == v) : (fabs(g - v) <= 1e-4 * fabs(v)));
        }
        if (!ok) return vf::fmt("%s field at address %" PRIX64 " shows %s, the bytes there are the value %.6g", kind, a0, vf::show(col[f]).c_str(), v);
      }
      return "";
    };
    if (c.flags & PrintDataFlags::PRINT_FLOAT) {
      string e = field_check(L.fcol, 4, 4);
      if (!e.empty()) return fail("format_data:float-column", e);
    }
    if (c.flags & PrintDataFlags::PRINT_DOUBLE) {
      string e = field_check(L.dcol, 2, 8);
      if (!e.empty()) return fail("format_data:float-column", e);
    }
  }
  if (!done) {
    for (uint64_t la = expect_next;; la += 16) {
      if (!may_omit(la)) return fail("format_data:line-missing", vf::fmt("no line for address %" PRIX64, la));
      if (la == last_line) break;
    }
  }
  return "";
}

void report_dump(vf::Run& r, const DumpCase& c, const string& out, const char* okclass) {
  string res = check_dump(c, out);
  if (res.empty()) {
    r.ok(okclass);
    return;
  }
  size_t tab = res.find('\t');
  string key = res.substr(0, tab), detail = res.substr(tab + 1);
  r.fail(key, [&] { return describe_dump(c) + ": " + detail + "\n--- output ---\n" + (out.size() > 900 ? out.substr(0, 900) + "..." : out); });
}

uint64_t dump_flag_combo(unsigned idx) {  // idx in [0, 640)
  using namespace phosg;
  static const uint64_t endian[4] = {0, PrintDataFlags::REVERSE_ENDIAN_FLOATS, PrintDataFlags::BIG_ENDIAN_FLOATS, PrintDataFlags::LITTLE_ENDIAN_FLOATS};
  static const uint64_t width[5] = {0, PrintDataFlags::OFFSET_8_BITS, PrintDataFlags::OFFSET_16_BITS, PrintDataFlags::OFFSET_32_BITS, PrintDataFlags::OFFSET_64_BITS};
  uint64_t f = 0;
  unsigned cols = idx % 8;
  idx /= 8;
  if (cols & 1) f |= PrintDataFlags::PRINT_ASCII;
  if (cols & 2) f |= PrintDataFlags::PRINT_FLOAT;
  if (cols & 4) f |= PrintDataFlags::PRINT_DOUBLE;
  f |= endian[idx % 4];
  idx /= 4;
  if (idx % 2) f |= PrintDataFlags::COLLAPSE_ZERO_LINES;
  idx /= 2;
  if (idx % 2) f |= PrintDataFlags::SKIP_SEPARATOR;
  idx /= 2;
  f |= width[idx % 5];
  return f;
}

vector<uint8_t> dump_pattern(int kind, size_t n) {
  vector<uint8_t> d(n ? n : 1, 0);
  static const uint8_t edge[8] = {0x00, 0x1F, 0x20, 0x7E, 0x7F, 0x80, 0xFF, 0x7C};
  for (size_t i = 0; i < n; i++) {
    switch (kind) {
      case 0: d[i] = (uint8_t)(0x1B + i * 13); break;          // mixed printable / binary
      case 1: d[i] = (uint8_t)(0x20 + (i * 29 + 92) % 95); break;  // printable incl. '|' and space
      case 2: d[i] = 0; break;                                  // zeros
      case 3: d[i] = edge[(i + i / 8) % 8]; break;              // boundary values of the printable test
    }
  }
  return d;
}

// every way to cut n bytes into k consecutive (possibly empty) parts
void compositions(size_t n, size_t k, const std::function<void(const vector<size_t>&)>& fn) {
  vector<size_t> parts(k, 0);
  std::function<void(size_t, size_t)> rec = [&](size_t i, size_t left) {
    if (i + 1 == k) {
      parts[i] = left;
      fn(parts);
      return;
    }
    for (size_t x = 0; x <= left; x++) {
      parts[i] = x;
      rec(i + 1, left - x);
    }
  };
  rec(0, n);
}

// iovecs over separate exact-size heap blocks (empty parts get a null base)
struct IovSet {
  vector<struct iovec> iov;
  vector<void*> blocks;
  IovSet(const uint8_t* data, const vector<size_t>& parts) {
    size_t off = 0;
    for (size_t len : parts) {
      struct iovec v;
      v.iov_len = len;
      v.iov_base = nullptr;
      if (len) {
        v.iov_base = malloc(len);
        memcpy(v.iov_base, data + off, len);
        blocks.push_back(v.iov_base);
      }
      iov.push_back(v);
      off += len;
    }
  }
  IovSet(const IovSet&) = delete;
  ~IovSet() {
    for (void* b : blocks) free(b);
  }
};

string via_memstream(const std::function<void(FILE*)>& fn) {
  char* buf = nullptr;
  size_t len = 0;
  FILE* f = open_memstream(&buf, &len);
  fn(f);
  fclose(f);
  string s(buf, len);
  free(buf);
  return s;
}

}  // namespace

// =====================================================================================================

VF_SECTION(roundtrip, 16, 16, 120) {
  r.note("format_data_string");
  RT c{r, ExactStr::selftest()};
  if (!c.exact) r.notes.push_back("std::string layout self-test failed: parser inputs are ordinary std::string objects (reads past the terminator of short texts are not visible to ASan)");
  // A: every byte string of length <= 2, every mask, and no mask
  for (size_t len = 0; len <= 2; len++) {
    size_t total = len == 0 ? 1 : (len == 1 ? 256 : 65536);
    for (size_t v = 0; v < total; v++) {
      for (size_t mk = 0; mk <= ((size_t)1 << len); mk++) {  // mk == 2^len: no mask pointer
        if (!r.take()) continue;
        string data;
        if (len >= 1) data.push_back((char)(v & 0xFF));
        if (len == 2) data.push_back((char)(v >> 8));
        bool with_mask = mk < ((size_t)1 << len);
        vector<bool> on(len);
        for (size_t i = 0; i < len; i++) on[i] = (mk >> i) & 1;
        if (r.wants_desc()) r.desc("format_data_string -> parse_data_string, data=" + hexs(data) + (with_mask ? vf::fmt(", mask bits=0x%zx", mk) : string(", no mask")) + ", flags 0 and HEX_ONLY");
        if (len) r.nontriv();
        roundtrip_case(c, data, with_mask, on, true);
      }
    }
  }
  // B: length 3..5 over the 16-symbol metacharacter set
  static const unsigned QUICK_MASKS5[2] = {0x15, 0x0A};
  for (size_t len = 3; len <= 5; len++) {
    vf::Odometer od(vector<uint32_t>(len, 16));
    for (; !od.done; od.step()) {
      size_t nmasks = (len == 5 && !r.thorough()) ? 2 : ((size_t)1 << len);
      for (size_t mi = 0; mi < nmasks; mi++) {
        if (!r.take()) continue;
        size_t mk = (len == 5 && !r.thorough()) ? QUICK_MASKS5[mi] : mi;
        string data;
        for (size_t i = 0; i < len; i++) data.push_back((char)SYM16[od.d[len - 1 - i]]);
        vector<bool> on(len);
        for (size_t i = 0; i < len; i++) on[i] = (mk >> i) & 1;
        if (r.wants_desc()) r.desc("format_data_string -> parse_data_string, data=" + hexs(data) + vf::fmt(", mask bits=0x%zx, flags 0 and HEX_ONLY", mk));
        r.nontriv();
        roundtrip_case(c, data, true, on, false);
      }
    }
  }
  // C: long patterns
  vector<size_t> lens;
  for (size_t l = 6; l <= 64; l++) lens.push_back(l);
  for (size_t l : {100, 127, 128, 129, 255, 256, 257, 511, 512, 599, 600}) lens.push_back(l);
  static const char METAS[] = {'\\', '"', '\'', '\n', '\t', '\r', '?', '/', '$'};
  for (size_t len : lens) {
    vector<string> datas;
    datas.push_back(fill_pattern(0, len, 0, 0));
    for (char m : METAS)
      for (size_t pos : {(size_t)0, len / 2, len - 1}) datas.push_back(fill_pattern(1, len, pos, m));
    datas.push_back(fill_pattern(2, len, 0, 0));
    datas.push_back(fill_pattern(3, len, 0, 0));
    for (const string& data : datas) {
      // masks: every mask for len <= 8, run-length masks beyond
      vector<vector<bool>> masks;
      if (len <= 8) {
        for (size_t mk = 0; mk < ((size_t)1 << len); mk++) {
          vector<bool> on(len);
          for (size_t i = 0; i < len; i++) on[i] = (mk >> i) & 1;
          masks.push_back(on);
        }
      } else {
        masks.push_back(vector<bool>(len, true));
        masks.push_back(vector<bool>(len, false));
        for (size_t run : {1, 2, 3, 7, 16})
          for (int phase = 0; phase < 2; phase++) {
            vector<bool> on(len);
            for (size_t i = 0; i < len; i++) on[i] = ((i / run) % 2) == (size_t)phase;
            masks.push_back(on);
          }
        vector<bool> f(len, true), l(len, true);
        f[0] = false;
        l[len - 1] = false;
        masks.push_back(f);
        masks.push_back(l);
      }
      for (size_t mi = 0; mi <= masks.size(); mi++) {  // mi == masks.size(): no mask
        if (!r.take()) continue;
        bool with_mask = mi < masks.size();
        if (r.wants_desc()) r.desc(vf::fmt("format_data_string -> parse_data_string, %zu bytes ", len) + hexs(data.substr(0, 40)) + (len > 40 ? "..." : "") + (with_mask ? vf::fmt(", mask #%zu", mi) : string(", no mask")));
        r.nontriv();
        roundtrip_case(c, data, with_mask, with_mask ? masks[mi] : vector<bool>(len, true), true);
      }
    }
  }
  // documented argument check of the std::string overload
  if (r.take()) {
    string d = "abc", m = "ab";
    string oc = vf::outcome([&] { phosg::format_data_string(d, &m, 0); });
    if (r.wants_desc()) r.desc("format_data_string with a mask of a different size");
    if (oc != "logic_error") r.fail("format_data_string:mask-size-unchecked", [&] { return "format_data_string(3 bytes, 2-byte mask) -> " + oc + ", documented: logic_error"; });
    else r.ok("mask size mismatch: logic_error");
  }
  r.bound = string("format_data_string -> parse_data_string: all byte strings of length <=2 x every mask and no mask; all strings of length 3..5 over {00 a \" ' \\ LF TAB ? # $ % / * 7F 80 FF} x ") + (r.thorough() ? "every mask" : "every mask (len 3,4) / the 2 alternating masks (len 5)") +
      "; lengths 6..64,100,127..129,255..257,511,512,599,600 x {printable, printable+metacharacter at first/middle/last, binary, zeros} x every mask (len<=8) / 14 run-length masks; x flags {0, HEX_ONLY}; both overloads for parts A and C";
}

VF_SECTION(total, 16, 16, 120) {
  r.note("parse_data_string");
  bool exact = ExactStr::selftest();
  if (!exact) r.notes.push_back("std::string layout self-test failed: parser inputs are ordinary std::string objects");
  ScratchDir sd("total");
  const string sigma = "09aFg \"'\\n?$#%/*\n<>1.-ex";  // 24 symbols
  const size_t maxlen = r.thorough() ? 6 : 5;
  vf::all_strings(sigma, maxlen, [&](const string& text) {
    if (!r.take()) return;
    if (r.wants_desc()) r.desc("parse_data_string(" + vf::show(text) + ") in an exact-size NUL-terminated heap block, with and without mask pointer");
    check_parse(r, text, exact, "");
  });
  r.bound = vf::fmt("parse_data_string: every text up to length %zu over the 24 symbols {0 9 a F g space \" ' \\ n ? $ # %% / * LF < > 1 . - e x}, flags=0, exact-size heap copy; compared with the reference evaluator where the documented syntax settles the result", maxlen);
}

VF_SECTION(constructs, 8, 8, 120) {
  r.note("parse_data_string");
  bool exact = ExactStr::selftest();
  // the evaluator must reproduce the example documented in StringsTest.cc
  if (r.take()) {
    if (r.wants_desc()) r.desc("reference evaluator self-test on the documented example");
    string input("/* omit 01 02 */ 03 ?04? $ ##30 $ ##127 ?\"dark\"? ###-1 \'cold\' %-1.667 %%-2.667");
    string expected_data("\x03\x04\x00\x1E\x7F\x00\x64\x61\x72\x6B\xFF\xFF\xFF\xFF\x63\x00\x6F\x00\x6C\x00\x64\x00\x42\x60\xD5\xBF\xBC\x74\x93\x18\x04\x56\x05\xC0", 34);
    string expected_mask("\xFF\x00\xFF\xFF\xFF\xFF\x00\x00\x00\x00\xFF\xFF\xFF\xFF\xFF\xFF\xFF\xFF\xFF\xFF\xFF\xFF\xFF\xFF\xFF\xFF\xFF\xFF\xFF\xFF\xFF\xFF\xFF\xFF", 34);
    Eval e = ref_eval(input);
    if (e.dontcare || e.data != expected_data || e.mask != expected_mask) r.fail("harness:evaluator-selftest", [&] { return string("reference evaluator does not reproduce the documented example: ") + (e.dontcare ? e.why : hexs(e.data).c_str()); });
    else r.ok("evaluator self-test");
  }
  static const char* const POOL[] = {
      "00", "7f", "A5fF", "$", "?",
      "#0", "#255", "#-128", "#-1", "##256", "##65535", "##-32768", "###65536", "###4294967295", "###-2147483648",
      "####4294967296", "####18446744073709551615", "####-9223372036854775808", "####-1",
      "%1.5", "%-0.25", "%1e10", "%3.4028235e38", "%%1.5", "%%-2.667", "%%1e-3", "%%.5",
      "\"a\\\"b\"", "\"\"", "\"\\n\\t\\r\\\\\\'\"", "\"/* ? $ #1 */\"", "'ab'", "'\\n\\''",
      "// c 12 \" ? $\n", "/* 12 ? $ \" */", "/**/"};
  const size_t NP = sizeof(POOL) / sizeof(POOL[0]);
  const size_t maxseq = r.thorough() ? 4 : 3;
  for (const char* sep : {" ", "", "\n"}) {
    for (size_t k = 1; k <= maxseq; k++) {
      vf::Odometer od(vector<uint32_t>(k, (uint32_t)NP));
      for (; !od.done; od.step()) {
        if (!r.take()) continue;
        string text;
        for (size_t i = 0; i < k; i++) {
          if (i) text += sep;
          text += POOL[od.d[k - 1 - i]];
        }
        if (r.wants_desc()) r.desc("parse_data_string(" + vf::show(text) + ")");
        check_parse(r, text, exact, *sep ? "separated: " : "adjacent: ");
      }
    }
  }
  // up to 6 constructs from a small pool in which every construct changes the state or emits wide values
  static const char* const MINI[] = {"$", "?", "##258", "'a'", "%1.5", "0a"};
  for (size_t k = 5; k <= 6; k++) {
    vf::Odometer od(vector<uint32_t>(k, 6));
    for (; !od.done; od.step()) {
      if (!r.take()) continue;
      string text;
      for (size_t i = 0; i < k; i++) {
        if (i) text += " ";
        text += MINI[od.d[k - 1 - i]];
      }
      if (r.wants_desc()) r.desc("parse_data_string(" + vf::show(text) + ")");
      check_parse(r, text, exact, "separated: ");
    }
  }
  // <file> is honoured only with ALLOW_FILES
  {
    ScratchDir sd("files");
    const string content("\x01\xFE?\"", 4);
    FILE* f = fopen("x", "wb");
    if (f) {
      fwrite(content.data(), 1, content.size(), f);
      fclose(f);
    }
    struct FC {
      const char* text;
      string data, mask;
    };
    const FC with_flag[] = {
        {"<x>", content, string(4, '\xFF')},
        {"00 <x> ff", string("\0", 1) + content + "\xFF", string(6, '\xFF')},
        {"?<x>?7f", content + "\x7F", string(4, '\0') + "\xFF"},
    };
    for (const FC& fc : with_flag) {
      for (int allow = 0; allow < 2; allow++) {
        if (!r.take()) continue;
        if (r.wants_desc()) r.desc(vf::fmt("parse_data_string(%s, flags=%s) with a 4-byte file x", vf::show(fc.text).c_str(), allow ? "ALLOW_FILES" : "0"));
        Parsed p = run_parser(fc.text, exact, allow ? (uint64_t)phosg::ParseDataFlags::ALLOW_FILES : 0);
        r.nontriv();
        if (p.oc != "ok") r.fail("parse_data_string:throws", [&] { return vf::fmt("parse_data_string(%s, allow_files=%d) threw %s (%s)", vf::show(fc.text).c_str(), allow, p.oc.c_str(), p.what.c_str()); });
        else if (allow && (p.data != fc.data || p.mask != fc.mask)) r.fail("parse_data_string:file-construct", [&] { return vf::fmt("parse_data_string(%s, ALLOW_FILES) == %s mask %s, expected %s mask %s", vf::show(fc.text).c_str(), hexs(p.data).c_str(), hexs(p.mask).c_str(), hexs(fc.data).c_str(), hexs(fc.mask).c_str()); });
        else if (!allow && p.data.find(content) != string::npos) r.fail("parse_data_string:reads-file-without-flag", [&] { return vf::fmt("parse_data_string(%s, flags=0) returned the content of file x: %s", vf::show(fc.text).c_str(), hexs(p.data).c_str()); });
        else r.ok(allow ? "file construct with ALLOW_FILES" : "file construct ignored without ALLOW_FILES");
      }
    }
    unlink("x");
  }
  r.bound = vf::fmt("parse_data_string: every sequence of 1..%zu constructs from a pool of %zu documented construct instances x separator {space, none, LF}; every sequence of 5..6 constructs from a 6-instance pool; <file> with and without ALLOW_FILES", maxseq, NP);
}

VF_SECTION(dump, 16, 16, 120) {
  r.note("format_data");
  vector<size_t> sizes;
  for (size_t n = 0; n <= 48; n++) sizes.push_back(n);
  for (size_t n : {255, 256, 257, 600}) sizes.push_back(n);
  // python stage: every 211th case is written out for the independent Python dump parser
  FILE* dat = nullptr;
  if (r.only < 0 && getenv("VF_OUTDIR")) dat = fopen(vf::fmt("%s/dump.%llu.dat", getenv("VF_OUTDIR"), (unsigned long long)r.shard).c_str(), "w");
  unsigned ordinal = 0;
  for (int kind = 0; kind < 4; kind++) {
    for (size_t n : sizes) {
      vector<uint8_t> src = dump_pattern(kind, n);
      uint8_t* d = (uint8_t*)malloc(n ? n : 1);  // exact-size heap copy
      memcpy(d, src.data(), n);
      const uint64_t starts[15] = {0, 1, 15, 16, 17, 0xF0, 0xFF, 0x100, 0xFFF8, 0x10000, 0xFFFFFFF8ull, 0x100000000ull, 0x8000000000000000ull,
          (uint64_t)0 - n - 16, (uint64_t)0 - n};
      for (uint64_t start : starts) {
        // quick: the full 640-combination matrix on pattern 0 for sizes <= 48, the 128 combinations without an
        // OFFSET_*_BITS flag on the other patterns and on the four large sizes; thorough: all 640 everywhere.  The combination index is rotated per
        // (pattern, size, address) so that every shard sees every column set.
        const unsigned ncombo = (r.thorough() || (kind == 0 && n <= 48)) ? 640 : 128;
        ordinal++;
        for (unsigned fj = 0; fj < ncombo; fj++) {
          if (!r.take()) continue;
          unsigned fi = (fj + ordinal) % ncombo;
          DumpCase c{d, nullptr, n, start, dump_flag_combo(fi)};
          if (r.wants_desc()) r.desc(describe_dump(c));
          if (n) r.nontriv();
          string out, what;
          string oc = vf::outcome([&] { out = phosg::format_data((const void*)d, (uint64_t)n, start, nullptr, c.flags); }, &what);
          if (oc != "ok") {
            r.fail("format_data:throws", [&] { return describe_dump(c) + " threw " + oc + " (" + what + ")"; });
            continue;
          }
          if (dat && r.cur % 211 == 0) fprintf(dat, "%" PRIX64 " %zu %" PRIX64 " %s - %s\n", start, n, c.flags, n ? hexs(d, n).c_str() : "-", out.empty() ? "-" : hexs(out).c_str());
          report_dump(r, c, out, n == 0 ? "empty data: no output" : ((start & 15) ? "unaligned start" : "aligned start"));
        }
      }
      free(d);
    }
  }
  if (dat) fclose(dat);
  r.bound = "format_data: sizes 0..48,255,256,257,600 x 15 start addresses (0,1,15,16,17,F0,FF,100,FFF8,10000,2^32-8,2^32,2^63,2^64-len-16,2^64-len) x all 640 combinations of {ASCII,FLOAT,DOUBLE} x {none,REVERSE,BIG,LITTLE} x COLLAPSE x SKIP_SEPARATOR x {none,OFFSET_8/16/32/64} on the mixed pattern (quick: sizes <= 48; the 128 combinations without OFFSET flag on the printable, zero and boundary-value patterns and on sizes 255..600; thorough: all 640 on all 4 patterns and all sizes); every line decoded by the independent dump parser";
}

VF_SECTION(dump_color, 8, 8, 120) {
  using namespace phosg;
  r.note("format_data(USE_COLOR)");
  vector<size_t> sizes;
  for (size_t n = 1; n <= 20; n++) sizes.push_back(n);
  sizes.push_back(33);
  if (r.thorough()) sizes.push_back(48);
  const uint64_t flagsets[] = {
      PrintDataFlags::USE_COLOR | PrintDataFlags::PRINT_ASCII,
      PrintDataFlags::USE_COLOR,
      PrintDataFlags::USE_COLOR | PrintDataFlags::PRINT_ASCII | PrintDataFlags::PRINT_FLOAT | PrintDataFlags::PRINT_DOUBLE,
      PrintDataFlags::USE_COLOR | PrintDataFlags::PRINT_ASCII | PrintDataFlags::COLLAPSE_ZERO_LINES | PrintDataFlags::SKIP_SEPARATOR,
      PrintDataFlags::PRINT_ASCII,  // no colour requested: a previous buffer must not cause any highlighting
  };
  const uint64_t starts[] = {0, 5, 0xFFFD};
  for (size_t n : sizes) {
    vector<uint8_t> data = dump_pattern(3, n);
    // every subset of <= 3 differing positions (the empty subset included)
    vector<vector<size_t>> subsets;
    subsets.push_back({});
    for (size_t a = 0; a < n; a++) {
      subsets.push_back({a});
      for (size_t b = a + 1; b < n; b++) {
        subsets.push_back({a, b});
        if (n > 20 && !(r.thorough() && n == 33)) continue;  // three-line sizes: subsets of <= 2 positions (quick), 33 in full (thorough)
        for (size_t c2 = b + 1; c2 < n; c2++) subsets.push_back({a, b, c2});
      }
    }
    for (size_t si = 0; si <= subsets.size(); si++) {  // si == subsets.size(): no previous buffer at all
      for (uint64_t start : starts) {
        for (uint64_t flags : flagsets) {
          if (!r.take()) continue;
          bool has_prev = si < subsets.size();
          vector<uint8_t> prev = data;
          if (has_prev) for (size_t p : subsets[si]) prev[p] ^= (p % 2) ? 0x80 : 0x01;
          uint8_t* d = (uint8_t*)malloc(n);
          uint8_t* pv = (uint8_t*)malloc(n);
          memcpy(d, data.data(), n);
          memcpy(pv, prev.data(), n);
          DumpCase c{d, has_prev ? pv : nullptr, n, start, flags};
          if (r.wants_desc()) r.desc(describe_dump(c));
          if (has_prev && !subsets[si].empty()) r.nontriv();
          string out, what;
          string oc = vf::outcome([&] { out = phosg::format_data((const void*)d, (uint64_t)n, start, has_prev ? (const void*)pv : nullptr, flags); }, &what);
          if (oc != "ok") r.fail("format_data:throws", [&] { return describe_dump(c) + " threw " + oc + " (" + what + ")"; });
          else report_dump(r, c, out, !has_prev ? "no previous buffer" : (subsets[si].empty() ? "previous buffer identical" : "previous buffer differs"));
          free(d);
          free(pv);
        }
      }
    }
  }
  r.bound = "format_data with a previous buffer: sizes 1..20 x previous buffer differing in every subset of <=3 positions (and identical, and absent), size 33 with every subset of <=2 positions (thorough: <=3, plus size 48 with <=2) x start {0,5,FFFD} x {USE_COLOR|ASCII, USE_COLOR, USE_COLOR|ASCII|FLOAT|DOUBLE, USE_COLOR|ASCII|COLLAPSE|SKIP_SEPARATOR, ASCII without colour}; highlighted byte set == differing byte set in the hex and ASCII columns";
}

VF_SECTION(dump_collapse, 4, 4, 120) {
  using namespace phosg;
  r.note("format_data(COLLAPSE_ZERO_LINES)");
  const uint64_t flagsets[] = {
      PrintDataFlags::COLLAPSE_ZERO_LINES,
      PrintDataFlags::COLLAPSE_ZERO_LINES | PrintDataFlags::PRINT_ASCII,
      PrintDataFlags::COLLAPSE_ZERO_LINES | PrintDataFlags::PRINT_ASCII | PrintDataFlags::SKIP_SEPARATOR,
      PrintDataFlags::COLLAPSE_ZERO_LINES | PrintDataFlags::PRINT_FLOAT | PrintDataFlags::USE_COLOR,
      PrintDataFlags::PRINT_ASCII,  // collapse off: every line must be there
  };
  // layout in 16-byte lines relative to the first line: `lines` lines, lines [z0, z0+zn) are zero
  for (size_t lines = 1; lines <= 8; lines++) {
    for (size_t zn = 0; zn <= 4 && zn <= lines; zn++) {
      for (size_t z0 = 0; z0 + zn <= lines; z0++) {
        if (zn == 0 && z0 > 0) continue;
        for (size_t head : {(size_t)0, (size_t)3}) {        // bytes missing at the start of the first line
          for (size_t tail : {(size_t)0, (size_t)5}) {      // bytes missing at the end of the last line
            if (head + tail >= 16 * lines) continue;
            for (uint64_t base : {(uint64_t)0, (uint64_t)0xFFFFFFC0ull}) {
              for (int pv = 0; pv < 3; pv++) {              // 0: no prev, 1: prev == data, 2: prev non-zero inside the zero run
                for (uint64_t flags : flagsets) {
                  if (!r.take()) continue;
                  size_t n = 16 * lines - head - tail;
                  uint8_t* d = (uint8_t*)malloc(n);
                  uint8_t* p = (uint8_t*)malloc(n);
                  for (size_t i = 0; i < n; i++) {
                    size_t line = (i + head) / 16;
                    d[i] = (line >= z0 && line < z0 + zn) ? 0 : (uint8_t)(0x41 + (i % 26));
                  }
                  memcpy(p, d, n);
                  if (pv == 2 && zn) {
                    size_t off = 16 * z0 + 7;
                    if (off >= head && off - head < n) p[off - head] = 0x55;
                  }
                  DumpCase c{d, pv ? p : nullptr, n, base + head, flags};
                  if (r.wants_desc()) r.desc(describe_dump(c));
                  if (zn) r.nontriv();
                  string out, what;
                  string oc = vf::outcome([&] { out = phosg::format_data((const void*)d, (uint64_t)n, c.start, pv ? (const void*)p : nullptr, flags); }, &what);
                  if (oc != "ok") r.fail("format_data:throws", [&] { return describe_dump(c) + " threw " + oc + " (" + what + ")"; });
                  else {
                    bool interior_zero = zn && (z0 + zn > 1) && (z0 < lines - 1) && lines > 2;
                    report_dump(r, c, out, !(flags & PrintDataFlags::COLLAPSE_ZERO_LINES) ? "collapse off" : (interior_zero ? "zero run touches interior lines" : "no interior zero line"));
                  }
                  free(d);
                  free(p);
                }
              }
            }
          }
        }
      }
    }
  }
  r.bound = "format_data zero-line collapsing: 1..8 lines with a run of 0..4 all-zero lines at every position (start/middle/end) x partial first/last line x 2 base addresses x {no prev, prev identical, prev non-zero inside the run} x 4 COLLAPSE flag sets + collapse off";
}

VF_SECTION(dump_iovec, 16, 16, 120) {
  using namespace phosg;
  r.note("format_data(iovecs)");
  const uint64_t flagsets[] = {
      PrintDataFlags::PRINT_ASCII | PrintDataFlags::PRINT_FLOAT | PrintDataFlags::LITTLE_ENDIAN_FLOATS,
      PrintDataFlags::USE_COLOR | PrintDataFlags::PRINT_ASCII | PrintDataFlags::PRINT_DOUBLE,
      PrintDataFlags::COLLAPSE_ZERO_LINES,
  };
  const uint64_t starts[] = {0, 3, 0xD};
  const size_t both_max = r.thorough() ? 10 : 5;
  for (size_t n = 0; n <= 20; n++) {
    vector<uint8_t> data = dump_pattern(0, n), prev = dump_pattern(0, n);
    for (size_t i = 0; i < n; i += 3) prev[i] ^= 0x40;
    // all partitions of n bytes into 1..4 parts
    vector<vector<size_t>> parts;
    for (size_t k = 1; k <= 4; k++) compositions(n, k, [&](const vector<size_t>& p) { parts.push_back(p); });
    for (uint64_t start : starts) {
      for (uint64_t flags : flagsets) {
        string base_noprev, base_prev;
        bool have_base = false;
        auto base = [&] {
          if (have_base) return;
          have_base = true;
          base_noprev = phosg::format_data((const void*)data.data(), (uint64_t)n, start, nullptr, flags);
          base_prev = phosg::format_data((const void*)data.data(), (uint64_t)n, start, (const void*)prev.data(), flags);
        };
        // the single-buffer outputs themselves are validated by the dump parser once
        if (r.take()) {
          base();
          DumpCase c1{data.data(), nullptr, n, start, flags}, c2{data.data(), prev.data(), n, start, flags};
          if (r.wants_desc()) r.desc(describe_dump(c2) + " [reference outputs for the partition cases]");
          string e1 = check_dump(c1, base_noprev), e2 = check_dump(c2, base_prev);
          if (!e1.empty() || !e2.empty()) report_dump(r, e1.empty() ? c2 : c1, e1.empty() ? base_prev : base_noprev, "");
          else r.ok("single-buffer reference output decodes");
        }
        // mode 0: data partitioned, no prev; 1: data partitioned, prev single; 2: data single, prev partitioned; 3: both partitioned
        for (int mode = 0; mode < 4; mode++) {
          if (mode == 3 && n > both_max) continue;
          for (size_t pi = 0; pi < parts.size(); pi++) {
            size_t inner = (mode == 3) ? parts.size() : 1;
            for (size_t qi = 0; qi < inner; qi++) {
              if (!r.take()) continue;
              base();
              const vector<size_t> whole{n};
              const vector<size_t>& dp = (mode == 2) ? whole : parts[pi];
              const vector<size_t>& pp = (mode == 2) ? parts[pi] : (mode == 3 ? parts[qi] : whole);
              IovSet di(data.data(), dp), pvs(prev.data(), pp);
              auto show_parts = [](const vector<size_t>& p) {
                string s = "[";
                for (size_t i = 0; i < p.size(); i++) s += (i ? "," : "") + std::to_string(p[i]);
                return s + "]";
              };
              auto desc = [&] { return vf::fmt("format_data(iovecs %s of %zu bytes, start=0x%" PRIX64 ", prev %s, flags=0x%04" PRIX64 ")", show_parts(dp).c_str(), n, start, mode == 0 ? "none" : ("iovecs " + show_parts(pp)).c_str(), flags); };
              if (r.wants_desc()) r.desc(desc());
              if (dp.size() > 1 || pp.size() > 1) r.nontriv();
              string out, out_vec, what;
              string oc = vf::outcome([&] {
                out = phosg::format_data(di.iov.data(), di.iov.size(), start, mode ? pvs.iov.data() : nullptr, mode ? pvs.iov.size() : 0, flags);
                out_vec = phosg::format_data(di.iov, start, mode ? &pvs.iov : nullptr, flags);
              }, &what);
              const string& want = mode ? base_prev : base_noprev;
              if (oc != "ok") r.fail("format_data:iovec-throws", [&] { return desc() + " threw " + oc + " (" + what + ")"; });
              else if (out != want) r.fail("format_data:iovec-partition-dependent", [&] { return desc() + " differs from the single-buffer output.\n--- partitioned ---\n" + out + "--- single ---\n" + want; });
              else if (out_vec != want) r.fail("format_data:vector-overload-differs", [&] { return desc() + ": std::vector<iovec> overload differs from the single-buffer output"; });
              else r.ok(mode == 0 ? "data partitioned, no prev" : (mode == 1 ? "data partitioned, prev single" : (mode == 2 ? "prev partitioned" : "both partitioned")));
            }
          }
        }
      }
    }
  }
  r.bound = vf::fmt("format_data iovec partitions: sizes 0..20 x every split into 1..4 consecutive (possibly empty) iovecs over separate exact-size heap blocks, for data (prev none / single) and for prev (data single); both partitioned independently for sizes <= %zu; x start {0,3,D} x 3 flag sets; output must equal the single-buffer output (itself decoded by the dump parser)", both_max);
}

VF_SECTION(print_data, 1, 1, 120) {
  using namespace phosg;
  r.note("print_data");
  const uint64_t flagsets[] = {
      PrintDataFlags::PRINT_ASCII,
      0x10000,  // no documented flag at all (print_data adds DISABLE_COLOR on a non-terminal)
      PrintDataFlags::PRINT_ASCII | PrintDataFlags::DISABLE_COLOR,
      PrintDataFlags::PRINT_ASCII | PrintDataFlags::USE_COLOR,
      PrintDataFlags::PRINT_FLOAT | PrintDataFlags::PRINT_DOUBLE | PrintDataFlags::BIG_ENDIAN_FLOATS | PrintDataFlags::COLLAPSE_ZERO_LINES,
  };
  for (size_t n : {(size_t)0, (size_t)1, (size_t)16, (size_t)17, (size_t)40, (size_t)257}) {
    for (uint64_t start : {(uint64_t)0, (uint64_t)7, (uint64_t)0xFFFFFFF8ull}) {
      for (uint64_t flags : flagsets) {
        for (int with_prev = 0; with_prev < 2; with_prev++) {
          if (!r.take()) continue;
          vector<uint8_t> dv = dump_pattern(3, n), pvv = dump_pattern(3, n);
          for (size_t i = 0; i < n; i += 5) pvv[i] ^= 0x21;
          string data((const char*)dv.data(), n), prev((const char*)pvv.data(), n);
          const void* pp = with_prev ? (const void*)prev.data() : nullptr;
          DumpCase c{(const uint8_t*)data.data(), with_prev ? (const uint8_t*)prev.data() : nullptr, n, start, flags};
          if (r.wants_desc()) r.desc("print_data/format_data overloads: " + describe_dump(c));
          if (n) r.nontriv();
          struct iovec iov{(void*)data.data(), n}, piov{(void*)prev.data(), n};
          vector<struct iovec> iovs{iov}, piovs{piov};
          string ref = format_data(&iov, 1, start, with_prev ? &piov : nullptr, with_prev ? 1 : 0, flags);
          vector<std::pair<const char*, string>> outs;
          string what;
          string oc = vf::outcome([&] {
            outs.emplace_back("format_data(vector<iovec>)", format_data(iovs, start, with_prev ? &piovs : nullptr, flags));
            outs.emplace_back("format_data(void*, size)", format_data((const void*)data.data(), (uint64_t)n, start, pp, flags));
            outs.emplace_back("format_data(string)", format_data(data, start, pp, flags));
            outs.emplace_back("print_data(iovec*)", via_memstream([&](FILE* f) { print_data(f, &iov, 1, start, with_prev ? &piov : nullptr, with_prev ? 1 : 0, flags); }));
            outs.emplace_back("print_data(vector<iovec>)", via_memstream([&](FILE* f) { print_data(f, iovs, start, with_prev ? &piovs : nullptr, flags); }));
            outs.emplace_back("print_data(void*, size)", via_memstream([&](FILE* f) { print_data(f, (const void*)data.data(), (uint64_t)n, start, pp, flags); }));
            outs.emplace_back("print_data(string)", via_memstream([&](FILE* f) { print_data(f, data, start, pp, flags); }));
          }, &what);
          bool bad = false;
          if (oc != "ok") {
            bad = true;
            r.fail("print_data:throws", [&] { return describe_dump(c) + " threw " + oc + " (" + what + ")"; });
          }
          for (auto& o : outs) {
            if (!bad && o.second != ref) {
              bad = true;
              r.fail("print_data:overloads-differ", [&] { return string(o.first) + " output differs from format_data(iovec*) for " + describe_dump(c) + "\n--- " + o.first + " ---\n" + o.second + "--- format_data(iovec*) ---\n" + ref; });
            }
          }
          if (!bad) report_dump(r, c, ref, "all 8 overloads agree and decode");
        }
      }
    }
  }
  // documented argument check
  if (r.take()) {
    if (r.wants_desc()) r.desc("format_data with a previous buffer of a different total size");
    char a[4] = {1, 2, 3, 4}, b[3] = {1, 2, 3};
    struct iovec ia{a, 4}, ib{b, 3};
    string oc = vf::outcome([&] { format_data(&ia, 1, 0, &ib, 1, PrintDataFlags::PRINT_ASCII); });
    if (oc != "runtime_error") r.fail("format_data:prev-size-unchecked", [&] { return "format_data(4 bytes, prev of 3 bytes) -> " + oc + ", documented: runtime_error"; });
    else r.ok("prev size mismatch: runtime_error");
  }
  r.bound = "print_data (4 overloads, via open_memstream) and format_data (4 overloads): sizes {0,1,16,17,40,257} x start {0,7,2^32-8} x 5 flag sets x prev {none, given}; all outputs identical and decoded by the dump parser";
}

VF_MAIN()
