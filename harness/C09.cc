// C09 — data strings (format_data_string <-> parse_data_string) and hex dumps (format_data/print_data)
// decode back.
//
// E-ENUM over the real functions:
//   roundtrip   format_data_string -> parse_data_string over all <=2-byte strings x every mask x flags,
//               3..5-byte strings over a 16-symbol metacharacter set, long patterns up to 600 bytes
//   total       parse_data_string on *every* text up to length 5/6 over a 24-symbol alphabet, text held in
//               an exact-size NUL-terminated heap block (ASan = out-of-bounds oracle, supervisor = hang
//               oracle), compared with a reference evaluator of the documented syntax where it applies
//   constructs  sequences of documented constructs vs the reference evaluator
//   dump*       format_data / print_data decoded by an independent dump parser (address, hex, ASCII,
//               float/double columns, colour highlighting, zero-line collapsing, iovec partitions)
#include "C09_common.hh"

using namespace c09;


// =====================================================================================================

VF_SECTION(roundtrip, 16, 16, 120) {
  r.note("format_data_string");
  RT c{r, ExactStr::selftest()};
  if (!c.exact) r.notes.push_back("std::string layout self-test failed: parser inputs are ordinary std::string objects (reads past the terminator of short texts are not visible to ASan)");
  // A: every byte string of length <= 2, every mask, and no mask
  for (size_t len = 0; len <= 2; len++) {
    size_t total = len == 0 ? 1 : (len == 1 ? 256 : 65536);
    for (size_t v = 0; v < total; v++) {
      for (size_t mk = 0; mk <= ((size_t)1 << len); mk++) {  // mk == 2^len: no mask pointer
        if (!r.take()) continue;
        string data;
        if (len >= 1) data.push_back((char)(v & 0xFF));
        if (len == 2) data.push_back((char)(v >> 8));
        bool with_mask = mk < ((size_t)1 << len);
        vector<bool> on(len);
        for (size_t i = 0; i < len; i++) on[i] = (mk >> i) & 1;
        if (r.wants_desc()) r.desc("format_data_string -> parse_data_string, data=" + hexs(data) + (with_mask ? vf::fmt(", mask bits=0x%zx", mk) : string(", no mask")) + ", flags 0 and HEX_ONLY");
        if (len) r.nontriv();
        roundtrip_case(c, data, with_mask, on, true);
      }
    }
  }
  // B: length 3..5 over the 16-symbol metacharacter set
  static const unsigned QUICK_MASKS5[2] = {0x15, 0x0A};
  for (size_t len = 3; len <= 5; len++) {
    vf::Odometer od(vector<uint32_t>(len, 16));
    for (; !od.done; od.step()) {
      size_t nmasks = (len == 5 && !r.thorough()) ? 2 : ((size_t)1 << len);
      for (size_t mi = 0; mi < nmasks; mi++) {
        if (!r.take()) continue;
        size_t mk = (len == 5 && !r.thorough()) ? QUICK_MASKS5[mi] : mi;
        string data;
        for (size_t i = 0; i < len; i++) data.push_back((char)SYM16[od.d[len - 1 - i]]);
        vector<bool> on(len);
        for (size_t i = 0; i < len; i++) on[i] = (mk >> i) & 1;
        if (r.wants_desc()) r.desc("format_data_string -> parse_data_string, data=" + hexs(data) + vf::fmt(", mask bits=0x%zx, flags 0 and HEX_ONLY", mk));
        r.nontriv();
        roundtrip_case(c, data, true, on, false);
      }
    }
  }
  // C: long patterns
  vector<size_t> lens;
  for (size_t l = 6; l <= 64; l++) lens.push_back(l);
  for (size_t l : {100, 127, 128, 129, 255, 256, 257, 511, 512, 599, 600}) lens.push_back(l);
  static const char METAS[] = {'\\', '"', '\'', '\n', '\t', '\r', '?', '/', '$'};
  for (size_t len : lens) {
    vector<string> datas;
    datas.push_back(fill_pattern(0, len, 0, 0));
    for (char m : METAS)
      for (size_t pos : {(size_t)0, len / 2, len - 1}) datas.push_back(fill_pattern(1, len, pos, m));
    datas.push_back(fill_pattern(2, len, 0, 0));
    datas.push_back(fill_pattern(3, len, 0, 0));
    for (const string& data : datas) {
      // masks: every mask for len <= 8, run-length masks beyond
      vector<vector<bool>> masks;
      if (len <= 8) {
        for (size_t mk = 0; mk < ((size_t)1 << len); mk++) {
          vector<bool> on(len);
          for (size_t i = 0; i < len; i++) on[i] = (mk >> i) & 1;
          masks.push_back(on);
        }
      } else {
        masks.push_back(vector<bool>(len, true));
        masks.push_back(vector<bool>(len, false));
        for (size_t run : {1, 2, 3, 7, 16})
          for (int phase = 0; phase < 2; phase++) {
            vector<bool> on(len);
            for (size_t i = 0; i < len; i++) on[i] = ((i / run) % 2) == (size_t)phase;
            masks.push_back(on);
          }
        vector<bool> f(len, true), l(len, true);
        f[0] = false;
        l[len - 1] = false;
        masks.push_back(f);
        masks.push_back(l);
      }
      for (size_t mi = 0; mi <= masks.size(); mi++) {  // mi == masks.size(): no mask
        if (!r.take()) continue;
        bool with_mask = mi < masks.size();
        if (r.wants_desc()) r.desc(vf::fmt("format_data_string -> parse_data_string, %zu bytes ", len) + hexs(data.substr(0, 40)) + (len > 40 ? "..." : "") + (with_mask ? vf::fmt(", mask #%zu", mi) : string(", no mask")));
        r.nontriv();
        roundtrip_case(c, data, with_mask, with_mask ? masks[mi] : vector<bool>(len, true), true);
      }
    }
  }
  // documented argument check of the std::string overload
  if (r.take()) {
    string d = "abc", m = "ab";
    string oc = vf::outcome([&] { phosg::format_data_string(d, &m, 0); });
    if (r.wants_desc()) r.desc("format_data_string with a mask of a different size");
    if (oc != "logic_error") r.fail("format_data_string:mask-size-unchecked", [&] { return "format_data_string(3 bytes, 2-byte mask) -> " + oc + ", documented: logic_error"; });
    else r.ok("mask size mismatch: logic_error");
  }
  r.bound = string("format_data_string -> parse_data_string: all byte strings of length <=2 x every mask and no mask; all strings of length 3..5 over {00 a \" ' \\ LF TAB ? # $ % / * 7F 80 FF} x ") + (r.thorough() ? "every mask" : "every mask (len 3,4) / the 2 alternating masks (len 5)") +
      "; lengths 6..64,100,127..129,255..257,511,512,599,600 x {printable, printable+metacharacter at first/middle/last, binary, zeros} x every mask (len<=8) / 14 run-length masks; x flags {0, HEX_ONLY}; both overloads for parts A and C";
}

VF_SECTION(total, 16, 16, 120) {
  r.note("parse_data_string");
  bool exact = ExactStr::selftest();
  if (!exact) r.notes.push_back("std::string layout self-test failed: parser inputs are ordinary std::string objects");
  ScratchDir sd("total");
  const string sigma = "09aFg \"'\\n?$#%/*\n<>1.-ex";  // 24 symbols
  const size_t maxlen = r.thorough() ? 6 : 5;
  vf::all_strings(sigma, maxlen, [&](const string& text) {
    if (!r.take()) return;
    if (r.wants_desc()) r.desc("parse_data_string(" + vf::show(text) + ") in an exact-size NUL-terminated heap block, with and without mask pointer");
    check_parse(r, text, exact, "");
  });
  r.bound = vf::fmt("parse_data_string: every text up to length %zu over the 24 symbols {0 9 a F g space \" ' \\ n ? $ # %% / * LF < > 1 . - e x}, flags=0, exact-size heap copy; compared with the reference evaluator where the documented syntax settles the result", maxlen);
}

VF_SECTION(constructs, 8, 8, 120) {
  r.note("parse_data_string");
  bool exact = ExactStr::selftest();
  // the evaluator must reproduce the example documented in StringsTest.cc
  if (r.take()) {
    if (r.wants_desc()) r.desc("reference evaluator self-test on the documented example");
    string input("/* omit 01 02 */ 03 ?04? $ ##30 $ ##127 ?\"dark\"? ###-1 \'cold\' %-1.667 %%-2.667");
    string expected_data("\x03\x04\x00\x1E\x7F\x00\x64\x61\x72\x6B\xFF\xFF\xFF\xFF\x63\x00\x6F\x00\x6C\x00\x64\x00\x42\x60\xD5\xBF\xBC\x74\x93\x18\x04\x56\x05\xC0", 34);
    string expected_mask("\xFF\x00\xFF\xFF\xFF\xFF\x00\x00\x00\x00\xFF\xFF\xFF\xFF\xFF\xFF\xFF\xFF\xFF\xFF\xFF\xFF\xFF\xFF\xFF\xFF\xFF\xFF\xFF\xFF\xFF\xFF\xFF\xFF", 34);
    Eval e = ref_eval(input);
    if (e.dontcare || e.data != expected_data || e.mask != expected_mask) r.fail("harness:evaluator-selftest", [&] { return string("reference evaluator does not reproduce the documented example: ") + (e.dontcare ? e.why : hexs(e.data).c_str()); });
    else r.ok("evaluator self-test");
  }
  static const char* const POOL[] = {
      "00", "7f", "A5fF", "$", "?",
      "#0", "#255", "#-128", "#-1", "##256", "##65535", "##-32768", "###65536", "###4294967295", "###-2147483648",
      "####4294967296", "####18446744073709551615", "####-9223372036854775808", "####-1",
      "%1.5", "%-0.25", "%1e10", "%3.4028235e38", "%%1.5", "%%-2.667", "%%1e-3", "%%.5",
      "\"a\\\"b\"", "\"\"", "\"\\n\\t\\r\\\\\\'\"", "\"/* ? $ #1 */\"", "'ab'", "'\\n\\''", "'\\r\\t\\\\'",
      "// c 12 \" ? $\n", "/* 12 ? $ \" */", "/**/"};
  const size_t NP = sizeof(POOL) / sizeof(POOL[0]);
  const size_t maxseq = r.thorough() ? 4 : 3;
  for (const char* sep : {" ", "", "\n"}) {
    for (size_t k = 1; k <= maxseq; k++) {
      vf::Odometer od(vector<uint32_t>(k, (uint32_t)NP));
      for (; !od.done; od.step()) {
        if (!r.take()) continue;
        string text;
        for (size_t i = 0; i < k; i++) {
          if (i) text += sep;
          text += POOL[od.d[k - 1 - i]];
        }
        if (r.wants_desc()) r.desc("parse_data_string(" + vf::show(text) + ")");
        check_parse(r, text, exact, *sep ? "separated: " : "adjacent: ");
      }
    }
  }
  // up to 6 constructs from a small pool in which every construct changes the state or emits wide values
  static const char* const MINI[] = {"$", "?", "##258", "'a'", "%1.5", "0a"};
  for (size_t k = 5; k <= 6; k++) {
    vf::Odometer od(vector<uint32_t>(k, 6));
    for (; !od.done; od.step()) {
      if (!r.take()) continue;
      string text;
      for (size_t i = 0; i < k; i++) {
        if (i) text += " ";
        text += MINI[od.d[k - 1 - i]];
      }
      if (r.wants_desc()) r.desc("parse_data_string(" + vf::show(text) + ")");
      check_parse(r, text, exact, "separated: ");
    }
  }
  // <file> is honoured only with ALLOW_FILES
  {
    ScratchDir sd("files");
    const string content("\x01\xFE?\"", 4);
    FILE* f = fopen("x", "wb");
    if (f) {
      fwrite(content.data(), 1, content.size(), f);
      fclose(f);
    }
    struct FC {
      const char* text;
      string data, mask;
    };
    const FC with_flag[] = {
        {"<x>", content, string(4, '\xFF')},
        {"00 <x> ff", string("\0", 1) + content + "\xFF", string(6, '\xFF')},
        {"?<x>?7f", content + "\x7F", string(4, '\0') + "\xFF"},
    };
    for (const FC& fc : with_flag) {
      for (int allow = 0; allow < 2; allow++) {
        if (!r.take()) continue;
        if (r.wants_desc()) r.desc(vf::fmt("parse_data_string(%s, flags=%s) with a 4-byte file x", vf::show(fc.text).c_str(), allow ? "ALLOW_FILES" : "0"));
        Parsed p = run_parser(fc.text, exact, allow ? (uint64_t)phosg::ParseDataFlags::ALLOW_FILES : 0);
        r.nontriv();
        if (p.oc != "ok") r.fail("parse_data_string:throws", [&] { return vf::fmt("parse_data_string(%s, allow_files=%d) threw %s (%s)", vf::show(fc.text).c_str(), allow, p.oc.c_str(), p.what.c_str()); });
        else if (allow && (p.data != fc.data || p.mask != fc.mask)) r.fail("parse_data_string:file-construct", [&] { return vf::fmt("parse_data_string(%s, ALLOW_FILES) == %s mask %s, expected %s mask %s", vf::show(fc.text).c_str(), hexs(p.data).c_str(), hexs(p.mask).c_str(), hexs(fc.data).c_str(), hexs(fc.mask).c_str()); });
        else if (!allow && p.data.find(content) != string::npos) r.fail("parse_data_string:reads-file-without-flag", [&] { return vf::fmt("parse_data_string(%s, flags=0) returned the content of file x: %s", vf::show(fc.text).c_str(), hexs(p.data).c_str()); });
        else r.ok(allow ? "file construct with ALLOW_FILES" : "file construct ignored without ALLOW_FILES");
      }
    }
    unlink("x");
  }
  r.bound = vf::fmt("parse_data_string: every sequence of 1..%zu constructs from a pool of %zu documented construct instances x separator {space, none, LF}; every sequence of 5..6 constructs from a 6-instance pool; <file> with and without ALLOW_FILES", maxseq, NP);
}

VF_SECTION(dump, 16, 16, 120) {
  r.note("format_data");
  vector<size_t> sizes;
  for (size_t n = 0; n <= 48; n++) sizes.push_back(n);
  for (size_t n : {255, 256, 257, 600}) sizes.push_back(n);
  // python stage: every 211th case is written out for the independent Python dump parser
  FILE* dat = nullptr;
  if (r.only < 0 && getenv("VF_OUTDIR")) dat = fopen(vf::fmt("%s/dump.%llu.dat", getenv("VF_OUTDIR"), (unsigned long long)r.shard).c_str(), "w");
  unsigned ordinal = 0;
  for (int kind = 0; kind < 4; kind++) {
    for (size_t n : sizes) {
      vector<uint8_t> src = dump_pattern(kind, n);
      uint8_t* d = (uint8_t*)malloc(n ? n : 1);  // exact-size heap copy
      memcpy(d, src.data(), n);
      const uint64_t starts[15] = {0, 1, 15, 16, 17, 0xF0, 0xFF, 0x100, 0xFFF8, 0x10000, 0xFFFFFFF8ull, 0x100000000ull, 0x8000000000000000ull,
          (uint64_t)0 - n - 16, (uint64_t)0 - n};
      for (uint64_t start : starts) {
        // quick: the full 640-combination matrix on pattern 0 for sizes <= 48, the 128 combinations without an
        // OFFSET_*_BITS flag on the other patterns and on the four large sizes; thorough: all 640 everywhere.  The combination index is rotated per
        // (pattern, size, address) so that every shard sees every column set.
        const unsigned ncombo = (r.thorough() || (kind == 0 && n <= 48)) ? 640 : 128;
        ordinal++;
        for (unsigned fj = 0; fj < ncombo; fj++) {
          if (!r.take()) continue;
          unsigned fi = (fj + ordinal) % ncombo;
          DumpCase c{d, nullptr, n, start, dump_flag_combo(fi)};
          if (r.wants_desc()) r.desc(describe_dump(c));
          if (n) r.nontriv();
          string out, what;
          string oc = vf::outcome([&] { out = phosg::format_data((const void*)d, (uint64_t)n, start, nullptr, c.flags); }, &what);
          if (oc != "ok") {
            r.fail("format_data:throws", [&] { return describe_dump(c) + " threw " + oc + " (" + what + ")"; });
            continue;
          }
          if (dat && r.cur % 211 == 0) fprintf(dat, "%" PRIX64 " %zu %" PRIX64 " %s - %s\n", start, n, c.flags, n ? hexs(d, n).c_str() : "-", out.empty() ? "-" : hexs(out).c_str());
          report_dump(r, c, out, n == 0 ? "empty data: no output" : ((start & 15) ? "unaligned start" : "aligned start"));
        }
      }
      free(d);
    }
  }
  if (dat) fclose(dat);
  r.bound = "format_data: sizes 0..48,255,256,257,600 x 15 start addresses (0,1,15,16,17,F0,FF,100,FFF8,10000,2^32-8,2^32,2^63,2^64-len-16,2^64-len) x all 640 combinations of {ASCII,FLOAT,DOUBLE} x {none,REVERSE,BIG,LITTLE} x COLLAPSE x SKIP_SEPARATOR x {none,OFFSET_8/16/32/64} on the mixed pattern (quick: sizes <= 48; the 128 combinations without OFFSET flag on the printable, zero and boundary-value patterns and on sizes 255..600; thorough: all 640 on all 4 patterns and all sizes); every line decoded by the independent dump parser";
}

VF_SECTION(dump_color, 8, 8, 120) {
  using namespace phosg;
  r.note("format_data(USE_COLOR)");
  vector<size_t> sizes;
  for (size_t n = 1; n <= 20; n++) sizes.push_back(n);
  sizes.push_back(33);
  if (r.thorough()) sizes.push_back(48);
  const uint64_t flagsets[] = {
      PrintDataFlags::USE_COLOR | PrintDataFlags::PRINT_ASCII,
      PrintDataFlags::USE_COLOR,
      PrintDataFlags::USE_COLOR | PrintDataFlags::PRINT_ASCII | PrintDataFlags::PRINT_FLOAT | PrintDataFlags::PRINT_DOUBLE,
      PrintDataFlags::USE_COLOR | PrintDataFlags::PRINT_ASCII | PrintDataFlags::COLLAPSE_ZERO_LINES | PrintDataFlags::SKIP_SEPARATOR,
      PrintDataFlags::PRINT_ASCII,  // no colour requested: a previous buffer must not cause any highlighting
  };
  const uint64_t starts[] = {0, 5, 0xFFFD};
  for (size_t n : sizes) {
    vector<uint8_t> data = dump_pattern(3, n);
    // every subset of <= 3 differing positions (the empty subset included)
    vector<vector<size_t>> subsets;
    subsets.push_back({});
    for (size_t a = 0; a < n; a++) {
      subsets.push_back({a});
      for (size_t b = a + 1; b < n; b++) {
        subsets.push_back({a, b});
        if (n > 20 && !(r.thorough() && n == 33)) continue;  // three-line sizes: subsets of <= 2 positions (quick), 33 in full (thorough)
        for (size_t c2 = b + 1; c2 < n; c2++) subsets.push_back({a, b, c2});
      }
    }
    for (size_t si = 0; si <= subsets.size(); si++) {  // si == subsets.size(): no previous buffer at all
      for (uint64_t start : starts) {
        for (uint64_t flags : flagsets) {
          if (!r.take()) continue;
          bool has_prev = si < subsets.size();
          vector<uint8_t> prev = data;
          if (has_prev) for (size_t p : subsets[si]) prev[p] ^= (p % 2) ? 0x80 : 0x01;
          uint8_t* d = (uint8_t*)malloc(n);
          uint8_t* pv = (uint8_t*)malloc(n);
          memcpy(d, data.data(), n);
          memcpy(pv, prev.data(), n);
          DumpCase c{d, has_prev ? pv : nullptr, n, start, flags};
          if (r.wants_desc()) r.desc(describe_dump(c));
          if (has_prev && !subsets[si].empty()) r.nontriv();
          string out, what;
          string oc = vf::outcome([&] { out = phosg::format_data((const void*)d, (uint64_t)n, start, has_prev ? (const void*)pv : nullptr, flags); }, &what);
          if (oc != "ok") r.fail("format_data:throws", [&] { return describe_dump(c) + " threw " + oc + " (" + what + ")"; });
          else report_dump(r, c, out, !has_prev ? "no previous buffer" : (subsets[si].empty() ? "previous buffer identical" : "previous buffer differs"));
          free(d);
          free(pv);
        }
      }
    }
  }
  r.bound = "format_data with a previous buffer: sizes 1..20 x previous buffer differing in every subset of <=3 positions (and identical, and absent), size 33 with every subset of <=2 positions (thorough: <=3, plus size 48 with <=2) x start {0,5,FFFD} x {USE_COLOR|ASCII, USE_COLOR, USE_COLOR|ASCII|FLOAT|DOUBLE, USE_COLOR|ASCII|COLLAPSE|SKIP_SEPARATOR, ASCII without colour}; highlighted byte set == differing byte set in the hex and ASCII columns";
}

VF_SECTION(dump_collapse, 4, 4, 120) {
  using namespace phosg;
  r.note("format_data(COLLAPSE_ZERO_LINES)");
  const uint64_t flagsets[] = {
      PrintDataFlags::COLLAPSE_ZERO_LINES,
      PrintDataFlags::COLLAPSE_ZERO_LINES | PrintDataFlags::PRINT_ASCII,
      PrintDataFlags::COLLAPSE_ZERO_LINES | PrintDataFlags::PRINT_ASCII | PrintDataFlags::SKIP_SEPARATOR,
      PrintDataFlags::COLLAPSE_ZERO_LINES | PrintDataFlags::PRINT_FLOAT | PrintDataFlags::USE_COLOR,
      PrintDataFlags::PRINT_ASCII,  // collapse off: every line must be there
  };
  // layout in 16-byte lines relative to the first line: `lines` lines, lines [z0, z0+zn) are zero
  for (size_t lines = 1; lines <= 8; lines++) {
    for (size_t zn = 0; zn <= 4 && zn <= lines; zn++) {
      for (size_t z0 = 0; z0 + zn <= lines; z0++) {
        if (zn == 0 && z0 > 0) continue;
        for (size_t head : {(size_t)0, (size_t)3}) {        // bytes missing at the start of the first line
          for (size_t tail : {(size_t)0, (size_t)5}) {      // bytes missing at the end of the last line
            if (head + tail >= 16 * lines) continue;
            for (uint64_t base : {(uint64_t)0, (uint64_t)0xFFFFFFC0ull}) {
              for (int pv = 0; pv < 3; pv++) {              // 0: no prev, 1: prev == data, 2: prev non-zero inside the zero run
                for (uint64_t flags : flagsets) {
                  if (!r.take()) continue;
                  size_t n = 16 * lines - head - tail;
                  uint8_t* d = (uint8_t*)malloc(n);
                  uint8_t* p = (uint8_t*)malloc(n);
                  for (size_t i = 0; i < n; i++) {
                    size_t line = (i + head) / 16;
                    d[i] = (line >= z0 && line < z0 + zn) ? 0 : (uint8_t)(0x41 + (i % 26));
                  }
                  memcpy(p, d, n);
                  if (pv == 2 && zn) {
                    size_t off = 16 * z0 + 7;
                    if (off >= head && off - head < n) p[off - head] = 0x55;
                  }
                  DumpCase c{d, pv ? p : nullptr, n, base + head, flags};
                  if (r.wants_desc()) r.desc(describe_dump(c));
                  if (zn) r.nontriv();
                  string out, what;
                  string oc = vf::outcome([&] { out = phosg::format_data((const void*)d, (uint64_t)n, c.start, pv ? (const void*)p : nullptr, flags); }, &what);
                  if (oc != "ok") r.fail("format_data:throws", [&] { return describe_dump(c) + " threw " + oc + " (" + what + ")"; });
                  else {
                    bool interior_zero = zn && (z0 + zn > 1) && (z0 < lines - 1) && lines > 2;
                    report_dump(r, c, out, !(flags & PrintDataFlags::COLLAPSE_ZERO_LINES) ? "collapse off" : (interior_zero ? "zero run touches interior lines" : "no interior zero line"));
                  }
                  free(d);
                  free(p);
                }
              }
            }
          }
        }
      }
    }
  }
  r.bound = "format_data zero-line collapsing: 1..8 lines with a run of 0..4 all-zero lines at every position (start/middle/end) x partial first/last line x 2 base addresses x {no prev, prev identical, prev non-zero inside the run} x 4 COLLAPSE flag sets + collapse off";
}

VF_SECTION(dump_iovec, 16, 16, 120) {
  using namespace phosg;
  r.note("format_data(iovecs)");
  const uint64_t flagsets[] = {
      PrintDataFlags::PRINT_ASCII | PrintDataFlags::PRINT_FLOAT | PrintDataFlags::LITTLE_ENDIAN_FLOATS,
      PrintDataFlags::USE_COLOR | PrintDataFlags::PRINT_ASCII | PrintDataFlags::PRINT_DOUBLE,
      PrintDataFlags::COLLAPSE_ZERO_LINES,
  };
  const uint64_t starts[] = {0, 3, 0xD};
  const size_t both_max = r.thorough() ? 10 : 5;
  for (size_t n = 0; n <= 20; n++) {
    vector<uint8_t> data = dump_pattern(0, n), prev = dump_pattern(0, n);
    for (size_t i = 0; i < n; i += 3) prev[i] ^= 0x40;
    // all partitions of n bytes into 1..4 parts
    vector<vector<size_t>> parts;
    for (size_t k = 1; k <= 4; k++) compositions(n, k, [&](const vector<size_t>& p) { parts.push_back(p); });
    for (uint64_t start : starts) {
      for (uint64_t flags : flagsets) {
        string base_noprev, base_prev;
        bool have_base = false;
        auto base = [&] {
          if (have_base) return;
          have_base = true;
          base_noprev = phosg::format_data((const void*)data.data(), (uint64_t)n, start, nullptr, flags);
          base_prev = phosg::format_data((const void*)data.data(), (uint64_t)n, start, (const void*)prev.data(), flags);
        };
        // the single-buffer outputs themselves are validated by the dump parser once
        if (r.take()) {
          base();
          DumpCase c1{data.data(), nullptr, n, start, flags}, c2{data.data(), prev.data(), n, start, flags};
          if (r.wants_desc()) r.desc(describe_dump(c2) + " [reference outputs for the partition cases]");
          string e1 = check_dump(c1, base_noprev), e2 = check_dump(c2, base_prev);
          if (!e1.empty() || !e2.empty()) report_dump(r, e1.empty() ? c2 : c1, e1.empty() ? base_prev : base_noprev, "");
          else r.ok("single-buffer reference output decodes");
        }
        // mode 0: data partitioned, no prev; 1: data partitioned, prev single; 2: data single, prev partitioned; 3: both partitioned
        for (int mode = 0; mode < 4; mode++) {
          if (mode == 3 && n > both_max) continue;
          for (size_t pi = 0; pi < parts.size(); pi++) {
            size_t inner = (mode == 3) ? parts.size() : 1;
            for (size_t qi = 0; qi < inner; qi++) {
              if (!r.take()) continue;
              base();
              const vector<size_t> whole{n};
              const vector<size_t>& dp = (mode == 2) ? whole : parts[pi];
              const vector<size_t>& pp = (mode == 2) ? parts[pi] : (mode == 3 ? parts[qi] : whole);
              IovSet di(data.data(), dp), pvs(prev.data(), pp);
              auto show_parts = [](const vector<size_t>& p) {
                string s = "[";
                for (size_t i = 0; i < p.size(); i++) s += (i ? "," : "") + std::to_string(p[i]);
                return s + "]";
              };
              auto desc = [&] { return vf::fmt("format_data(iovecs %s of %zu bytes, start=0x%" PRIX64 ", prev %s, flags=0x%04" PRIX64 ")", show_parts(dp).c_str(), n, start, mode == 0 ? "none" : ("iovecs " + show_parts(pp)).c_str(), flags); };
              if (r.wants_desc()) r.desc(desc());
              if (dp.size() > 1 || pp.size() > 1) r.nontriv();
              string out, out_vec, what;
              string oc = vf::outcome([&] {
                out = phosg::format_data(di.iov.data(), di.iov.size(), start, mode ? pvs.iov.data() : nullptr, mode ? pvs.iov.size() : 0, flags);
                out_vec = phosg::format_data(di.iov, start, mode ? &pvs.iov : nullptr, flags);
              }, &what);
              const string& want = mode ? base_prev : base_noprev;
              if (oc != "ok") r.fail("format_data:iovec-throws", [&] { return desc() + " threw " + oc + " (" + what + ")"; });
              else if (out != want) r.fail("format_data:iovec-partition-dependent", [&] { return desc() + " differs from the single-buffer output.\n--- partitioned ---\n" + out + "--- single ---\n" + want; });
              else if (out_vec != want) r.fail("format_data:vector-overload-differs", [&] { return desc() + ": std::vector<iovec> overload differs from the single-buffer output"; });
              else r.ok(mode == 0 ? "data partitioned, no prev" : (mode == 1 ? "data partitioned, prev single" : (mode == 2 ? "prev partitioned" : "both partitioned")));
            }
          }
        }
      }
    }
  }
  r.bound = vf::fmt("format_data iovec partitions: sizes 0..20 x every split into 1..4 consecutive (possibly empty) iovecs over separate exact-size heap blocks, for data (prev none / single) and for prev (data single); both partitioned independently for sizes <= %zu; x start {0,3,D} x 3 flag sets; output must equal the single-buffer output (itself decoded by the dump parser)", both_max);
}

VF_SECTION(print_data, 1, 1, 120) {
  using namespace phosg;
  r.note("print_data");
  const uint64_t flagsets[] = {
      PrintDataFlags::PRINT_ASCII,
      0x10000,  // no documented flag at all (print_data adds DISABLE_COLOR on a non-terminal)
      PrintDataFlags::PRINT_ASCII | PrintDataFlags::DISABLE_COLOR,
      PrintDataFlags::PRINT_ASCII | PrintDataFlags::USE_COLOR,
      PrintDataFlags::PRINT_FLOAT | PrintDataFlags::PRINT_DOUBLE | PrintDataFlags::BIG_ENDIAN_FLOATS | PrintDataFlags::COLLAPSE_ZERO_LINES,
  };
  for (size_t n : {(size_t)0, (size_t)1, (size_t)16, (size_t)17, (size_t)40, (size_t)257}) {
    for (uint64_t start : {(uint64_t)0, (uint64_t)7, (uint64_t)0xFFFFFFF8ull}) {
      for (uint64_t flags : flagsets) {
        for (int with_prev = 0; with_prev < 2; with_prev++) {
          if (!r.take()) continue;
          vector<uint8_t> dv = dump_pattern(3, n), pvv = dump_pattern(3, n);
          for (size_t i = 0; i < n; i += 5) pvv[i] ^= 0x21;
          string data((const char*)dv.data(), n), prev((const char*)pvv.data(), n);
          const void* pp = with_prev ? (const void*)prev.data() : nullptr;
          DumpCase c{(const uint8_t*)data.data(), with_prev ? (const uint8_t*)prev.data() : nullptr, n, start, flags};
          if (r.wants_desc()) r.desc("print_data/format_data overloads: " + describe_dump(c));
          if (n) r.nontriv();
          struct iovec iov{(void*)data.data(), n}, piov{(void*)prev.data(), n};
          vector<struct iovec> iovs{iov}, piovs{piov};
          string ref = format_data(&iov, 1, start, with_prev ? &piov : nullptr, with_prev ? 1 : 0, flags);
          vector<std::pair<const char*, string>> outs;
          string what;
          string oc = vf::outcome([&] {
            outs.emplace_back("format_data(vector<iovec>)", format_data(iovs, start, with_prev ? &piovs : nullptr, flags));
            outs.emplace_back("format_data(void*, size)", format_data((const void*)data.data(), (uint64_t)n, start, pp, flags));
            outs.emplace_back("format_data(string)", format_data(data, start, pp, flags));
            outs.emplace_back("print_data(iovec*)", via_memstream([&](FILE* f) { print_data(f, &iov, 1, start, with_prev ? &piov : nullptr, with_prev ? 1 : 0, flags); }));
            outs.emplace_back("print_data(vector<iovec>)", via_memstream([&](FILE* f) { print_data(f, iovs, start, with_prev ? &piovs : nullptr, flags); }));
            outs.emplace_back("print_data(void*, size)", via_memstream([&](FILE* f) { print_data(f, (const void*)data.data(), (uint64_t)n, start, pp, flags); }));
            outs.emplace_back("print_data(string)", via_memstream([&](FILE* f) { print_data(f, data, start, pp, flags); }));
          }, &what);
          bool bad = false;
          if (oc != "ok") {
            bad = true;
            r.fail("print_data:throws", [&] { return describe_dump(c) + " threw " + oc + " (" + what + ")"; });
          }
          for (auto& o : outs) {
            if (!bad && o.second != ref) {
              bad = true;
              r.fail("print_data:overloads-differ", [&] { return string(o.first) + " output differs from format_data(iovec*) for " + describe_dump(c) + "\n--- " + o.first + " ---\n" + o.second + "--- format_data(iovec*) ---\n" + ref; });
            }
          }
          if (!bad) report_dump(r, c, ref, "all 8 overloads agree and decode");
        }
      }
    }
  }
  // documented argument check
  if (r.take()) {
    if (r.wants_desc()) r.desc("format_data with a previous buffer of a different total size");
    char a[4] = {1, 2, 3, 4}, b[3] = {1, 2, 3};
    struct iovec ia{a, 4}, ib{b, 3};
    string oc = vf::outcome([&] { format_data(&ia, 1, 0, &ib, 1, PrintDataFlags::PRINT_ASCII); });
    if (oc != "runtime_error") r.fail("format_data:prev-size-unchecked", [&] { return "format_data(4 bytes, prev of 3 bytes) -> " + oc + ", documented: runtime_error"; });
    else r.ok("prev size mismatch: runtime_error");
  }
  r.bound = "print_data (4 overloads, via open_memstream) and format_data (4 overloads): sizes {0,1,16,17,40,257} x start {0,7,2^32-8} x 5 flag sets x prev {none, given}; all outputs identical and decoded by the dump parser";
}

VF_MAIN()
