// C08 — split / join / split_context / split_args / strip_* / replace / skip_* / string_printf obey
// their algebraic laws and plain reference definitions.
//
// E-ENUM: every string up to the length bound over a per-function adversarial alphabet is executed on
// the real functions.  Laws that need no model (concatenation, piece count, no delimiter in a piece)
// are checked first; then the result is compared with a reference definition written in this file.
// Reference definitions are deliberately written in a different style from the library (character
// accumulation instead of find(); recursive descent instead of an explicit stack; erase loops
// instead of find_first_not_of) so that a shared mistake is unlikely.
#include <stdarg.h>
#include <string.h>

#include <deque>
#include <list>
#include <set>
#include <string>
#include <vector>

#include "Strings.hh"
#include "vf.hh"

using std::string;
using std::vector;
using std::wstring;

namespace {

// ---------- rendering ---------------------------------------------------------------------------

string showw(const wstring& w) {
  string s;
  for (wchar_t c : w) s.push_back((c >= 0 && c < 0x100) ? (char)c : '?');
  return "L" + vf::show(s);
}
string showv(const vector<string>& v) {
  string o = "[";
  for (size_t i = 0; i < v.size(); i++) o += (i ? ", " : "") + vf::show(v[i]);
  return o + "]";
}
string showv(const vector<wstring>& v) {
  string o = "[";
  for (size_t i = 0; i < v.size(); i++) o += (i ? ", " : "") + showw(v[i]);
  return o + "]";
}
string show1(const string& s) { return vf::show(s); }
string show1(const wstring& s) { return showw(s); }

wstring widen(const string& s) {
  wstring w;
  for (unsigned char c : s) w.push_back((wchar_t)c);
  return w;
}

// ---------- textbook definitions ------------------------------------------------------------------

// items with the delimiter *between* consecutive items
template <class Str, class Cont>
Str ref_join(const Cont& items, const Str& delim) {
  Str out;
  size_t n = 0;
  for (const auto& it : items) {
    if (n++ > 0) out.append(delim);
    out.append(it);
  }
  return out;
}

// cut at the first m occurrences of d (at all of them when m == 0); accumulates character by character
template <class Str>
vector<Str> ref_split(const Str& s, typename Str::value_type d, size_t m) {
  vector<Str> out;
  Str cur;
  size_t cuts = 0;
  for (auto c : s) {
    if (c == d && (m == 0 || cuts < m)) {
      out.push_back(cur);
      cur.clear();
      cuts++;
    } else {
      cur.push_back(c);
    }
  }
  out.push_back(cur);
  return out;
}

template <class Str>
size_t count_char(const Str& s, typename Str::value_type d) {
  size_t n = 0;
  for (auto c : s) n += (c == d);
  return n;
}

const size_t MAX_SPLITS[] = {0, 1, 2, 3, 9};

// ---------- split / join law section ----------------------------------------------------------------

template <class Str>
void check_split(vf::Run& r, const char* fname, const string& alphabet, size_t maxlen, bool with_join) {
  using Ch = typename Str::value_type;
  r.note(fname);
  string k = fname;
  vf::all_strings(alphabet, maxlen, [&](const string& narrow) {
    for (char dc : alphabet) {
      for (size_t m : MAX_SPLITS) {
        if (!r.take()) continue;
        Str s;
        for (unsigned char c : narrow) s.push_back((Ch)c);
        Ch d = (Ch)(unsigned char)dc;
        if (r.wants_desc()) r.desc(vf::fmt("%s(%s, '%c', max_splits=%zu)", fname, show1(s).c_str(), dc, m));
        vector<Str> got;
        string what;
        string oc = vf::outcome([&] { got = phosg::split(s, d, m); }, &what);
        size_t nd = count_char(s, d);
        if (nd) r.nontriv();
        auto ctx = [&] { return vf::fmt("%s(%s, '%c', max_splits=%zu) returned %s", fname, show1(s).c_str(), dc, m, showv(got).c_str()); };
        if (oc != "ok") {
          r.fail(k + ":throws", [&] { return vf::fmt("%s(%s, '%c', %zu) threw %s (%s)", fname, show1(s).c_str(), dc, m, oc.c_str(), what.c_str()); });
          continue;
        }
        bool bad = false;
        // law 1: number of pieces
        size_t want_n = nd + 1;
        if (m > 0 && want_n > m + 1) want_n = m + 1;
        if (got.size() != want_n) {
          bad = true;
          r.fail(k + ":piece-count", [&] { return ctx() + vf::fmt(": %zu pieces, expected %zu (= delimiters+1 capped at max_splits+1)", got.size(), want_n); });
        }
        // law 2: no piece but the last contains the delimiter; the last only if max_splits stopped splitting
        for (size_t i = 0; i < got.size(); i++) {
          bool last = (i + 1 == got.size());
          bool capped = (m > 0 && got.size() == m + 1);
          if (count_char(got[i], d) && !(last && capped)) {
            bad = true;
            r.fail(k + ":delimiter-in-piece", [&] { return ctx() + vf::fmt(": piece %zu contains the delimiter although max_splits did not stop splitting there", i); });
            break;
          }
        }
        // law 3: textbook join of the pieces reproduces the string (attributes a failure to split itself)
        Str dstr(1, d);
        if (ref_join<Str>(got, dstr) != s) {
          bad = true;
          r.fail(k + ":concat-law", [&] { return ctx() + ": pieces joined by the delimiter (textbook join) give " + show1(ref_join<Str>(got, dstr)) + ", not the input"; });
        }
        // reference definition
        auto want = ref_split(s, d, m);
        if (got != want) {
          bad = true;
          r.fail(k + ":pieces", [&] { return ctx() + ", reference scanner gives " + showv(want); });
        }
        // law 4: the library's own join inverts split (only std::string pieces can be joined)
        if constexpr (std::is_same<Str, string>::value) {
          if (with_join) {
            string j1 = phosg::join(got, d);             // DelimiterT = char
            const string ds(1, d);
            string j2 = phosg::join(got, ds);            // DelimiterT = const std::string
            if (j1 != s || j2 != s) {
              bad = true;
              r.fail("join:split-roundtrip", [&] { return vf::fmt("join(split(%s, '%c', %zu), \"%c\") == %s, expected the original string (split returned %s)", show1(s).c_str(), dc, m, dc, vf::show(j1 != s ? j1 : j2).c_str(), showv(got).c_str()); });
            }
          }
        }
        if (!bad) r.ok(got.size() == 1 ? "one-piece" : (m > 0 && got.size() == m + 1 ? "capped-by-max_splits" : "split-at-every-delimiter"));
      }
    }
  });
}

// ---------- join alone --------------------------------------------------------------------------------

const char* const JOIN_POOL[] = {"", "a", "b", "ab"};
const char* const JOIN_DELIMS[] = {"", ",", "--"};

template <class Cont>
void check_join_container(vf::Run& r, const char* cname, const vector<string>& items, bool& bad) {
  Cont c(items.begin(), items.end());
  vector<string> in_order(c.begin(), c.end());  // iteration order of the container (sorted/unique for set)
  for (const char* dl : JOIN_DELIMS) {
    const string delim = dl;
    string want = ref_join<string>(in_order, delim);
    string got_s = phosg::join(c, delim);  // DelimiterT = const std::string
    const char* dptr = dl;
    string got_p = phosg::join(c, dptr);   // DelimiterT = const char*
    string got_c = want;
    if (delim.size() == 1) {
      char ch = delim[0];
      got_c = phosg::join(c, ch);          // DelimiterT = char
    }
    if (got_s != want || got_p != want || got_c != want) {
      bad = true;
      r.fail("join:definition", [&] {
        return vf::fmt("join(%s%s, %s) == %s, textbook definition (delimiter between consecutive items) gives %s", cname, showv(in_order).c_str(),
            vf::show(delim).c_str(), vf::show(got_s != want ? got_s : (got_p != want ? got_p : got_c)).c_str(), vf::show(want).c_str());
      });
    }
  }
  string want = ref_join<string>(in_order, string());
  string got = phosg::join(c);
  if (got != want) {
    bad = true;
    r.fail("join:nodelim-definition", [&] { return vf::fmt("join(%s%s) == %s, expected the concatenation %s", cname, showv(in_order).c_str(), vf::show(got).c_str(), vf::show(want).c_str()); });
  }
}

// ---------- split_context ---------------------------------------------------------------------------

// Independent bracket / quote scanner (recursive descent).  Reading used:
//   * ( [ { < open a group closed by the matching ) ] } > ; groups nest;
//   * ' and " open a quoted string closed by the same quote; inside it a backslash escapes the next
//     character and brackets / the other quote are ordinary characters;
//   * a delimiter is top-level iff it is outside every group and every quoted string.
// Inputs on which reasonable readings differ are flagged `ambiguous` and only the model-free laws are
// checked on them: a closing bracket that does not close the innermost open group (stray closer) and a
// backslash outside a quoted string.
struct Scan {
  const string& s;
  char delim;
  bool ambiguous = false;
  bool balanced = true;
  vector<size_t> top;  // positions of top-level delimiters
  size_t pos = 0;

  static char closer_for(char c) {
    switch (c) {
      case '(': return ')';
      case '[': return ']';
      case '{': return '}';
      case '<': return '>';
    }
    return 0;
  }
  static bool is_closer(char c) { return c == ')' || c == ']' || c == '}' || c == '>'; }

  void quoted(char q) {  // pos is just after the opening quote
    while (pos < s.size()) {
      char c = s[pos];
      if (c == '\\') {
        pos += 2;  // escaped character (if the text ends here the string is unterminated)
        continue;
      }
      pos++;
      if (c == q) return;
    }
    balanced = false;
  }
  void group(char want_close) {  // want_close == 0: top level
    while (pos < s.size() && balanced) {
      char c = s[pos];
      if (want_close && c == want_close) {
        pos++;
        return;
      }
      if (c == '\'' || c == '"') {
        pos++;
        quoted(c);
      } else if (closer_for(c)) {
        pos++;
        group(closer_for(c));
      } else {
        if (is_closer(c) || c == '\\') ambiguous = true;
        if (!want_close && c == delim) top.push_back(pos);
        pos++;
      }
    }
    if (want_close) balanced = false;
  }
  Scan(const string& str, char d) : s(str), delim(d) {
    group(0);
    if (pos > s.size()) balanced = false;  // escape ran past the end inside a quoted string
  }
};

vector<string> cut_at(const string& s, const vector<size_t>& at, size_t m) {
  vector<string> out;
  size_t start = 0, cuts = 0;
  for (size_t p : at) {
    if (m && cuts == m) break;
    out.push_back(s.substr(start, p - start));
    start = p + 1;
    cuts++;
  }
  out.push_back(s.substr(start));
  return out;
}

void check_split_context(vf::Run& r, const string& alphabet, size_t maxlen, char d) {
  r.note("split_context");
  vf::all_strings(alphabet, maxlen, [&](const string& s) {
    for (size_t m : MAX_SPLITS) {
      if (!r.take()) continue;
      if (r.wants_desc()) r.desc(vf::fmt("split_context(%s, '%c', max_splits=%zu)", vf::show(s).c_str(), d, m));
      vector<string> got;
      string what;
      string oc = vf::outcome([&] { got = phosg::split_context(s, d, m); }, &what);
      Scan sc(s, d);
      if (!sc.top.empty() || s.find_first_of("([{<'\"") != string::npos) r.nontriv();
      auto ctx = [&] { return vf::fmt("split_context(%s, '%c', max_splits=%zu)", vf::show(s).c_str(), d, m); };
      if (oc != "ok" && oc != "runtime_error") {
        r.fail("split_context:exception-type", [&] { return ctx() + " threw " + oc + " (" + what + "); only runtime_error is documented"; });
        continue;
      }
      bool bad = false;
      if (oc == "ok") {
        // model-free laws, checked whenever the function returns
        const string ds(1, d);
        if (ref_join<string>(got, ds) != s) {
          bad = true;
          r.fail("split_context:concat-law", [&] { return ctx() + " returned " + showv(got) + "; joined by the delimiter that is " + vf::show(ref_join<string>(got, ds)) + ", not the input"; });
        }
        if (got.empty() || (m > 0 && got.size() > m + 1)) {
          bad = true;
          r.fail("split_context:piece-count-cap", [&] { return ctx() + vf::fmt(" returned %zu pieces (must be 1..max_splits+1): ", got.size()) + showv(got); });
        }
      }
      if (sc.ambiguous) {
        if (!bad) r.ok(oc == "ok" ? "dont-care(stray closer or backslash outside quotes): returned, laws hold" : "dont-care(stray closer or backslash outside quotes): threw");
        continue;
      }
      if (oc == "ok" && !sc.balanced) {
        r.fail("split_context:accepts-unbalanced", [&] { return ctx() + " returned " + showv(got) + " although a bracket or quote is never closed"; });
        continue;
      }
      if (oc != "ok" && sc.balanced) {
        r.fail("split_context:rejects-balanced", [&] { return ctx() + " threw (" + what + ") although every bracket and quote is closed"; });
        continue;
      }
      if (oc != "ok") {
        r.ok("unbalanced: runtime_error");
        continue;
      }
      size_t want_n = sc.top.size() + 1;
      if (m > 0 && want_n > m + 1) want_n = m + 1;
      if (got.size() != want_n) {
        bad = true;
        r.fail("split_context:piece-count", [&] { return ctx() + vf::fmt(" returned %zu pieces %s; %zu top-level delimiters -> expected %zu", got.size(), showv(got).c_str(), sc.top.size(), want_n); });
      }
      for (size_t i = 0; i < got.size(); i++) {
        bool last = (i + 1 == got.size());
        bool capped = (m > 0 && got.size() == m + 1);
        if (last && capped) continue;
        Scan ps(got[i], d);
        if (!ps.top.empty() || !ps.balanced) {
          bad = true;
          r.fail("split_context:top-level-delimiter-in-piece", [&] { return ctx() + " returned " + showv(got) + vf::fmt(": piece %zu %s", i, ps.balanced ? "contains a top-level delimiter" : "is not balanced on its own (cut inside a group or quoted string)"); });
          break;
        }
      }
      auto want = cut_at(s, sc.top, m);
      if (got != want) {
        bad = true;
        r.fail("split_context:pieces", [&] { return ctx() + " returned " + showv(got) + ", independent scanner gives " + showv(want); });
      }
      if (!bad) r.ok(sc.top.empty() ? "balanced: one piece" : (got.size() < sc.top.size() + 1 ? "balanced: capped by max_splits" : "balanced: split at every top-level delimiter"));
    }
  });
}

// ---------- split_args ----------------------------------------------------------------------------------

// Shell-style reference (StringsTest documents: blanks separate, both quote kinds group, a backslash
// escapes the next character inside and outside quotes; dangling backslash / unterminated quote throw).
// Variant A lets a quote start an argument (so "" yields an empty argument); the library's answer to
// that question is not settled by the property, so inputs where A contains an empty argument are a
// don't-care class.
struct ArgsRef {
  bool error = false;
  vector<string> args;
  bool has_empty = false;
};

ArgsRef ref_split_args(const string& s) {
  ArgsRef out;
  string cur;
  bool have = false;
  size_t i = 0, n = s.size();
  auto flush = [&] {
    if (have) {
      if (cur.empty()) out.has_empty = true;
      out.args.push_back(cur);
    }
    cur.clear();
    have = false;
  };
  while (i < n) {
    char c = s[i];
    if (c == ' ' || c == '\t') {
      flush();
      i++;
    } else if (c == '\\') {
      if (i + 1 >= n) { out.error = true; return out; }
      cur.push_back(s[i + 1]);
      have = true;
      i += 2;
    } else if (c == '"' || c == '\'') {
      have = true;
      i++;
      for (;;) {
        if (i >= n) { out.error = true; return out; }
        if (s[i] == c) { i++; break; }
        if (s[i] == '\\') {
          if (i + 1 >= n) { out.error = true; return out; }
          cur.push_back(s[i + 1]);
          i += 2;
        } else cur.push_back(s[i++]);
      }
    } else {
      cur.push_back(c);
      have = true;
      i++;
    }
  }
  flush();
  return out;
}

// ---------- strip_* -------------------------------------------------------------------------------------

template <class Str>
bool is_ws(typename Str::value_type c) { return c == ' ' || c == '\t' || c == '\r' || c == '\n'; }

template <class Str>
Str ref_rstrip_ws(Str s) {
  while (!s.empty() && is_ws<Str>(s.back())) s.pop_back();
  return s;
}
template <class Str>
Str ref_lstrip_ws(Str s) {
  size_t i = 0;
  while (i < s.size() && is_ws<Str>(s[i])) i++;
  return Str(s.begin() + i, s.end());
}
template <class Str>
Str ref_rstrip_zero(Str s) {
  while (!s.empty() && s.back() == 0) s.pop_back();
  return s;
}

// comments: text between "/*" and the next "*/" (which may not overlap the opener) is removed, except
// that newlines inside a comment are kept; written with find() on the original string
template <class Str>
Str ref_strip_comments(const Str& s, bool* unterminated) {
  using Ch = typename Str::value_type;
  const Ch open[] = {'/', '*', 0}, close[] = {'*', '/', 0};
  Str out;
  size_t pos = 0;
  *unterminated = false;
  for (;;) {
    size_t a = s.find(open, pos);
    if (a == Str::npos) {
      out.append(s, pos, Str::npos);
      return out;
    }
    out.append(s, pos, a - pos);
    size_t b = s.find(close, a + 2);
    size_t end = (b == Str::npos) ? s.size() : b;
    for (size_t i = a + 2; i < end; i++) if (s[i] == '\n') out.push_back('\n');
    if (b == Str::npos) {
      *unterminated = true;
      return out;
    }
    pos = b + 2;
  }
}

template <class Str>
void check_comments(vf::Run& r, const char* fname, const string& alphabet, size_t maxlen) {
  using Ch = typename Str::value_type;
  r.note(fname);
  string k = fname;
  vf::all_strings(alphabet, maxlen, [&](const string& narrow) {
    for (int allow = 0; allow < 2; allow++) {
      if (!r.take()) continue;
      Str s;
      for (unsigned char c : narrow) s.push_back((Ch)c);
      if (r.wants_desc()) r.desc(vf::fmt("%s(%s, allow_unterminated=%d)", fname, show1(s).c_str(), allow));
      bool unterminated = false;
      Str want = ref_strip_comments(s, &unterminated);
      if (narrow.find("/*") != string::npos) r.nontriv();
      Str got = s;
      string what;
      string oc = vf::outcome([&] { phosg::strip_multiline_comments(got, (bool)allow); }, &what);
      bool want_throw = unterminated && !allow;
      auto ctx = [&] { return vf::fmt("%s(%s, allow_unterminated=%d)", fname, show1(s).c_str(), allow); };
      if (want_throw) {
        if (oc == "runtime_error") r.ok("unterminated: runtime_error");
        else r.fail(k + ":unterminated-not-rejected", [&] { return ctx() + " -> " + (oc == "ok" ? "returned " + show1(got) : "threw " + oc) + "; expected runtime_error (comment never closed)"; });
      } else if (oc != "ok") {
        r.fail(k + ":throws", [&] { return ctx() + " threw " + oc + " (" + what + "), expected " + show1(want); });
      } else if (got != want) {
        r.fail(k + ":wrong-value", [&] { return ctx() + " -> " + show1(got) + ", reference definition gives " + show1(want); });
      } else r.ok(unterminated ? "unterminated allowed" : (want == s ? "no comment" : "comment removed"));
    }
  });
}

// ---------- string_printf --------------------------------------------------------------------------------

string big_vsnprintf(size_t cap, const char* fmt, ...) __attribute__((format(printf, 2, 3)));
string big_vsnprintf(size_t cap, const char* fmt, ...) {
  string buf(cap + 16, '\0');
  va_list va;
  va_start(va, fmt);
  int n = vsnprintf(buf.data(), buf.size(), fmt, va);
  va_end(va);
  if (n < 0 || (size_t)n >= buf.size()) return "<vsnprintf failed>";
  buf.resize(n);
  return buf;
}

string pattern(size_t n) {
  string s(n, 'x');
  for (size_t i = 0; i < n; i++) s[i] = (char)('!' + (i * 7 + i / 251) % 90);
  return s;
}

}  // namespace

// =====================================================================================================

VF_SECTION(split, 8, 8, 90) {
  check_split<string>(r, "split", "ab,", 8, true);
  r.bound = "split(std::string): all strings over {a,b,','} up to length 8 x delimiter in {a,b,','} x max_splits in {0,1,2,3,9}; laws + reference scanner + the library's join as inverse (char and std::string delimiter)";
}

VF_SECTION(wsplit, 8, 8, 90) {
  check_split<wstring>(r, "split(wstring)", "ab,", 8, false);
  r.bound = "split(std::wstring): same space as section split (laws + reference scanner)";
}

VF_SECTION(join, 1, 1, 90) {
  r.note("join");
  for (size_t n = 0; n <= 4; n++) {
    vf::Odometer od(vector<uint32_t>(n, 4));
    for (; !od.done; od.step()) {
      if (!r.take()) continue;
      vector<string> items;
      for (size_t i = 0; i < n; i++) items.push_back(JOIN_POOL[od.d[i]]);
      if (r.wants_desc()) r.desc("join(" + showv(items) + ") over vector/deque/list/set/multiset x delimiters \"\", \",\", \"--\" (std::string, const char*, char) and without delimiter");
      if (n >= 2) r.nontriv();
      bool bad = false;
      check_join_container<vector<string>>(r, "vector", items, bad);
      check_join_container<std::deque<string>>(r, "deque", items, bad);
      check_join_container<std::list<string>>(r, "list", items, bad);
      check_join_container<std::set<string>>(r, "set", items, bad);
      check_join_container<std::multiset<string>>(r, "multiset", items, bad);
      if (!bad) r.ok(n == 0 ? "empty list" : (items[0].empty() ? "first item empty" : "first item non-empty"));
    }
  }
  r.bound = "join: every list of 0..4 items from {\"\",a,b,ab} x delimiter in {\"\", \",\", \"--\"} (as std::string, const char*, char) x {vector,deque,list,set,multiset}, plus join without delimiter";
}

VF_SECTION(split_context, 16, 16, 90) {
  size_t maxlen = r.thorough() ? 7 : 6;
  check_split_context(r, "a,()[]'\"\\>", maxlen, ',');
  check_split_context(r, "a,(){<'\\", r.thorough() ? 6 : 5, 'a');
  r.bound = vf::fmt("split_context: all strings over {a , ( ) [ ] ' \" \\ >} up to length %zu with delimiter ',' and over {a , ( ) { < ' \\} up to length %zu with delimiter 'a', x max_splits in {0,1,2,3,9}", maxlen, maxlen - 1);
}

VF_SECTION(split_args, 16, 16, 90) {
  r.note("split_args");
  const string alphabet = "a \t\"'\\";
  const size_t args_maxlen = r.thorough() ? 8 : 7;
  vf::all_strings(alphabet, args_maxlen, [&](const string& s) {
    if (!r.take()) return;
    if (r.wants_desc()) r.desc("split_args(" + vf::show(s) + ")");
    vector<string> got;
    string what;
    string oc = vf::outcome([&] { got = phosg::split_args(s); }, &what);
    ArgsRef ref = ref_split_args(s);
    if (s.find_first_of(" \t\"'\\") != string::npos) r.nontriv();
    auto ctx = [&] { return "split_args(" + vf::show(s) + ")"; };
    if (oc != "ok" && oc != "runtime_error") {
      r.fail("split_args:exception-type", [&] { return ctx() + " threw " + oc + " (" + what + ")"; });
    } else if (ref.error) {
      if (oc == "runtime_error") r.ok("dangling backslash / unterminated quote: runtime_error");
      else r.fail("split_args:accepts-malformed", [&] { return ctx() + " returned " + showv(got) + "; expected runtime_error (dangling backslash or unterminated quote)"; });
    } else if (oc != "ok") {
      r.fail("split_args:rejects-wellformed", [&] { return ctx() + " threw (" + what + "), reference gives " + showv(ref.args); });
    } else if (ref.has_empty) {
      r.ok("dont-care(empty quoted argument)");
    } else if (got != ref.args) {
      r.fail("split_args:wrong-value", [&] { return ctx() + " returned " + showv(got) + ", shell-style reference gives " + showv(ref.args); });
    } else r.ok(got.empty() ? "no arguments" : (got.size() == 1 ? "one argument" : "several arguments"));
  });
  r.bound = vf::fmt("split_args: all strings over {a, space, tab, \", ', \\} up to length %zu", args_maxlen);
}

VF_SECTION(strip, 8, 8, 90) {
  const string alphabet = string("a \t\n\r") + string(1, '\0');
  const size_t maxlen = r.thorough() ? 7 : 6;
  struct Fn {
    const char* name;
    void (*real)(string&);
    string (*ref)(string);
  };
  static const Fn fns[] = {
      {"strip_trailing_zeroes", [](string& s) { phosg::strip_trailing_zeroes(s); }, [](string s) { return ref_rstrip_zero(s); }},
      {"strip_trailing_whitespace", [](string& s) { phosg::strip_trailing_whitespace(s); }, [](string s) { return ref_rstrip_ws(s); }},
      {"strip_leading_whitespace", [](string& s) { phosg::strip_leading_whitespace(s); }, [](string s) { return ref_lstrip_ws(s); }},
      {"strip_whitespace", [](string& s) { phosg::strip_whitespace(s); }, [](string s) { return ref_lstrip_ws(ref_rstrip_ws(s)); }},
  };
  for (const Fn& f : fns) {
    r.note(f.name);
    vf::all_strings(alphabet, maxlen, [&](const string& s) {
      if (!r.take()) return;
      if (r.wants_desc()) r.desc(string(f.name) + "(" + vf::show(s) + ")");
      string got = s;
      string what;
      string oc = vf::outcome([&] { f.real(got); }, &what);
      string want = f.ref(s);
      if (want != s) r.nontriv();
      if (oc != "ok") r.fail(string(f.name) + ":throws", [&] { return string(f.name) + "(" + vf::show(s) + ") threw " + oc + " (" + what + ")"; });
      else if (got != want) r.fail(string(f.name) + ":wrong-value", [&] { return string(f.name) + "(" + vf::show(s) + ") -> " + vf::show(got) + ", reference definition gives " + vf::show(want); });
      else r.ok(want.empty() && !s.empty() ? "everything stripped" : (want == s ? "unchanged" : "partly stripped"));
    });
  }
  // the only strip_* template besides strip_multiline_comments that can be instantiated for std::wstring
  // (the whitespace variants pass a narrow literal to wstring::find_*_of and do not compile)
  r.note("strip_trailing_zeroes(wstring)");
  vf::all_strings(alphabet, maxlen, [&](const string& s) {
    if (!r.take()) return;
    wstring w = widen(s), got = w;
    if (r.wants_desc()) r.desc("strip_trailing_zeroes(" + showw(w) + ")");
    string oc = vf::outcome([&] { phosg::strip_trailing_zeroes(got); });
    wstring want = ref_rstrip_zero(w);
    if (want != w) r.nontriv();
    if (oc != "ok" || got != want) r.fail("strip_trailing_zeroes(wstring):wrong-value", [&] { return "strip_trailing_zeroes(" + showw(w) + ") -> " + (oc == "ok" ? showw(got) : oc) + ", reference gives " + showw(want); });
    else r.ok(want.empty() && !w.empty() ? "everything stripped" : (want == w ? "unchanged" : "partly stripped"));
  });
  r.bound = "strip_trailing_zeroes / strip_trailing_whitespace / strip_leading_whitespace / strip_whitespace on std::string and strip_trailing_zeroes on std::wstring: all strings over {a, space, tab, LF, CR, NUL} up to length 6 (quick) / 7 (thorough)";
}

VF_SECTION(comments, 8, 8, 90) {
  check_comments<string>(r, "strip_multiline_comments", "a/*\n", r.thorough() ? 10 : 8);
  check_comments<wstring>(r, "strip_multiline_comments(wstring)", "a/*\n", r.thorough() ? 8 : 6);
  r.bound = "strip_multiline_comments: all strings over {a, /, *, LF} up to length 8 (std::string) / 6 (std::wstring) x allow_unterminated; thorough: 10 / 8";
}

VF_SECTION(affix_case_replace, 1, 1, 90) {
  // starts_with / ends_with: all ordered pairs
  auto pairs = [&](const string& alphabet, size_t maxlen) {
    vector<string> all;
    vf::all_strings(alphabet, maxlen, [&](const string& s) { all.push_back(s); });
    r.note("starts_with/ends_with");
    for (const string& s : all) {
      for (const string& p : all) {
        if (!r.take()) continue;
        if (r.wants_desc()) r.desc("starts_with/ends_with(" + vf::show(s) + ", " + vf::show(p) + ")");
        bool ws = false, we = false;
        if (p.size() <= s.size()) {
          ws = we = true;
          for (size_t i = 0; i < p.size(); i++) {
            if (s[i] != p[i]) ws = false;
            if (s[s.size() - p.size() + i] != p[i]) we = false;
          }
        }
        bool gs = phosg::starts_with(s, p), ge = phosg::ends_with(s, p);
        if (!p.empty() && p.size() <= s.size()) r.nontriv();
        if (gs != ws) r.fail("starts_with:wrong-value", [&] { return vf::fmt("starts_with(%s, %s) == %d, expected %d", vf::show(s).c_str(), vf::show(p).c_str(), gs, ws); });
        if (ge != we) r.fail("ends_with:wrong-value", [&] { return vf::fmt("ends_with(%s, %s) == %d, expected %d", vf::show(s).c_str(), vf::show(p).c_str(), ge, we); });
        if (gs == ws && ge == we) r.ok(vf::fmt("starts=%d ends=%d", ws, we));
      }
    }
  };
  pairs("ab", 5);
  pairs(string("a") + string(1, '\0'), 4);

  // toupper / tolower: every single byte and every pair of bytes; reference = ASCII letters only ("C" locale)
  r.note("toupper/tolower");
  auto up = [](unsigned char c) { return (unsigned char)((c >= 'a' && c <= 'z') ? c - 32 : c); };
  auto lo = [](unsigned char c) { return (unsigned char)((c >= 'A' && c <= 'Z') ? c + 32 : c); };
  for (int len = 0; len <= 2; len++) {
    int total = len == 0 ? 1 : (len == 1 ? 256 : 65536);
    for (int v = 0; v < total; v++) {
      if (!r.take()) continue;
      string s;
      if (len >= 1) s.push_back((char)(v & 0xFF));
      if (len == 2) s.push_back((char)(v >> 8));
      if (r.wants_desc()) r.desc("toupper/tolower(" + vf::show(s) + ")");
      string wu, wl;
      for (unsigned char c : s) {
        wu.push_back((char)up(c));
        wl.push_back((char)lo(c));
      }
      string gu = phosg::toupper(s), gl = phosg::tolower(s);
      if (wu != s || wl != s) r.nontriv();
      if (gu != wu) r.fail("toupper:wrong-value", [&] { return "toupper(" + vf::show(s) + ") == " + vf::show(gu) + ", expected " + vf::show(wu); });
      if (gl != wl) r.fail("tolower:wrong-value", [&] { return "tolower(" + vf::show(s) + ") == " + vf::show(gl) + ", expected " + vf::show(wl); });
      if (gu == wu && gl == wl) r.ok(wu != s ? "case: lower letters mapped" : (wl != s ? "case: upper letters mapped" : "case: unchanged"));
    }
  }

  // str_replace_all (non-empty target): leftmost, non-overlapping, left to right
  r.note("str_replace_all");
  const vector<string> targets = {"a", "b", "aa", "ab", "ba", "bb"};
  const vector<string> repls = {"", "a", "ab", "ba"};
  auto ref_replace = [](const string& s, const string& t, const string& rep) {
    string out;
    size_t i = 0;
    while (i < s.size()) {
      if (i + t.size() <= s.size() && memcmp(s.data() + i, t.data(), t.size()) == 0) {
        out += rep;
        i += t.size();
      } else out.push_back(s[i++]);
    }
    return out;
  };
  auto replace_over = [&](const string& alphabet, size_t maxlen) {
    vf::all_strings(alphabet, maxlen, [&](const string& s) {
      for (const string& t : targets) {
        for (const string& rep : repls) {
          if (!r.take()) continue;
          if (r.wants_desc()) r.desc("str_replace_all(" + vf::show(s) + ", " + vf::show(t) + ", " + vf::show(rep) + ")");
          string want = ref_replace(s, t, rep);
          string got;
          string oc = vf::outcome([&] { got = phosg::str_replace_all(s, t.c_str(), rep.c_str()); });
          if (s.find(t) != string::npos) r.nontriv();
          if (oc != "ok" || got != want) r.fail("str_replace_all:wrong-value", [&] { return "str_replace_all(" + vf::show(s) + ", " + vf::show(t) + ", " + vf::show(rep) + ") -> " + (oc == "ok" ? vf::show(got) : oc) + ", expected " + vf::show(want); });
          else r.ok(s.find(t) == string::npos ? "replace: no occurrence" : "replace: replaced");
        }
      }
    });
  };
  replace_over("ab", 7);
  replace_over(string("ab") + string(1, '\0'), 5);
  r.bound = "starts_with/ends_with: all ordered pairs over {a,b}^<=5 and {a,NUL}^<=4; toupper/tolower: all byte strings of length <=2; str_replace_all: s in {a,b}^<=7 and {a,b,NUL}^<=5 x target in {a,b}^{1,2} x replacement in {\"\",a,ab,ba}";
}

VF_SECTION(skip, 4, 4, 90) {
  // std::string overloads: NUL is an ordinary non-whitespace character; const char* overloads: the
  // string ends at the terminator (exact-size heap copy so that a read past it is an ASan report)
  const string alpha_str = string("a \t\n\r") + string(1, '\0');
  r.note("skip_*(std::string)");
  auto first_from = [](const string& s, size_t off, bool want_ws) {
    // first index >= off whose character is (not) whitespace, or s.size()
    size_t i = off;
    for (; i < s.size(); i++) {
      bool ws = (s[i] == ' ' || s[i] == '\t' || s[i] == '\r' || s[i] == '\n');
      if (ws == want_ws) break;
    }
    return i;
  };
  vf::all_strings(alpha_str, 6, [&](const string& s) {
    for (size_t off = 0; off <= s.size(); off++) {
      if (!r.take()) continue;
      if (r.wants_desc()) r.desc(vf::fmt("skip_*(std::string %s, %zu)", vf::show(s).c_str(), off));
      size_t w_ws = first_from(s, off, false), w_nws = first_from(s, off, true), w_word = first_from(s, w_nws, false);
      size_t g_ws = phosg::skip_whitespace(s, off), g_nws = phosg::skip_non_whitespace(s, off), g_word = phosg::skip_word(s, off);
      if (w_ws != off || w_nws != off) r.nontriv();
      if (g_ws != w_ws) r.fail("skip_whitespace(string):wrong-value", [&] { return vf::fmt("skip_whitespace(%s, %zu) == %zu, expected %zu", vf::show(s).c_str(), off, g_ws, w_ws); });
      if (g_nws != w_nws) r.fail("skip_non_whitespace(string):wrong-value", [&] { return vf::fmt("skip_non_whitespace(%s, %zu) == %zu, expected %zu", vf::show(s).c_str(), off, g_nws, w_nws); });
      if (g_word != w_word) r.fail("skip_word(string):wrong-value", [&] { return vf::fmt("skip_word(%s, %zu) == %zu, expected %zu", vf::show(s).c_str(), off, g_word, w_word); });
      if (g_ws == w_ws && g_nws == w_nws && g_word == w_word) r.ok(off == s.size() ? "string: offset at end" : "string: offset inside");
    }
  });
  r.note("skip_*(const char*)");
  vf::all_strings("a \t\n\r", 6, [&](const string& s) {
    for (size_t off = 0; off <= s.size(); off++) {
      if (!r.take()) continue;
      if (r.wants_desc()) r.desc(vf::fmt("skip_*(const char* %s, %zu)", vf::show(s).c_str(), off));
      char* p = (char*)malloc(s.size() + 1);
      memcpy(p, s.c_str(), s.size() + 1);
      size_t w_ws = first_from(s, off, false), w_nws = first_from(s, off, true), w_word = first_from(s, w_nws, false);
      size_t g_ws = phosg::skip_whitespace((const char*)p, off), g_nws = phosg::skip_non_whitespace((const char*)p, off), g_word = phosg::skip_word((const char*)p, off);
      free(p);
      if (w_ws != off || w_nws != off) r.nontriv();
      if (g_ws != w_ws) r.fail("skip_whitespace(cstr):wrong-value", [&] { return vf::fmt("skip_whitespace((const char*)%s, %zu) == %zu, expected %zu", vf::show(s).c_str(), off, g_ws, w_ws); });
      if (g_nws != w_nws) r.fail("skip_non_whitespace(cstr):wrong-value", [&] { return vf::fmt("skip_non_whitespace((const char*)%s, %zu) == %zu, expected %zu", vf::show(s).c_str(), off, g_nws, w_nws); });
      if (g_word != w_word) r.fail("skip_word(cstr):wrong-value", [&] { return vf::fmt("skip_word((const char*)%s, %zu) == %zu, expected %zu", vf::show(s).c_str(), off, g_word, w_word); });
      if (g_ws == w_ws && g_nws == w_nws && g_word == w_word) r.ok(off == s.size() ? "cstr: offset at terminator" : "cstr: offset inside");
    }
  });
  r.bound = "skip_whitespace / skip_non_whitespace / skip_word: std::string overloads on all strings over {a, space, tab, LF, CR, NUL}^<=6, const char* overloads on exact-size heap copies of all strings over {a, space, tab, LF, CR}^<=6, x every offset 0..len";
}

VF_SECTION(string_printf, 1, 1, 120) {
  r.note("string_printf");
  const size_t lens[] = {0, 1, 255, 256, 1023, 1024, 1025, 4096, 65536, 1048576};
  for (size_t L : lens) {
    for (int form = 0; form < 5; form++) {
      if (!r.take()) continue;
      static const char* fnames[] = {"%s", "%*d", "%c%s%c (NUL characters)", "%*.3f", "%s%.3f"};
      if (r.wants_desc()) r.desc(vf::fmt("string_printf(\"%s\") with result length %zu", fnames[form], L));
      string got, want, xcheck;
      bool skip = false;
      string oc;
      switch (form) {
        case 0: {
          string arg = pattern(L);
          want = arg;
          oc = vf::outcome([&] { got = phosg::string_printf("%s", arg.c_str()); });
          xcheck = big_vsnprintf(L, "%s", arg.c_str());
          break;
        }
        case 1: {
          if (L == 0) { skip = true; break; }
          want = string(L - 1, ' ') + "7";
          oc = vf::outcome([&] { got = phosg::string_printf("%*d", (int)L, 7); });
          xcheck = big_vsnprintf(L, "%*d", (int)L, 7);
          break;
        }
        case 2: {
          if (L < 2) { skip = true; break; }
          string arg = pattern(L - 2);
          want = string(1, '\0') + arg + string(1, '\0');
          oc = vf::outcome([&] { got = phosg::string_printf("%c%s%c", 0, arg.c_str(), 0); });
          xcheck = want;  // vsnprintf's buffer would need the length out of band too; `want` is exact by construction
          break;
        }
        case 3: {
          if (L < 6) { skip = true; break; }
          want = string(L - 6, ' ') + "-1.500";
          oc = vf::outcome([&] { got = phosg::string_printf("%*.3f", (int)L, -1.5); });
          xcheck = big_vsnprintf(L, "%*.3f", (int)L, -1.5);
          break;
        }
        case 4: {
          if (L < 5) { skip = true; break; }
          string arg = pattern(L - 5);
          want = arg + "0.125";
          oc = vf::outcome([&] { got = phosg::string_printf("%s%.3f", arg.c_str(), 0.125); });
          xcheck = big_vsnprintf(L, "%s%.3f", arg.c_str(), 0.125);
          break;
        }
      }
      if (skip) {
        r.ok("length not reachable with this format");
        continue;
      }
      r.nontriv();
      if (xcheck != want) {
        r.fail("harness:printf-reference-mismatch", [&] { return vf::fmt("internal: constructed expectation and vsnprintf disagree for form %d length %zu", form, L); });
        continue;
      }
      r.xchecked++;
      if (oc != "ok") r.fail("string_printf:throws", [&] { return vf::fmt("string_printf(\"%s\") with a %zu-byte result threw %s", fnames[form], L, oc.c_str()); });
      else if (got.size() != want.size()) r.fail("string_printf:wrong-length", [&] { return vf::fmt("string_printf(\"%s\"): result has %zu bytes, expected %zu", fnames[form], got.size(), want.size()); });
      else if (got != want) {
        size_t i = 0;
        while (i < got.size() && got[i] == want[i]) i++;
        r.fail("string_printf:wrong-value", [&] { return vf::fmt("string_printf(\"%s\") with a %zu-byte result differs from the expected text at offset %zu", fnames[form], L, i); });
      } else r.ok(L > 1024 ? "result longer than 1 KiB" : "result up to 1 KiB");
    }
  }
  // %.3f on its own: values whose rendering is long
  const double vals[] = {0.0, -0.0005, 1.0005, 123456.7894, -1e15, 1e300, -1.7976931348623157e308};
  for (double v : vals) {
    if (!r.take()) continue;
    if (r.wants_desc()) r.desc(vf::fmt("string_printf(\"%%.3f\", %g)", v));
    string want = big_vsnprintf(400, "%.3f", v);
    string got;
    string oc = vf::outcome([&] { got = phosg::string_printf("%.3f", v); });
    r.nontriv();
    r.xchecked++;
    if (oc != "ok" || got != want) r.fail("string_printf:wrong-value", [&] { return vf::fmt("string_printf(\"%%.3f\", %g) -> %s, vsnprintf gives %s", v, oc == "ok" ? vf::show(got).c_str() : oc.c_str(), vf::show(want).c_str()); });
    else r.ok("%.3f alone");
  }
  r.bound = "string_printf: %s, %*d, %c%s%c (with NUL characters), %*.3f, %s%.3f with result lengths {0,1,255,256,1023,1024,1025,4096,65536,1 MiB}; %.3f alone on 7 boundary doubles";
}

VF_MAIN()
