// C08 — split / join / split_context / split_args / strip_* / replace / skip_* / string_printf obey
// their algebraic laws and plain reference definitions.
//
// E-ENUM: every string up to the length bound over a per-function adversarial alphabet is executed on
// the real functions, with every delimiter / limit / flag / offset / prior-object-state combination.
// Laws that need no model (concatenation, piece count, no delimiter in a piece) are checked first; then
// the result is compared with a reference definition (C08_ref.hh).  This file holds the single-call
// sweeps; C08_more.cc holds call histories, calling contexts, multi-step scenarios and the wide printf.
#include <array>
#include <deque>
#include <forward_list>
#include <list>
#include <set>
#include <span>
#include <string>
#include <string_view>
#include <vector>

#include "C08_ref.hh"

namespace {

// ---------- split / join law section ----------------------------------------------------------------

template <class Str>
void check_split(vf::Run& r, const char* fname, const vector<typename Str::value_type>& alphabet,
    const vector<typename Str::value_type>& delims, size_t maxlen, const vector<size_t>& limits, bool with_join) {
  using Ch = typename Str::value_type;
  r.note(fname);
  string k = fname;
  all_seqs<Ch>(alphabet, maxlen, [&](const Str& s) {
    for (Ch d : delims) {
      for (size_t m : limits) {
        if (!r.take()) continue;
        auto call = [&] { return vf::fmt("%s(%s, %s, max_splits=%zu)", fname, show_any(s).c_str(), showc((long long)d).c_str(), m); };
        if (r.wants_desc()) r.desc(call());
        vector<Str> got;
        string what;
        r.poison_errno();
        string oc = vf::outcome([&] { got = phosg::split(s, d, m); }, &what);
        size_t nd = count_char(s, d);
        if (nd) r.nontriv();
        auto ctx = [&] { return call() + " returned " + showv(got); };
        if (oc != "ok") {
          r.fail(k + ":throws", [&] { return call() + " threw " + oc + " (" + what + ")"; });
          continue;
        }
        bool bad = false;
        // law 1: number of pieces
        size_t want_n = want_pieces(nd, m);
        if (got.size() != want_n) {
          bad = true;
          r.fail(k + ":piece-count", [&] { return ctx() + vf::fmt(": %zu pieces, expected %zu (= delimiters+1 capped at max_splits+1)", got.size(), want_n); });
        }
        // law 2: no piece but the last contains the delimiter; the last only if max_splits stopped splitting
        for (size_t i = 0; i < got.size(); i++) {
          bool last = (i + 1 == got.size());
          if (count_char(got[i], d) && !(last && is_capped(nd, m))) {
            bad = true;
            r.fail(k + ":delimiter-in-piece", [&] { return ctx() + vf::fmt(": piece %zu contains the delimiter although max_splits did not stop splitting there", i); });
            break;
          }
        }
        // law 3: textbook join of the pieces reproduces the string (attributes a failure to split itself)
        Str dstr(1, d);
        if (ref_join<Str>(got, dstr) != s) {
          bad = true;
          r.fail(k + ":concat-law", [&] { return ctx() + ": pieces joined by the delimiter (textbook join) give " + show_any(ref_join<Str>(got, dstr)) + ", not the input"; });
        }
        // reference definition
        auto want = ref_split(s, d, m);
        if (got != want) {
          bad = true;
          r.fail(k + ":pieces", [&] { return ctx() + ", reference scanner gives " + showv(want); });
        }
        // the defaulted max_splits argument means "no limit"
        if (m == 0) {
          vector<Str> got_def;
          string oc2 = vf::outcome([&] { got_def = phosg::split(s, d); });
          if (oc2 != "ok" || got_def != want) {
            bad = true;
            r.fail(k + ":default-max_splits", [&] { return vf::fmt("%s(%s, %s) with max_splits defaulted ", fname, show_any(s).c_str(), showc((long long)d).c_str()) + (oc2 == "ok" ? "returned " + showv(got_def) : "threw " + oc2) + ", expected " + showv(want); });
          }
        }
        // law 4: the library's own join inverts split (only std::string pieces can be joined)
        if constexpr (std::is_same<Str, string>::value) {
          if (with_join) {
            string j1 = phosg::join(got, d);   // DelimiterT = char
            const string ds(1, d);
            string j2 = phosg::join(got, ds);  // DelimiterT = const std::string
            if (j1 != s || j2 != s) {
              bad = true;
              r.fail("join:split-roundtrip", [&] { return "join(" + call() + ", the delimiter) == " + vf::show(j1 != s ? j1 : j2) + ", expected the original string (split returned " + showv(got) + ")"; });
            }
          }
        }
        if (!bad) r.ok(got.size() == 1 ? "one-piece" : (is_capped(nd, m) ? "capped-by-max_splits" : "split-at-every-delimiter"));
      }
    }
  });
}

const vector<size_t> LIMITS(MAX_SPLITS, MAX_SPLITS + N_MAX_SPLITS);
const vector<size_t> LIMITS_SHORT = {0, 1, 2, 3, 9, SIZE_MAX};

// ---------- join alone --------------------------------------------------------------------------------

// item pool: empty, one char, two chars, a NUL byte (std::string items only)
const string JOIN_POOL[] = {string(), "a", "b", "ab", string(1, '\0')};
const size_t JOIN_POOL_CSTR = 4;  // the first four are usable as const char* / char items

// `c` is the container handed to phosg::join, `in_order` the textual value of its items in iteration order
template <class Cont>
void check_join(vf::Run& r, const char* cname, const Cont& c, const vector<string>& in_order, bool& bad) {
  auto fail = [&](const char* dtype, const string& delim, const string& got, const string& want) {
    bad = true;
    r.fail("join:definition", [&] {
      return vf::fmt("join(%s%s, %s as %s) == %s, textbook definition (delimiter between consecutive items) gives %s", cname, showv(in_order).c_str(),
          vf::show(delim).c_str(), dtype, vf::show(got).c_str(), vf::show(want).c_str());
    });
  };
  const string delims[] = {string(), ",", "--", string(",\0", 2)};
  for (size_t di = 0; di < 4; di++) {
    const string delim = delims[di];
    string want = ref_join<string>(in_order, delim);
    {
      string g = phosg::join(c, delim);  // DelimiterT = const std::string
      if (g != want) fail("const std::string", delim, g, want);
    }
    {
      string mut = delim;
      string g = phosg::join(c, mut);  // DelimiterT = std::string
      if (g != want) fail("std::string", delim, g, want);
      if (mut != delim) fail("std::string (delimiter object modified by the call)", delim, mut, delim);
    }
    {
      std::string_view sv(delim);
      string g = phosg::join(c, sv);  // DelimiterT = std::string_view
      if (g != want) fail("std::string_view", delim, g, want);
    }
    if (di < 3) {
      const char* dptr = delims[di].c_str();
      string g = phosg::join(c, dptr);  // DelimiterT = const char*
      if (g != want) fail("const char*", delim, g, want);
      string gl = di == 0 ? phosg::join(c, "") : (di == 1 ? phosg::join(c, ",") : phosg::join(c, "--"));  // DelimiterT = const char[N]
      if (gl != want) fail("string literal", delim, gl, want);
    }
    if (delim.size() == 1) {
      char ch = delim[0];
      string g = phosg::join(c, ch);  // DelimiterT = char
      if (g != want) fail("char", delim, g, want);
      const char cch = delim[0];
      string g2 = phosg::join(c, cch);  // DelimiterT = const char
      if (g2 != want) fail("const char", delim, g2, want);
    }
  }
  string want = ref_join<string>(in_order, string());
  string got = phosg::join(c);
  if (got != want) {
    bad = true;
    r.fail("join:nodelim-definition", [&] { return vf::fmt("join(%s%s) == %s, expected the concatenation %s", cname, showv(in_order).c_str(), vf::show(got).c_str(), vf::show(want).c_str()); });
  }
}

template <class Cont>
void check_join_strings(vf::Run& r, const char* cname, const vector<string>& items, bool& bad) {
  Cont c(items.begin(), items.end());
  vector<string> in_order(c.begin(), c.end());  // iteration order of the container (sorted/unique for set)
  check_join(r, cname, c, in_order, bad);
}

// ---------- split_context ---------------------------------------------------------------------------

// strings of the maximal length get `limits_longest` (the small values and SIZE_MAX), shorter ones all of `limits`
void check_split_context(vf::Run& r, const string& alphabet, size_t maxlen, char d, const vector<size_t>& limits, const vector<size_t>& limits_longest) {
  r.note("split_context");
  vf::all_strings(alphabet, maxlen, [&](const string& s) {
    for (size_t m : (s.size() == maxlen ? limits_longest : limits)) {
      if (!r.take()) continue;
      auto ctx = [&] { return vf::fmt("split_context(%s, %s, max_splits=%zu)", vf::show(s).c_str(), showc(d).c_str(), m); };
      if (r.wants_desc()) r.desc(ctx());
      vector<string> got;
      string what;
      r.poison_errno();
      string oc = vf::outcome([&] { got = phosg::split_context(s, d, m); }, &what);
      Scan sc(s, d);
      if (!sc.top.empty() || s.find_first_of("([{<'\"") != string::npos) r.nontriv();
      if (oc != "ok" && oc != "runtime_error") {
        r.fail("split_context:exception-type", [&] { return ctx() + " threw " + oc + " (" + what + "); only runtime_error is documented"; });
        continue;
      }
      bool bad = false;
      if (oc == "ok") {
        // model-free laws, checked whenever the function returns
        const string ds(1, d);
        if (ref_join<string>(got, ds) != s) {
          bad = true;
          r.fail("split_context:concat-law", [&] { return ctx() + " returned " + showv(got) + "; joined by the delimiter that is " + vf::show(ref_join<string>(got, ds)) + ", not the input"; });
        }
        if (got.empty() || (m > 0 && got.size() - 1 > m)) {
          bad = true;
          r.fail("split_context:piece-count-cap", [&] { return ctx() + vf::fmt(" returned %zu pieces (must be 1..max_splits+1): ", got.size()) + showv(got); });
        }
      }
      if (m == 0) {
        vector<string> got_def;
        string oc2 = vf::outcome([&] { got_def = phosg::split_context(s, d); });
        if (oc2 != oc || got_def != got) {
          bad = true;
          r.fail("split_context:default-max_splits", [&] { return vf::fmt("split_context(%s, %s) with max_splits defaulted: %s %s, but with max_splits=0 written out: %s %s", vf::show(s).c_str(), showc(d).c_str(), oc2.c_str(), showv(got_def).c_str(), oc.c_str(), showv(got).c_str()); });
        }
      }
      if (sc.ambiguous) {
        if (!bad) r.ok(oc == "ok" ? "dont-care(stray closer or backslash outside quotes): returned, laws hold" : "dont-care(stray closer or backslash outside quotes): threw");
        continue;
      }
      if (oc == "ok" && !sc.balanced) {
        r.fail("split_context:accepts-unbalanced", [&] { return ctx() + " returned " + showv(got) + " although a bracket or quote is never closed"; });
        continue;
      }
      if (oc != "ok" && sc.balanced) {
        r.fail("split_context:rejects-balanced", [&] { return ctx() + " threw (" + what + ") although every bracket and quote is closed"; });
        continue;
      }
      if (oc != "ok") {
        if (!bad) r.ok("unbalanced: runtime_error");
        continue;
      }
      size_t want_n = want_pieces(sc.top.size(), m);
      if (got.size() != want_n) {
        bad = true;
        r.fail("split_context:piece-count", [&] { return ctx() + vf::fmt(" returned %zu pieces %s; %zu top-level delimiters -> expected %zu", got.size(), showv(got).c_str(), sc.top.size(), want_n); });
      }
      for (size_t i = 0; i < got.size(); i++) {
        bool last = (i + 1 == got.size());
        if (last && is_capped(sc.top.size(), m)) continue;
        Scan ps(got[i], d);
        if (!ps.top.empty() || !ps.balanced) {
          bad = true;
          r.fail("split_context:top-level-delimiter-in-piece", [&] { return ctx() + " returned " + showv(got) + vf::fmt(": piece %zu %s", i, ps.balanced ? "contains a top-level delimiter" : "is not balanced on its own (cut inside a group or quoted string)"); });
          break;
        }
      }
      auto want = cut_at(s, sc.top, m);
      if (got != want) {
        bad = true;
        r.fail("split_context:pieces", [&] { return ctx() + " returned " + showv(got) + ", independent scanner gives " + showv(want); });
      }
      if (!bad) r.ok(sc.top.empty() ? "balanced: one piece" : (is_capped(sc.top.size(), m) ? "balanced: capped by max_splits" : "balanced: split at every top-level delimiter"));
    }
  });
}

// ---------- in-place helpers (strip_*, strip_multiline_comments) on objects in every prior state ------------

// real(obj) runs the library function in place; ref(value, &must_throw) gives the expected value
template <class Str, class Real, class Ref, class NonTriv>
void sweep_inplace(vf::Run& r, const string& fname, const vector<typename Str::value_type>& alphabet, size_t maxlen, Real real, Ref ref, NonTriv nontriv) {
  r.note(fname);
  all_seqs<typename Str::value_type>(alphabet, maxlen, [&](const Str& s) {
    for (int prior = 0; prior < N_PRIOR; prior++) {
      if (!r.take()) continue;
      auto ctx = [&] { return fname + "(" + show_any(s) + ") on " + prior_name(prior); };
      if (r.wants_desc()) r.desc(ctx());
      bool must_throw = false;
      Str want = ref(s, &must_throw);
      if (nontriv(s, want)) r.nontriv();
      Str got;
      make_prior(got, s, prior);
      string what;
      r.poison_errno();
      string oc = vf::outcome([&] { real(got); }, &what);
      bool good = must_throw ? (oc == "runtime_error") : (oc == "ok" && got == want);
      if (good) {
        r.ok(must_throw ? "rejected: runtime_error" : (want.empty() && !s.empty() ? "everything removed" : (want == s ? "unchanged" : "partly removed")));
        continue;
      }
      // attribute: wrong on a fresh object too, or only on an object that held something else before?
      bool fresh_good = true;
      if (prior != 0) {
        Str f = s;
        string oc0 = vf::outcome([&] { real(f); });
        fresh_good = must_throw ? (oc0 == "runtime_error") : (oc0 == "ok" && f == want);
      } else fresh_good = false;
      string kind = fresh_good ? ":depends-on-prior-object-state" : (must_throw ? ":unterminated-not-rejected" : (oc != "ok" ? ":throws" : ":wrong-value"));
      r.fail(fname + kind, [&] {
        return ctx() + " -> " + (oc == "ok" ? show_any(got) : "threw " + oc + " (" + what + ")") + ", expected " + (must_throw ? string("runtime_error (comment never closed)") : show_any(want)) +
            (fresh_good ? "; the same value in a fresh object gives the expected result" : "");
      });
    }
  });
}

}  // namespace

// =====================================================================================================

VF_SECTION(split, 8, 16, 90) {
  const size_t maxlen = r.thorough() ? 10 : 9;
  check_split<string>(r, "split", chars_of<char>("ab,"), chars_of<char>("ab,"), maxlen, LIMITS, true);
  // embedded NUL, high-bit bytes, a delimiter that never occurs
  const size_t maxlen2 = r.thorough() ? 6 : 5;
  check_split<string>(r, "split", {'a', '\0', '\xff', '\x7f'}, {'\0', '\xff', '\x7f', 'z'}, maxlen2, LIMITS, true);
  // every power-of-two neighbourhood as max_splits
  const size_t maxlen3 = r.thorough() ? 6 : 4;
  check_split<string>(r, "split", chars_of<char>("ab,"), {','}, maxlen3, pow2_neighbours(), false);
  r.bound = vf::fmt("split(std::string): all strings over {a,b,','} up to length %zu x delimiter in {a,b,','} x max_splits in {0,1,2,3,9,2^31-1,2^31,2^32-1,2^32,2^63-1,2^63,SIZE_MAX-1,SIZE_MAX} "
      "(max_splits==0 also with the argument defaulted); all strings over {a,NUL,0xFF,0x7F} up to length %zu x delimiter in {NUL,0xFF,0x7F,z} x the same max_splits; "
      "all strings over {a,b,','} up to length %zu x every 2^k-1, 2^k, 2^k+1 (k<64) as max_splits; laws + reference scanner + the library's join as inverse (char and std::string delimiter)", maxlen, maxlen2, maxlen3);
}

VF_SECTION(wsplit, 8, 16, 90) {
  const size_t maxlen = r.thorough() ? 10 : 9;
  check_split<wstring>(r, "split(wstring)", chars_of<wchar_t>("ab,"), chars_of<wchar_t>("ab,"), maxlen, LIMITS, false);
  // genuinely wide characters: values whose low byte / low 16 bits equal ',' and a negative wchar_t
  const vector<wchar_t> wide = {L',', (wchar_t)0x12C, (wchar_t)0x2C002C, (wchar_t)(int32_t)0x8000002C, (wchar_t)0};
  const size_t maxlen2 = r.thorough() ? 6 : 5;
  check_split<wstring>(r, "split(wstring)", wide, wide, maxlen2, LIMITS, false);
  const size_t maxlen3 = r.thorough() ? 6 : 4;
  check_split<wstring>(r, "split(wstring)", chars_of<wchar_t>("ab,"), {L','}, maxlen3, pow2_neighbours(), false);
  r.bound = vf::fmt("split(std::wstring): same spaces as section split (lengths %zu / %zu / %zu); the second alphabet is {',', 0x12C, 0x2C002C, (wchar_t)0x8000002C, NUL} (values that alias ',' in their low 8/16 bits, a negative wchar_t) with each of them as delimiter", maxlen, maxlen2, maxlen3);
}

VF_SECTION(join, 4, 4, 90) {
  r.note("join");
  for (size_t n = 0; n <= 4; n++) {
    vf::Odometer od(vector<uint32_t>(n, 5));
    for (; !od.done; od.step()) {
      if (!r.take()) continue;
      vector<string> items;
      bool cstr_ok = true;
      for (size_t i = 0; i < n; i++) {
        items.push_back(JOIN_POOL[od.d[i]]);
        if (od.d[i] >= JOIN_POOL_CSTR) cstr_ok = false;
      }
      if (r.wants_desc()) r.desc("join(" + showv(items) + ") over 10 container types x delimiters \"\", \",\", \"--\", \",\\0\" as (const) std::string, string_view, const char*, literal, (const) char, and without delimiter");
      if (n >= 2) r.nontriv();
      bool bad = false;
      check_join_strings<vector<string>>(r, "vector", items, bad);
      check_join_strings<std::deque<string>>(r, "deque", items, bad);
      check_join_strings<std::list<string>>(r, "list", items, bad);
      check_join_strings<std::forward_list<string>>(r, "forward_list", items, bad);
      check_join_strings<std::set<string>>(r, "set", items, bad);
      check_join_strings<std::multiset<string>>(r, "multiset", items, bad);
      {
        std::span<const string> sp(items.data(), items.size());
        check_join(r, "span", sp, items, bad);
      }
      {
        vector<std::string_view> svs(items.begin(), items.end());
        check_join(r, "vector<string_view>", svs, items, bad);
      }
      if (n == 3) {
        std::array<string, 3> arr = {items[0], items[1], items[2]};
        check_join(r, "std::array", arr, items, bad);
        string carr[3] = {items[0], items[1], items[2]};
        check_join(r, "string[3]", carr, items, bad);
      }
      if (cstr_ok) {
        vector<const char*> ptrs;
        for (const string& it : items) ptrs.push_back(it.c_str());
        check_join(r, "vector<const char*>", ptrs, items, bad);
        bool all_single = true;
        for (const string& it : items) if (it.size() != 1) all_single = false;
        if (all_single) {
          vector<char> chars;
          for (const string& it : items) chars.push_back(it[0]);
          check_join(r, "vector<char>", chars, items, bad);
          string as_string;
          for (const string& it : items) as_string.push_back(it[0]);
          check_join(r, "std::string (items are its characters)", as_string, items, bad);
        }
      }
      // the delimiter is one of the items (same object)
      if (n >= 1) {
        for (size_t i = 0; i < n; i++) {
          string want = ref_join<string>(items, items[i]);
          string g = phosg::join(items, items[i]);
          if (g != want) {
            bad = true;
            r.fail("join:definition", [&] { return vf::fmt("join(vector%s, items[%zu]) (delimiter aliases an item) == %s, expected %s", showv(items).c_str(), i, vf::show(g).c_str(), vf::show(want).c_str()); });
          }
        }
      }
      if (!bad) r.ok(n == 0 ? "empty list" : (items[0].empty() ? "first item empty" : "first item non-empty"));
    }
  }
  r.bound = "join: every list of 0..4 items from {\"\",a,b,ab,NUL} x delimiter in {\"\", \",\", \"--\", \",\\0\"} as std::string, const std::string, std::string_view, const char*, string literal, char, const char "
            "x {vector,deque,list,forward_list,set,multiset,span,vector<string_view>,std::array,C array,vector<const char*>,vector<char>,std::string-as-container}, delimiter aliasing an item, plus join without delimiter";
}

VF_SECTION(split_context, 16, 16, 90) {
  size_t maxlen = r.thorough() ? 7 : 6;
  check_split_context(r, "a,()[]'\"\\>", maxlen, ',', LIMITS, LIMITS_SHORT);
  check_split_context(r, "a,(){<'\\", maxlen - 1, 'a', LIMITS, LIMITS_SHORT);
  // embedded NUL as an ordinary character and as the delimiter
  check_split_context(r, string("a()'\\") + string(1, '\0'), maxlen - 1, '\0', LIMITS, LIMITS_SHORT);
  check_split_context(r, "a,('", 4, ',', pow2_neighbours(), pow2_neighbours());
  r.bound = vf::fmt("split_context: all strings over {a , ( ) [ ] ' \" \\ >} up to length %zu with delimiter ',', over {a , ( ) { < ' \\} up to length %zu with delimiter 'a', over {a ( ) ' \\ NUL} up to length %zu with delimiter NUL, "
      "x max_splits in {0,1,2,3,9,2^31-1,2^31,2^32-1,2^32,2^63-1,2^63,SIZE_MAX-1,SIZE_MAX} (strings of the maximal length: {0,1,2,3,9,SIZE_MAX}; 0 also defaulted); over {a , ( '} up to length 4 x every 2^k-1,2^k,2^k+1", maxlen, maxlen - 1, maxlen - 1);
}

VF_SECTION(split_args, 16, 16, 90) {
  r.note("split_args");
  const string alphabet = "a \t\"'\\";
  const size_t args_maxlen = r.thorough() ? 9 : 8;
  vf::all_strings(alphabet, args_maxlen, [&](const string& s) {
    if (!r.take()) return;
    if (r.wants_desc()) r.desc("split_args(" + vf::show(s) + ")");
    vector<string> got;
    string what;
    r.poison_errno();
    string oc = vf::outcome([&] { got = phosg::split_args(s); }, &what);
    ArgsRef ref = ref_split_args(s);
    if (s.find_first_of(" \t\"'\\") != string::npos) r.nontriv();
    auto ctx = [&] { return "split_args(" + vf::show(s) + ")"; };
    if (oc != "ok" && oc != "runtime_error") {
      r.fail("split_args:exception-type", [&] { return ctx() + " threw " + oc + " (" + what + ")"; });
    } else if (ref.error) {
      if (oc == "runtime_error") r.ok("dangling backslash / unterminated quote: runtime_error");
      else r.fail("split_args:accepts-malformed", [&] { return ctx() + " returned " + showv(got) + "; expected runtime_error (dangling backslash or unterminated quote)"; });
    } else if (oc != "ok") {
      r.fail("split_args:rejects-wellformed", [&] { return ctx() + " threw (" + what + "), reference gives " + showv(ref.args); });
    } else if (ref.has_empty) {
      r.ok("dont-care(empty quoted argument)");
    } else if (got != ref.args) {
      r.fail("split_args:wrong-value", [&] { return ctx() + " returned " + showv(got) + ", shell-style reference gives " + showv(ref.args); });
    } else r.ok(got.empty() ? "no arguments" : (got.size() == 1 ? "one argument" : "several arguments"));
  });
  r.bound = vf::fmt("split_args: all strings over {a, space, tab, \", ', \\} up to length %zu", args_maxlen);
}

VF_SECTION(strip, 16, 16, 90) {
  const vector<char> alphabet = {'a', ' ', '\t', '\n', '\r', '\0'};
  const size_t maxlen = r.thorough() ? 8 : 7;
  auto changed = [](const auto& s, const auto& want) { return want != s; };
  sweep_inplace<string>(r, "strip_trailing_zeroes", alphabet, maxlen, [](string& s) { phosg::strip_trailing_zeroes(s); }, [](const string& s, bool*) { return ref_rstrip_zero(s); }, changed);
  sweep_inplace<string>(r, "strip_trailing_whitespace", alphabet, maxlen, [](string& s) { phosg::strip_trailing_whitespace(s); }, [](const string& s, bool*) { return ref_rstrip_ws(s); }, changed);
  sweep_inplace<string>(r, "strip_leading_whitespace", alphabet, maxlen, [](string& s) { phosg::strip_leading_whitespace(s); }, [](const string& s, bool*) { return ref_lstrip_ws(s); }, changed);
  sweep_inplace<string>(r, "strip_whitespace", alphabet, maxlen, [](string& s) { phosg::strip_whitespace(s); }, [](const string& s, bool*) { return ref_lstrip_ws(ref_rstrip_ws(s)); }, changed);
  // other character bytes that must not be taken for whitespace / NUL: VT, FF, 0x80|' ', 0xA0, 0xFF
  const vector<char> alphabet2 = {' ', '\0', '\v', '\f', '\xa0', '\xff', '\x1f'};
  const size_t maxlen2 = r.thorough() ? 5 : 4;
  sweep_inplace<string>(r, "strip_trailing_zeroes", alphabet2, maxlen2, [](string& s) { phosg::strip_trailing_zeroes(s); }, [](const string& s, bool*) { return ref_rstrip_zero(s); }, changed);
  sweep_inplace<string>(r, "strip_trailing_whitespace", alphabet2, maxlen2, [](string& s) { phosg::strip_trailing_whitespace(s); }, [](const string& s, bool*) { return ref_rstrip_ws(s); }, changed);
  sweep_inplace<string>(r, "strip_leading_whitespace", alphabet2, maxlen2, [](string& s) { phosg::strip_leading_whitespace(s); }, [](const string& s, bool*) { return ref_lstrip_ws(s); }, changed);
  sweep_inplace<string>(r, "strip_whitespace", alphabet2, maxlen2, [](string& s) { phosg::strip_whitespace(s); }, [](const string& s, bool*) { return ref_lstrip_ws(ref_rstrip_ws(s)); }, changed);
  // the only strip_* template besides strip_multiline_comments that can be instantiated for wide strings
  // (the whitespace variants pass a narrow literal to wstring::find_*_of and do not compile); the wide
  // alphabets contain characters whose low 8 / 16 bits are zero
  const size_t wmax = r.thorough() ? 6 : 5;
  sweep_inplace<wstring>(r, "strip_trailing_zeroes(wstring)", {L'a', L' ', (wchar_t)0, (wchar_t)0x100, (wchar_t)0x10000, (wchar_t)(int32_t)0x80000000}, wmax,
      [](wstring& s) { phosg::strip_trailing_zeroes(s); }, [](const wstring& s, bool*) { return ref_rstrip_zero(s); }, changed);
  sweep_inplace<std::u16string>(r, "strip_trailing_zeroes(u16string)", {u'a', (char16_t)0, (char16_t)0x100, (char16_t)0x8000}, wmax,
      [](std::u16string& s) { phosg::strip_trailing_zeroes(s); }, [](const std::u16string& s, bool*) { return ref_rstrip_zero(s); }, changed);
  sweep_inplace<std::u32string>(r, "strip_trailing_zeroes(u32string)", {U'a', (char32_t)0, (char32_t)0x100, (char32_t)0x10000}, wmax,
      [](std::u32string& s) { phosg::strip_trailing_zeroes(s); }, [](const std::u32string& s, bool*) { return ref_rstrip_zero(s); }, changed);
  r.bound = vf::fmt("strip_trailing_zeroes / strip_trailing_whitespace / strip_leading_whitespace / strip_whitespace on std::string: all strings over {a, space, tab, LF, CR, NUL} up to length %zu and over {space, NUL, VT, FF, 0xA0, 0xFF, 0x1F} up to length %zu; "
      "strip_trailing_zeroes on std::wstring / u16string / u32string over alphabets with NUL and characters whose low 8/16 bits are zero up to length %zu; every case on %d prior object states (fresh, reserved, held blanks / NULs / comment openers, moved-from)", maxlen, maxlen2, wmax, N_PRIOR);
}

VF_SECTION(comments, 16, 16, 90) {
  auto has_opener = [](const auto& s, const auto&) {
    for (size_t i = 0; i + 1 < s.size(); i++) if (s[i] == '/' && s[i + 1] == '*') return true;
    return false;
  };
  auto ref_throwing = [](const auto& s, bool* must_throw) {
    bool unterminated = false;
    auto w = ref_strip_comments(s, &unterminated);
    *must_throw = unterminated;
    return w;
  };
  auto ref_allowing = [](const auto& s, bool* must_throw) {
    bool unterminated = false;
    *must_throw = false;
    return ref_strip_comments(s, &unterminated);
  };
  const size_t n1 = r.thorough() ? 10 : 9, n2 = r.thorough() ? 7 : 6;
  const vector<char> alpha = {'a', '/', '*', '\n'};
  sweep_inplace<string>(r, "strip_multiline_comments", alpha, n1, [](string& s) { phosg::strip_multiline_comments(s, false); }, ref_throwing, has_opener);
  sweep_inplace<string>(r, "strip_multiline_comments(allow_unterminated)", alpha, n1, [](string& s) { phosg::strip_multiline_comments(s, true); }, ref_allowing, has_opener);
  sweep_inplace<string>(r, "strip_multiline_comments(flag defaulted)", alpha, n2, [](string& s) { phosg::strip_multiline_comments(s); }, ref_throwing, has_opener);
  // NUL and CR are ordinary text
  sweep_inplace<string>(r, "strip_multiline_comments", {'/', '*', '\n', '\0', '\r'}, n2, [](string& s) { phosg::strip_multiline_comments(s, false); }, ref_throwing, has_opener);
  // wide strings: also characters that alias '/', '*', LF in their low byte
  const vector<wchar_t> walpha = {L'a', L'/', L'*', L'\n'};
  const vector<wchar_t> walias = {L'/', L'*', L'\n', (wchar_t)0x12F, (wchar_t)0x12A, (wchar_t)0x10A};
  sweep_inplace<wstring>(r, "strip_multiline_comments(wstring)", walpha, n2 + 1, [](wstring& s) { phosg::strip_multiline_comments(s, false); }, ref_throwing, has_opener);
  sweep_inplace<wstring>(r, "strip_multiline_comments(wstring, allow_unterminated)", walpha, n2 + 1, [](wstring& s) { phosg::strip_multiline_comments(s, true); }, ref_allowing, has_opener);
  sweep_inplace<wstring>(r, "strip_multiline_comments(wstring)", walias, n2 - 1, [](wstring& s) { phosg::strip_multiline_comments(s, false); }, ref_throwing, has_opener);
  sweep_inplace<std::u16string>(r, "strip_multiline_comments(u16string)", {u'a', u'/', u'*', u'\n'}, n2, [](std::u16string& s) { phosg::strip_multiline_comments(s, false); }, ref_throwing, has_opener);
  sweep_inplace<std::u32string>(r, "strip_multiline_comments(u32string)", {U'a', U'/', U'*', U'\n'}, n2, [](std::u32string& s) { phosg::strip_multiline_comments(s, true); }, ref_allowing, has_opener);
  r.bound = vf::fmt("strip_multiline_comments: all strings over {a, /, *, LF} up to length %zu (std::string, allow_unterminated false / true; %zu with the flag defaulted, %zu for std::wstring, %zu for u16string / u32string), over {/, *, LF, NUL, CR} up to length %zu, "
      "wide alphabet {/, *, LF, 0x12F, 0x12A, 0x10A} up to length %zu; every case on %d prior object states", n1, n2, n2 + 1, n2, n2, n2 - 1, N_PRIOR);
}

VF_SECTION(affix_case_replace, 4, 4, 90) {
  // starts_with / ends_with: all ordered pairs (prefix longer than the string included)
  auto pairs = [&](const string& alphabet, size_t maxlen) {
    vector<string> all;
    vf::all_strings(alphabet, maxlen, [&](const string& s) { all.push_back(s); });
    r.note("starts_with/ends_with");
    for (const string& s : all) {
      for (const string& p : all) {
        if (!r.take()) continue;
        if (r.wants_desc()) r.desc("starts_with/ends_with(" + vf::show(s) + ", " + vf::show(p) + ")");
        bool ws = ref_starts(s, p), we = ref_ends(s, p);
        // exact-size heap copies: a read past either argument is an ASan report
        r.poison_errno();
        bool gs = phosg::starts_with(s, p), ge = phosg::ends_with(s, p);
        if (!p.empty() && p.size() <= s.size()) r.nontriv();
        if (gs != ws) r.fail("starts_with:wrong-value", [&] { return vf::fmt("starts_with(%s, %s) == %d, expected %d", vf::show(s).c_str(), vf::show(p).c_str(), gs, ws); });
        if (ge != we) r.fail("ends_with:wrong-value", [&] { return vf::fmt("ends_with(%s, %s) == %d, expected %d", vf::show(s).c_str(), vf::show(p).c_str(), ge, we); });
        bool alias_ok = true;
        if (&s == &p || s == p) {  // both parameters bound to the same object
          bool a1 = phosg::starts_with(s, s), a2 = phosg::ends_with(s, s);
          if (!a1 || !a2) {
            alias_ok = false;
            r.fail(a1 ? "ends_with:wrong-value" : "starts_with:wrong-value", [&] { return vf::fmt("%s(s, s) with s = %s (same object) == 0, expected 1", a1 ? "ends_with" : "starts_with", vf::show(s).c_str()); });
          }
        }
        if (gs == ws && ge == we && alias_ok) r.ok(vf::fmt("starts=%d ends=%d", ws, we));
      }
    }
  };
  pairs("ab", 5);
  pairs(string("a") + string(1, '\0'), 4);
  pairs(string("a\xff\x7f") + string(1, '\0'), 3);
  // long operands (beyond the small-string buffer): s = unit^n, p = a prefix/suffix/neither of every length class
  r.note("starts_with/ends_with (long)");
  {
    const size_t lens[] = {15, 16, 17, 31, 32, 33, 255, 256, 257, 4096};
    for (size_t L : lens) {
      for (size_t pl : {(size_t)0, (size_t)1, L - 1, L, L + 1}) {
        for (int flip = 0; flip < 3; flip++) {  // 0: exact affix; 1: first byte differs; 2: last byte differs
          if (!r.take()) continue;
          string s = pattern(L) + pattern(L);
          string pre = (s + "!").substr(0, pl), suf = pl <= s.size() ? s.substr(s.size() - pl) : "!" + s;
          if (flip == 1 && pl) { pre[0] ^= 1; suf[0] ^= 1; }
          if (flip == 2 && pl) { pre[pl - 1] ^= 1; suf[pl - 1] ^= 1; }
          if (r.wants_desc()) r.desc(vf::fmt("starts_with/ends_with on a %zu-byte string with a %zu-byte affix (variant %d)", s.size(), pl, flip));
          r.nontriv();
          bool gs = phosg::starts_with(s, pre), ge = phosg::ends_with(s, suf);
          bool ws = ref_starts(s, pre), we = ref_ends(s, suf);
          if (gs != ws) r.fail("starts_with:wrong-value", [&] { return vf::fmt("starts_with(%zu-byte pattern, %zu-byte prefix variant %d) == %d, expected %d", s.size(), pl, flip, gs, ws); });
          if (ge != we) r.fail("ends_with:wrong-value", [&] { return vf::fmt("ends_with(%zu-byte pattern, %zu-byte suffix variant %d) == %d, expected %d", s.size(), pl, flip, ge, we); });
          if (gs == ws && ge == we) r.ok("long operands");
        }
      }
    }
  }

  // toupper / tolower: every single byte and every pair of bytes; reference = ASCII letters only ("C" locale)
  r.note("toupper/tolower");
  for (int len = 0; len <= 2; len++) {
    int total = len == 0 ? 1 : (len == 1 ? 256 : 65536);
    for (int v = 0; v < total; v++) {
      if (!r.take()) continue;
      string s;
      if (len >= 1) s.push_back((char)(v & 0xFF));
      if (len == 2) s.push_back((char)(v >> 8));
      if (r.wants_desc()) r.desc("toupper/tolower(" + vf::show(s) + ")");
      string wu = ref_upper(s), wl = ref_lower(s);
      r.poison_errno();
      string gu = phosg::toupper(s), gl = phosg::tolower(s);
      if (wu != s || wl != s) r.nontriv();
      if (gu != wu) r.fail("toupper:wrong-value", [&] { return "toupper(" + vf::show(s) + ") == " + vf::show(gu) + ", expected " + vf::show(wu); });
      if (gl != wl) r.fail("tolower:wrong-value", [&] { return "tolower(" + vf::show(s) + ") == " + vf::show(gl) + ", expected " + vf::show(wl); });
      if (gu == wu && gl == wl) r.ok(wu != s ? "case: lower letters mapped" : (wl != s ? "case: upper letters mapped" : "case: unchanged"));
    }
  }
  // long inputs (result far longer than the small-string buffer), all byte values cycling
  for (size_t L : {(size_t)15, (size_t)16, (size_t)17, (size_t)255, (size_t)256, (size_t)257, (size_t)4096, (size_t)65536, (size_t)1048576}) {
    for (int start = 0; start < 2; start++) {
      if (!r.take()) continue;
      string s(L, '\0');
      for (size_t i = 0; i < L; i++) s[i] = (char)((i * (start ? 7 : 1) + (start ? 'A' : 0)) & 0xFF);
      if (r.wants_desc()) r.desc(vf::fmt("toupper/tolower on a %zu-byte string cycling through all byte values (variant %d)", L, start));
      r.nontriv();
      string gu = phosg::toupper(s), gl = phosg::tolower(s);
      if (gu != ref_upper(s)) r.fail("toupper:wrong-value", [&] { return vf::fmt("toupper of a %zu-byte string cycling through all byte values differs from the ASCII mapping (result size %zu)", L, gu.size()); });
      else if (gl != ref_lower(s)) r.fail("tolower:wrong-value", [&] { return vf::fmt("tolower of a %zu-byte string cycling through all byte values differs from the ASCII mapping (result size %zu)", L, gl.size()); });
      else r.ok("case: long input");
    }
  }

  // str_replace_all (non-empty target): leftmost, non-overlapping, left to right
  r.note("str_replace_all");
  const vector<string> targets = {"a", "b", "aa", "ab", "ba", "bb", "aba"};
  const vector<string> repls = {"", "a", "ab", "ba", "abab"};
  auto one_replace = [&](const string& s, const string& t, const string& rep, bool alias) {
    string want = ref_replace(s, t, rep);
    string got;
    // exact-size heap copies of the C strings: reading past the terminator is an ASan report
    char* tp = strdup(t.c_str());
    char* rp = strdup(rep.c_str());
    r.poison_errno();
    string oc = vf::outcome([&] { got = alias ? phosg::str_replace_all(s, s.c_str(), s.c_str()) : phosg::str_replace_all(s, tp, rp); });
    free(tp);
    free(rp);
    if (s.find(t) != string::npos) r.nontriv();
    if (oc != "ok" || got != want) r.fail("str_replace_all:wrong-value", [&] { return "str_replace_all(" + shorten(s) + ", " + shorten(t) + ", " + shorten(rep) + (alias ? ") [target and replacement point into s itself]" : ")") + " -> " + (oc == "ok" ? shorten(got) + vf::fmt(" (%zu bytes)", got.size()) : oc) + ", expected " + shorten(want) + vf::fmt(" (%zu bytes)", want.size()); });
    else r.ok(s.find(t) == string::npos ? "replace: no occurrence" : "replace: replaced");
  };
  auto replace_over = [&](const string& alphabet, size_t maxlen) {
    vf::all_strings(alphabet, maxlen, [&](const string& s) {
      for (const string& t : targets) {
        for (const string& rep : repls) {
          if (!r.take()) continue;
          if (r.wants_desc()) r.desc("str_replace_all(" + vf::show(s) + ", " + vf::show(t) + ", " + vf::show(rep) + ")");
          one_replace(s, t, rep, false);
        }
      }
      // target and replacement are the subject's own buffer (non-empty, NUL-free subjects only)
      if (!s.empty() && s.find('\0') == string::npos) {
        if (r.take()) {
          if (r.wants_desc()) r.desc("str_replace_all(s, s.c_str(), s.c_str()) with s = " + vf::show(s));
          one_replace(s, s, s, true);
        }
      }
    });
  };
  replace_over("ab", 7);
  replace_over(string("ab") + string(1, '\0'), 5);
  // results and operands far longer than any internal buffer
  {
    const size_t reps[] = {15, 16, 17, 255, 256, 257, 1023, 1024, 1025, 4096, 65536};
    const char* units[] = {"a", "ab", "xab", "abx"};
    const char* long_t[] = {"a", "ab", "b"};
    for (size_t n : reps) {
      for (const char* u : units) {
        for (const char* t : long_t) {
          for (int rl = 0; rl < 3; rl++) {  // replacement: empty / one byte / 16 bytes
            if (!r.take()) continue;
            string s;
            for (size_t i = 0; i < n; i++) s += u;
            string rep = rl == 0 ? "" : (rl == 1 ? "Q" : "0123456789abcdef");
            if (r.wants_desc()) r.desc(vf::fmt("str_replace_all(\"%s\" x %zu, \"%s\", %s)", u, n, t, vf::show(rep).c_str()));
            one_replace(s, t, rep, false);
          }
        }
      }
    }
    // long target and long replacement
    for (size_t tl : {(size_t)15, (size_t)16, (size_t)17, (size_t)300, (size_t)5000}) {
      for (int where = 0; where < 4; where++) {  // occurrence at the start / middle / end / twice adjacent
        if (!r.take()) continue;
        string t = pattern(tl), rep = pattern(tl * 2 + 1);
        for (char& c : rep) c = (char)(c == 'z' ? 'y' : c + 1);
        string s = where == 0 ? t + "tail" : (where == 1 ? "head" + t + "tail" : (where == 2 ? "head" + t : t + t));
        if (r.wants_desc()) r.desc(vf::fmt("str_replace_all with a %zu-byte target (placement %d) and a %zu-byte replacement", tl, where, rep.size()));
        one_replace(s, t, rep, false);
      }
    }
  }
  r.bound = "starts_with/ends_with: all ordered pairs over {a,b}^<=5, {a,NUL}^<=4, {a,0xFF,0x7F,NUL}^<=3 (+ both parameters the same object), 150 long-operand cases (15..8192 bytes, affix exact / first byte off / last byte off); "
            "toupper/tolower: all byte strings of length <=2 and 18 long inputs up to 1 MiB over all byte values; str_replace_all: s in {a,b}^<=7 and {a,b,NUL}^<=5 x 7 targets x 5 replacements, target/replacement aliasing s, "
            "396 long subjects (unit x 15..65536) and 20 long-target cases (15..5000 bytes)";
}

VF_SECTION(skip, 16, 16, 90) {
  const size_t maxlen = r.thorough() ? 8 : 7;
  // std::string overloads: NUL is an ordinary non-whitespace character; const char* overloads: the
  // string ends at the terminator (exact-size heap copy so that a read past it is an ASan report)
  const string alpha_str = string("a \t\n\r") + string(1, '\0');
  // offsets beyond the end (std::string overloads only: nothing to skip, the offset comes back unchanged)
  const size_t FAR[] = {1, 2, 17, 0x7FFFFFFFull, 0x80000000ull, 0xFFFFFFFFull, 0x100000000ull, 0x7FFFFFFFFFFFFFFFull, 0x8000000000000000ull, SIZE_MAX - 1, SIZE_MAX};
  r.note("skip_*(std::string)");
  vf::all_strings(alpha_str, maxlen, [&](const string& s) {
    const size_t n_off = s.size() + 1 + sizeof(FAR) / sizeof(FAR[0]);
    for (size_t oi = 0; oi < n_off; oi++) {
      if (!r.take()) continue;
      size_t off = oi <= s.size() ? oi : (FAR[oi - s.size() - 1] < 0x1000 ? s.size() + FAR[oi - s.size() - 1] : FAR[oi - s.size() - 1]);
      if (r.wants_desc()) r.desc(vf::fmt("skip_*(std::string %s, %zu)", vf::show(s).c_str(), off));
      size_t w_ws = ref_first_from(s, off, false), w_nws = ref_first_from(s, off, true), w_word = ref_first_from(s, w_nws, false);
      // exact-size heap object so that an access past size()+1 is an ASan report even for short strings
      std::unique_ptr<string> hs(new string(s));
      r.poison_errno();
      size_t g_ws = phosg::skip_whitespace(*hs, off), g_nws = phosg::skip_non_whitespace(*hs, off), g_word = phosg::skip_word(*hs, off);
      if (w_ws != off || w_nws != off) r.nontriv();
      if (g_ws != w_ws) r.fail("skip_whitespace(string):wrong-value", [&] { return vf::fmt("skip_whitespace(%s, %zu) == %zu, expected %zu", vf::show(s).c_str(), off, g_ws, w_ws); });
      if (g_nws != w_nws) r.fail("skip_non_whitespace(string):wrong-value", [&] { return vf::fmt("skip_non_whitespace(%s, %zu) == %zu, expected %zu", vf::show(s).c_str(), off, g_nws, w_nws); });
      if (g_word != w_word) r.fail("skip_word(string):wrong-value", [&] { return vf::fmt("skip_word(%s, %zu) == %zu, expected %zu", vf::show(s).c_str(), off, g_word, w_word); });
      if (g_ws == w_ws && g_nws == w_nws && g_word == w_word) r.ok(off > s.size() ? "string: offset past the end" : (off == s.size() ? "string: offset at end" : "string: offset inside"));
    }
  });
  r.note("skip_*(const char*)");
  vf::all_strings("a \t\n\r", maxlen, [&](const string& s) {
    for (size_t off = 0; off <= s.size(); off++) {
      if (!r.take()) continue;
      if (r.wants_desc()) r.desc(vf::fmt("skip_*(const char* %s, %zu)", vf::show(s).c_str(), off));
      char* p = (char*)malloc(s.size() + 1);
      memcpy(p, s.c_str(), s.size() + 1);
      size_t w_ws = ref_first_from(s, off, false), w_nws = ref_first_from(s, off, true), w_word = ref_first_from(s, w_nws, false);
      r.poison_errno();
      size_t g_ws = phosg::skip_whitespace((const char*)p, off), g_nws = phosg::skip_non_whitespace((const char*)p, off), g_word = phosg::skip_word((const char*)p, off);
      // the non-const char* spelling must reach the same overload
      size_t g_ws2 = phosg::skip_whitespace(p, off);
      free(p);
      if (w_ws != off || w_nws != off) r.nontriv();
      if (g_ws != w_ws || g_ws2 != w_ws) r.fail("skip_whitespace(cstr):wrong-value", [&] { return vf::fmt("skip_whitespace((const char*)%s, %zu) == %zu, expected %zu", vf::show(s).c_str(), off, g_ws != w_ws ? g_ws : g_ws2, w_ws); });
      if (g_nws != w_nws) r.fail("skip_non_whitespace(cstr):wrong-value", [&] { return vf::fmt("skip_non_whitespace((const char*)%s, %zu) == %zu, expected %zu", vf::show(s).c_str(), off, g_nws, w_nws); });
      if (g_word != w_word) r.fail("skip_word(cstr):wrong-value", [&] { return vf::fmt("skip_word((const char*)%s, %zu) == %zu, expected %zu", vf::show(s).c_str(), off, g_word, w_word); });
      if (g_ws == w_ws && g_ws2 == w_ws && g_nws == w_nws && g_word == w_word) r.ok(off == s.size() ? "cstr: offset at terminator" : "cstr: offset inside");
    }
  });
  // long runs (beyond any small-string buffer): run of n blanks / non-blanks followed by the other class
  r.note("skip_*(long)");
  for (size_t n : {(size_t)15, (size_t)16, (size_t)17, (size_t)255, (size_t)256, (size_t)257, (size_t)4096, (size_t)65536}) {
    for (int shape = 0; shape < 4; shape++) {
      if (!r.take()) continue;
      string s = shape == 0 ? string(n, ' ') + "x" : (shape == 1 ? string(n, 'x') + " " : (shape == 2 ? string(n, '\n') : string(n, 'x') + string(n, '\t') + "y"));
      if (r.wants_desc()) r.desc(vf::fmt("skip_* on a long run (n=%zu, shape %d), both overloads, offsets 0, 1, n-1, n, size", n, shape));
      r.nontriv();
      bool bad = false;
      for (size_t off : {(size_t)0, (size_t)1, n - 1, n, s.size()}) {
        size_t w_ws = ref_first_from(s, off, false), w_nws = ref_first_from(s, off, true), w_word = ref_first_from(s, w_nws, false);
        size_t g[6] = {phosg::skip_whitespace(s, off), phosg::skip_non_whitespace(s, off), phosg::skip_word(s, off),
            phosg::skip_whitespace(s.c_str(), off), phosg::skip_non_whitespace(s.c_str(), off), phosg::skip_word(s.c_str(), off)};
        size_t w[6] = {w_ws, w_nws, w_word, w_ws, w_nws, w_word};
        static const char* keys[6] = {"skip_whitespace(string)", "skip_non_whitespace(string)", "skip_word(string)", "skip_whitespace(cstr)", "skip_non_whitespace(cstr)", "skip_word(cstr)"};
        for (int i = 0; i < 6; i++) {
          if (g[i] != w[i]) {
            bad = true;
            r.fail(string(keys[i]) + ":wrong-value", [&] { return vf::fmt("%s on a long run (n=%zu, shape %d) from offset %zu == %zu, expected %zu", keys[i], n, shape, off, g[i], w[i]); });
          }
        }
      }
      if (!bad) r.ok("long runs");
    }
  }
  r.bound = vf::fmt("skip_whitespace / skip_non_whitespace / skip_word: std::string overloads on all strings over {a, space, tab, LF, CR, NUL}^<=%zu x every offset 0..len and past the end {len+1, len+2, len+17, 2^31-1, 2^31, 2^32-1, 2^32, 2^63-1, 2^63, SIZE_MAX-1, SIZE_MAX}; "
            "const char* overloads on exact-size heap copies of all strings over {a, space, tab, LF, CR}^<=%zu x every offset 0..len; 32 long-run cases (15..65536) on both overloads", maxlen, maxlen);
}

// ---------- string_printf / string_vprintf ----------------------------------------------------------------

namespace {

struct PrintfCase {
  string what;   // description
  string want;   // by definition
  string xcheck; // vsnprintf into a big buffer ("" + xcheck_exact: want is exact by construction)
  bool xcheck_exact = false;
  std::function<string()> via_printf, via_vprintf_fn;
};

void run_printf_case(vf::Run& r, const PrintfCase& c) {
  if (r.wants_desc()) r.desc(c.what);
  r.nontriv();
  if (!c.xcheck_exact && c.xcheck != c.want) {
    r.fail("harness:printf-reference-mismatch", [&] { return "internal: constructed expectation and vsnprintf disagree for " + c.what + vf::fmt(" (%zu vs %zu bytes)", c.want.size(), c.xcheck.size()); });
    return;
  }
  r.xchecked++;
  bool bad = false;
  for (int entry = 0; entry < 2; entry++) {
    const char* fn = entry ? "string_vprintf" : "string_printf";
    string got;
    r.poison_errno();
    string oc = vf::outcome([&] { got = entry ? c.via_vprintf_fn() : c.via_printf(); });
    if (oc != "ok") {
      bad = true;
      r.fail(string(fn) + ":throws", [&] { return string(fn) + ": " + c.what + vf::fmt(" (a %zu-byte result) threw %s", c.want.size(), oc.c_str()); });
    } else if (got.size() != c.want.size()) {
      bad = true;
      r.fail(string(fn) + ":wrong-length", [&] { return string(fn) + ": " + c.what + vf::fmt(": result has %zu bytes, expected %zu", got.size(), c.want.size()); });
    } else if (got != c.want) {
      bad = true;
      size_t i = 0;
      while (i < got.size() && got[i] == c.want[i]) i++;
      r.fail(string(fn) + ":wrong-value", [&] { return string(fn) + ": " + c.what + vf::fmt(" (a %zu-byte result) differs from the expected text at offset %zu", c.want.size(), i); });
    }
  }
  if (!bad) r.ok(c.want.size() > 1024 ? "result longer than 1 KiB" : "result up to 1 KiB");
}

string pad_to(const string& body, long long width, char fill = ' ') {
  size_t aw = (size_t)(width < 0 ? -width : width);
  if (body.size() >= aw) return body;
  return width < 0 ? body + string(aw - body.size(), ' ') : string(aw - body.size(), fill) + body;
}

}  // namespace

VF_SECTION(string_printf, 8, 8, 120) {
  r.note("string_printf");
  // (a) result-length sweep: every length around the classic buffer sizes
  vector<size_t> lens;
  for (size_t L = 0; L <= 300; L++) lens.push_back(L);
  for (size_t L : {(size_t)511, (size_t)512, (size_t)513, (size_t)1023, (size_t)1024, (size_t)1025, (size_t)2047, (size_t)2048, (size_t)2049, (size_t)4095, (size_t)4096, (size_t)4097,
           (size_t)8191, (size_t)8192, (size_t)8193, (size_t)16384, (size_t)32767, (size_t)32768, (size_t)65535, (size_t)65536, (size_t)65537, (size_t)1048575, (size_t)1048576})
    lens.push_back(L);
  for (size_t L : lens) {
    for (int form = 0; form < 5; form++) {
      if (!r.take()) continue;
      PrintfCase c;
      static const char* fnames[] = {"%s", "%*d", "%c%s%c (NUL characters)", "%*.3f", "%s%.3f"};
      c.what = vf::fmt("(\"%s\") with result length %zu", fnames[form], L);
      bool skip = false;
      string arg;
      switch (form) {
        case 0:
          arg = pattern(L);
          c.want = arg;
          c.via_printf = [&] { return phosg::string_printf("%s", arg.c_str()); };
          c.via_vprintf_fn = [&] { return via_vprintf("%s", arg.c_str()); };
          c.xcheck = big_vsnprintf(L, "%s", arg.c_str());
          break;
        case 1:
          if (L == 0) { skip = true; break; }
          c.want = string(L - 1, ' ') + "7";
          c.via_printf = [&] { return phosg::string_printf("%*d", (int)L, 7); };
          c.via_vprintf_fn = [&] { return via_vprintf("%*d", (int)L, 7); };
          c.xcheck = big_vsnprintf(L, "%*d", (int)L, 7);
          break;
        case 2:
          if (L < 2) { skip = true; break; }
          arg = pattern(L - 2);
          c.want = string(1, '\0') + arg + string(1, '\0');
          c.via_printf = [&] { return phosg::string_printf("%c%s%c", 0, arg.c_str(), 0); };
          c.via_vprintf_fn = [&] { return via_vprintf("%c%s%c", 0, arg.c_str(), 0); };
          c.xcheck_exact = true;  // vsnprintf's buffer would need the length out of band too; `want` is exact by construction
          break;
        case 3:
          if (L < 6) { skip = true; break; }
          c.want = string(L - 6, ' ') + "-1.500";
          c.via_printf = [&] { return phosg::string_printf("%*.3f", (int)L, -1.5); };
          c.via_vprintf_fn = [&] { return via_vprintf("%*.3f", (int)L, -1.5); };
          c.xcheck = big_vsnprintf(L, "%*.3f", (int)L, -1.5);
          break;
        case 4:
          if (L < 5) { skip = true; break; }
          arg = pattern(L - 5);
          c.want = arg + "0.125";
          c.via_printf = [&] { return phosg::string_printf("%s%.3f", arg.c_str(), 0.125); };
          c.via_vprintf_fn = [&] { return via_vprintf("%s%.3f", arg.c_str(), 0.125); };
          c.xcheck = big_vsnprintf(L, "%s%.3f", arg.c_str(), 0.125);
          break;
      }
      if (skip) {
        r.ok("length not reachable with this format");
        continue;
      }
      run_printf_case(r, c);
    }
  }
  // (b) %.3f on its own: values whose rendering is long
  const double vals[] = {0.0, -0.0005, 1.0005, 123456.7894, -1e15, 1e300, -1.7976931348623157e308};
  for (double v : vals) {
    if (!r.take()) continue;
    PrintfCase c;
    c.what = vf::fmt("(\"%%.3f\", %g)", v);
    c.want = c.xcheck = big_vsnprintf(400, "%.3f", v);
    c.via_printf = [&] { return phosg::string_printf("%.3f", v); };
    c.via_vprintf_fn = [&] { return via_vprintf("%.3f", v); };
    run_printf_case(r, c);
  }
  // (c) width through '*': zero, positive, negative (= left-justified), around the buffer sizes, up to 1 MiB
  const int widths[] = {0, 1, -1, 2, -2, 3, -3, 7, -7, 255, -255, 256, -256, 257, -257, 1023, -1023, 1024, -1024, 1025, -1025, 65536, -65536, 1048576, -1048576};
  const int ivals[] = {7, -7, 123456, 0};
  for (int W : widths) {
    for (int v : ivals) {
      for (int form = 0; form < 3; form++) {  // %*d, %0*d, %-*d|
        if (!r.take()) continue;
        PrintfCase c;
        string digits = std::to_string(v);
        size_t cap = (size_t)(W < 0 ? -(long long)W : W) + 40;
        if (form == 0) {
          c.what = vf::fmt("(\"%%*d\", %d, %d)", W, v);
          c.want = pad_to(digits, W);
          c.via_printf = [&] { return phosg::string_printf("%*d", W, v); };
          c.via_vprintf_fn = [&] { return via_vprintf("%*d", W, v); };
          c.xcheck = big_vsnprintf(cap, "%*d", W, v);
        } else if (form == 1) {
          c.what = vf::fmt("(\"%%0*d\", %d, %d)", W, v);
          if (W < 0) c.want = pad_to(digits, W);  // '-' flag overrides '0'
          else if (v < 0) c.want = "-" + pad_to(digits.substr(1), W > 0 ? W - 1 : 0, '0');
          else c.want = pad_to(digits, W, '0');
          c.via_printf = [&] { return phosg::string_printf("%0*d", W, v); };
          c.via_vprintf_fn = [&] { return via_vprintf("%0*d", W, v); };
          c.xcheck = big_vsnprintf(cap, "%0*d", W, v);
        } else {
          c.what = vf::fmt("(\"%%-*d|\", %d, %d)", W, v);
          c.want = pad_to(digits, W < 0 ? W : -(long long)W) + "|";
          c.via_printf = [&] { return phosg::string_printf("%-*d|", W, v); };
          c.via_vprintf_fn = [&] { return via_vprintf("%-*d|", W, v); };
          c.xcheck = big_vsnprintf(cap, "%-*d|", W, v);
        }
        run_printf_case(r, c);
      }
    }
  }
  // (d) precision through '.*' on %s: negative (= none), zero, shorter / equal / longer than the argument, INT_MAX
  const int precs[] = {INT32_MIN, -1, 0, 1, 2, 255, 256, 257, 1024, 65536, 1048576, INT32_MAX};
  const size_t arglens[] = {0, 1, 2, 256, 257, 70000, 1048576};
  for (int P : precs) {
    for (size_t A : arglens) {
      if (!r.take()) continue;
      PrintfCase c;
      string arg = pattern(A);
      c.what = vf::fmt("(\"%%.*s\", %d, <%zu-byte string>)", P, A);
      c.want = P < 0 ? arg : arg.substr(0, (size_t)P);
      c.via_printf = [&] { return phosg::string_printf("%.*s", P, arg.c_str()); };
      c.via_vprintf_fn = [&] { return via_vprintf("%.*s", P, arg.c_str()); };
      c.xcheck = big_vsnprintf(A, "%.*s", P, arg.c_str());
      run_printf_case(r, c);
    }
  }
  // (e) width and precision together, and a padded NUL character
  for (int W : {0, 5, -5, 300, -300, 70000}) {
    for (int P : {-1, 0, 2, 400}) {
      for (size_t A : {(size_t)0, (size_t)3, (size_t)500}) {
        if (!r.take()) continue;
        PrintfCase c;
        string arg = pattern(A);
        c.what = vf::fmt("(\"[%%*.*s]\", %d, %d, <%zu-byte string>)", W, P, A);
        c.want = "[" + pad_to(P < 0 ? arg : arg.substr(0, (size_t)P), W) + "]";
        c.via_printf = [&] { return phosg::string_printf("[%*.*s]", W, P, arg.c_str()); };
        c.via_vprintf_fn = [&] { return via_vprintf("[%*.*s]", W, P, arg.c_str()); };
        c.xcheck = big_vsnprintf(A + 70100, "[%*.*s]", W, P, arg.c_str());
        run_printf_case(r, c);
      }
    }
  }
  for (int W : {0, 1, 2, -2, 255, 256, 257, -300, 5000}) {
    if (!r.take()) continue;
    PrintfCase c;
    c.what = vf::fmt("(\"%%*c\", %d, NUL)", W);
    c.want = pad_to(string(1, '\0'), W);
    c.xcheck_exact = true;
    c.via_printf = [&] { return phosg::string_printf("%*c", W, 0); };
    c.via_vprintf_fn = [&] { return via_vprintf("%*c", W, 0); };
    run_printf_case(r, c);
  }
  // (f) no conversions at all, "%%", and many arguments (register and stack passed)
  {
    struct Lit { const char* fmt; const char* want; };
    for (const Lit& l : {Lit{"", ""}, Lit{"x", "x"}, Lit{"%%", "%"}, Lit{"100%% of %%s", "100% of %s"}}) {
      if (!r.take()) continue;
      PrintfCase c;
      c.what = vf::fmt("(%s) without arguments", vf::show(l.fmt).c_str());
      c.want = l.want;
      c.xcheck_exact = true;
      const char* f = l.fmt;
      c.via_printf = [f] {
#pragma GCC diagnostic push
#pragma GCC diagnostic ignored "-Wformat-security"
#pragma GCC diagnostic ignored "-Wformat-zero-length"
        return phosg::string_printf(f);
#pragma GCC diagnostic pop
      };
      c.via_vprintf_fn = [f] {
#pragma GCC diagnostic push
#pragma GCC diagnostic ignored "-Wformat-security"
        return via_vprintf(f);
#pragma GCC diagnostic pop
      };
      run_printf_case(r, c);
    }
    if (r.take()) {
      PrintfCase c;
      c.what = "(\"%d %s %d %s %d %s %d %s %.1f %.1f %.1f %.1f %.1f %.1f %.1f %.1f %.1f %lld %c\") with 19 arguments";
      c.want = "1 a 2 b 3 c 4 d 0.5 1.5 2.5 3.5 4.5 5.5 6.5 7.5 8.5 -9000000000 z";
      c.xcheck = big_vsnprintf(200, "%d %s %d %s %d %s %d %s %.1f %.1f %.1f %.1f %.1f %.1f %.1f %.1f %.1f %lld %c", 1, "a", 2, "b", 3, "c", 4, "d", 0.5, 1.5, 2.5, 3.5, 4.5, 5.5, 6.5, 7.5, 8.5, -9000000000ll, 'z');
      c.via_printf = [] { return phosg::string_printf("%d %s %d %s %d %s %d %s %.1f %.1f %.1f %.1f %.1f %.1f %.1f %.1f %.1f %lld %c", 1, "a", 2, "b", 3, "c", 4, "d", 0.5, 1.5, 2.5, 3.5, 4.5, 5.5, 6.5, 7.5, 8.5, -9000000000ll, 'z'); };
      c.via_vprintf_fn = [] { return via_vprintf("%d %s %d %s %d %s %d %s %.1f %.1f %.1f %.1f %.1f %.1f %.1f %.1f %.1f %lld %c", 1, "a", 2, "b", 3, "c", 4, "d", 0.5, 1.5, 2.5, 3.5, 4.5, 5.5, 6.5, 7.5, 8.5, -9000000000ll, 'z'); };
      run_printf_case(r, c);
    }
  }
  r.bound = "string_printf and string_vprintf (called directly): %s, %*d, %c%s%c (with NUL characters), %*.3f, %s%.3f with every result length 0..300 and {2^k-1,2^k,2^k+1 for k=9..13, 16384, 32767, 32768, 65535, 65536, 65537, 1 MiB-1, 1 MiB}; %.3f alone on 7 boundary doubles; "
            "%*d / %0*d / %-*d with width in {0,+-1,+-2,+-3,+-7,+-255,+-256,+-257,+-1023,+-1024,+-1025,+-65536,+-1 MiB} x 4 values; %.*s with precision in {INT_MIN,-1,0,1,2,255,256,257,1024,65536,1 MiB,INT_MAX} x argument length {0,1,2,256,257,70000,1 MiB}; "
            "%*.*s (6 widths x 4 precisions x 3 lengths); %*c with a NUL character; formats without conversions; 19 arguments";
}

VF_MAIN()
