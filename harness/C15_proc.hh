// C15_proc.hh — E-PROC interposition layer: the scripted child, the parent's wrapped system calls, virtual time.
// Included once, by C15.cc.  See the header comment of C15.cc for the overall design.
#pragma once
#include <dirent.h>
#include <errno.h>
#include <fcntl.h>
#include <poll.h>
#include <signal.h>
#include <string.h>
#include <sys/time.h>
#include <sys/wait.h>
#include <time.h>
#include <unistd.h>

#include <algorithm>
#include <set>
#include <string>
#include <vector>

#include "env.hh"
#include "vf.hh"

extern "C" {
pid_t __real_waitpid(pid_t, int*, int);
int __real_poll(struct pollfd*, nfds_t, int);
ssize_t __real_read(int, void*, size_t);
ssize_t __real_write(int, const void*, size_t);
int __real_kill(pid_t, int);
int __real_gettimeofday(struct timeval*, void*);
pid_t __real_fork(void);
int __real_pipe(int*);
int __real_close(int);
int __real_usleep(useconds_t);
int __real_nanosleep(const struct timespec*, struct timespec*);
}

namespace {

constexpr int CMD_FD = 200, ACK_FD = 201;
constexpr size_t SYSCALL_CAP = 6000;

struct ProcAbort { std::string why; };
[[noreturn]] void do_abort(const std::string& why);

// R(n) read <=n bytes of stdin; R*EOF read until end of input; W1/W2(n) write n pattern bytes to stdout/stderr;
// C(fd) close a stream; X(code) exit; K(sig) die by signal; Z idle forever; P linger (one step in which nothing
// observable happens); I(sig) ignore a signal from now on; T(t) sleep until virtual time t (microseconds since the
// call began; round 5): the step is enabled once the virtual clock has reached t
enum StepKind { ST_R, ST_RALL, ST_W1, ST_W2, ST_C, ST_X, ST_K, ST_Z, ST_P, ST_I, ST_T };
struct Step { StepKind k; int64_t arg; };

struct Cmd { int32_t op; int32_t arg; };
struct Ack { int64_t result; uint64_t hash; int64_t total; };

enum EintrSite { EI_WAITPID, EI_POLL, EI_READ, EI_WRITE, EI_N };
const char* const kEintrName[EI_N] = {"waitpid", "poll", "read", "write"};

struct KillRec { int sig; uint64_t vclock; bool child_was_alive; };

struct Proc {
  bool active = false;
  pid_t pid = -1;
  bool alive = false;          // forked and not yet terminated
  int forks = 0;
  bool fail_fork = false;      // environment answer: fork() fails with EAGAIN
  std::set<int> owned;         // pipe descriptors created by the code under test
  int cmd_w = -1, ack_r = -1;
  std::vector<Step> script;
  size_t pc = 0;
  int64_t w_remaining = -1;
  int64_t in_total = 0;
  uint64_t in_hash = 1469598103934665603ull;
  bool in_eof = false;
  int64_t out_total[3] = {0, 0, 0};
  uint64_t vclock = 0;          // virtual microseconds elapsed
  struct timeval base {};
  size_t syscalls = 0;
  size_t child_steps = 0;
  int polls_without_child_progress = 0;
  bool killed_by_parent = false;
  int kill_signal = 0;
  int term_status = -1;         // wait status the child ended with
  bool ignores_term = false;
  std::vector<KillRec> kills;   // every kill() the code under test sent to the child
  int eintr_left = 2;           // EINTR answers still available in this call
  bool eintr_rw = false;        // also answer EINTR on non-blocking read()/write() (run_process names EINTR there)
  int eintr_given[EI_N] = {0, 0, 0, 0};
  // --- time model (round 3): every wrapped system call costs 1 virtual microsecond; a parent that repeats an
  // identical "poll() returns at once" round without doing anything in between while the child cannot move is
  // fast-forwarded (first to the expiry of the call's timeout, then by 1, 2, 4, ... microseconds per round)
  uint64_t activity = 0;        // child steps + the parent's read/write/close/kill on its pipes and child
  uint64_t spin_sig = 0, spin_activity = 0;
  int spin_count = 0;
  uint64_t spin_jump = 1;
  uint64_t timeout_hint = 0;    // the timeout / deadline given to the call under test (virtual us since the call began)
  uint64_t fast_forwards = 0;
  // --- the child's view of its standard streams (round 3)
  int fdmask = -1;              // bit i set = descriptor i was open when the helper started (-1: not asked yet)
  // --- signals arriving in the calling process at fixed virtual times (round 5): the first one sig_phase us after the
  // call began, then one every sig_period us (sig_period 0: only that one).  A signal that arrives while the parent
  // sleeps in poll/waitpid/usleep/nanosleep/a blocking read or write ends that sleep with EINTR at the signal's time; one
  // that arrives while the parent is running has no visible effect (its handler runs and returns).
  bool sig_mode = false;
  uint64_t sig_period = 0, sig_phase = 0;
  uint64_t sig_eintr = 0;       // EINTR answers given because of these signals
  uint64_t overrun_limit = 0;   // if non-zero: a child that is still running at this virtual time was not ended by the timeout
  size_t syscall_cap = SYSCALL_CAP;
} P;

int g_bad_kill = 0;  // kill() aimed at something that is not the child (pid <= 0 would signal whole process groups)
pid_t g_bad_kill_pid = 0;

vfe::Env g_env;

[[noreturn]] void do_abort(const std::string& why) {
  P.active = false;  // everything after this point (including destructors during unwinding) uses the real calls
  throw ProcAbort{why};
}

constexpr uint64_t NEVER = UINT64_MAX;

// virtual time of the first signal strictly after t
uint64_t next_signal_after(uint64_t t) {
  if (!P.sig_mode) return NEVER;
  if (t < P.sig_phase) return P.sig_phase;
  if (!P.sig_period) return NEVER;
  return P.sig_phase + ((t - P.sig_phase) / P.sig_period + 1) * P.sig_period;
}

// the time the child's pending T(t) step is waiting for (NEVER: the child is not waiting for the clock)
uint64_t child_wake_time() {
  if (!P.alive || P.pc >= P.script.size() || P.script[P.pc].k != ST_T) return NEVER;
  return (uint64_t)P.script[P.pc].arg;
}

// Every change of the virtual clock goes through here: "a timeout ends the child" is decided as "the child is not
// still running `slack` after the timeout expired" (overrun_limit = timeout + slack, set by run_call).
void advance_clock(uint64_t to) {
  if (to <= P.vclock) return;
  if (P.overrun_limit && to > P.overrun_limit && P.alive) {
    uint64_t was = P.vclock;
    P.vclock = to;
    do_abort(vf::fmt("timeout-overrun: the child is still running (no fatal signal sent) at virtual time %llu us, the timeout/deadline of %llu us expired long ago (allowed slack %llu us); clock before this step %llu us, %llu sleeping calls of the parent were interrupted by signals (EINTR)",
        (unsigned long long)to, (unsigned long long)P.timeout_hint, (unsigned long long)(P.overrun_limit - P.timeout_hint), (unsigned long long)was, (unsigned long long)P.sig_eintr));
  }
  P.vclock = to;
}

void wait_waitable() {
  siginfo_t info;
  memset(&info, 0, sizeof(info));
  while (waitid(P_PID, P.pid, &info, WEXITED | WNOWAIT) < 0 && errno == EINTR) {}
  P.alive = false;
}

Ack command(int op, int arg) {
  Cmd c{op, arg};
  if (__real_write(P.cmd_w, &c, sizeof(c)) != (ssize_t)sizeof(c)) do_abort("ENGINE: cannot send a command to the helper child");
  Ack a{};
  size_t got = 0;
  while (got < sizeof(a)) {
    ssize_t r = __real_read(P.ack_r, (char*)&a + got, sizeof(a) - got);
    if (r < 0 && errno == EINTR) continue;
    if (r <= 0) do_abort("ENGINE: helper child closed the acknowledgement pipe (did it exec?)");
    got += r;
  }
  return a;
}

// Performs the child's next scripted step if it can make progress.  Returns false when the child
// is blocked (no data to read / no room to write), idle forever (Z), finished or dead.
bool child_step() {
  if (!P.alive || P.pc >= P.script.size()) return false;
  if (P.fdmask < 0) P.fdmask = (int)command('F', 0).result;
  Step& s = P.script[P.pc];
  switch (s.k) {
    case ST_R:
    case ST_RALL: {
      Ack a = command('R', s.k == ST_R ? (int)s.arg : 65536);
      if (a.result == -1) return false;
      if (a.result == -3) { P.pc++; break; }  // the child has no stdin (EBADF): its read fails and it moves on
      if (a.result < 0) do_abort("ENGINE: helper child read error");
      P.in_total = a.total;
      P.in_hash = a.hash;
      if (a.result == 0) { P.in_eof = true; P.pc++; }
      else if (s.k == ST_R) P.pc++;
      break;
    }
    case ST_W1:
    case ST_W2: {
      int st = s.k == ST_W1 ? 1 : 2;
      if (P.w_remaining < 0) P.w_remaining = s.arg;
      if (P.w_remaining == 0) { P.w_remaining = -1; P.pc++; break; }
      Ack a = command('0' + st, (int)std::min<int64_t>(P.w_remaining, 65536));
      if (a.result == -1) return false;
      if (a.result == -2 || a.result == -3) { P.w_remaining = -1; P.pc++; break; }  // reader gone / stream closed: the child gives up on this write
      P.out_total[st] = a.total;
      P.w_remaining -= a.result;
      if (P.w_remaining == 0) { P.w_remaining = -1; P.pc++; }
      break;
    }
    case ST_C: command('C', (int)s.arg); P.pc++; break;
    case ST_P: command('P', 0); P.pc++; break;
    case ST_I: command('I', (int)s.arg); if (s.arg == SIGTERM) P.ignores_term = true; P.pc++; break;
    case ST_X: command('X', (int)s.arg); wait_waitable(); P.term_status = ((int)s.arg & 0xFF) << 8; P.pc++; break;
    case ST_K: command('K', (int)s.arg); wait_waitable(); P.term_status = (int)s.arg; P.pc++; break;
    case ST_Z: return false;
    case ST_T: if (P.vclock < (uint64_t)s.arg) return false; P.pc++; break;  // the child's own sleep is over
  }
  P.child_steps++;
  P.activity++;
  P.polls_without_child_progress = 0;
  return true;
}

bool owned_fd(int fd) { return P.active && P.owned.count(fd); }

void count_syscall() {
  advance_clock(P.vclock + 1);  // no system call is free
  if (++P.syscalls > P.syscall_cap) do_abort(vf::fmt("livelock: more than %zu system calls by the parent in one call (virtual time %llu us, %llu sleeping calls interrupted by signals)", P.syscall_cap, (unsigned long long)P.vclock, (unsigned long long)P.sig_eintr));
}

bool child_can_step_now() {
  if (!P.alive || P.pc >= P.script.size()) return false;
  const Step& s = P.script[P.pc];
  return s.k != ST_Z && !(s.k == ST_T && P.vclock < (uint64_t)s.arg);
}

// The parent sleeps (nothing it waits for is there, the child cannot move right now) until `end` (NEVER: no timeout).
// The clock goes to whatever comes first: the child's own wake-up time, the end of the sleep, the next signal.  Ties:
// the child first, then the timeout, then the signal (a signal interrupts a sleep only if it arrives strictly inside it).
enum Wake { WK_CHILD, WK_END, WK_SIGNAL, WK_NOTHING };
Wake sleep_until(uint64_t end, EintrSite site) {
  uint64_t w = child_wake_time(), s = next_signal_after(P.vclock);
  uint64_t m = std::min(w, std::min(end, s));
  if (m == NEVER) return WK_NOTHING;
  advance_clock(m);
  if (m == w) return WK_CHILD;
  if (m == end) return WK_END;
  P.sig_eintr++;
  P.eintr_given[site]++;
  return WK_SIGNAL;
}

// Choice point in front of one of the parent's system calls: let the child run ahead.
void pre_syscall() {
  count_syscall();
  bool can = child_can_step_now();
  int c = g_env.choose(can ? 4 : 1);
  int k = c == 3 ? 1000000 : c;
  for (int i = 0; i < k; i++) if (!child_step()) break;
}

// Choice point: a signal whose handler was installed without SA_RESTART arrives while the parent sleeps in
// (or, for read/write, is inside) this call.  Non-default answer: the call fails with EINTR.  At most 2 per call.
bool eintr_here(EintrSite site) {
  if (P.eintr_left <= 0 || P.sig_mode) return false;  // with signals at fixed times those are the only source of EINTR
  if (g_env.choose(2) != 1) return false;
  P.eintr_left--;
  P.eintr_given[site]++;
  return true;
}

bool is_blocking(int fd) {
  int fl = fcntl(fd, F_GETFL, 0);
  return fl >= 0 && !(fl & O_NONBLOCK);
}
void set_nb(int fd, bool nb) {
  int fl = fcntl(fd, F_GETFL, 0);
  if (fl >= 0) fcntl(fd, F_SETFL, nb ? (fl | O_NONBLOCK) : (fl & ~O_NONBLOCK));
}

const char* child_block_reason() {
  if (P.pc < P.script.size() && (P.script[P.pc].k == ST_W1 || P.script[P.pc].k == ST_W2)) return "writing to a full pipe nobody reads";
  if (P.pc < P.script.size() && P.script[P.pc].k == ST_Z) return "idle forever";
  if (P.pc < P.script.size() && P.script[P.pc].k == ST_T) return "asleep";
  return "waiting for input that never comes";
}

}  // namespace

extern "C" pid_t __wrap_fork(void) {
  if (P.active && P.fail_fork) { errno = EAGAIN; return -1; }
  pid_t p = __real_fork();
  if (P.active && p > 0) { P.pid = p; P.alive = true; P.forks++; }
  if (p == 0) P.active = false;  // in the child: plain system calls until exec
  return p;
}

extern "C" int __wrap_pipe(int* fds) {
  int r = __real_pipe(fds);
  if (P.active && r == 0) { P.owned.insert(fds[0]); P.owned.insert(fds[1]); }
  return r;
}

extern "C" int __wrap_close(int fd) {
  if (P.active && P.owned.erase(fd)) P.activity++;
  return __real_close(fd);
}

extern "C" int __wrap_gettimeofday(struct timeval* tv, void* tz) {
  if (!P.active) return __real_gettimeofday(tv, tz);
  count_syscall();
  uint64_t t = (uint64_t)P.base.tv_sec * 1000000 + P.base.tv_usec + P.vclock;
  tv->tv_sec = t / 1000000;
  tv->tv_usec = t % 1000000;
  return 0;
}

extern "C" pid_t __wrap_waitpid(pid_t pid, int* status, int flags) {
  if (!P.active || pid != P.pid || pid <= 0) return __real_waitpid(pid, status, flags);
  pre_syscall();
  if (!(flags & WNOHANG)) {
    // blocking wait: the parent sleeps until the child terminates (so the child runs on its own) or a signal arrives
    if (P.alive && eintr_here(EI_WAITPID)) { errno = EINTR; return -1; }
    while (P.alive) {
      if (child_step()) continue;
      Wake w = sleep_until(NEVER, EI_WAITPID);  // the child sleeps until a later time and/or signals keep arriving
      if (w == WK_CHILD) continue;
      if (w == WK_SIGNAL) { errno = EINTR; return -1; }
      do_abort(std::string("deadlock: the parent blocks in waitpid() while the child is blocked (") + child_block_reason() + ")");
    }
  }
  return __real_waitpid(pid, status, flags);
}

extern "C" int __wrap_poll(struct pollfd* fds, nfds_t n, int timeout) {
  bool mine = false;
  for (nfds_t i = 0; i < n; i++) mine |= owned_fd(fds[i].fd);
  if (!P.active || (!mine && n > 0)) return __real_poll(fds, n, timeout);
  pre_syscall();
  // fairness: a parent that keeps polling without sleeping (e.g. on a POLLERR it does not act on)
  // must not starve the child, which a real kernel would keep running meanwhile
  if (++P.polls_without_child_progress >= 3) child_step();
  bool first = true;
  uint64_t sleep_end = NEVER;
  for (;;) {
    int rc = __real_poll(fds, n, 0);
    if (rc > 0 || (rc == 0 && timeout == 0)) {
      // Spin detection.  The poll returns at once (something is ready, or the parent asked with a zero timeout), the same
      // descriptors report the same events as in the previous poll, the parent touched neither its pipes nor the child in
      // between, and the child made no step: nothing but the clock can change what the parent does next.  Real time
      // passes while it spins; if the child cannot move either, the spin lasts until the next instant the parent (or
      // the child: a pending T step) could be waiting for.  Signals do not matter here: the parent never sleeps.
      uint64_t sig = 1469598103934665603ull;
      for (nfds_t i = 0; i < n; i++) for (uint64_t v : {(uint64_t)(unsigned)fds[i].fd, (uint64_t)(unsigned short)fds[i].events, (uint64_t)(unsigned short)fds[i].revents}) sig = (sig ^ v) * 1099511628211ull;
      if (sig == P.spin_sig && P.activity == P.spin_activity) P.spin_count++;
      else { P.spin_count = 0; P.spin_jump = 1; }
      P.spin_sig = sig;
      if (P.spin_count >= 2) {
        if (child_step()) { P.spin_count = 0; P.spin_jump = 1; P.spin_activity = P.activity; continue; }  // poll again
        else {
          uint64_t target = P.vclock + P.spin_jump;
          if (P.spin_jump < (1ull << 40)) P.spin_jump *= 2;
          if (P.timeout_hint && P.timeout_hint < (1ull << 62) && target < P.timeout_hint) target = P.timeout_hint;
          uint64_t wake = child_wake_time();
          if (wake != NEVER && wake > P.vclock && target > wake) target = wake;  // the child's own sleep ends first
          if (target > P.vclock && target < (1ull << 62)) { advance_clock(target); P.fast_forwards++; }
        }
      }
      P.spin_activity = P.activity;
    }
    if (rc != 0 || timeout == 0) return rc;
    // nothing ready: the parent would sleep; a signal may end the sleep, otherwise the child gets to move
    if (first) {
      sleep_end = timeout < 0 ? NEVER : P.vclock + (uint64_t)timeout * 1000;
      if (eintr_here(EI_POLL)) { errno = EINTR; return -1; }
    }
    first = false;
    if (child_step()) continue;
    switch (sleep_until(sleep_end, EI_POLL)) {
      case WK_CHILD: continue;                      // the child's T step is enabled now
      case WK_END: return 0;                        // timed out
      case WK_SIGNAL: errno = EINTR; return -1;     // interrupted: the clock stands at the signal's arrival time
      case WK_NOTHING: break;
    }
    do_abort("deadlock: the parent sleeps in poll() without a timeout while the child cannot make progress");
  }
}

// usleep/nanosleep are not called by Process.cc / Poll on HEAD; a tree that sleeps with them is run in virtual time too.
static int virtual_sleep(uint64_t us, uint64_t* remaining) {
  pre_syscall();
  uint64_t end = P.vclock + us;
  if (eintr_here(EI_POLL)) { if (remaining) *remaining = us; errno = EINTR; return -1; }
  for (;;) {
    while (child_step()) {}
    Wake w = sleep_until(end, EI_POLL);
    if (w == WK_CHILD) continue;
    if (w == WK_SIGNAL) { if (remaining) *remaining = end - P.vclock; errno = EINTR; return -1; }
    return 0;
  }
}

extern "C" int __wrap_usleep(useconds_t us) {
  if (!P.active) return __real_usleep(us);
  return virtual_sleep(us, nullptr);
}

extern "C" int __wrap_nanosleep(const struct timespec* req, struct timespec* rem) {
  if (!P.active || !req) return __real_nanosleep(req, rem);
  uint64_t left = 0;
  int r = virtual_sleep((uint64_t)req->tv_sec * 1000000 + ((uint64_t)req->tv_nsec + 999) / 1000, &left);
  if (r < 0 && rem) { rem->tv_sec = left / 1000000; rem->tv_nsec = (left % 1000000) * 1000; }
  return r;
}

extern "C" ssize_t __wrap_read(int fd, void* buf, size_t n) {
  if (!owned_fd(fd)) return __real_read(fd, buf, n);
  P.activity++;
  pre_syscall();
  if (!is_blocking(fd)) {
    if (P.eintr_rw && eintr_here(EI_READ)) { errno = EINTR; return -1; }
    return __real_read(fd, buf, n);
  }
  set_nb(fd, true);
  ssize_t r;
  for (;;) {
    r = __real_read(fd, buf, n);
    if (r >= 0 || (errno != EAGAIN && errno != EWOULDBLOCK)) break;
    if (child_step()) continue;
    Wake w = sleep_until(NEVER, EI_READ);
    if (w == WK_CHILD) continue;
    set_nb(fd, false);
    if (w == WK_SIGNAL) { errno = EINTR; return -1; }  // a blocking read that has transferred nothing is interrupted
    do_abort("deadlock: the parent blocks in read() on a pipe the child will never write to or close");
  }
  int e = errno;
  set_nb(fd, false);
  errno = e;
  return r;
}

extern "C" ssize_t __wrap_write(int fd, const void* buf, size_t n) {
  if (!owned_fd(fd)) return __real_write(fd, buf, n);
  P.activity++;
  pre_syscall();
  if (!is_blocking(fd)) {
    if (P.eintr_rw && eintr_here(EI_WRITE)) { errno = EINTR; return -1; }
    return __real_write(fd, buf, n);
  }
  // a blocking write returns only when everything is written (or on error)
  set_nb(fd, true);
  size_t done = 0;
  ssize_t r = 0;
  while (done < n) {
    r = __real_write(fd, (const char*)buf + done, n - done);
    if (r > 0) { done += r; continue; }
    if (r < 0 && (errno == EAGAIN || errno == EWOULDBLOCK)) {
      if (child_step()) continue;
      Wake w = sleep_until(NEVER, EI_WRITE);
      if (w == WK_CHILD) continue;
      set_nb(fd, false);
      if (w == WK_SIGNAL) { if (done > 0) return (ssize_t)done; errno = EINTR; return -1; }  // partial count, or EINTR if nothing was written
      do_abort(vf::fmt("deadlock: the parent blocks in write() (%zu of %zu bytes written, pipe full) while the child is blocked too", done, n));
    }
    break;
  }
  int e = errno;
  set_nb(fd, false);
  errno = e;
  if (done > 0) return (ssize_t)done;
  return r;
}

extern "C" int __wrap_kill(pid_t pid, int sig) {
  // Never deliver a signal to anything but the scripted child: pid 0 / -1 / a stale pid would hit the whole
  // process group, every process of the user, or an unrelated process.
  if (pid <= 0 || (P.active && pid != P.pid)) {
    g_bad_kill++;
    g_bad_kill_pid = pid;
    errno = ESRCH;
    return -1;
  }
  int r = __real_kill(pid, sig);
  if (P.active && pid == P.pid && r == 0 && sig != 0) {
    P.activity++;
    P.kills.push_back({sig, P.vclock, P.alive});
    bool fatal = sig == SIGKILL || (sig == SIGTERM && !P.ignores_term);
    if (P.alive && fatal) {
      P.killed_by_parent = true;
      P.kill_signal = sig;
      P.term_status = sig;
      wait_waitable();
    }
  }
  return r;
}

namespace {

std::set<int> list_fds() {
  std::set<int> s;
  DIR* d = opendir("/proc/self/fd");
  if (!d) return s;
  int dfd = dirfd(d);
  while (struct dirent* e = readdir(d)) {
    if (e->d_name[0] == '.') continue;
    int fd = atoi(e->d_name);
    if (fd != dfd) s.insert(fd);
  }
  closedir(d);
  return s;
}

// 'r' = still running, 'z' = terminated but not waited for, 'g' = gone (reaped); never changes the child's state
char child_state(pid_t pid) {
  siginfo_t info;
  memset(&info, 0, sizeof(info));
  int rc;
  while ((rc = waitid(P_PID, pid, &info, WEXITED | WNOHANG | WNOWAIT)) < 0 && errno == EINTR) {}
  if (rc < 0) return 'g';
  return info.si_pid == pid ? 'z' : 'r';
}

}  // namespace
