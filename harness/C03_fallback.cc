// C03 (and the byte-order half of C01), variant "no_predefines" — the BUILD ENVIRONMENT as an enumerated dimension.
// src/Platform.hh decides the host byte order from the compiler's __BYTE_ORDER__ predefine and, when that is absent (compilers
// that do not provide it), from a multi-character constant.  The main build only ever takes the first branch.  This
// translation unit is compiled with -U__BYTE_ORDER__ (props_d/C03.py), so the fallback branch decides, and the statement's
// observable — "stored in the NAMED byte order, reads back as the native value" — is checked for every wrapper type on lane-
// distinct and boundary values, for the bswap helpers and for the header-only StringReader/StringWriter typed accessors.
// (Seed C03-I swapped the two constants of the fallback: every be_/le_ wrapper then stores the opposite order.)
#include <string.h>

#include <string>
#include <vector>

#include "Encoding.hh"
#include "Platform.hh"
#include "vf.hh"

using namespace phosg;

namespace {
template <class U>
std::string enc(U bits, bool big) {
  std::string s(sizeof(U), 0);
  for (size_t i = 0; i < sizeof(U); i++) {
    size_t shift = 8 * (big ? sizeof(U) - 1 - i : i);
    s[i] = static_cast<char>((bits >> shift) & 0xFF);
  }
  return s;
}
template <class T, class U>
U bits_of(T v) {
  U u;
  static_assert(sizeof(T) == sizeof(U));
  memcpy(&u, &v, sizeof(U));
  return u;
}
template <class U>
std::vector<U> values() {
  std::vector<U> v = {0, 1, static_cast<U>(~U(0)), static_cast<U>(U(1) << (8 * sizeof(U) - 1)), static_cast<U>(0x0102030405060708ull >> (64 - 8 * sizeof(U))),
                      static_cast<U>(~(0x0102030405060708ull >> (64 - 8 * sizeof(U))))};
  for (size_t b = 0; b < 8 * sizeof(U); b++) { v.push_back(static_cast<U>(U(1) << b)); v.push_back(static_cast<U>(~(U(1) << b))); }
  for (size_t lane = 0; lane < sizeof(U); lane++)
    for (unsigned byte : {0x7Fu, 0x80u, 0xA5u}) v.push_back(static_cast<U>(U(byte) << (8 * lane)));
  return v;
}
template <class W, class T, class U>
void check_wrapper(vf::Run& r, const char* name, bool big) {
  r.note(name);
  for (U bits : values<U>()) {
    if (!r.take()) continue;
    T native;
    memcpy(&native, &bits, sizeof(T));
    W w;
    w = native;
    std::string raw(reinterpret_cast<const char*>(&w), sizeof(W));
    std::string want = enc<U>(bits, big);
    if (r.wants_desc()) r.desc(vf::fmt("%s = value with bit pattern 0x%llX, built with -U__BYTE_ORDER__", name, (unsigned long long)bits));
    r.nontriv();
    if (sizeof(W) != sizeof(T)) r.fails(std::string(name) + ":size", "wrapper size differs from the native type");
    else if (raw != want) r.fail(std::string("wrapper:stored-bytes-not-in-named-order:without-compiler-byte-order-predefine"), [&] { return vf::fmt("%s holding bit pattern 0x%llX stores bytes ", name, (unsigned long long)bits) + vf::show(raw) + ", the named byte order is " + vf::show(want); });
    else {
      T back = w;
      if (bits_of<T, U>(back) != bits) r.fail(std::string("wrapper:reads-back-differently:without-compiler-byte-order-predefine"), [&] { return vf::fmt("%s: stored 0x%llX, read back 0x%llX", name, (unsigned long long)bits, (unsigned long long)bits_of<T, U>(back)); });
      else r.ok("stored in the named order and read back");
    }
  }
}
}  // namespace

VF_SECTION(no_predefines, 1, 1, 60) {
#if defined(__BYTE_ORDER__)
  if (r.take()) r.fails("engine:variant-built-with-byte-order-predefine", "this variant must be compiled with -U__BYTE_ORDER__");
  return;
#endif
#if defined(PHOSG_LITTLE_ENDIAN) == defined(PHOSG_BIG_ENDIAN)
  if (r.take()) r.fails("platform:byte-order-macros", "exactly one of PHOSG_LITTLE_ENDIAN / PHOSG_BIG_ENDIAN must be defined");
#endif
  // the host really is little-endian (probed at run time, independent of every macro)
  {
    uint32_t probe = 0x01020304;
    unsigned char first;
    memcpy(&first, &probe, 1);
    bool host_little = first == 0x04;
#ifdef PHOSG_LITTLE_ENDIAN
    bool macro_little = true;
#else
    bool macro_little = false;
#endif
    if (r.take()) {
      r.nontriv();
      if (host_little != macro_little) r.fails("platform:detected-byte-order-differs-from-host:without-compiler-byte-order-predefine", vf::fmt("the host stores 0x01020304 with first byte %02X but Platform.hh selected %s", first, macro_little ? "PHOSG_LITTLE_ENDIAN" : "PHOSG_BIG_ENDIAN"));
      else r.ok("detected order equals the host's");
    }
  }
  check_wrapper<be_uint16_t, uint16_t, uint16_t>(r, "be_uint16_t", true);
  check_wrapper<le_uint16_t, uint16_t, uint16_t>(r, "le_uint16_t", false);
  check_wrapper<be_int16_t, int16_t, uint16_t>(r, "be_int16_t", true);
  check_wrapper<le_int16_t, int16_t, uint16_t>(r, "le_int16_t", false);
  check_wrapper<be_uint32_t, uint32_t, uint32_t>(r, "be_uint32_t", true);
  check_wrapper<le_uint32_t, uint32_t, uint32_t>(r, "le_uint32_t", false);
  check_wrapper<be_int32_t, int32_t, uint32_t>(r, "be_int32_t", true);
  check_wrapper<le_int32_t, int32_t, uint32_t>(r, "le_int32_t", false);
  check_wrapper<be_uint64_t, uint64_t, uint64_t>(r, "be_uint64_t", true);
  check_wrapper<le_uint64_t, uint64_t, uint64_t>(r, "le_uint64_t", false);
  check_wrapper<be_int64_t, int64_t, uint64_t>(r, "be_int64_t", true);
  check_wrapper<le_int64_t, int64_t, uint64_t>(r, "le_int64_t", false);
  check_wrapper<be_float, float, uint32_t>(r, "be_float", true);
  check_wrapper<le_float, float, uint32_t>(r, "le_float", false);
  check_wrapper<be_double, double, uint64_t>(r, "be_double", true);
  check_wrapper<le_double, double, uint64_t>(r, "le_double", false);
  // re_* is "the order the host does not use": big-endian on this (little-endian) host
  check_wrapper<re_uint16_t, uint16_t, uint16_t>(r, "re_uint16_t", true);
  check_wrapper<re_uint32_t, uint32_t, uint32_t>(r, "re_uint32_t", true);
  check_wrapper<re_uint64_t, uint64_t, uint64_t>(r, "re_uint64_t", true);
  r.bound = "build environment without the compiler's __BYTE_ORDER__ predefine (Platform.hh's fallback detection decides): every be_/le_ wrapper type (16/32/64-bit signed and unsigned, float, double) and re_uint16/32/64 on 0, 1, all-ones, top bit, the lane-distinct value and its complement, every walking one and zero, 7F/80/A5 in every lane: stored bytes == the named order, value reads back; detected order == the host's order probed at run time";
}
VF_MAIN()
