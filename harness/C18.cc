// C18 — time, duration and size formatting is total and value-faithful.
// E-ENUM: every microsecond of windows around the unit boundaries x every precision for
// format_duration; every day 1970..9999 for format_time against in-harness calendar arithmetic
// (bound to Python datetime by oracles/C18.py); format_size/parse_size agreement; timeval inverses.
#include <stdint.h>
#include <sys/time.h>
#include <time.h>

#include <string>
#include <vector>

#include "Strings.hh"
#include "Time.hh"
#include "vf.hh"

typedef unsigned __int128 u128;
typedef __int128 i128;

namespace {

std::string u128s(u128 u) {
  if (u == 0) return "0";
  std::string s;
  while (u) { s.insert(s.begin(), (char)('0' + (int)(u % 10))); u /= 10; }
  return s;
}

// ---- the set of microsecond counts shared by the duration and timeval sections -------------------
struct Range { uint64_t lo, hi, step; };  // inclusive

std::vector<Range> usec_ranges(bool thorough) {
  static const uint64_t S = 1000000;
  static const uint64_t B[4] = {1 * S, 60 * S, 3600 * S, 86400 * S};
  std::vector<Range> v;
  if (thorough) {
    v.push_back({0, 2 * S, 1});
    for (uint64_t b : B) v.push_back({b > 2 * S ? b - 2 * S : 0, b + 2 * S, 1});
  } else {
    v.push_back({0, 3000, 1});
    for (uint64_t b : B) v.push_back({b - 3000, b + 3000, 1});
    v.push_back({0, 2 * S, 997});
    for (uint64_t b : B) v.push_back({b > 2 * S ? b - 2 * S : 0, b + 2 * S, 997});
  }
  // carries inside the upper fields: x:59:59.9995 and friends, minute/hour/day multiples +- 1
  for (uint64_t base : {2 * 60 * S, 59 * 60 * S + 59 * S, 2 * 3600 * S, 23 * 3600 * S + 59 * 60 * S + 59 * S, 2 * 86400 * S, 100 * 86400 * S + 23 * 3600 * S + 59 * 60 * S + 59 * S})
    v.push_back({base + S - 1200, base + S + 1200, 1});
  for (uint64_t secs : {9ull, 10ull, 69ull, 70ull, 3609ull, 3610ull, 3669ull, 3670ull, 86409ull, 86410ull, 90069ull, 90070ull})
    v.push_back({secs * S + 499000, secs * S + 501000, 1});
  // extremes
  for (uint64_t c : {1ull << 32, 1ull << 53, 1ull << 63}) v.push_back({c - 1, c + 1, 1});
  v.push_back({UINT64_MAX - 2, UINT64_MAX, 1});
  uint64_t p10 = 1;
  for (int k = 0; k <= 19; k++) {
    v.push_back({p10 - 1, p10 + 1, 1});
    if (k < 19) p10 *= 10;
  }
  return v;
}

template <class F>
void for_each_usec(bool thorough, F&& f) {
  for (const Range& rg : usec_ranges(thorough)) {
    for (uint64_t u = rg.lo;; u += rg.step) {
      f(u);
      if (rg.hi - u < rg.step) break;
    }
  }
}

// ---- format_duration oracle ------------------------------------------------------------------------
struct DurParse {
  bool wellformed = false;
  size_t nfields = 0;
  bool padded = true;      // every field after the first has exactly two integer digits
  size_t frac_digits = 0;
  bool has_point = false;
  u128 total_scaled = 0;   // value in units of 10^-frac_digits seconds
  uint64_t last_int = 0;   // integer part of the seconds field
};

DurParse parse_duration(const std::string& t) {
  DurParse p;
  std::vector<std::string> f(1);
  for (char c : t) {
    if (c == ':') f.emplace_back();
    else f.back().push_back(c);
  }
  if (f.size() > 4) return p;
  p.nfields = f.size();
  static const uint64_t unit[4] = {1, 60, 3600, 86400};
  u128 secs = 0, frac = 0, scale = 1;
  for (size_t i = 0; i < f.size(); i++) {
    std::string ip = f[i], fp;
    bool last = i + 1 == f.size();
    size_t dot = ip.find('.');
    if (dot != std::string::npos) {
      if (!last) return p;
      fp = ip.substr(dot + 1);
      ip = ip.substr(0, dot);
      p.has_point = true;
      if (fp.empty()) return p;
    }
    if (ip.empty() || ip.size() > 20 || fp.size() > 12) return p;
    for (char c : ip) if (c < '0' || c > '9') return p;
    for (char c : fp) if (c < '0' || c > '9') return p;
    if (i > 0 && ip.size() != 2) p.padded = false;
    u128 v = 0;
    for (char c : ip) v = v * 10 + (unsigned)(c - '0');
    secs += v * unit[f.size() - 1 - i];
    if (last) {
      p.frac_digits = fp.size();
      p.last_int = (uint64_t)v;
      for (char c : fp) { frac = frac * 10 + (unsigned)(c - '0'); scale *= 10; }
    }
  }
  u128 scaled = secs * scale;
  p.total_scaled = scaled + frac;
  p.wellformed = true;
  return p;
}

u128 pow10u(unsigned k) {
  u128 v = 1;
  while (k--) v *= 10;
  return v;
}

void duration_case(vf::Run& r, uint64_t u, int p) {
  if (r.wants_desc()) r.desc(vf::fmt("format_duration(%llu, %d)", (unsigned long long)u, p));
  std::string text, what;
  std::string oc = vf::outcome([&] { text = phosg::format_duration(u, (int8_t)p); }, &what);
  r.nontriv();
  if (oc != "ok") {
    r.fail("format_duration:throws", [&] { return vf::fmt("format_duration(%llu, %d) threw %s (%s); the statement says it never throws", (unsigned long long)u, p, oc.c_str(), what.c_str()); });
    return;
  }
  DurParse d = parse_duration(text);
  auto ctx = [&] { return vf::fmt("format_duration(%llu, %d) = ", (unsigned long long)u, p) + vf::show(text); };
  if (!d.wellformed) { r.fail("format_duration:not-[d:][h:][m:]s[.f]", ctx); return; }
  bool bad = false;
  if (!d.padded) { bad = true; r.fail("format_duration:inner-field-not-zero-padded", [&] { return ctx() + ": every field after the first must have exactly two integer digits"; }); }
  if (p >= 0 && (d.frac_digits != (size_t)p || d.has_point != (p > 0))) { bad = true; r.fail("format_duration:wrong-number-of-fraction-digits", [&] { return ctx() + vf::fmt(": %zu fraction digits printed", d.frac_digits); }); }
  // evaluates back to the input rounded at the printed precision: |text - u| <= half a unit of the last
  // printed place (exact integer arithmetic; ties may go either way)
  unsigned f = (unsigned)d.frac_digits;
  u128 lhs, rhs, half2;  // compare 2*|lhs-rhs| <= half2 in units of 10^-max(f,6)
  if (f <= 6) { lhs = d.total_scaled * pow10u(6 - f); rhs = u; half2 = pow10u(6 - f); }
  else { lhs = d.total_scaled; rhs = (u128)u * pow10u(f - 6); half2 = 1; }
  u128 diff = lhs > rhs ? lhs - rhs : rhs - lhs;
  if (diff * 2 > half2) {
    bad = true;
    r.fail("format_duration:value-differs", [&] { return ctx() + vf::fmt(" evaluates to %s x 10^-%u s, input is %llu us", u128s(d.total_scaled).c_str(), f, (unsigned long long)u); });
  }
  if (!bad) {
    bool carried = d.nfields > 1 && d.last_int >= 60;
    r.ok(vf::fmt("%zu field%s%s%s", d.nfields, d.nfields > 1 ? "s" : "", p < 0 ? ", default precision" : p == 0 ? ", no fraction" : ", fraction", carried ? ", seconds field rounded up to 60" : ""));
  }
}

// ---- calendar reference ----------------------------------------------------------------------------
inline bool is_leap(int y) { return (y % 4 == 0) && (y % 100 != 0 || y % 400 == 0); }
inline int days_in_month(int y, int m) {
  static const int dm[12] = {31, 28, 31, 30, 31, 30, 31, 31, 30, 31, 30, 31};
  return (m == 2 && is_leap(y)) ? 29 : dm[m - 1];
}
// closed-form civil-from-days (era arithmetic); cross-checked below against the day-by-day odometer
void civil_from_days(int64_t z, int& y, int& m, int& d) {
  z += 719468;
  int64_t era = (z >= 0 ? z : z - 146096) / 146097;
  unsigned doe = (unsigned)(z - era * 146097);
  unsigned yoe = (doe - doe / 1460 + doe / 36524 - doe / 146096) / 365;
  int64_t yy = (int64_t)yoe + era * 400;
  unsigned doy = doe - (365 * yoe + yoe / 4 - yoe / 100);
  unsigned mp = (5 * doy + 2) / 153;
  d = (int)(doy - (153 * mp + 2) / 5 + 1);
  m = (int)(mp < 10 ? mp + 3 : mp - 9);
  y = (int)(yy + (m <= 2));
}
std::string ref_time(int y, int mo, int d, uint64_t sec_of_day, uint32_t usec) {
  return vf::fmt("%04d-%02d-%02d %02u:%02u:%02u.%06u", y, mo, d, (unsigned)(sec_of_day / 3600), (unsigned)(sec_of_day / 60 % 60), (unsigned)(sec_of_day % 60), usec);
}

const int64_t LAST_DAY = 2932896;  // 9999-12-31 as days since 1970-01-01

struct PyFile {
  FILE* f = nullptr;
  void open(vf::Run& r, const char* section) {
    const char* dir = getenv("VF_OUTDIR");
    if (!dir || r.only >= 0) return;
    std::string path = vf::fmt("%s/%s.%llu.dat", dir, section, (unsigned long long)r.shard);
    f = fopen(path.c_str(), r.start > 0 ? "a" : "w");
  }
  void line(uint64_t t, const std::string& ref) { if (f) fprintf(f, "%llu\t%s\n", (unsigned long long)t, ref.c_str()); }
  ~PyFile() { if (f) fclose(f); }
};

void time_case(vf::Run& r, uint64_t t, const std::string& want, const char* cls, PyFile* py) {
  if (r.wants_desc()) r.desc(vf::fmt("format_time(%llu)", (unsigned long long)t));
  std::string got, what;
  std::string oc = vf::outcome([&] { got = phosg::format_time(t); }, &what);
  r.nontriv();
  if (py) { py->line(t, want); r.counters["lines_for_python_datetime"]++; }
  if (oc != "ok") r.fail("format_time:throws", [&] { return vf::fmt("format_time(%llu) threw %s (%s)", (unsigned long long)t, oc.c_str(), what.c_str()); });
  else if (got != want) r.fail("format_time:wrong-text", [&] { return vf::fmt("format_time(%llu) = ", (unsigned long long)t) + vf::show(got) + ", UTC calendar arithmetic gives " + vf::show(want); });
  else r.ok(cls);
}

// ---- sizes -------------------------------------------------------------------------------------------
const char UNIT_LETTERS[] = "KMGTPE";
inline u128 unit_of(int k) { return (u128)1 << (10 * k); }  // k=0: bytes

struct SizeText {  // "<int>.<ff> <U>B"
  bool ok = false;
  u128 hundredths = 0;
  int k = 0;
};
SizeText parse_unit_text(const std::string& s) {
  SizeText t;
  size_t i = 0;
  u128 ip = 0;
  size_t nd = 0;
  while (i < s.size() && s[i] >= '0' && s[i] <= '9') { ip = ip * 10 + (unsigned)(s[i] - '0'); i++; nd++; }
  if (nd == 0 || i >= s.size() || s[i] != '.') return t;
  i++;
  if (i + 2 > s.size() || s[i] < '0' || s[i] > '9' || s[i + 1] < '0' || s[i + 1] > '9') return t;
  unsigned ff = (unsigned)(s[i] - '0') * 10 + (unsigned)(s[i + 1] - '0');
  i += 2;
  if (i + 3 != s.size() || s[i] != ' ' || s[i + 2] != 'B') return t;
  const char* u = strchr(UNIT_LETTERS, s[i + 1]);
  if (!u || !s[i + 1]) return t;
  t.k = (int)(u - UNIT_LETTERS) + 1;
  t.hundredths = ip * 100 + ff;
  t.ok = true;
  return t;
}

// |hundredths*unit/100 - s| <= 0.005*unit + 2^-23*s + 1   (all scaled by 100, exact)
inline bool size_close(u128 hundredths, int k, uint64_t s) {
  u128 a = hundredths * unit_of(k), b = (u128)s * 100;
  u128 diff = a > b ? a - b : b - a;
  return diff <= unit_of(k) / 2 + 100 * ((u128)s >> 23) + 100;
}

void size_case(vf::Run& r, uint64_t s, bool include_bytes) {
  if (r.wants_desc()) r.desc(vf::fmt("format_size(%llu, %s) and parse_size of the result", (unsigned long long)s, include_bytes ? "true" : "false"));
  std::string text;
  std::string oc = vf::outcome([&] { text = phosg::format_size(s, include_bytes); });
  r.nontriv();
  auto ctx = [&] { return vf::fmt("format_size(%llu, %s) = ", (unsigned long long)s, include_bytes ? "true" : "false") + vf::show(text); };
  if (oc != "ok") { r.fail("format_size:throws", [&] { return ctx() + " threw " + oc; }); return; }
  bool bad = false;
  std::string unit_part = text;
  bool has_bytes_prefix = false;
  if (s < 1024 || include_bytes) {
    std::string want = std::to_string(s) + " bytes";
    if (text.compare(0, want.size(), want) != 0) { r.fail("format_size:byte-count-not-exact", ctx); return; }
    has_bytes_prefix = true;
    unit_part = text.substr(want.size());
    if (s < 1024) {
      if (!unit_part.empty()) { r.fail("format_size:bad-format", ctx); return; }
    } else {
      if (unit_part.size() < 4 || unit_part.compare(0, 2, " (") != 0 || unit_part.back() != ')') { r.fail("format_size:bad-format", ctx); return; }
      unit_part = unit_part.substr(2, unit_part.size() - 3);
    }
  }
  uint64_t back = 0;
  oc = vf::outcome([&] { back = phosg::parse_size(text.c_str()); });
  if (oc != "ok") { r.fail("parse_size:throws", [&] { return ctx() + "; parse_size threw " + oc; }); return; }
  const char* cls = "bytes form: exact";
  if (has_bytes_prefix) {
    // the leading byte count is what parse_size must read back, exactly
    if (back != s) { bad = true; r.fail("parse_size(format_size):byte-count-differs", [&] { return ctx() + vf::fmt("; parse_size gives %llu", (unsigned long long)back); }); }
  }
  if (s >= 1024) {
    SizeText st = parse_unit_text(unit_part);
    if (!st.ok) { r.fail("format_size:bad-format", ctx); return; }
    if (!size_close(st.hundredths, st.k, s)) { bad = true; r.fail("format_size:value-differs-beyond-printed-precision", [&] { return ctx() + vf::fmt(" stands for %s/100 x 2^%d bytes", u128s(st.hundredths).c_str(), 10 * st.k); }); }
    cls = has_bytes_prefix ? "bytes (unit) form: byte count exact, unit part within precision" : "unit form within printed precision";
    if (!has_bytes_prefix) {
      u128 exact100 = st.hundredths * unit_of(st.k);  // 100 x the value the text stands for
      if (exact100 / 100 > (u128)UINT64_MAX) {
        cls = "unit form: printed value not representable in size_t (round trip not compared)";
      } else {
        // parse_size reads the text it is given: within 1 byte (+ double accumulation noise) of what the text says
        u128 b100 = (u128)back * 100;
        u128 diff = b100 > exact100 ? b100 - exact100 : exact100 - b100;
        if (diff > 200 + (exact100 >> 40)) { bad = true; r.fail("parse_size:misreads-text", [&] { return ctx() + vf::fmt("; parse_size gives %llu, the text stands for %s/100 bytes", (unsigned long long)back, u128s(exact100).c_str()); }); }
        // and the round trip agrees with the original size to the printed precision
        u128 d2 = back > s ? (u128)(back - s) : (u128)(s - back);
        if (d2 * 100 > unit_of(st.k) / 2 + 100 * ((u128)s >> 23) + 200) { bad = true; r.fail("parse_size(format_size):differs-beyond-printed-precision", [&] { return ctx() + vf::fmt("; parse_size gives %llu", (unsigned long long)back); }); }
      }
    }
  }
  if (!bad) r.ok(cls);
}

}  // namespace

// ======================================================================================================

VF_SECTION(duration, 16, 16, 120) {
  r.note("format_duration");
  for_each_usec(r.thorough(), [&](uint64_t u) {
    for (int p = -1; p <= 6; p++) {
      if (!r.take()) continue;
      duration_case(r, u, p);
    }
  });
  r.bound = r.thorough() ? "format_duration: every microsecond of [0,2s] and of [B-2s,B+2s] for B in {1s,60s,3600s,86400s}, carry windows, {2^32,2^53,2^63}+-1, 2^64-3..2^64-1, 10^k+-1 (k<=19) x precision -1..6"
                         : "format_duration: every microsecond of [0,3000us] and [B-3000us,B+3000us], every 997th microsecond of [0,2s] and [B-2s,B+2s] for B in {1s,60s,3600s,86400s}, carry windows, {2^32,2^53,2^63}+-1, 2^64-3..2^64-1, 10^k+-1 (k<=19) x precision -1..6";
}

// format_time must render UTC whatever the process time zone is: run with a zone 5:30 east of UTC (POSIX
// TZ string, needs no tzdata) so that a local-time conversion cannot hide behind a UTC environment
static void own_timezone() {
  setenv("TZ", "VFT-05:30", 1);
  tzset();
}

VF_SECTION(time_days, 16, 16, 120) {
  r.note("format_time");
  own_timezone();
  PyFile py;
  py.open(r, "time_days");
  int y = 1970, m = 1, d = 1;
  for (int64_t day = 0; day <= LAST_DAY; day++) {
    // three instants per day; building the reference is cheap, so it is done for skipped cases too
    static const uint64_t sod[3] = {0, 86399, 45296};
    static const uint32_t us[3] = {0, 999999, 789012};
    bool special = (m == 1 && d == 1) || (m == 2 && d >= 28) || (m == 3 && d == 1) || (m == 12 && d == 31);
    for (int k = 0; k < 3; k++) {
      if (r.take()) {
        int cy, cm, cd;
        civil_from_days(day, cy, cm, cd);
        uint64_t t = ((uint64_t)day * 86400 + sod[k]) * 1000000 + us[k];
        if (cy != y || cm != m || cd != d) r.fail("harness:calendar-references-disagree", [&] { return vf::fmt("day %lld: odometer %d-%d-%d, closed form %d-%d-%d", (long long)day, y, m, d, cy, cm, cd); });
        bool topy = special || day % 31 == 0;
        time_case(r, t, ref_time(y, m, d, sod[k], us[k]), special ? (is_leap(y) ? "month/year boundary day, leap year" : "month/year boundary day, common year") : (k == 0 ? "midnight" : k == 1 ? "23:59:59.999999" : "12:34:56.789012"), topy ? &py : nullptr);
      }
    }
    if (++d > days_in_month(y, m)) { d = 1; if (++m > 12) { m = 1; y++; } }
  }
  if (!(y == 10000 && m == 1 && d == 1)) r.fail("harness:calendar-odometer-end", [&] { return vf::fmt("odometer ended at %d-%d-%d", y, m, d); });
  r.bound = "format_time at 00:00:00.000000, 12:34:56.789012 and 23:59:59.999999 of every day 1970-01-01 .. 9999-12-31 (2932897 days)";
}

VF_SECTION(time_seconds, 4, 4, 120) {
  r.note("format_time");
  own_timezone();
  PyFile py;
  py.open(r, "time_seconds");
  // every second of four days: the epoch day, a leap day in a year divisible by 400, the last of
  // February in a century year that is not leap, the last representable 4-digit-year day
  struct D { int y, m, d; };
  static const D days[4] = {{1970, 1, 1}, {2000, 2, 29}, {2100, 2, 28}, {9999, 12, 31}};
  for (const D& dd : days) {
    // days since epoch by counting (independent of civil_from_days)
    int64_t n = 0;
    for (int yy = 1970; yy < dd.y; yy++) n += is_leap(yy) ? 366 : 365;
    for (int mm = 1; mm < dd.m; mm++) n += days_in_month(dd.y, mm);
    n += dd.d - 1;
    for (uint64_t s = 0; s < 86400; s++) {
      if (!r.take()) continue;
      uint32_t us = (uint32_t)((s * 7919 + 1) % 1000000);
      if (s % 60 == 59) us = 999999;
      if (s % 60 == 0) us = 0;
      uint64_t t = ((uint64_t)n * 86400 + s) * 1000000 + us;
      time_case(r, t, ref_time(dd.y, dd.m, dd.d, s, us), s % 60 == 59 ? "second 59 with .999999" : s % 60 == 0 ? "second 00 with .000000" : "other second", (s % 61 == 0 || s % 60 == 59) ? &py : nullptr);
    }
  }
  r.bound = "format_time at every second of 1970-01-01, 2000-02-29, 2100-02-28 and 9999-12-31 (345600 instants, second 59 with .999999, second 00 with .000000)";
}

VF_SECTION(size, 4, 4, 120) {
  r.note("format_size");
  std::vector<uint64_t> sizes;
  for (uint64_t s = 0; s <= 5000; s++) sizes.push_back(s);
  for (int k = 1; k <= 6; k++) {
    uint64_t u = (uint64_t)1 << (10 * k);
    sizes.push_back(u - 1); sizes.push_back(u); sizes.push_back(u + 1);
  }
  for (int k = 0; k <= 6; k++) {
    for (uint64_t j = 1; j <= 102400; j += 7) {
      u128 v = (u128)j * unit_of(k) / 100;
      if (v > UINT64_MAX) break;
      sizes.push_back((uint64_t)v);
    }
  }
  // rounding boundaries of the two printed decimals and the top of the range
  for (int k = 1; k <= 6; k++) {
    uint64_t u = (uint64_t)1 << (10 * k);
    for (uint64_t c : {u + u / 200, u + u / 200 - 1, u + u / 200 + 1, 1023 * u + u / 2, 1023 * u + u - u / 200, 1023 * u + u - u / 200 - 1}) sizes.push_back(c);
  }
  for (uint64_t c : std::initializer_list<uint64_t>{1ull << 63, (1ull << 63) - 1, (1ull << 63) + 1, UINT64_MAX - 1, UINT64_MAX, 15ull << 60, UINT64_MAX - (1ull << 52) + 1}) sizes.push_back(c);
  for (uint64_t s : sizes) {
    for (int ib = 0; ib < 2; ib++) {
      if (!r.take()) continue;
      size_case(r, s, ib != 0);
    }
  }
  // parse_size on its own: mantissa x unit letter x case x optional space x optional B
  r.note("parse_size");
  struct Mant { const char* text; unsigned hundredths; };
  static const Mant mants[] = {{"0", 0}, {"1", 100}, {"3", 300}, {"7", 700}, {"10", 1000}, {"15", 1500}, {"999", 99900}, {"1023", 102300}, {"1024", 102400},
      {"0.5", 50}, {"1.5", 150}, {"2.25", 225}, {"12.75", 1275}, {"1.05", 105}, {"100.01", 10001}, {"0.01", 1}, {"7.99", 799}};
  static const char* suffixes[] = {"", "B", "b", "bytes"};
  for (const Mant& mt : mants) {
    for (int k = 0; k <= 6; k++) {
      for (int lower = 0; lower < 2; lower++) {
        if (k == 0 && lower) continue;
        for (int space = 0; space < 3; space++) {
          for (const char* suf : suffixes) {
            if (k > 0 && !strcmp(suf, "bytes")) continue;
            if (!r.take()) continue;
            std::string text = mt.text;
            text.append((size_t)space, ' ');
            if (k > 0) text.push_back(lower ? (char)(UNIT_LETTERS[k - 1] + 32) : UNIT_LETTERS[k - 1]);
            text += suf;
            if (r.wants_desc()) r.desc("parse_size(" + vf::show(text) + ")");
            u128 exact100 = (u128)mt.hundredths * unit_of(k);
            uint64_t got = 0;
            std::string oc = vf::outcome([&] { got = phosg::parse_size(text.c_str()); });
            r.nontriv();
            if (oc != "ok") { r.fail("parse_size:throws", [&] { return "parse_size(" + vf::show(text) + ") threw " + oc; }); continue; }
            if (exact100 / 100 > (u128)UINT64_MAX) { r.ok("parse_size: value not representable in size_t (not compared)"); continue; }
            u128 g100 = (u128)got * 100;
            u128 diff = g100 > exact100 ? g100 - exact100 : exact100 - g100;
            bool integral = mt.hundredths % 100 == 0;
            if (integral ? diff != 0 : diff > 200 + (exact100 >> 40))
              r.fail("parse_size:wrong-value", [&] { return "parse_size(" + vf::show(text) + vf::fmt(") = %llu, the text stands for %s/100 bytes", (unsigned long long)got, u128s(exact100).c_str()); });
            else r.ok(integral ? "parse_size: integer mantissa exact" : "parse_size: fractional mantissa within 1 byte");
          }
        }
      }
    }
  }
  r.bound = "format_size(s, false/true) and parse_size of the result for s in 0..5000, 1024^k+{-1,0,1} (k=1..6), j*1024^k/100 (j=1..102400 step 7, k=0..6, below 2^64), rounding boundaries, 2^63+-1, 2^64-2, 2^64-1; parse_size on 17 mantissas x {none,K,M,G,T,P,E} x case x 0..2 spaces x {'',B,b,bytes}";
}

VF_SECTION(timeval, 4, 16, 120) {
  r.note("usecs_to_timeval");
  for_each_usec(r.thorough(), [&](uint64_t u) {
    if (!r.take()) return;
    if (r.wants_desc()) r.desc(vf::fmt("usecs_to_timeval(%llu) and timeval_to_usecs of the result", (unsigned long long)u));
    struct timeval tv = phosg::usecs_to_timeval(u);
    r.nontriv();
    bool bad = false;
    if (tv.tv_usec < 0 || tv.tv_usec >= 1000000 || (uint64_t)tv.tv_sec != u / 1000000 || (uint64_t)tv.tv_usec != u % 1000000) {
      bad = true;
      r.fail("usecs_to_timeval:wrong-value", [&] { return vf::fmt("usecs_to_timeval(%llu) = {%lld, %lld}", (unsigned long long)u, (long long)tv.tv_sec, (long long)tv.tv_usec); });
    }
    if (u >= (1ull << 63)) {
      // tv_sec * 1000000 exceeds the signed 64-bit range: executed, value not compared
      (void)phosg::timeval_to_usecs(tv);
      if (!bad) r.ok("usecs >= 2^63: forward exact, inverse not compared");
      return;
    }
    uint64_t back = phosg::timeval_to_usecs(tv);
    if (back != u) { bad = true; r.fail("timeval_to_usecs:not-inverse", [&] { return vf::fmt("timeval_to_usecs(usecs_to_timeval(%llu)) = %llu", (unsigned long long)u, (unsigned long long)back); }); }
    if (!bad) r.ok(u % 1000000 == 0 ? "whole second" : "with microseconds");
  });
  r.note("timeval_to_usecs");
  static const int64_t secs[] = {0, 1, 59, 60, 3599, 3600, 86399, 86400, 2147483647ll, 2147483648ll, 4294967295ll, 4294967296ll, 253402300799ll, 9223372036853ll, 9223372036854ll};
  static const int64_t usecs[] = {0, 1, 9, 10, 499999, 500000, 999998, 999999};
  for (int64_t s : secs) {
    for (int64_t us : usecs) {
      if (!r.take()) continue;
      if (r.wants_desc()) r.desc(vf::fmt("timeval_to_usecs({%lld, %lld}) and usecs_to_timeval of the result", (long long)s, (long long)us));
      struct timeval tv;
      tv.tv_sec = s;
      tv.tv_usec = us;
      uint64_t u = phosg::timeval_to_usecs(tv);
      struct timeval tb = phosg::usecs_to_timeval(u);
      r.nontriv();
      if (u != (uint64_t)s * 1000000 + (uint64_t)us) r.fail("timeval_to_usecs:wrong-value", [&] { return vf::fmt("timeval_to_usecs({%lld, %lld}) = %llu", (long long)s, (long long)us, (unsigned long long)u); });
      else if (tb.tv_sec != s || tb.tv_usec != us) r.fail("usecs_to_timeval:not-inverse", [&] { return vf::fmt("usecs_to_timeval(timeval_to_usecs({%lld, %lld})) = {%lld, %lld}", (long long)s, (long long)us, (long long)tb.tv_sec, (long long)tb.tv_usec); });
      else r.ok("timeval -> usecs -> timeval");
    }
  }
  r.bound = "usecs_to_timeval/timeval_to_usecs on the same microsecond set as format_duration (inverse compared below 2^63) and on 15 x 8 normalised (sec, usec) boundary pairs";
}

VF_MAIN()
