// C18 — time, duration and size formatting is total and value-faithful.
// E-ENUM: every microsecond of windows around the unit boundaries x every precision for
// format_duration; every day 1970..9999 for format_time against in-harness calendar arithmetic
// (bound to Python datetime by oracles/C18.py); format_size/parse_size agreement; timeval inverses.
// Round 2: every function also in ordered HISTORIES of two and three calls (fresh thread and accumulated
// main-thread state), all 256 precisions, 2^k / 10^k boundary arguments for every function, three time
// zones (two with DST), exception-handling contexts and explicit errno values, defaulted arguments,
// format -> parse -> format scenarios.  Oracles live in C18_oracle.hh.
#include <stdint.h>
#include <sys/time.h>
#include <time.h>

#include <set>
#include <string>
#include <vector>

#include "C18_oracle.hh"
#include "Strings.hh"
#include "Time.hh"
#include "vf.hh"

using namespace c18;

namespace {

typedef std::initializer_list<uint64_t> UL;
const uint64_t S = 1000000;
const uint64_t DAY = 86400 * S;

// ---- the set of microsecond counts shared by the duration and timeval sections -------------------
struct Range { uint64_t lo, hi, step; };  // inclusive

std::vector<Range> usec_ranges(bool thorough) {
  static const uint64_t B[4] = {1 * S, 60 * S, 3600 * S, 86400 * S};
  std::vector<Range> v;
  if (thorough) {
    v.push_back({0, 2 * S, 1});
    for (uint64_t b : B) v.push_back({b > 2 * S ? b - 2 * S : 0, b + 2 * S, 1});
  } else {
    v.push_back({0, 6000, 1});
    for (uint64_t b : B) v.push_back({b - 6000, b + 6000, 1});
    v.push_back({0, 2 * S, 997});
    for (uint64_t b : B) v.push_back({b > 2 * S ? b - 2 * S : 0, b + 2 * S, 997});
  }
  // carries inside the upper fields: x:59:59.9995 and friends, minute/hour/day multiples +- 1
  for (uint64_t base : UL{2 * 60 * S, 59 * 60 * S + 59 * S, 2 * 3600 * S, 23 * 3600 * S + 59 * 60 * S + 59 * S, 2 * 86400 * S, 100 * 86400 * S + 23 * 3600 * S + 59 * 60 * S + 59 * S})
    v.push_back({base + S - 1200, base + S + 1200, 1});
  for (uint64_t secs : UL{9ull, 10ull, 69ull, 70ull, 3609ull, 3610ull, 3669ull, 3670ull, 86409ull, 86410ull, 90069ull, 90070ull})
    v.push_back({secs * S + 499000, secs * S + 501000, 1});
  // extremes: 2^k-1, 2^k, 2^k+1 for every k, the top of the range, powers of ten
  v.push_back({0, 5, 1});
  for (int k = 2; k <= 63; k++) v.push_back({(1ull << k) - 1, (1ull << k) + 1, 1});
  v.push_back({UINT64_MAX - 2, UINT64_MAX, 1});
  uint64_t p10 = 1;
  for (int k = 0; k <= 19; k++) {
    v.push_back({p10 - 1, p10 + 1, 1});
    if (k < 19) p10 *= 10;
  }
  return v;
}

template <class F>
void for_each_usec(bool thorough, F&& f) {
  for (const Range& rg : usec_ranges(thorough)) {
    for (uint64_t u = rg.lo;; u += rg.step) {
      f(u);
      if (rg.hi - u < rg.step) break;
    }
  }
}

// 2^k-1, 2^k, 2^k+1 (k = 0..64, modulo 2^64), 10^k-1, 10^k, 10^k+1 (k = 0..19): ascending, distinct
std::vector<uint64_t> boundary_values() {
  std::set<uint64_t> s;
  for (int k = 0; k <= 64; k++) {
    uint64_t p = k == 64 ? 0 : 1ull << k;
    s.insert(p - 1); s.insert(p); s.insert(p + 1);
  }
  uint64_t p10 = 1;
  for (int k = 0; k <= 19; k++) {
    s.insert(p10 - 1); s.insert(p10); s.insert(p10 + 1);
    if (k < 19) p10 *= 10;
  }
  s.insert(UINT64_MAX - 1);
  return std::vector<uint64_t>(s.begin(), s.end());
}

struct PyFile {
  FILE* f = nullptr;
  void open(vf::Run& r, const char* section) {
    const char* dir = getenv("VF_OUTDIR");
    if (!dir || r.only >= 0 || r.upto >= 0) return;
    std::string path = vf::fmt("%s/%s.%llu.dat", dir, section, (unsigned long long)r.shard);
    f = fopen(path.c_str(), r.start > 0 ? "a" : "w");
  }
  void line(uint64_t t, const std::string& ref) { if (f) fprintf(f, "%llu\t%s\n", (unsigned long long)t, ref.c_str()); }
  ~PyFile() { if (f) fclose(f); }
};

void time_case(vf::Run& r, uint64_t t, const std::string& want, const char* cls, PyFile* py) {
  if (r.wants_desc()) r.desc(vf::fmt("format_time(%llu)", (unsigned long long)t));
  r.nontriv();
  if (py) { py->line(t, want); r.counters["lines_for_python_datetime"]++; }
  report(r, time_eval(t, want, cls));
}

// ---- call sets for the history sections ------------------------------------------------------------
struct Ymd { int y, m, d; };

// days (since the epoch) around which histories of format_time calls are built
std::vector<int64_t> anchor_days() {
  static const Ymd A[] = {{1970, 1, 1}, {1999, 12, 31}, {2000, 2, 28}, {2000, 2, 29}, {2000, 3, 1}, {2000, 7, 1}, {2038, 1, 19}, {2100, 2, 28}, {2106, 2, 7}, {9999, 12, 30}};
  std::vector<int64_t> v;
  for (const Ymd& a : A) v.push_back(days_from_civil_by_counting(a.y, a.m, a.d));
  return v;
}
const uint64_t OFFS_ALL[] = {0, 1, 999999, 1 * S, 59 * S, 60 * S, 3599 * S, 3600 * S, 43200 * S, 86399 * S, 86399 * S + 999999};
const uint64_t OFFS_MAIN[] = {0, 1, 1 * S, 43200 * S, 86399 * S, 86399 * S + 999999};

std::vector<Call> time_calls_all() {
  std::vector<Call> v;
  std::set<int64_t> seen;
  for (int64_t a : anchor_days()) {
    for (int64_t dd : {(int64_t)-1, (int64_t)0, (int64_t)1, (int64_t)365}) {
      int64_t day = a + dd;
      if (day < 0 || !seen.insert(day).second) continue;
      for (uint64_t o : OFFS_ALL) v.push_back(mk(TIME, (uint64_t)day * DAY + o));
    }
  }
  // instants that are equal modulo 2^31, 2^32 and 2^33 seconds (a truncated cache key makes them alias)
  for (uint64_t hi : UL{1ull << 31, 1ull << 32, 1ull << 33})
    for (uint64_t lo : UL{0, 1, 43200, 86399}) v.push_back(mk(TIME, (hi + lo) * S + (lo ? 999999 : 0)));
  for (uint64_t lo : UL{1, 43200, 86399}) v.push_back(mk(TIME, lo * S + 999999));
  return v;
}

std::vector<Call> duration_calls(bool reduced) {
  std::vector<Call> v;
  if (reduced) {
    for (uint64_t u : UL{1ull, 999999ull, 1 * S, 60 * S - 1, 60 * S, 3600 * S, 86400 * S, UINT64_MAX})
      for (int p : {-1, 0, 6}) v.push_back(mk(DUR, u, p));
    return v;
  }
  static const uint64_t U[] = {0, 1, 999999, 1 * S, 1 * S + 1, 9 * S + 499999, 9 * S + 500000, 60 * S - 1, 60 * S, 60 * S + 1, 65 * S, 69 * S + 500000,
      3600 * S - 1, 3600 * S, 3600 * S + 1, 3609 * S + 500000, 86400 * S - 1, 86400 * S, 86400 * S + 1, 90061 * S + 1, 1ull << 32, (1ull << 32) + 1, (1ull << 32) + 60 * S, 1ull << 63, UINT64_MAX};
  for (uint64_t u : U) {
    for (int p : {-1, 0, 1, 3, 6, 9}) v.push_back(mk(DUR, u, p));
    v.push_back(mk(DUR_DEF, u));
  }
  return v;
}

std::vector<Call> size_calls(bool reduced) {
  std::vector<Call> v;
  if (reduced) {
    for (uint64_t s : UL{0ull, 1023ull, 1024ull, 3ull << 19, 1ull << 30, (1ull << 50) - 1, 3ull << 59, UINT64_MAX})
      for (int ib : {0, 1}) v.push_back(mk(SIZE, s, ib));
    for (const char* m : {"1", "1.5", "1023.99"})
      for (int k : {0, 1, 6}) v.push_back(mkparse(m, 1, k, false, k ? "B" : ""));
    return v;
  }
  static const uint64_t SZ[] = {0, 1, 1023, 1024, 1025, (1ull << 20) - 1, 1ull << 20, 3ull << 19, (1ull << 30) - 1, 1ull << 30, (1ull << 40) - 1, 1ull << 40,
      (1ull << 50) - 1, 1ull << 50, (1ull << 60) - 1, 1ull << 60, 3ull << 59, 1ull << 63, UINT64_MAX, (1ull << 32) + 1024, (1ull << 32) + (3ull << 19)};
  for (uint64_t s : SZ)
    for (int ib : {0, 1, 2}) v.push_back(mk(SIZE, s, ib));
  static const char* M[] = {"0", "1", "1023", "1.5", "2.25", "0.01", "15.99", "1023.99", "1.000001"};
  for (const char* m : M) {
    for (int k = 0; k <= 6; k++) v.push_back(mkparse(m, k % 3, k, k % 2 == 1, k == 0 ? "" : (k % 2 ? "b" : "B")));
  }
  v.push_back(mkparse("1536", 1, 0, false, "bytes (1.50 KB)"));
  v.push_back(mkparse("18446744073709551615", 0, 0, false, ""));
  v.push_back(mkparse("18446744073709551615", 1, 0, false, "bytes (16.00 EB)"));
  return v;
}

// a few calls of EVERY function of Time.hh plus format_size/parse_size: for cross-function histories
std::vector<Call> mixed_calls() {
  std::vector<Call> v;
  v.push_back(mk(DUR, 999999, -1)); v.push_back(mk(DUR, 1 * S, 6)); v.push_back(mk(DUR, 60 * S - 1, 0)); v.push_back(mk(DUR, 60 * S, -1));
  v.push_back(mk(DUR, 3600 * S - 1, 3)); v.push_back(mk(DUR, 3600 * S, -1)); v.push_back(mk(DUR, 86400 * S, 6)); v.push_back(mk(DUR, UINT64_MAX, -1));
  v.push_back(mk(DUR_DEF, 65 * S)); v.push_back(mk(DUR_DEF, 90061 * S + 1));
  for (uint64_t t : UL{0ull, 946684799999999ull, 946684800000000ull, 951782400000000ull + 43200 * S, 2147483648ull * S, 4102444800000000ull, 253402300799999999ull}) v.push_back(mk(TIME, t));
  v.push_back(mk(SIZE, 0, 0)); v.push_back(mk(SIZE, 1023, 1)); v.push_back(mk(SIZE, 1024, 0)); v.push_back(mk(SIZE, 1536, 1)); v.push_back(mk(SIZE, 1ull << 20, 0));
  v.push_back(mk(SIZE, 3ull << 29, 1)); v.push_back(mk(SIZE, (1ull << 40) - 1, 0)); v.push_back(mk(SIZE, 1ull << 50, 1)); v.push_back(mk(SIZE, 3ull << 59, 1));
  v.push_back(mk(SIZE, UINT64_MAX, 0)); v.push_back(mk(SIZE, 2048, 2));
  v.push_back(mkparse("0", 0, 0, false, "")); v.push_back(mkparse("1023", 0, 0, false, "")); v.push_back(mkparse("1", 1, 1, false, "")); v.push_back(mkparse("1.5", 0, 1, false, "B"));
  v.push_back(mkparse("2.25", 0, 2, true, "")); v.push_back(mkparse("3", 0, 3, true, "")); v.push_back(mkparse("0.5", 1, 4, false, "B")); v.push_back(mkparse("7", 0, 5, false, ""));
  v.push_back(mkparse("15.99", 1, 6, false, "B")); v.push_back(mkparse("1536", 1, 0, false, "bytes (1.50 KB)"));
  for (uint64_t u : UL{0ull, 999999ull, 1 * S, (1ull << 63) - 1, UINT64_MAX}) v.push_back(mk(U2TV, u));
  v.push_back(mk(TV2U, 0, 0)); v.push_back(mk(TV2U, 0, 999999)); v.push_back(mk(TV2U, 1, 0)); v.push_back(mk(TV2U, 2147483647, 999999)); v.push_back(mk(TV2U, 9223372036853ull, 999999));
  v.push_back(mk(NATURAL, 0)); v.push_back(mk(NATURAL, 946684800000000ull)); v.push_back(mk(NATURAL_TV, 951782400, 123456)); v.push_back(mk(NATURAL_NOW)); v.push_back(mk(NOW));
  return v;
}

const std::vector<Ctx> FRESH_THEN_MAIN = {CTX_FRESH_THREAD, CTX_MAIN};
const std::vector<Ctx> MAIN_ONLY = {CTX_MAIN};
#define TRIPLE_CTX(r) ((r).thorough() ? "fresh thread, then main thread" : "main thread only")

// all ordered pairs (A, B) of the set, each executed as the history A, B, A
void pairs_aba(vf::Run& r, const std::vector<Call>& calls, int tz_of_first_mod = 0) {
  for (size_t i = 0; i < calls.size(); i++) {
    for (size_t j = 0; j < calls.size(); j++) {
      if (!r.take()) continue;
      if (tz_of_first_mod) set_tz((int)(i % (size_t)tz_of_first_mod));
      history_case(r, History{&calls[i], &calls[j], &calls[i]}, FRESH_THEN_MAIN, "history A,B,A: all six results as the reference");
    }
  }
}
// all ordered triples of the set
void triples(vf::Run& r, const std::vector<Call>& calls, size_t lo, size_t hi) {
  for (size_t i = lo; i < hi; i++)
    for (size_t j = lo; j < hi; j++)
      for (size_t k = lo; k < hi; k++) {
        if (!r.take()) continue;
        // quick: main thread only (a thread per case is the dominant cost on a loaded machine); thorough: both
        if (r.thorough()) history_case(r, History{&calls[i], &calls[j], &calls[k]}, FRESH_THEN_MAIN, "history A,B,C: all six results as the reference");
        else history_case(r, History{&calls[i], &calls[j], &calls[k]}, MAIN_ONLY, "history A,B,C on the main thread: all three results as the reference");
      }
}

}  // namespace

// ======================================================================================================

VF_SECTION(duration, 16, 16, 120) {
  r.note("format_duration");
  for_each_usec(r.thorough(), [&](uint64_t u) {
    for (int p = -1; p <= 6; p++) {
      if (!r.take()) continue;
      if (r.wants_desc()) r.desc(vf::fmt("format_duration(%llu, %d)", (unsigned long long)u, p));
      r.nontriv();
      report(r, duration_eval(u, p));
    }
  });
  r.bound = r.thorough() ? "format_duration: every microsecond of [0,2s] and of [B-2s,B+2s] for B in {1s,60s,3600s,86400s}, carry windows, 2^k-1..2^k+1 (k<=63), 2^64-3..2^64-1, 10^k+-1 (k<=19) x precision -1..6"
                         : "format_duration: every microsecond of [0,6000us] and [B-6000us,B+6000us], every 997th microsecond of [0,2s] and [B-2s,B+2s] for B in {1s,60s,3600s,86400s}, carry windows, 2^k-1..2^k+1 (k<=63), 2^64-3..2^64-1, 10^k+-1 (k<=19) x precision -1..6";
}

// every int8_t precision (the parameter type) on the values where the text changes shape
VF_SECTION(duration_allp, 16, 16, 120) {
  r.note("format_duration");
  std::vector<uint64_t> us;
  uint64_t w = r.thorough() ? 1500 : 40;
  us.push_back(0);
  for (uint64_t b : UL{1 * S, 60 * S, 3600 * S, 86400 * S})
    for (uint64_t u = b - w; u <= b + w; u++) us.push_back(u);
  for (uint64_t secs : UL{9ull, 69ull, 3609ull, 3669ull, 86409ull, 90069ull, 59ull, 119ull, 3599ull, 7199ull, 86399ull, 172799ull})
    for (uint64_t u = secs * S + 499990; u <= secs * S + 500010; u++) us.push_back(u);
  for (uint64_t secs : UL{59ull, 119ull, 3599ull, 7199ull, 86399ull, 172799ull})
    for (uint64_t u = secs * S + 999990; u <= secs * S + 999999; u++) us.push_back(u);
  for (uint64_t b : boundary_values()) us.push_back(b);
  for (uint64_t u : us) {
    for (int p = -128; p <= 127; p++) {
      if (!r.take()) continue;
      if (r.wants_desc()) r.desc(vf::fmt("format_duration(%llu, %d)", (unsigned long long)u, p));
      r.nontriv();
      report(r, duration_eval(u, p));
    }
    // the second argument left out
    if (r.take()) {
      if (r.wants_desc()) r.desc(vf::fmt("format_duration(%llu)", (unsigned long long)u));
      r.nontriv();
      report(r, duration_eval(u, -1, true));
    }
  }
  r.bound = vf::fmt("format_duration on %zu durations (B+-%lluus for B in {1s,60s,3600s,86400s}, x.5 s and x.99999 s carry points, 2^k-1..2^k+1 for k<=64, 10^k+-1) x every precision -128..127 and the defaulted argument", us.size(), (unsigned long long)w);
}

VF_SECTION(time_days, 16, 16, 120) {
  r.note("format_time");
  PyFile py;
  py.open(r, "time_days");
  int y = 1970, m = 1, d = 1;
  set_tz(y % 3);
  for (int64_t day = 0; day <= LAST_DAY; day++) {
    // three instants per day; building the reference is cheap, so it is done for skipped cases too
    static const uint64_t sod[3] = {0, 86399, 45296};
    static const uint32_t us[3] = {0, 999999, 789012};
    bool special = (m == 1 && d == 1) || (m == 2 && d >= 28) || (m == 3 && d == 1) || (m == 12 && d == 31);
    for (int k = 0; k < 3; k++) {
      if (r.take()) {
        int64_t cy;
        int cm, cd;
        civil_from_days(day, cy, cm, cd);
        uint64_t t = ((uint64_t)day * 86400 + sod[k]) * 1000000 + us[k];
        if (cy != y || cm != m || cd != d) r.fail("harness:calendar-references-disagree", [&] { return vf::fmt("day %lld: odometer %d-%d-%d, closed form %lld-%d-%d", (long long)day, y, m, d, (long long)cy, cm, cd); });
        bool topy = special || day % 31 == 0;
        time_case(r, t, ref_time(y, m, d, sod[k], us[k]), special ? (is_leap(y) ? "month/year boundary day, leap year" : "month/year boundary day, common year") : (k == 0 ? "midnight" : k == 1 ? "23:59:59.999999" : "12:34:56.789012"), topy ? &py : nullptr);
      }
    }
    if (++d > days_in_month(y, m)) { d = 1; if (++m > 12) { m = 1; y++; set_tz(y % 3); } }
  }
  if (!(y == 10000 && m == 1 && d == 1)) r.fail("harness:calendar-odometer-end", [&] { return vf::fmt("odometer ended at %d-%d-%d", y, m, d); });
  r.bound = "format_time at 00:00:00.000000, 12:34:56.789012 and 23:59:59.999999 of every day 1970-01-01 .. 9999-12-31 (2932897 days); process time zone = year mod 3 of {UTC+5:30, UTC-8 with northern DST, UTC+10 with southern DST}";
}

VF_SECTION(time_seconds, 6, 6, 120) {
  r.note("format_time");
  PyFile py;
  py.open(r, "time_seconds");
  // every second of six days: the epoch day, a leap day in a year divisible by 400, the last of February in a
  // century year that is not leap, the last representable 4-digit-year day, a northern-summer and a
  // southern-summer day under the zones that have DST then
  struct D { int y, m, d, tz; };
  static const D days[6] = {{1970, 1, 1, 0}, {2000, 2, 29, 0}, {2100, 2, 28, 0}, {9999, 12, 31, 0}, {2024, 7, 1, 1}, {2024, 1, 15, 2}};
  for (const D& dd : days) {
    int64_t n = days_from_civil_by_counting(dd.y, dd.m, dd.d);
    set_tz(dd.tz);
    for (uint64_t s = 0; s < 86400; s++) {
      if (!r.take()) continue;
      uint32_t us = (uint32_t)((s * 7919 + 1) % 1000000);
      if (s % 60 == 59) us = 999999;
      if (s % 60 == 0) us = 0;
      uint64_t t = ((uint64_t)n * 86400 + s) * 1000000 + us;
      time_case(r, t, ref_time(dd.y, dd.m, dd.d, s, us), s % 60 == 59 ? "second 59 with .999999" : s % 60 == 0 ? "second 00 with .000000" : "other second", (s % 61 == 0 || s % 60 == 59) ? &py : nullptr);
    }
  }
  r.bound = "format_time at every second of 1970-01-01, 2000-02-29, 2100-02-28, 9999-12-31 (UTC+5:30), 2024-07-01 (northern DST zone) and 2024-01-15 (southern DST zone): 518400 instants, second 59 with .999999, second 00 with .000000";
}

VF_SECTION(size, 4, 4, 120) {
  r.note("format_size");
  std::vector<uint64_t> sizes;
  for (uint64_t s = 0; s <= 5000; s++) sizes.push_back(s);
  for (int k = 1; k <= 6; k++) {
    uint64_t u = (uint64_t)1 << (10 * k);
    sizes.push_back(u - 1); sizes.push_back(u); sizes.push_back(u + 1);
  }
  for (int k = 0; k <= 6; k++) {
    for (uint64_t j = 1; j <= 102400; j += 7) {
      u128 v = (u128)j * unit_of(k) / 100;
      if (v > UINT64_MAX) break;
      sizes.push_back((uint64_t)v);
    }
  }
  // rounding boundaries of the two printed decimals and the top of the range
  for (int k = 1; k <= 6; k++) {
    uint64_t u = (uint64_t)1 << (10 * k);
    for (uint64_t c : UL{u + u / 200, u + u / 200 - 1, u + u / 200 + 1, 1023 * u + u / 2, 1023 * u + u - u / 200, 1023 * u + u - u / 200 - 1}) {
      if (k == 6 && c < u) continue;  // 1023 EB does not exist
      sizes.push_back(c);
    }
  }
  for (uint64_t c : std::initializer_list<uint64_t>{1ull << 63, (1ull << 63) - 1, (1ull << 63) + 1, UINT64_MAX - 1, UINT64_MAX, 15ull << 60, UINT64_MAX - (1ull << 52) + 1}) sizes.push_back(c);
  // every sixteenth of an exabyte (the top unit has only 16 whole values) and 2^k-1, 2^k, 2^k+1, 10^k+-1
  for (uint64_t j = 16; j <= 255; j++) { sizes.push_back(j << 56); sizes.push_back((j << 56) + (1ull << 55) + 12345); }
  for (uint64_t b : boundary_values()) sizes.push_back(b);
  for (uint64_t s : sizes) {
    for (int ib = 0; ib < 3; ib++) {
      if (!r.take()) continue;
      if (r.wants_desc()) r.desc(ib == 2 ? vf::fmt("format_size(%llu), parse_size of the result, format_size of that", (unsigned long long)s) : vf::fmt("format_size(%llu, %s), parse_size of the result, format_size of that", (unsigned long long)s, ib ? "true" : "false"));
      r.nontriv();
      report(r, size_eval(s, ib));
    }
  }
  // parse_size on its own: mantissa x unit letter x case x optional space x optional B
  r.note("parse_size");
  static const char* mants[] = {"0", "1", "3", "7", "10", "15", "999", "1023", "1024", "007", "4294967295", "4294967296", "18446744073709551615",
      "0.5", "1.5", "2.25", "12.75", "1.05", "100.01", "0.01", "7.99", "0.0", "1.00", "15.99", "1.005", "0.999", "2.0625", "1.000001", "0.999999", "3.141592653589", "0.3333333333333333333", "1.0000000000000000001",
      "", ".5", "1.", "."};
  static const char* suffixes[] = {"", "B", "b", "bytes", "B ", "Bx"};
  for (const char* mt : mants) {
    for (int k = 0; k <= 6; k++) {
      for (int lower = 0; lower < 2; lower++) {
        if (k == 0 && lower) continue;
        for (int space = 0; space < 3; space++) {
          for (const char* suf : suffixes) {
            if (k > 0 && !strcmp(suf, "bytes")) continue;
            if (!r.take()) continue;
            ParseSpec sp = make_spec(mt, space, k, lower != 0, suf);
            if (r.wants_desc()) r.desc("parse_size(" + vf::show(sp.text) + ")");
            r.nontriv();
            report(r, parse_eval(sp));
          }
        }
      }
    }
  }
  // decimal texts of 2^k-1, 2^k, 2^k+1, 10^k+-1 without a unit and with every unit (compared when representable)
  for (uint64_t b : boundary_values()) {
    for (int k = 0; k <= 6; k++) {
      if (!r.take()) continue;
      ParseSpec sp = make_spec(std::to_string(b), k % 2, k, false, k % 3 == 0 ? "" : "B");
      if (r.wants_desc()) r.desc("parse_size(" + vf::show(sp.text) + ")");
      r.nontriv();
      report(r, parse_eval(sp));
    }
  }
  r.bound = "format_size(s, false/true/defaulted), parse_size of the result and format_size of that for s in 0..5000, 1024^k+{-1,0,1} (k=1..6), j*1024^k/100 (j=1..102400 step 7, k=0..6, below 2^64), rounding boundaries, every 1/16 EB, 2^k-1..2^k+1 (k<=64), 10^k+-1; parse_size on 36 mantissas (up to 19 fraction digits, 4 outside the grammar) x {none,K,M,G,T,P,E} x case x 0..2 spaces x {'',B,b,bytes,'B ',Bx} and on the decimal text of every boundary value x unit";
}

VF_SECTION(timeval, 4, 16, 120) {
  r.note("usecs_to_timeval");
  for_each_usec(r.thorough(), [&](uint64_t u) {
    if (!r.take()) return;
    if (r.wants_desc()) r.desc(vf::fmt("usecs_to_timeval(%llu) and timeval_to_usecs of the result", (unsigned long long)u));
    r.nontriv();
    report(r, u2tv_eval(u));
  });
  r.note("timeval_to_usecs");
  // (sec, usec) pairs: boundary seconds (2^k-1, 2^k, 2^k+1 while sec*10^6 stays below 2^63) x boundary microseconds
  std::vector<int64_t> secs = {0, 1, 59, 60, 3599, 3600, 86399, 86400, 253402300799ll, 9223372036853ll, 9223372036854ll};
  for (int k = 1; k <= 43; k++) for (int64_t dlt : {-1, 0, 1}) { int64_t v = ((int64_t)1 << k) + dlt; if (v <= 9223372036853ll) secs.push_back(v); }
  std::vector<int64_t> usecs = {0, 1, 9, 10, 499999, 500000, 999998, 999999};
  for (int k = 1; k <= 19; k++) for (int64_t dlt : {-1, 0, 1}) { int64_t v = ((int64_t)1 << k) + dlt; if (v <= 999999) usecs.push_back(v); }
  for (int64_t s : secs) {
    for (int64_t us : usecs) {
      if (!r.take()) continue;
      if (s == 9223372036854ll && us > 775807) { r.ok("sec*10^6+usec >= 2^63: not defined, not executed"); continue; }
      if (r.wants_desc()) r.desc(vf::fmt("timeval_to_usecs({%lld, %lld}), usecs_to_timeval of the result, format_time of it", (long long)s, (long long)us));
      r.nontriv();
      Res res = tv2u_eval(s, us);
      // cooperating sites: a (sec, usec) pair converted and formatted must show the date of sec and the digits of usec
      struct timeval tv;
      tv.tv_sec = s;
      tv.tv_usec = us;
      uint64_t u = phosg::timeval_to_usecs(tv);
      int64_t y;
      int mo, d;
      civil_by_counting(s / 86400, y, mo, d);
      std::string want = ref_time(y, mo, d, (uint64_t)(s % 86400), (uint32_t)us);
      std::string got;
      std::string oc = vf::outcome([&] { got = phosg::format_time(u); });
      if (oc != "ok" || got != want) res.fail("format_time(timeval_to_usecs):wrong-text", vf::fmt("format_time(timeval_to_usecs({%lld, %lld})) = ", (long long)s, (long long)us) + (oc == "ok" ? vf::show(got) : oc) + ", the calendar gives " + vf::show(want));
      report(r, res);
    }
  }
  r.bound = vf::fmt("usecs_to_timeval/timeval_to_usecs on the same microsecond set as format_duration (inverse compared below 2^63) and on %zu x %zu normalised (sec, usec) boundary pairs (2^k-1..2^k+1), each also through format_time", secs.size(), usecs.size());
}

// 2^k-1, 2^k, 2^k+1 and 10^k+-1 as microseconds and as seconds: format_time over the whole uint64_t range
VF_SECTION(time_boundaries, 4, 4, 120) {
  r.note("format_time");
  std::vector<uint64_t> ts;
  for (uint64_t b : boundary_values()) {
    ts.push_back(b);
    if (b <= UINT64_MAX / S) { ts.push_back(b * S); ts.push_back(b * S + 999999); if (b) ts.push_back(b * S - 1); }
    if (b <= UINT64_MAX / DAY) { ts.push_back(b * DAY); if (b) ts.push_back(b * DAY - 1); }
  }
  // the first microsecond of years 10000, 10001, 99999, 100000, 400000, 586524 (the last year that starts inside
  // uint64_t microseconds) and the microsecond before
  for (int64_t y : {10000ll, 10001ll, 99999ll, 100000ll, 400000ll, 586524ll}) {
    // days from 1970-01-01 to y-01-01 by the leap rule in closed form
    auto leaps_before = [](int64_t yy) { yy--; return yy / 4 - yy / 100 + yy / 400; };
    int64_t n = (y - 1970) * 365 + (leaps_before(y) - leaps_before(1970));
    ts.push_back((uint64_t)n * DAY);
    ts.push_back((uint64_t)n * DAY - 1);
  }
  for (int tz = 0; tz < 5; tz++) {
    for (uint64_t t : ts) {
      if (!r.take()) continue;
      set_tz(tz);
      if (r.wants_desc()) r.desc(vf::fmt("format_time(%llu) with TZ=%s", (unsigned long long)t, TZS[tz]));
      r.nontriv();
      report(r, time_eval(t));
    }
  }
  r.bound = vf::fmt("format_time on %zu timestamps: b, b seconds (+-1us, +.999999) and b days (-1us) for b in 2^k-1..2^k+1 (k<=64), 10^k+-1 (k<=19), first microsecond (and the one before) of years 10000, 10001, 99999, 100000, 400000, 586524, x 5 process time zones", ts.size());
}

// ---- histories -----------------------------------------------------------------------------------------
VF_SECTION(hist_time, 16, 16, 180) {
  r.note("format_time");
  std::vector<Call> all = time_calls_all();
  // (1) every ordered pair (A, B) executed as A, B, A; process time zone = index of A mod 3
  pairs_aba(r, all, 3);
  // (2) every ordered triple inside each three-day cluster D-1, D, D+1 (thorough: D-2 .. D+2)
  set_tz(1);
  int64_t reach = r.thorough() ? 2 : 1;
  size_t ntr = 0;
  for (int64_t a : anchor_days()) {
    std::vector<Call> cl;
    for (int64_t dd = -reach; dd <= reach; dd++) {
      if (a + dd < 0) continue;
      for (uint64_t o : OFFS_MAIN) cl.push_back(mk(TIME, (uint64_t)(a + dd) * DAY + o));
    }
    triples(r, cl, 0, cl.size());
    ntr += cl.size() * cl.size() * cl.size();
    // (3) every ordered triple of the eleven instants of day D (second, minute, hour boundaries)
    std::vector<Call> in;
    for (uint64_t o : OFFS_ALL) in.push_back(mk(TIME, (uint64_t)a * DAY + o));
    triples(r, in, 0, in.size());
    ntr += in.size() * in.size() * in.size();
  }
  r.bound = vf::fmt("format_time histories: all %zu^2 ordered pairs (as A,B,A; on a fresh thread and again on the main thread) of {D-1,D,D+1,D+365} x {0,1us,.999999s,1s,59s,60s,3599s,3600s,12h,86399s,86399.999999s} for D in 1970-01-01, 1999-12-31, 2000-02-28, 2000-02-29, 2000-03-01, 2000-07-01, 2038-01-19, 2100-02-28, 2106-02-07, 9999-12-30, plus 15 instants equal modulo 2^31/2^32/2^33 s; %zu ordered triples inside the clusters D-%lld..D+%lld x 6 instants and inside day D x 11 instants (%s)", all.size(), ntr, (long long)reach, (long long)reach, TRIPLE_CTX(r));
}

VF_SECTION(hist_duration, 16, 16, 180) {
  r.note("format_duration");
  std::vector<Call> all = duration_calls(false), red = duration_calls(true);
  pairs_aba(r, all);
  triples(r, red, 0, red.size());
  r.bound = vf::fmt("format_duration histories: all %zu^2 ordered pairs (as A,B,A; fresh thread, then main thread) of 25 durations at every magnitude-class boundary (and three that alias modulo 2^32) x precision {-1,0,1,3,6,9,defaulted}; all %zu^3 ordered triples of 8 durations x {-1,0,6} (%s)", all.size(), red.size(), TRIPLE_CTX(r));
}

VF_SECTION(hist_size, 16, 16, 180) {
  r.note("format_size/parse_size");
  std::vector<Call> all = size_calls(false), red = size_calls(true);
  pairs_aba(r, all);
  triples(r, red, 0, red.size());
  r.bound = vf::fmt("format_size/parse_size histories: all %zu^2 ordered pairs (as A,B,A; fresh thread, then main thread) of 21 sizes (two aliasing modulo 2^32) x include_bytes {false,true,defaulted} and 66 size texts of every unit; all %zu^3 ordered triples of a reduced set (%s)", all.size(), red.size(), TRIPLE_CTX(r));
}

// histories that mix ALL functions of the property (and the uncompared neighbours now(), format_time_natural)
VF_SECTION(hist_mixed, 16, 16, 180) {
  r.note("mixed");
  set_tz(1);
  std::vector<Call> all = mixed_calls();
  pairs_aba(r, all);
  triples(r, all, 0, all.size());
  // every ordered pair with each call on its own thread (state shared between threads)
  static const std::vector<Ctx> each = {CTX_THREAD_EACH};
  for (size_t i = 0; i < all.size(); i++)
    for (size_t j = 0; j < all.size(); j++) {
      if (!r.take()) continue;
      history_case(r, History{&all[i], &all[j], &all[i]}, each, "history A,B,A with every call on its own thread: results as the reference");
    }
  r.bound = vf::fmt("cross-function histories over %zu calls (format_duration 10, format_time 7, format_size 11, parse_size 10, usecs_to_timeval 5, timeval_to_usecs 5, uncompared: format_time_natural 4, now 1): all ordered pairs (as A,B,A; fresh thread, then main thread) and all ordered triples (%s); all ordered pairs with every call on its own thread", all.size(), TRIPLE_CTX(r));
}

// every probe call in every execution context: explicit errno values, catch handler, destructor during unwinding
VF_SECTION(context, 4, 4, 180) {
  r.note("context");
  set_tz(2);
  std::vector<Call> calls = mixed_calls();
  for (const Call& c : duration_calls(false)) calls.push_back(c);
  for (const Call& c : size_calls(false)) calls.push_back(c);
  {
    std::vector<Call> t = time_calls_all();
    for (size_t i = 0; i < t.size(); i += 5) calls.push_back(t[i]);
  }
  static const int errs[] = {0, ERANGE, EINVAL, EINTR, ENOMEM, EAGAIN, EDOM, EOVERFLOW};
  static const Ctx ctxs[] = {CTX_CATCH, CTX_UNWIND, CTX_NESTED_UNWIND, CTX_THREAD_EACH};
  for (const Call& c : calls) {
    for (int e : errs) {
      if (!r.take()) continue;
      history_case(r, History{&c}, {CTX_MAIN}, "single call with an explicit errno: as the reference", e);
    }
    for (Ctx cx : ctxs) {
      if (!r.take()) continue;
      history_case(r, History{&c}, {cx}, "single call in an exception-handling / thread context: as the reference");
    }
  }
  r.bound = vf::fmt("%zu probe calls of all functions x {errno = 0, ERANGE, EINVAL, EINTR, ENOMEM, EAGAIN, EDOM, EOVERFLOW before the call; inside a catch handler; in a destructor during stack unwinding; the same nested in a catch handler; on a fresh thread}", calls.size());
}

VF_MAIN()
