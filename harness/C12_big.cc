// C12 (round 2) — boundary sizes of the full size_t range, and calls made in other execution contexts.
//
// Sizes: every size parameter (insert, emplace, change_size, touch) takes 0, 1, 2^31-1, 2^31, 2^32-1, 2^32,
// 2^63-1, 2^63, SIZE_MAX-1, SIZE_MAX, in every combination over 3 keys, to a fixpoint.
// The statement says size() is the sum of the entries' sizes: histories whose mathematical sum exceeds SIZE_MAX
// make size()/total_size don't-care from that point until clear() (RecencyList::wrapped); the order, every
// entry's own size, count(), the return values and the link structure are compared throughout, and all
// histories whose sum stays representable (one entry of SIZE_MAX, 2^63 + 2^63-1, change to and from 0 ...)
// are compared completely.  touch(k, n) takes n as an ssize_t: bit patterns >= 2^63 are negative arguments;
// for negatives other than the documented default -1 only "the entry is refreshed, the structure stays
// intact" is demanded (the size it ends up with is taken over from the object).
//
// Contexts: the same un-merged sequences with every call made inside a catch handler, from a destructor
// while an (unrelated) out_of_range is propagating — touch/change_size use a try/catch of out_of_range
// internally —, and alternating between the main thread and fresh threads (state kept in thread_local or
// static variables instead of the object shows as a divergence).
#include "C12_core.hh"

using namespace c12;

namespace {

const uint64_t P31 = 1ull << 31, P32 = 1ull << 32, P63 = 1ull << 63, SMAX = UINT64_MAX;

// every boundary of the usual list that a size_t can hold
const std::vector<uint64_t> BIG = {0, 1, P31 - 1, P31, P32 - 1, P32, P63 - 1, P63, SMAX - 1, SMAX};
#define BIG_TEXT "sizes {0,1,2^31-1,2^31,2^32-1,2^32,2^63-1,2^63,SIZE_MAX-1,SIZE_MAX}"

using SetSys = SetSysT<IntKey>;
using MapSys = MapSysT<IntKey, IntVal>;

const std::vector<int> UNWIND_PLANS = {ALL_IN_HANDLER, ALL_UNWINDING};
const std::vector<int> THREAD_PLANS = {THREAD_ON_ODD_STEPS, THREAD_ON_EVEN_STEPS};

}  // namespace

VF_SECTION(set_big_bfs, 1, 1, 180) {
  Checker<SetSys> c(r, set_alphabet(BIG, false));
  c.bfs_section("LRUSet<int>, one instance, keys {0,1,2}, " BIG_TEXT, 4);
}

VF_SECTION(map_big_bfs, 1, 1, 180) {
  Checker<MapSys> c(r, map_alphabet(BIG, {10}, false));
  c.bfs_section("LRUMap<int,int>, one instance, keys {0,1,2}, value 10, " BIG_TEXT, 5);
}

// un-merged runs with boundary sizes (validates the merging including the `wrapped` flag)
VF_SECTION(big_seq, 12, 16, 120) {
  {
    Checker<SetSys> c(r, set_alphabet({0, P63, SMAX}, false));
    c.sequences(r.thorough() ? 4 : 3, "LRUSet sizes {0,2^63,SIZE_MAX}");
  }
  {
    Checker<SetSys> c(r, set_alphabet({1, P32, P63 - 1, SMAX - 1}, false));
    c.sequences(3, "LRUSet sizes {1,2^32,2^63-1,SIZE_MAX-1}");
  }
  {
    Checker<MapSys> c(r, map_alphabet({1, P63, SMAX}, {10}, false));
    c.sequences(3, "LRUMap sizes {1,2^63,SIZE_MAX}");
  }
  if (r.thorough()) {
    Checker<MapSys> c(r, map_alphabet({0, P32, P63 - 1, SMAX - 1}, {10}, false));
    c.sequences(3, "LRUMap sizes {0,2^32,2^63-1,SIZE_MAX-1}");
  }
}

// execution contexts.  The two thread plans create one thread per call (wall-clock bound on a loaded machine):
// they run to the quick lengths in both tiers; the handler / unwinding plans go one step further in thorough.
VF_SECTION(ctx_seq, 12, 16, 120) {
  size_t n = r.thorough() ? 4 : 3;
  {
    Checker<SetSys> c(r, set_medium());
    c.sequences(n, "LRUSet medium alphabet in contexts", UNWIND_PLANS);
    c.sequences(3, "LRUSet medium alphabet across threads", THREAD_PLANS);
  }
  {
    Checker<MapSys> c(r, map_medium());
    c.sequences(n, "LRUMap medium alphabet in contexts", UNWIND_PLANS);
    c.sequences(3, "LRUMap medium alphabet across threads", THREAD_PLANS);
  }
  {
    Checker<SetSys> c(r, set_reduced());
    c.sequences(n + 1, "LRUSet reduced alphabet with swap in contexts", UNWIND_PLANS);
    c.sequences(4, "LRUSet reduced alphabet with swap across threads", THREAD_PLANS);
  }
  {
    Checker<MapSys> c(r, map_reduced());
    c.sequences(n + 1, "LRUMap reduced alphabet with swap in contexts", UNWIND_PLANS);
    c.sequences(4, "LRUMap reduced alphabet with swap across threads", THREAD_PLANS);
  }
}
