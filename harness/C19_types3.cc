// C19 (part, round 5): the TYPE of the predicate as an enumerated dimension of expect(v) / expect_msg(v, msg) /
// expect_generic(v, ...) / expect(!v).
//
// Every scalar type that converts to bool and every kind of class type that does (implicit / explicit operator bool,
// conversion through another scalar, proxy references, smart pointers), with values chosen so that ANY intermediate
// conversion (to int, long, unsigned, float ...) instead of the direct conversion to bool changes the verdict for at
// least one of them: 2^k for every bit k of the type (including the 128-bit types, i.e. values whose low 64 bits are
// all clear), fractions of magnitude below 1, denormals, NaN, infinities, values beyond the range of every integer type.
// Oracle: throws iff (v ? true : false) is false.  Ill-formed forms are handled by the feature tests of C19_pred.hh.
#include <float.h>

#include <atomic>
#include <bitset>
#include <deque>

#include "C19_pred.hh"

using namespace phosg;
using namespace c19;

namespace {

using c19::sv;

// ---- class types ------------------------------------------------------------------------------------------
struct ExplicitBool {
  int v;
  explicit operator bool() const { return v != 0; }
};
struct AsDouble {  // converts through a floating-point value: 0.5 is true
  double v;
  operator double() const { return v; }
};
struct AsU128 {  // converts through a 128-bit integer
  unsigned __int128 v;
  operator unsigned __int128() const { return v; }
};
struct AsVoidPtr {  // the pre-C++11 "safe bool" idiom
  const void* p;
  operator const void*() const { return p; }
};
struct BoolAndInt {  // operator bool is the exact match and decides; the int conversion says the opposite
  bool b;
  operator bool() const { return b; }
  operator int() const { return b ? 0 : 1; }
};
struct Member {
  int field;
  void method() {}
};
enum Big : uint64_t { BIG_ZERO = 0, BIG_ONE = 1, BIG_2_32 = 1ull << 32, BIG_2_63 = 1ull << 63 };
enum Small : int8_t { SMALL_ZERO = 0, SMALL_MIN = -128, SMALL_ONE = 1 };
void a_function() {}

std::string sv(const ExplicitBool& a) { return vf::fmt("ExplicitBool{%d}", a.v); }
std::string sv(const AsDouble& a) { return vf::fmt("AsDouble{%g}", a.v); }
std::string sv(const AsU128& a) { return "AsU128{" + c19::sv(a.v) + "}"; }
std::string sv(const AsVoidPtr& a) { return a.p ? "AsVoidPtr{non-null}" : "AsVoidPtr{null}"; }
std::string sv(const BoolAndInt& a) { return vf::fmt("BoolAndInt{bool %d, int %d}", (int)a.b, a.b ? 0 : 1); }

template <class T>
std::string hexfloat(T v) {
  return vf::fmt("%La", (long double)v);
}

// 0, 1, -1, extremes and 2^k for every bit k of T
template <class T>
std::vector<T> bits_of() {
  constexpr int W = sizeof(T) * 8;
  std::vector<T> out = {(T)0, (T)1, (T)-1};
  using U = std::conditional_t<sizeof(T) == 16, unsigned __int128, unsigned long long>;
  for (int k = 1; k < W; k++) out.push_back((T)((U)1 << k));
  out.push_back((T)(((U)1 << (W - 1)) - 1));                  // all bits below the top one
  if (W > 32) out.push_back((T)(((U)1 << (W - 1)) | ((U)1 << (W / 2))));  // two high bits, low half clear
  return out;
}

// zeros, the smallest and largest magnitudes, fractions below 1 of both signs, values beyond every integer range,
// infinities, NaNs
template <class T>
std::vector<T> floats_of(T min_normal, T denorm_min, T eps, T max) {
  T inf = std::numeric_limits<T>::infinity();
  T nan = std::numeric_limits<T>::quiet_NaN();
  return {(T)0.0, -(T)0.0, denorm_min, -denorm_min, min_normal, -min_normal, (T)1e-9, (T)0.25, (T)0.5, (T)1 - eps / 2, (T)1, (T)1.5, (T)-0.25, (T)-0.5, -((T)1 - eps / 2), (T)-1, eps,
      (T)2147483648.0, (T)4294967296.0, (T)9223372036854775808.0, (T)18446744073709551616.0, (T)-9223372036854775808.0, (T)3.0e38, max, -max, inf, -inf, nan, -nan};
}

}  // namespace

VF_SECTION(predicate_types, 4, 4, 120) {
  const auto& C = all_ctx();
  auto plain = [](const auto& v) { return sv(v); };
  // ---- character and integer types: every bit ----
  check_pred<bool>(r, "bool", std::vector<bool>{false, true}, C);
  check_pred<char>(r, "char", bits_of<char>(), C);
  check_pred<signed char>(r, "signed char", bits_of<signed char>(), C);
  check_pred<unsigned char>(r, "unsigned char", bits_of<unsigned char>(), C);
  check_pred_with<wchar_t>(r, "wchar_t", bits_of<wchar_t>(), C, [](wchar_t v) { return vf::fmt("wchar_t(0x%X)", (unsigned)v); });
  check_pred_with<char8_t>(r, "char8_t", bits_of<char8_t>(), C, [](char8_t v) { return vf::fmt("char8_t(0x%X)", (unsigned)v); });
  check_pred_with<char16_t>(r, "char16_t", bits_of<char16_t>(), C, [](char16_t v) { return vf::fmt("char16_t(0x%X)", (unsigned)v); });
  check_pred_with<char32_t>(r, "char32_t", bits_of<char32_t>(), C, [](char32_t v) { return vf::fmt("char32_t(0x%X)", (unsigned)v); });
  check_pred<short>(r, "short", bits_of<short>(), C);
  check_pred<unsigned short>(r, "unsigned short", bits_of<unsigned short>(), C);
  check_pred<int>(r, "int", bits_of<int>(), C);
  check_pred<unsigned>(r, "unsigned", bits_of<unsigned>(), C);
  check_pred<long>(r, "long", bits_of<long>(), C);
  check_pred<unsigned long>(r, "unsigned long", bits_of<unsigned long>(), C);
  check_pred<long long>(r, "long long", bits_of<long long>(), C);
  check_pred<unsigned long long>(r, "unsigned long long", bits_of<unsigned long long>(), C);
  check_pred<__int128>(r, "__int128", bits_of<__int128>(), C);
  check_pred<unsigned __int128>(r, "unsigned __int128", bits_of<unsigned __int128>(), C);
  // ---- floating-point types ----
  check_pred_with<float>(r, "float", floats_of<float>(FLT_MIN, FLT_TRUE_MIN, FLT_EPSILON, FLT_MAX), C, hexfloat<float>);
  check_pred_with<double>(r, "double", floats_of<double>(DBL_MIN, DBL_TRUE_MIN, DBL_EPSILON, DBL_MAX), C, hexfloat<double>);
  check_pred_with<long double>(r, "long double", floats_of<long double>(LDBL_MIN, LDBL_TRUE_MIN, LDBL_EPSILON, LDBL_MAX), C, hexfloat<long double>);
#ifdef __SIZEOF_FLOAT128__
  check_pred_with<__float128>(r, "__float128", std::vector<__float128>{(__float128)0.0L, (__float128)-0.0L, (__float128)0.5L, (__float128)-0.25L, (__float128)1e-4940L, (__float128)1.0L, (__float128)1e4000L, (__float128)__builtin_nan("")}, C, hexfloat<__float128>);
#endif
#ifdef __FLT16_MAX__
  check_pred_with<_Float16>(r, "_Float16", std::vector<_Float16>{(_Float16)0.0f, (_Float16)-0.0f, (_Float16)0.5f, (_Float16)-0.25f, (_Float16)6e-8f, (_Float16)1.0f, (_Float16)65504.0f, (_Float16)__builtin_nanf("")}, C, hexfloat<_Float16>);
#endif
  // ---- pointers, pointers to members, nullptr_t ----
  static const char* cs[] = {nullptr, "", "x"};
  check_pred<const char*>(r, "const char*", std::vector<const char*>(cs, cs + 3), C);
  check_pred<int*>(r, "int*", {nullptr, &g_arr[0]}, C);
  check_pred_with<void*>(r, "void*", std::vector<void*>{nullptr, &g_arr[1]}, C, [](void* p) { return std::string(p ? "non-null" : "null"); });
  check_pred_with<const volatile void*>(r, "const volatile void*", std::vector<const volatile void*>{nullptr, &g_arr[1]}, C, [](const volatile void* p) { return std::string(p ? "non-null" : "null"); });
  using Fn = void (*)();
  check_pred_with<Fn>(r, "pointer to function", std::vector<Fn>{nullptr, &a_function}, C, [](Fn p) { return std::string(p ? "&a_function" : "null"); });
  using PM = int Member::*;
  check_pred_with<PM>(r, "pointer to data member", std::vector<PM>{nullptr, &Member::field}, C, [](PM p) { return std::string(p ? "&Member::field" : "null"); });
  using PMF = void (Member::*)();
  check_pred_with<PMF>(r, "pointer to member function", std::vector<PMF>{nullptr, &Member::method}, C, [](PMF p) { return std::string(p ? "&Member::method" : "null"); });
  check_pred<std::nullptr_t>(r, "nullptr_t", {nullptr}, C);
  // ---- enumerations (unscoped: implicit; scoped enumerations do not convert to bool at all) ----
  check_pred<Color>(r, "enum", {RED, GREEN, BLUE}, C);
  check_pred<Big>(r, "enum : uint64_t", {BIG_ZERO, BIG_ONE, BIG_2_32, BIG_2_63}, C);
  check_pred<Small>(r, "enum : int8_t", {SMALL_ZERO, SMALL_MIN, SMALL_ONE}, C);
  r.bound = "expect(v), expect_msg(v, msg), expect_generic(v, ...), expect(!v) x 10 execution contexts for predicates v of: bool; char, signed/unsigned char, wchar_t, char8_t, char16_t, char32_t, short .. unsigned long long, __int128, unsigned __int128 with 0, 1, -1, 2^k for EVERY bit k, 2^(W-1)-1 and two high bits with the low half clear; "
            "float, double, long double with 29 values (zeros, +-denormal min, +-MIN, 1e-9, +-0.25, +-0.5, +-(1 - eps/2), 1, 1.5, eps, 2^31, 2^32, 2^63, 2^64, -2^63, 3e38, +-MAX, +-inf, +-NaN), __float128, _Float16; "
            "const char*, int*, void*, const volatile void*, pointers to function / data member / member function (null, non-null), nullptr_t; unscoped enums (int, uint64_t with 2^32 and 2^63, int8_t); each macro form behind a feature test (ill-formed for an implicitly convertible type = finding)";
}
